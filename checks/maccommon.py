"""MacLHA members: what is handed out (lha p), the verdict (lha t) and the extracted file (lha x) against MacBinary.tla."""
import json, os, random, struct, subprocess, shutil
import vcommon as V
import readergen as RG
import listgen as LG
import tracerun as TR
import arc

MACOFF = 2082844800


def envelope(name, df, rf, mod, **kw):
    h = bytearray(128)
    h[1] = kw.get("namelen", len(name))
    h[2:2 + len(name)] = name[:63]
    struct.pack_into(">I", h, 0x53, df & 0xFFFFFFFF)
    struct.pack_into(">I", h, 0x57, rf & 0xFFFFFFFF)
    struct.pack_into(">I", h, 0x5f, mod & 0xFFFFFFFF)
    h[0x41:0x49] = b"TEXTttxt"                # type / creator: ignored fields
    h[0x49] = kw.get("flags", 1)
    struct.pack_into(">I", h, 0x5b, (mod - 77) & 0xFFFFFFFF)
    for off, val in kw.get("poke", []):
        h[off] = val
    return bytes(h)


def cases(rng, tier):
    """(intent, name, inner bytes, header length (None = len(inner)), header stamp, truncate-to)"""
    out = []
    ts = 1000000000
    nm = b"report.txt"
    data = bytes(rng.randrange(256) for _ in range(200))
    res = bytes(rng.randrange(256) for _ in range(300))

    def pad(b):
        return b + b"\0" * ((-len(b)) % 128)

    def ok(name=nm, d=data, r=b"", mod=ts + MACOFF, **kw):
        body = envelope(name, kw.pop("df", len(d)), kw.pop("rf", len(r)), mod, **kw) + d
        # (lhasa expects header + data fork + resource fork, padded once at the end)
        return pad(body + r)
    out.append(("env", nm, ok(), None, ts, None))
    out.append(("env", nm, ok(d=b""), None, ts, None))                         # both forks empty: exactly 128 bytes
    out.append(("env", nm, ok(d=b"", r=res), None, ts, None))                  # resource fork only: it is handed out
    out.append(("env", nm, ok(r=res), None, ts, None))                         # both: the data fork
    out.append(("env", nm, ok(d=data[:128]), None, ts, None))
    out.append(("env", nm, ok(d=data[:1]), None, ts, None))
    for k in (1, 31, 62, 63):
        n = bytes(65 + (i % 26) for i in range(k))
        out.append(("env", n, ok(name=n), None, ts, None))
    n64 = bytes(65 + (i % 26) for i in range(64))
    out.append(("plain", n64, ok(name=n64, namelen=64), None, ts, None))       # name longer than the field
    out.append(("plain", nm, ok(name=b"report.txx"), None, ts, None))
    out.append(("plain", nm, ok(name=b"report.tx"), None, ts, None))
    out.append(("plain", nm, ok(namelen=9), None, ts, None))
    out.append(("plain", nm, ok(namelen=11), None, ts, None))
    out.append(("plain", nm + b".bin", ok(), None, ts, None))
    offs = [0, 0x4a, 0x52, 0x63, 0x64, 0x65, 0x66, 0x7e, 0x7f, 2 + len(nm), 0x40]
    if tier == "thorough":
        offs = sorted(set(offs + list(range(0x65, 0x80)) + list(range(2 + len(nm), 0x41))))
    for off in offs:
        out.append(("plain", nm, ok(poke=[(off, rng.choice([1, 0x80, 0xff]))]), None, ts, None))
    for off in (0x41, 0x45, 0x49, 0x4b, 0x4d, 0x4f, 0x51, 0x5b):                  # ignored fields
        out.append(("env", nm, ok(poke=[(off, 0xAA)]), None, ts, None))
    # time stamps: within 14 hours either way; not before 1970 in Mac time
    for dt, intent in ((0, "env"), (50400, "env"), (-50400, "env"), (50401, "plain"), (-50401, "plain"), (900, "env"), (86400, "plain")):
        out.append((intent, nm, ok(mod=ts + dt + MACOFF), None, ts, None))
    out.append(("plain", nm, ok(mod=MACOFF - 1), None, 100, None))
    out.append(("env", nm, ok(mod=MACOFF), None, 100, None))
    out.append(("env", nm, ok(mod=0xFFFFFFFF), None, 0xFFFFFFFF - MACOFF, None))
    # fork lengths against the header's length: rounding, and sums that wrap modulo 2^32
    for d in (-1, 1, 128, -128):
        b = bytearray(ok())
        struct.pack_into(">I", b, 0x53, len(data) + d)
        intent = "env" if ((len(data) + d + 128 + 127) & ~127) == len(b) else "plain"
        out.append((intent, nm, bytes(b), None, ts, None))
    b = bytearray(ok())
    struct.pack_into(">I", b, 0x53, 0xFFFFFFFF); struct.pack_into(">I", b, 0x57, len(data) + 1)       # wraps to len(data)
    out.append(("env", nm, bytes(b), None, ts, None))
    b = bytearray(ok())
    struct.pack_into(">I", b, 0x53, 0); struct.pack_into(">I", b, 0x57, len(data))
    out.append(("env", nm, bytes(b), None, ts, None))
    # no envelope at all; short members; announced but missing
    out.append(("plain", nm, data, None, ts, None))
    out.append(("plain", nm, data[:127], None, ts, None))
    out.append(("plain", nm, b"", None, ts, None))
    out.append(("plain", nm, bytes(128), None, ts, None))
    out.append(("any", nm, ok(), None, ts, 64))           # stored stream cut to 64 bytes: cannot be opened
    out.append(("any", nm, ok(), None, ts, 127))
    out.append(("any", nm, ok(), None, ts, 128))          # envelope arrives, data does not
    out.append(("any", nm, ok(), None, ts, 200))
    out.append(("any", nm, data[:100], 300, ts, None))    # header announces 300, 100 present
    out.append(("any", nm, ok(), len(ok()) + 128, ts, None))
    for _ in range(10 if tier == "quick" else 300):
        d = bytes(rng.randrange(256) for _ in range(rng.choice([0, 1, 127, 128, 129, 500])))
        b = bytearray(ok(d=d, r=res if rng.random() < 0.3 else b""))
        if rng.random() < 0.6:
            b[rng.randrange(128)] ^= 1 << rng.randrange(8)
        out.append(("any", nm, bytes(b), None, ts, None))
    return out


def run(pid, tier, seed, ev):
    rng = random.Random(seed ^ 0x3AC)
    sc = V.scratch(pid.lower() + "mac")
    lha = V.lha_binary("san")
    hdr = V.build_driver("header_drv", "san")
    cs = cases(rng, tier)
    archives = []
    for i, (intent, name, inner, hlen, ts, cut) in enumerate(cs):
        lvl = (1, 2)[i % 2]       # (level 0 headers carry no OS type)
        # (cut: the stored stream is shorter than the header's length field says - the packed size says so too; cutting the
        #  archive itself instead makes the all-or-nothing read of the stored method deliver nothing, Reader.tla's Truncated)
        g = RG.G("file", name, data=inner, payload=inner if cut is None else inner[:cut], level=lvl, time=ts, os=ord("m"))
        if hlen is not None:
            g.length = hlen
        a = os.path.join(sc, "m%d.lzh" % i)
        open(a, "wb").write(g.raw() + b"\0")
        archives.append(a)
    members, p = LG.collect_members(hdr, archives, sc, "mac")
    if members is None:
        raise V.HarnessError("header_drv: " + p.stderr.decode()[-300:])
    events = []
    for i, ((intent, name, inner, hlen, ts, cut), a, recs) in enumerate(zip(cs, archives, members)):
        if len(recs) != 1:
            raise V.HarnessError("archive %s lists %d members" % (a, len(recs)))
        r = recs[0]
        xd = os.path.join(sc, "x%d" % i)
        os.makedirs(xd)
        env = V.run_env()
        pp = V.run_bounded([lha, "pq2", a], capture_output=True, env=env, stdin=subprocess.DEVNULL, timeout=120)
        pt = V.run_bounded([lha, "tq2", a], capture_output=True, env=env, stdin=subprocess.DEVNULL, timeout=120)
        px = V.run_bounded([lha, "xq2w=" + xd, a], capture_output=True, env=env, stdin=subprocess.DEVNULL, timeout=120)
        for q in (pp, pt, px):
            if q.returncode < 0 or q.returncode == 99:
                raise V.HarnessError("lha died on %s: %s" % (a, q.stderr.decode(errors="replace")[-300:]))
        fn = os.path.join(xd.encode(), bytes(x for x in r["filename"] if x >= 0))
        xsize = os.path.getsize(fn) if os.path.exists(fn) else -1
        stored = inner if cut is None else inner[:cut]
        stored = stored[:LG.val(r["length"])]
        events.append({"e": "Mac", "intent": intent, "fname": [x for x in r["filename"] if x >= 0], "hlen": r["length"], "ts": r["time"], "crc": r["crc"],
                       "inner": list(stored), "printed": list(pp.stdout), "tcode": pt.returncode, "xsize": xsize,
                       "archive_hex": open(a, "rb").read().hex()})
        ev.cls(("mac", intent, cut is not None, len(inner) >= 128))
        shutil.rmtree(xd, ignore_errors=True)
    nsh = min(V.NCPU, max(1, len(events) // 6))
    results = []
    for k in range(nsh):
        tr = os.path.join(sc, "mac_trace_%d.ndjson" % k)
        sub = events[k::nsh]
        with open(tr, "w") as f:
            for e in sub:
                f.write(json.dumps(e, separators=(",", ":")) + "\n")
        results.append((tr, tr, len(sub), subprocess.CompletedProcess([], 0, b"", b"")))
    viols, good = TR.validate_all("Trace_Mac", "Trace_Mac", results, ev, pid, xmx="3g", timeout=1500)
    ev.add("mac_members_validated", len(events))
    shutil.rmtree(sc, ignore_errors=True)
    return viols
