"""C04 - PMarc -pm1-/-pm2- decode every valid stream exactly."""
import vcommon as V
import codeccommon as CC

LEVEL = "model_checking"
ASSUMPTIONS = ["there is no public PMarc format document in the sandbox: the definitions (Codec_Pm1/Pm2.tla) and the encoders were written "
               "independently of each other from the source and are grounded on the third-party PMarc members of the corpus",
               "TLC/SANY/CommunityModules trusted"]


def run(tier, seed, ev):
    viols = CC.run("C04", [("pm2", "-pm2-"), ("pm1", "-pm1-")], tier, seed, ev, 20000 if tier == "quick" else 1000000)
    viols += CC.ground(tier, ["-pm1-", "-pm2-"], ev)
    ev.set("rule", "one execution per (stream, read schedule); distinct = (method, structural case label: history classes, copy classes, pm2 "
                   "rebuild points reached by literal / end of copy / mid-copy with the optional bit 0 and 1, all 32 pm1 start trees, every "
                   "pm1 position threshold +-1, implicit zero continuation)")
    return viols


def replay(path):
    print("job, stream and rejected execution are in", path)
    return 2
