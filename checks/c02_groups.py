"""C02 (groups) - the binding of spec/Codec_Lh1Groups.tla part G to the compiled lib/lh1_decoder.c, and the
lock-step proof that part G and the LZHUF reference (part R) give every symbol the same code.

Three things run, all from the CURRENT sources under V.REPO:

 1. MC_Codec_Lh1Lock (model checking): quick tier MC_Codec_Lh1Lock.cfg (bounded, instance set Quick);
    thorough tier MC_Codec_Lh1Lock_d.cfg (bounded, deeper) and MC_Codec_Lh1Lock_t.cfg (the complete reachable
    set of (reference, lhasa) state pairs per instance = symbol sequences of all lengths).
 2. harness/c/lh1groups_drv.c compiled (clang, ASan + bounds) around the real lib/lh1_decoder.c, at full size
    (NUM_CODES 314, TREE_REORDER_LIMIT 32768): the real stream test/compressed/lh1.bin decoded with
    read_code/read_offset, and generated symbol sequences long enough to pass the rebuild, with dumps of the
    complete struct, densely around the first rebuild.
 3. the same driver compiled around scratch copies of lh1_decoder.c whose two #define lines NUM_CODES and
    TREE_REORDER_LIMIT are replaced (re.sub on the current source, at check time): small alphabets, a dump after
    EVERY symbol, hundreds of rebuilds per run - the sizes the model checker covers exhaustively.

Every trace is validated by Trace_Lh1Groups (one TLC process per trace file, in parallel): per symbol the bits
read_code consumed must decode to that symbol in both models and be the reference's code; per dump the model state
must equal the C struct field for field (stale entries included) and be in structural lock-step with the reference.

run(tier, seed, ev) -> list of violation dicts {"replay": dir, "msg": str}."""
import concurrent.futures as cf
import json, os, re, shutil, subprocess, sys, time
sys.path.insert(0, "/verif/harness/py")
import vcommon as V

PID = "C02"
DRV_SRC = os.path.join(V.HC, "lh1groups_drv.c")
FULL = (314, 32768)
SMALL_QUICK = [(2, 4), (3, 6), (5, 8), (8, 10)]
SMALL_ALL = [(2, 4), (3, 6), (3, 9), (4, 8), (5, 8), (6, 12), (7, 9), (8, 10), (16, 18), (13, 40)]
FIRST_REBUILD = FULL[1] - FULL[0] + 1          # the update that finds the root weight at the limit
BATCH = "batch=250"                            # long full-size runs: 250 read_code calls per trace line


def lh1_source():
    return os.path.join(V.REPO, "lib", "lh1_decoder.c")


def small_source(sc, nc, limit):
    """scratch copy of the current lh1_decoder.c with the two #define lines replaced"""
    src = open(lh1_source()).read()
    s1, n1 = re.subn(r"(?m)^[ \t]*#[ \t]*define[ \t]+NUM_CODES\b.*$", "#define NUM_CODES            %d" % nc, src)
    s2, n2 = re.subn(r"(?m)^[ \t]*#[ \t]*define[ \t]+TREE_REORDER_LIMIT\b.*$", "#define TREE_REORDER_LIMIT   %d" % limit, s1)
    if n1 != 1 or n2 != 1:
        raise V.HarnessError("lh1_decoder.c: expected exactly one #define of NUM_CODES and of TREE_REORDER_LIMIT (found %d, %d)" % (n1, n2))
    d = V.ensure(os.path.join(sc, "src_%d_%d" % (nc, limit)))
    p = os.path.join(d, "lh1_decoder.c")
    open(p, "w").write(s2)
    return p


def compile_driver(sc, tag, source):
    exe = os.path.join(sc, "lh1groups_drv_" + tag)
    inc = ["-I" + V.REPO, "-I" + os.path.join(V.REPO, "lib"), "-I" + os.path.join(V.REPO, "lib", "public")]
    if not os.path.exists(os.path.join(V.REPO, "config.h")):
        cfgd = V.ensure(os.path.join(sc, "cfg"))
        open(os.path.join(cfgd, "config.h"), "w").write(V.FALLBACK_CONFIG_H)
        inc.insert(0, "-I" + cfgd)
    cmd = ["clang"] + list(V.VARIANTS["san"]) + ["-Wno-unused-function", '-DLH1_SRC="%s"' % source] + inc + [DRV_SRC, "-o", exe]
    r = subprocess.run(cmd, capture_output=True, timeout=300)
    if r.returncode != 0:
        raise V.HarnessError("lh1groups_drv (%s) failed to build: %s" % (tag, r.stderr.decode(errors="replace")[:3000]))
    return exe


def plan(tier, seed):
    """[(trace tag, (nc, limit), [driver argument lists - one execution each])]"""
    stream = os.path.join(V.REPO, "test", "compressed", "lh1.bin")
    lo, hi = str(FIRST_REBUILD - 3), str(FIRST_REBUILD + 3)
    jobs = []
    if tier == "quick":
        jobs.append(("full_stream", FULL, [["stream", stream, "1000000", "500"]]))          # one line per symbol
        jobs.append(("full_ramp", FULL, [["gen", str(seed), "40000", "8000", "-1", lo, hi, BATCH]]))
        for nc, limit in SMALL_QUICK:
            runs = [["gen", str(seed + i), "1500", "1", str(kind)] for i, kind in enumerate((0, 3, -1))]
            jobs.append(("small_%d_%d" % (nc, limit), (nc, limit), runs))
    else:
        jobs.append(("full_stream", FULL, [["stream", stream, "1000000", "100"]]))
        jobs.append(("full_stream_batched", FULL, [["stream", stream, "1000000", "1000", BATCH]]))
        jobs.append(("full_ramp", FULL, [["gen", str(seed), "75000", "5000", "-1", lo, hi, BATCH]]))
        jobs.append(("full_skew", FULL, [["gen", str(seed + 1), "75000", "5000", "12", lo, hi, BATCH]]))
        jobs.append(("full_uniform", FULL, [["gen", str(seed + 2), "50000", "5000", "0", lo, hi, BATCH]]))
        jobs.append(("full_one", FULL, [["gen", str(seed + 3), "40000", "5000", "-2", lo, hi, BATCH]]))
        jobs.append(("full_ramp_unbatched", FULL, [["gen", str(seed + 4), "34000", "5000", "-1", lo, hi]]))
        for nc, limit in SMALL_ALL:
            for half in range(2):
                runs = [["gen", str(seed + 10 * half + i), "3000", "1", str(kind)]
                        for i, kind in enumerate((0, 3, -1, -2) if half == 0 else (0, 2, 5, 3))]
                jobs.append(("small_%d_%d_%d" % (nc, limit, half), (nc, limit), runs))
    return jobs


def run_job(exe, runs, trace):
    """concatenate the executions into one trace file; returns (returncode, stderr, command lines)"""
    cmds = []
    with open(trace, "wb") as out:
        for args in runs:
            cmds.append(" ".join([exe] + args))
            try:
                p = subprocess.run([exe] + args, stdout=out, stderr=subprocess.PIPE, env=V.run_env(), timeout=600)
            except subprocess.TimeoutExpired:
                return -999, b"TIMEOUT", cmds
            if p.returncode != 0:
                return p.returncode, p.stderr, cmds
    return 0, b"", cmds


def trace_stats(trace, ev):
    syms = dumps = rebuilds = execs = 0
    root = None
    maxgroups = 0
    with open(trace) as f:
        for line in f:
            if line.startswith('{"e":"Sym",'):
                syms += 1
            elif line.startswith('{"e":"Syms",'):
                syms += len(json.loads(line)["s"])
            elif line.startswith('{"e":"Dump"'):
                dumps += 1
                d = json.loads(line)
                if root is not None and d["freq"][0] <= root and d["at"] > 0:
                    rebuilds += 1
                root = d["freq"][0]
                maxgroups = max(maxgroups, d["num_groups"])
            elif line.startswith('{"e":"Init"'):
                execs += 1
                root = None
    ev.add("trace_executions", execs)
    ev.add("trace_symbols", syms)
    ev.add("trace_dumps_compared", dumps)
    ev.add("trace_rebuilds_seen_between_dumps", rebuilds)
    ev.set("max_groups_in_a_dump", max(maxgroups, ev.cov.get("max_groups_in_a_dump", 0)))
    return execs


def model_runs(tier):
    if tier == "quick":
        return [("MC_Codec_Lh1Lock", "MC_Codec_Lh1Lock", 8, 300)]
    return [("MC_Codec_Lh1Lock", "MC_Codec_Lh1Lock_d", V.NCPU, 900), ("MC_Codec_Lh1Lock", "MC_Codec_Lh1Lock_t", V.NCPU, 2400)]


def model_violation(cfg, r):
    d = V.replay_dir(PID, "groups-model-" + cfg)
    open(os.path.join(d, "tlc.out"), "w").write(r.out)
    msg = ("%s: %s violated - the transcription of lhasa's tree maintenance (Codec_Lh1Groups part G) and the LZHUF reference "
           "(part R) do not stay in lock-step; counterexample (symbol sequence = the values of `last`) in tlc.out" % (cfg, r.violation))
    open(os.path.join(d, "why.txt"), "w").write(msg)
    return {"replay": d, "msg": msg, "kind": "model"}


def run(tier, seed, ev):
    t0 = time.time()
    sc = V.scratch("c02groups")
    viols = []
    try:
        jobs = plan(tier, seed)
        # ---- build: one driver per (nc, limit), in parallel
        sizes = sorted({sz for _, sz, _ in jobs})
        with cf.ThreadPoolExecutor(max_workers=V.NCPU) as ex:
            futs = {sz: ex.submit(compile_driver, sc, "%d_%d" % sz, lh1_source() if sz == FULL else small_source(sc, *sz)) for sz in sizes}
            exes = {sz: f.result() for sz, f in futs.items()}
        ev.set("driver_builds", len(exes))
        tbuild = time.time() - t0

        # ---- the model runs in the background of the trace work in the quick tier (8 + 8 cores);
        #      in the thorough tier afterwards (they use all cores)
        mex = cf.ThreadPoolExecutor(max_workers=1)
        mfuts = []
        if tier == "quick":
            for module, cfg, workers, tmo in model_runs(tier):
                mfuts.append((cfg, mex.submit(V.tlc_must_pass, module, cfg, workers=workers, timeout=tmo, xmx="4g")))

        # ---- drive and validate, one trace file per job
        def one(job):
            tag, sz, runs = job
            trace = os.path.join(sc, tag + ".ndjson")
            rc, err, cmds = run_job(exes[sz], runs, trace)
            if rc != 0:
                return job, trace, cmds, rc, err, None
            res = V.validate_trace("Trace_Lh1Groups", "Trace_Lh1Groups", trace, None, 1500 if tier == "quick" else 3000, "3g")
            return job, trace, cmds, 0, b"", res
        par = V.NCPU - 8 if tier == "quick" and V.NCPU >= 12 else V.NCPU
        # longest first
        order = sorted(jobs, key=lambda j: -sum(int(a[2]) if a[0] == "gen" else 5000 for a in j[2]) * j[1][0])
        with cf.ThreadPoolExecutor(max_workers=max(2, par)) as ex:
            results = list(ex.map(one, order))
        good = 0
        for (tag, sz, runs), trace, cmds, rc, err, res in results:
            if rc != 0:
                if rc in (2, -999):
                    raise V.HarnessError("lh1groups_drv %s: exit %s %s" % (cmds[-1], rc, err.decode(errors="replace")[-600:]))
                d = V.replay_dir(PID, "groups-crash-" + tag)
                shutil.copy(trace, os.path.join(d, "trace.ndjson"))
                open(os.path.join(d, "stderr.txt"), "wb").write(err or b"")
                msg = "driver around lib/lh1_decoder.c (NUM_CODES %d, TREE_REORDER_LIMIT %d) exited %s on `%s`: %s" % (
                    sz[0], sz[1], rc, cmds[-1], (err or b"").decode(errors="replace")[-1500:])
                open(os.path.join(d, "why.txt"), "w").write(msg)
                viols.append({"replay": d, "msg": msg, "kind": "crash"})
                continue
            ok, line, r = res
            ev.tlc(r)
            nexec = trace_stats(trace, ev)
            if ok:
                good += nexec
                continue
            d = V.replay_dir(PID, "groups-trace-" + tag)
            open(os.path.join(d, "commands.txt"), "w").write("\n".join(cmds) + "\n")
            mism = re.findall(r'<<\s*"MISMATCH",(.*?)"line",\s*(\d+)\s*>>', r.out, re.S)
            what = "; ".join(re.sub(r"\s+", " ", m[0]).strip(" ,")[:300] for m in mism[:3])
            lines = open(trace).read().splitlines()
            if line and line > 0:
                start = max([i for i in range(min(line, len(lines))) if lines[i].startswith('{"e":"Init"')] or [0])
                nsym = sum(1 if x.startswith('{"e":"Sym",') else len(json.loads(x)["s"]) if x.startswith('{"e":"Syms",') else 0
                           for x in lines[start:line - 1])
                kind = json.loads(lines[line - 1])["e"] if line <= len(lines) else "<end>"
                ctx = "trace line %d, a %s event, %d symbols after the Init at line %d" % (line, kind, nsym, start + 1)
                # keep the rejected execution without the intermediate dumps (they can be large)
                with open(os.path.join(d, "rejected_execution.ndjson"), "w") as f:
                    for i in range(start, line):
                        if i == line - 1 or not lines[i].startswith('{"e":"Dump"'):
                            f.write(lines[i] + "\n")
            else:
                ctx = "TLC: %s" % (r.violation or r.error)
            open(os.path.join(d, "tlc.out"), "w").write(r.out[-20000:])
            msg = ("lib/lh1_decoder.c (NUM_CODES %d, TREE_REORDER_LIMIT %d) departs from Codec_Lh1Groups at %s: %s" % (sz[0], sz[1], ctx, what or "(no MISMATCH line)"))
            open(os.path.join(d, "why.txt"), "w").write(msg)
            viols.append({"replay": d, "msg": msg, "kind": "trace"})
        ev.set("trace_executions_accepted", good)
        ttrace = time.time() - t0 - tbuild

        # ---- models
        if tier != "quick":
            for module, cfg, workers, tmo in model_runs(tier):
                mfuts.append((cfg, mex.submit(V.tlc_must_pass, module, cfg, workers=workers, timeout=tmo, xmx="8g")))
        for cfg, fu in mfuts:
            r = fu.result()
            ev.tlc(r)
            ev.set("model_%s" % cfg, {"generated": r.generated, "distinct": r.distinct, "depth": r.depth, "wall_s": round(r.wall, 1)})
            if r.violation:
                viols.append(model_violation(cfg, r))
        mex.shutdown()
        ev.set("groups_wall_s", {"build": round(tbuild, 1), "traces": round(ttrace, 1), "total": round(time.time() - t0, 1)})
    finally:
        shutil.rmtree(sc, ignore_errors=True)
    return viols


def replay(path):
    print("commands.txt regenerates the trace; rejected_execution.ndjson / tlc.out / why.txt are in", path)
    return 2


if __name__ == "__main__":
    tier = sys.argv[1] if len(sys.argv) > 1 else "quick"
    ev = V.Evidence("C02groups", tier, V.seed_from_env(), "model_checking")
    t = time.time()
    vs = run(tier, V.seed_from_env(), ev)
    print(json.dumps(ev.cov, indent=1, sort_keys=True))
    for v in vs:
        print("VIOLATION", v["replay"], v["msg"][:1500])
    print("violations: %d  wall %.1fs" % (len(vs), time.time() - t))
    sys.exit(1 if vs else 0)
