"""C02 - -lh1- adaptive-Huffman decoder stays in lock-step with the LZHUF model."""
import vcommon as V
import codeccommon as CC   # (puts harness/py/enc on the path)

LEVEL = "model_checking"
ASSUMPTIONS = ["Codec_Lh1.tla carries the LZHUF reference (StartHuff / update / reconst on freq, prnt, son); lhasa's decoder uses a different "
               "data structure (frequency groups), so chunk-by-chunk equality of every decoded command means the two trees assign the same "
               "code to every symbol at every step",
               "Codec_Lh1Groups.tla transcribes lhasa's group structure; MC_Codec_Lh1Lock checks it against the reference for every symbol "
               "sequence over alphabets of 2..16 symbols (node-for-node equality, codes, group invariants, no array overrun); the transcription is "
               "bound to the C code by dumping the real struct (full size and small-alphabet builds of the current source) and comparing "
               "field by field",
               "the independent encoder (harness/py/enc/enc_lh1.py) mirrors the original LZHUF encoder",
               "TLC/SANY/CommunityModules trusted"]


def ramp_cases(tier, ev):
    """streams that drive the number of distinct node frequencies - lhasa's frequency groups - beyond 314
    (there are 627 nodes, hence up to 627 groups; uniform data stays near 260): code c is used w(c) times
    with all w different; long copies get the small weights to keep the output short"""
    import enc_lh1 as E
    order = sorted([(256 + i, 57 - i) for i in range(58)] + [(b, 58 + b) for b in range(256)], key=lambda x: x[1])
    seq = []
    for c, w in order:
        seq += [c] * w
    seq = seq[:21000 if tier == "quick" else len(seq)]
    h = E.AdaptiveHuffman()
    mx = 0
    for c in seq:
        h.update(c)
        mx = max(mx, len(set(h.freq[:E.T])))
    cmds = [("lit", c) if c < 256 else ("copy", (c * 37) % 4096, c - 253) for c in seq]
    ev.set("max_simultaneous_frequency_groups", mx)
    return [("ramp of %d commands, %d distinct frequencies" % (len(seq), mx), "-lh1-", E.encode(cmds), E.expand(cmds))]


def run(tier, seed, ev):
    viols = CC.run("C02", [("lh1", "-lh1-")], tier, seed, ev, 120000 if tier == "quick" else 3000000, extra=ramp_cases(tier, ev))
    viols += CC.ground(tier, ["-lh1-"], ev)
    # lhasa's own data structure (frequency groups) against the LZHUF arrays: bounded lock-step model + the compiled
    # lib/lh1_decoder.c dumped field by field against its transcription (Codec_Lh1Groups, Trace_Lh1Groups)
    import c02_groups
    viols += c02_groups.run(tier, seed, ev)
    ev.set("rule", "one execution per (stream, read schedule); distinct = structural case label (symbol distributions, copy lengths 3..60, "
                   "distances 0/63/64/4095, streams long enough for several tree rebuilds)")
    return viols


def replay(path):
    print("job, stream and rejected execution are in", path)
    return 2
