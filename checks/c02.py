"""C02 - -lh1- adaptive-Huffman decoder stays in lock-step with the LZHUF model."""
import vcommon as V
import codeccommon as CC

LEVEL = "model_checking"
ASSUMPTIONS = ["Codec_Lh1.tla carries the LZHUF reference (StartHuff / update / reconst on freq, prnt, son); lhasa's decoder uses a different "
               "data structure (frequency groups), so chunk-by-chunk equality of every decoded command means the two trees assign the same "
               "code to every symbol at every step",
               "the independent encoder (harness/py/enc/enc_lh1.py) mirrors the original LZHUF encoder",
               "TLC/SANY/CommunityModules trusted"]


def run(tier, seed, ev):
    viols = CC.run("C02", [("lh1", "-lh1-")], tier, seed, ev, 120000 if tier == "quick" else 3000000)
    viols += CC.ground(tier, ["-lh1-"], ev)
    ev.set("rule", "one execution per (stream, read schedule); distinct = structural case label (symbol distributions, copy lengths 3..60, "
                   "distances 0/63/64/4095, streams long enough for several tree rebuilds)")
    return viols


def replay(path):
    print("job, stream and rejected execution are in", path)
    return 2
