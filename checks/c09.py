"""C09 - no compressed data can make any decompressor touch invalid memory."""
import json, os, random, shutil, subprocess, sys, concurrent.futures as cf
import vcommon as V
import corpus
import tracerun as TR
sys.path.insert(0, os.path.join(V.ROOT, "harness", "py", "enc"))

LEVEL = "exploration"
ASSUMPTIONS = ["'invalid access' is observed by AddressSanitizer and -fsanitize=bounds (array and local bounds) on the executions that are "
               "run; uninitialised reads are not in the statement (no MSan)",
               "output buffers are allocated with exactly the requested size, so a read that returns or writes more than asked is an ASan error",
               "a sample of the executions is additionally validated against DecoderApi.tla (n <= k, buffer bounds, faithful length/CRC)",
               "every hostile stream of at most 200 bytes is additionally decoded by the TLA+ format definitions (Trace_Codec): the C decoder's chunks must equal the definition's on invalid input too"]


def valid_streams(rng, meth, n):
    """(class, bytes) valid streams from the independent encoders"""
    out = []
    import common as EC
    for i in range(n):
        try:
            if meth in ("-lh0-", "-lz4-", "-pm0-"):
                out.append(("valid", bytes(rng.randrange(256) for _ in range(rng.choice([0, 1, 100, 1023, 1024, 1025, 5000])))))
            elif meth == "-lzs-":
                import enc_lzs as E
                out.append(("valid", E.encode(E.random_cmds(rng, n=rng.choice([5, 50, 400])))))
            elif meth == "-lz5-":
                import enc_lz5 as E
                out.append(("valid", E.encode(E.random_cmds(rng, n=rng.choice([5, 50, 400])))))
            elif meth == "-lh1-":
                import enc_lh1 as E
                out.append(("valid", E.encode(E.random_cmds(rng, n=rng.choice([5, 100, 800])))))
            elif meth in ("-lh4-", "-lh5-", "-lh6-", "-lh7-", "-lhx-", "-lk7-"):
                import enc_lhnew as E
                cm = E.random_cmds(rng, meth, n=rng.choice([3, 40, 300]))
                st = rng.choice(["huffman", "flat", "single", "maxlen", "full", "len1"])
                try:
                    out.append(("valid-" + st, E.encode(cm, meth, strategy=st, zero_run_style=rng.choice(["short", "long", "mixed"]),
                                                       block_sizes=rng.choice([None, [1] * len(cm), [len(cm)]]))))
                except Exception:
                    out.append(("valid", E.encode(cm, meth)))
            elif meth == "-pm2-":
                import enc_pm2 as E
                out.append(("valid", E.encode(E.random_cmds(rng, n=rng.choice([5, 100, 1500])), strategy=rng.choice(["huffman", "flat", "single", "full"]))))
            elif meth == "-pm1-":
                import enc_pm1 as E
                t = rng.randrange(32)
                out.append(("valid-tree%d" % t, E.encode(E.random_cmds(rng, n=rng.choice([5, 100, 600]), tree=t), tree=t, tail=rng.choice(["explicit", "implicit"]) if False else "explicit")))
        except Exception:
            continue
    return out



OFFSET_BITS = {"-lh4-": 4, "-lh5-": 4, "-lh6-": 5, "-lh7-": 5, "-lhx-": 5, "-lk7-": 6}


def _bits(fields):
    v = n = 0
    for val, w in fields:
        v = (v << w) | (val & ((1 << w) - 1)); n += w
    pad = (-n) % 8
    return ((v << pad).to_bytes((n + pad) // 8, "big"))


def table_extremes(rng, meth, tier):
    """hand-assembled block headers of the -lh4-..-lk7- family whose table fields take every value their
    width allows, also the ones no encoder writes: 'single code' tables (count 0) naming symbols beyond
    the alphabet, counts beyond the alphabet, offset codes beyond the window"""
    ob = OFFSET_BITS[meth]
    out = []
    codes = range(512) if tier == "thorough" else sorted(set([0, 255, 256, 257, 509, 510, 511] + [rng.randrange(512) for _ in range(6)]))
    offs = range(1 << ob) if tier == "thorough" else sorted(set([0, 1, (1 << ob) - 1, (1 << ob) - 2] + [rng.randrange(1 << ob) for _ in range(3)]))
    for c in codes:
        for o in offs:
            # block of 400 commands; temp table: single code 0; code table: single code c; offset table: single code o
            out.append(("single-%d-%d" % (c, o), _bits([(400, 16), (0, 5), (0, 5), (0, 9), (c, 9), (0, ob), (o, ob)]) + bytes(rng.randrange(256) for _ in range(12))))
    for t in (range(32) if tier == "thorough" else [0, 18, 19, 20, 31]):
        # temp table: single code t (values above 18 are no code length), then a code table of 511 entries read through it
        out.append(("temp-%d" % t, _bits([(3, 16), (0, 5), (t, 5), (511, 9)]) + bytes(rng.randrange(256) for _ in range(20))))
    for n in (19, 20, 31):
        # temp table with more entries than the alphabet has
        out.append(("tempn-%d" % n, _bits([(3, 16), (n, 5)]) + bytes(rng.randrange(256) for _ in range(40))))
    return out

def streams_for(rng, meth, tier):
    base = valid_streams(rng, meth, 24 if tier == "quick" else 200)
    pay = corpus.sample_payloads().get(meth)
    if pay:
        base.append(("corpus", pay[1][:4000]))
    out = list(base)
    if meth in OFFSET_BITS:
        out += table_extremes(rng, meth, tier)
    for cls, b in base:
        if not b:
            continue
        for _ in range(6 if tier == "quick" else 20):
            q = bytearray(b)
            for _ in range(rng.choice([1, 1, 2, 8])):
                pos = rng.randrange(min(len(q), rng.choice([8, 40, len(q)])))
                q[pos] ^= 1 << rng.randrange(8)
            out.append(("flip", bytes(q)))
        out.append(("trunc", b[:rng.randrange(len(b))]))
        # random table area followed by valid data
        k = min(len(b), rng.choice([1, 2, 6, 30]))
        out.append(("randhead", bytes(rng.randrange(256) for _ in range(k)) + b[k:]))
    for n in (0, 1, 2, 3, 7, 64, 700):
        out.append(("zeros", b"\0" * n))
        out.append(("ones", b"\xff" * n))
        out.append(("random", bytes(rng.randrange(256) for _ in range(n))))
    for _ in range(60 if tier == "quick" else 2000):
        out.append(("random", bytes(rng.randrange(256) for _ in range(rng.choice([2, 5, 16, 100, 2000])))))
    # two-byte prefixes exhaustively sampled (table headers): all first bytes x a few second bytes
    for b0 in range(0, 256, 1 if tier == "thorough" else 5):
        out.append(("head2", bytes([b0, rng.randrange(256), rng.randrange(256), 0, 0xff, rng.randrange(256)])))
    return out


def run(tier, seed, ev):
    rng = random.Random(seed)
    sc = V.scratch("c09")
    drv = V.build_driver("decoder_drv", "san")
    jobs = []
    sample = []
    hostile = []
    iid = 0
    for meth in corpus.METHODS:
        for cls, data in streams_for(rng, meth, tier):
            path = os.path.join(sc, "s%d.bin" % len(jobs))
            open(path, "wb").write(data)
            if len(data) <= 200 and not cls.startswith("valid") and cls != "corpus" and (tier == "quick" or rng.random() < 0.2):
                hostile.append("real %d 1 %d %s %s %s" % (len(hostile) + 1, 500, meth, path, rng.choice(["R100,R1000,L,C", "R1,R7,R0,R600,L,C"])))
            for dl in rng.sample([0, 1, 100, 5000, 70000, 0xFFFFFFFF], 3):
                iid += 1
                big = dl if dl < 100000 else 20000
                # (last pattern: a small read that leaves most of a decoded run in the internal buffer, then a read of about the size of
                #  a run - 17/18, 60, 256, 1024 ... - so that what is left over and the next run together exceed the request)
                edge = [15, 16, 17, 18, 19, 33, 59, 60, 61, 255, 256, 257, 258, 511, 512, 513, 1023, 1024, 1025, 1500, 2046, 2047, 2048, 4095, 4097]
                sch = rng.choice([["R%d" % (big + 9)], ["R1"] * 40 + ["R%d" % big], ["R0", "R7", "R13", "R4096", "R%d" % big], ["R4096"] * 6,
                                  ["M", "R100", "R0", "R100000"],
                                  [x for _ in range(6) for x in ("R%d" % rng.choice([1, 1, 2, 3]), "R%d" % rng.choice(edge))],
                                  [x for _ in range(6) for x in ("R%d" % rng.choice([1, 1, 2, 3]), "R%d" % rng.choice(edge))]])
                job = "real %d 1 %d %s %s %s" % (iid, dl, meth, path, ",".join(sch + ["L", "C"]))
                jobs.append(job)
                ev.cls((meth, cls.split("-")[0], "huge" if dl > 100000 else "zero" if dl == 0 else "mid", len(sch) > 1))
                if len(data) < 300 and dl < 6000 and rng.random() < (0.08 if tier == "quick" else 0.02):
                    sample.append(job)
    res = TR.run_sharded(drv, jobs, sc, "d", timeout=3000)
    viols = []
    for jf, tr, n, p in res:
        if p.returncode in (2, 3):
            raise V.HarnessError("decoder_drv: " + p.stderr.decode()[-400:])
        if p.returncode != 0:
            # find the job that crashed: the (n+1)-th job of the shard, n = completed executions in the trace
            done = sum(1 for l in open(tr) if l.startswith('{"e":"End"'))
            jl = open(jf).read().splitlines()
            culprit = jl[done] if done < len(jl) else "?"
            d = V.replay_dir("C09", "crash-" + os.path.basename(jf))
            open(os.path.join(d, "job.txt"), "w").write(culprit + "\n")
            parts = culprit.split()
            if len(parts) > 5 and os.path.exists(parts[5]):
                shutil.copy(parts[5], os.path.join(d, "stream.bin"))
            open(os.path.join(d, "stderr.txt"), "wb").write(p.stderr or b"")
            msg = "decoder crashed (exit %s) on %s: %s" % (p.returncode, culprit[:200], (p.stderr or b"").decode(errors="replace")[-900:])
            viols.append({"replay": d, "msg": msg})
    ev.set("evaluations", len(jobs))
    # a sample through the DecoderApi trace spec (n <= k, buffer bound, length/CRC)
    if sample:
        ren = []
        for i, j in enumerate(sample):
            p = j.split(); p[1] = str(i + 1); ren.append(" ".join(p))
        res2 = TR.run_sharded(drv, ren, sc, "v", nshards=8)
        # inputs must be numbered 1.. per shard
        fixed = []
        for jf, tr, n, p in res2:
            lines = open(jf).read().splitlines()
            open(jf, "w").write("\n".join(" ".join([x.split()[0], str(k + 1)] + x.split()[2:]) for k, x in enumerate(lines)) + "\n")
            with open(tr, "w") as out:
                p = subprocess.run([drv, jf], stdout=out, stderr=subprocess.PIPE, env=V.run_env())
            fixed.append((jf, tr, n, p))
        v2, good = TR.validate_all("Trace_DecoderApi", "Trace_DecoderApi", fixed, ev, "C09", xmx="3g")
        viols += v2
        ev.set("validated_against_DecoderApi", good)
    # every short hostile stream also through the format definitions (Codec_*): on invalid input the C decoders
    # must still do exactly what the definitions say (which never index outside ring, tables or buffer)
    if hostile:
        res3 = []
        nsh = V.NCPU
        for k in range(nsh):
            sub = hostile[k::nsh]
            if not sub:
                continue
            jf = os.path.join(sc, "h_jobs_%d.txt" % k)
            open(jf, "w").write("\n".join(" ".join([j.split()[0], str(i + 1)] + j.split()[2:]) for i, j in enumerate(sub)) + "\n")
            tr = os.path.join(sc, "h_trace_%d.ndjson" % k)
            with open(tr, "w") as out:
                p = subprocess.run([drv, jf, "data"], stdout=out, stderr=subprocess.PIPE, env=V.run_env())
            res3.append((jf, tr, len(sub), p))
        v3, good3 = TR.validate_all("Trace_Codec", "Trace_Codec", res3, ev, "C09", xmx="6g", timeout=3000)
        for v in v3:
            jf = os.path.join(v["replay"], "jobs.txt")
            if os.path.exists(jf):
                for ln in open(jf):
                    q = ln.split()
                    if len(q) > 5 and os.path.exists(q[5]):
                        shutil.copy(q[5], v["replay"])
        viols += v3
        ev.set("hostile_streams_validated_against_Codec_definitions", good3)
    ev.sample(jobs[0])
    ev.sample(jobs[len(jobs) // 2])
    ev.set("rule", "one execution per (method, stream, declared length, read schedule); distinct = (method, stream class: valid by table strategy / "
                   "corpus / bit-flipped / truncated / random head / zeros / ones / random / 2-byte header sweep, declared-length class, split schedule)")
    shutil.rmtree(sc, ignore_errors=True)
    return viols


def replay(path):
    drv = V.build_driver("decoder_drv", "san")
    j = open(os.path.join(path, "job.txt")).read().split()
    j[5] = os.path.join(path, "stream.bin")
    jf = os.path.join(path, "job.replay.txt")
    open(jf, "w").write(" ".join(j) + "\n")
    p = subprocess.run([drv, jf], capture_output=True, env=V.run_env())
    if p.returncode != 0:
        print(p.stderr.decode()[-1500:])
        V.violation("C09", path)
        return 1
    print("no crash")
    return 0
