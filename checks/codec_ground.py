#!/usr/bin/env python3
"""Grounding of the Codec_* modules (spec/Codec_*.tla) in the real decoders.

    python3 /verif/checks/codec_ground.py [quick|thorough] [-m METHOD[,METHOD..]] [-k valid|invalid] [--keep]

For every decoder name of lha_decoder.c the real decoder (ASan build of the working tree, driven by
harness/c/decoder_drv.c with the `data` option) is run on

  (a) real third-party streams: test/compressed/*.bin and member payloads cut out of test/archives
      by the independent walker (corpus.sample_payloads, plus one gpl-2 sized member per method where
      there is one), with several declared lengths and read schedules;
      quick: the first 1500 bytes of output, thorough: the whole stream and 1000 bytes beyond it, plus
      the first 300000 bytes of the corpus' *long* members (many blocks, wrapped windows);
  (b) damaged streams: truncated prefixes, bit flips (concentrated on the table area), random bytes,
      constant bytes, the empty stream; thorough additionally a long random -lh1- stream that makes
      the adaptive tree rebuild twice (reconst).

and every chunk every dtype->read call produced is compared with XRead of the method's module by
Trace_Codec (one TLC process per shard, NCPU in parallel).  Exit 0: every execution accepted.
A rejected execution is cut out and stored under build/codec_ground/fail_<n>/ (job line, input,
the trace of that execution, TLC's MISMATCH line); the summary names them.  Driver crashes
(sanitizer reports) are failures too - they are defects of the C code, not of the model.

The per-method table at the end gives the TLC time per decoded byte (shards are per method)."""
import concurrent.futures as cf
import json, os, random, re, shutil, subprocess, sys, time

sys.path.insert(0, "/verif/harness/py")
import vcommon as V
import corpus

SPEC = os.path.join(V.ROOT, "spec")
OUT = os.path.join(V.BUILD, "codec_ground")
NCPU = os.cpu_count() or 4
PLAIN_LEN = 18092
COMPRESSED = {"-lh1-": "lh1.bin", "-lh5-": "lh5.bin", "-lh6-": "lh6.bin", "-lh7-": "lh7.bin",
              "-lz5-": "lz5.bin", "-lzs-": "lzs.bin", "-pm2-": "pm2.bin"}


def get_driver(sc):
    """build the driver from the working tree; copy it (other checks may rebuild/prune concurrently)"""
    last = None
    for _ in range(5):
        try:
            exe = V.build_driver("decoder_drv", "san")
            dst = os.path.join(sc, "decoder_drv")
            shutil.copy(exe, dst)
            return dst
        except Exception as e:      # concurrent builder removed the directory: try again
            last = e
            time.sleep(3)
    raise V.HarnessError("cannot build decoder_drv: %s" % last)


# ------------------------------------------------------------------ streams

def valid_streams():
    """[(tag, method, payload bytes, decompressed length)]"""
    out = []
    for m, f in sorted(COMPRESSED.items()):
        out.append(("compressed/" + f, m, open(os.path.join(V.REPO, "test", "compressed", f), "rb").read(), PLAIN_LEN))
    pay = corpus.sample_payloads()
    for m in corpus.METHODS:
        if m not in pay:
            raise V.HarnessError("no corpus payload for " + m)
        src, p, length, _crc = pay[m]
        out.append((os.path.relpath(src, V.REPO), m, p, length))
    # one larger member per method (about the size of gpl-2), if the small sample was small
    best = {}
    for f, mem, p in corpus.all_members():
        m = mem["method"]
        if m == "-lh7-" and "lhark" in f:
            m = "-lk7-"
        if m in corpus.METHODS and 5000 <= mem["length"] <= 70000:
            if m not in best or len(best[m][2]) > len(p):
                best[m] = (os.path.relpath(f, V.REPO) + ":" + mem["name"].decode("latin1"), m, p, mem["length"])
    have = {(t, m) for t, m, _, _ in out}
    for m, s in sorted(best.items()):
        if (s[0], m) not in have and pay[m][2] < 5000:
            out.append(s)
    return out


LONG_OUT = 300000


def long_streams():
    """thorough only: the *long* members of the corpus (1.2 MB of text each; many blocks, every window
    up to 128 KiB wraps) - the first LONG_OUT bytes of output"""
    best = {}
    for f, mem, p in corpus.all_members():
        m = mem["method"]
        if m == "-lh7-" and "lhark" in f:
            m = "-lk7-"
        if m in corpus.METHODS and mem["length"] >= LONG_OUT and m not in best:
            best[m] = (os.path.relpath(f, V.REPO) + ":" + mem["name"].decode("latin1"), m, p, mem["length"])
    return [best[m] for m in sorted(best)]


def valid_jobs(tier, streams, sc):
    """{method: [(jobargs, expected_bytes)]}; jobargs = (declared, method, path, ops)"""
    jobs = {}
    for i, (tag, m, p, length) in enumerate(streams):
        path = os.path.join(sc, "v%02d_%s.bin" % (i, m.strip("-")))
        open(path, "wb").write(p)
        L = min(length, 1500) if tier == "quick" else length
        scheds = [(L, ["R%d" % (L + 9)]),
                  (L, ["R1"] * 24 + ["R0", "R7", "R64", "R500", "R1", "R4096", "R%d" % (L + 1)]),
                  (max(L // 2, 1), ["R300", "R0", "R%d" % L])]
        if tier == "thorough":
            scheds.append((length + 1000, ["R%d" % (length + 2000)]))      # past the end of the valid stream
            scheds.append((L, ["R977"] * (L // 977 + 2)))
        for decl, ops in scheds:
            jobs.setdefault(m, []).append(((decl, m, path, ",".join(ops + ["L", "C"])), tag))
    return jobs


def damaged_inputs(rng, tier, base, m):
    """list of (kind, bytes) derived from a valid payload `base`"""
    res = []
    n_trunc, n_flip, n_rand = (8, 10, 8) if tier == "quick" else (40, 120, 60)
    head = base[:1200]
    dense = list(range(0, 24)) if tier == "quick" else list(range(0, 160))
    cuts = sorted(set(dense + [rng.randrange(1, max(2, len(head))) for _ in range(n_trunc * 2)]))
    cuts = [c for c in cuts if c <= len(head)]
    for c in (cuts if tier == "thorough" else rng.sample(cuts, min(len(cuts), n_trunc + 8))):
        res.append(("trunc%d" % c, head[:c]))
    for k in range(n_flip):
        q = bytearray(base[:rng.choice([60, 200, 600, 1200])])
        if not q:
            continue
        lim = len(q) if k % 2 else min(len(q), 48)          # every other one: table area only
        for _ in range(rng.choice([1, 1, 2, 3, 6])):
            q[rng.randrange(lim)] ^= 1 << rng.randrange(8)
        res.append(("flip", bytes(q)))
    for k in range(n_rand):
        res.append(("random", bytes(rng.randrange(256) for _ in range(rng.choice([1, 2, 3, 8, 20, 60, 200, 400])))))
    for b in (0x00, 0xff, 0x55, 0x80, 0x01):
        res.append(("const%02x" % b, bytes([b]) * 300))
    res.append(("ff-then-data", b"\xff" * 40 + base[:100]))
    res.append(("zero-then-data", b"\x00" * 3 + base[:200]))
    return res


class BitWriter:
    def __init__(self):
        self.bits = []

    def put(self, v, n):
        for i in range(n - 1, -1, -1):
            self.bits.append((v >> i) & 1)
        return self

    def rand(self, rng, nbytes):
        for _ in range(8 * nbytes):
            self.bits.append(rng.randrange(2))
        return self

    def bytes(self):
        b = self.bits + [0] * (-len(self.bits) % 8)
        return bytes(sum(b[i + j] << (7 - j) for j in range(8)) for i in range(0, len(b), 8))


LHNEW = {"-lh4-": (4, 510), "-lh5-": (4, 510), "-lh6-": (5, 510), "-lh7-": (5, 510), "-lhx-": (5, 510), "-lk7-": (6, 289)}


def crafted_inputs(rng, tier, m):
    """hand-made headers followed by random bits: corners that damaged real streams rarely reach"""
    res = []
    reps = 1 if tier == "quick" else 4
    if m in LHNEW:
        ob, ncodes = LHNEW[m]
        # all three tables in their n = 0 form: one code symbol c, one offset symbol b
        offs = sorted(set([0, 1, 2, 3, 13, 14, 15, (1 << ob) - 1, (1 << ob) - 2] + [b for b in range(24, 32) if b < (1 << ob)]
                          + ([56, 57, 58, 59, 60, 61, 62, 63] if ob == 6 else [])))
        for b in offs:
            for c in ([256, 300, 509, 511] if ncodes == 510 else [256, 263, 264, 287, 288, 400]):
                for pad in range(reps):
                    w = BitWriter().put(rng.choice([3, 40, 2000]), 16).put(0, 5).put(rng.randrange(32), 5)
                    w.put(0, 9).put(c, 9).put(0, ob).put(b, ob).put(0, pad).rand(rng, 60)
                    res.append(("single c=%d b=%d" % (c, b), w.bytes()))
        # blocks with zero commands in front of a block made of literals 'A'
        for k in (1, 3):
            w = BitWriter()
            for _ in range(k):
                w.put(0, 16).put(0, 5).put(0, 5).put(0, 9).put(65, 9).put(0, ob).put(0, ob)
            w.put(5, 16).put(0, 5).put(0, 5).put(0, 9).put(65, 9).put(0, ob).put(0, ob).rand(rng, 3)
            res.append(("%d empty blocks" % k, w.bytes()))
        # unary-extended lengths: short, and long enough to wrap the uint8_t code_lengths[] entry
        for ones in (1, 9, 17, 30, 248, 249, 250, 260, 600):
            w = BitWriter().put(7, 16).put(3, 5).put(7, 3)
            for _ in range(ones):
                w.put(1, 1)
            w.put(0, 1).put(1, 3).put(1, 3).put(0, 2).rand(rng, 40)
            res.append(("temp length 7+%d" % ones, w.bytes()))
            w = BitWriter().put(7, 16).put(0, 5).put(3, 5).put(0, 9).put(257, 9).put(2, ob).put(7, 3)
            for _ in range(ones):
                w.put(1, 1)
            w.put(0, 1).put(1, 3).rand(rng, 40)
            res.append(("offset length 7+%d" % ones, w.bytes()))
        res.append(("unterminated unary", BitWriter().put(7, 16).put(3, 5).put(7, 3).bytes() + b"\xff" * 50))
        # random tables: temp table with every count, then random bits
        for n in range(1, 32):
            for _ in range(reps):
                w = BitWriter().put(rng.choice([1, 9, 300]), 16).put(n, 5).rand(rng, rng.choice([4, 30, 120]))
                res.append(("temp n=%d random" % n, w.bytes()))
    if m == "-pm2-":
        # one code symbol n-1 (m = 0); n >= 10 (except 29) also asks for offset tables, which are then
        # re-read from random bits after 1, 2, 4, 8 KiB of output (mostly incomplete: stale array slots)
        for n in range(0, 32):
            for _ in range(reps * 2):
                w = BitWriter().put(rng.randrange(2), 1).put(n, 5).put(0, 3)
                if rng.random() < 0.5:
                    w.put(1, 3).put(2, 3).put(3, 3).put(3, 3).put(0, 3)       # a complete first offset code
                w.rand(rng, rng.choice([8, 700, 3000]))
                res.append(("single code n=%d" % n, w.bytes()))
        # a real code table with field width 0..7, random fields
        for wd in range(8):
            for mn in (1, 2, 7):
                w = BitWriter().put(0, 1).put(rng.randrange(1, 32), 5).put(mn, 3).put(wd, 3).rand(rng, 200)
                res.append(("code table width %d min %d" % (wd, mn), w.bytes()))
    if m == "-pm1-":
        for t in range(32):
            w = BitWriter().put(t, 5).put(1, 1).rand(rng, rng.choice([2, 40, 300]))
            res.append(("tree %d" % t, w.bytes()))
    return res


def invalid_jobs(tier, streams, sc, seed):
    jobs = {}
    cap = 3000 if tier == "quick" else 6000
    seen = set()
    n = 0
    for (tag, m, p, length) in streams:
        rng = random.Random("%d/%s/%s" % (seed, tag, m))
        for kind, data in damaged_inputs(rng, tier, p, m):
            if (m, data) in seen:
                continue
            seen.add((m, data))
            n += 1
            path = os.path.join(sc, "d%05d_%s_%s.bin" % (n, m.strip("-"), kind))
            open(path, "wb").write(data)
            jobs.setdefault(m, []).append(((cap, m, path, "R%d,L,C" % (cap + 9)), "%s of %s" % (kind, tag)))
    for m in sorted({s[1] for s in streams}):
        rng = random.Random("%d/crafted/%s" % (seed, m))
        for kind, data in crafted_inputs(rng, tier, m):
            n += 1
            path = os.path.join(sc, "c%05d_%s.bin" % (n, m.strip("-")))
            open(path, "wb").write(data)
            ccap = 9000 if m == "-pm2-" else cap          # -pm2-: reach the table re-reads after 1, 2, 4, 8 KiB
            jobs.setdefault(m, []).append(((ccap, m, path, "R%d,L,C" % (ccap + 9)), "crafted: " + kind))
    if tier == "thorough" and any(s[1] == "-lh1-" for s in streams):
        rng = random.Random(seed)
        path = os.path.join(sc, "lh1_reconst.bin")
        open(path, "wb").write(bytes(rng.randrange(256) for _ in range(66000)))
        jobs.setdefault("-lh1-", []).append(((2000000, "-lh1-", path, "R2000000,L,C"), "66000 random bytes (two tree rebuilds)"))
    return jobs


# ------------------------------------------------------------------ running

def shards_of(jobs, per_method):
    """[(name, method, [(jobargs, tag)])]: shards never mix methods"""
    res = []
    for m, js in sorted(jobs.items()):
        k = max(1, min(per_method, len(js)))
        for i in range(k):
            part = js[i::k]
            if part:
                res.append(("%s_%d" % (m.strip("-"), i), m, part))
    return res


def run_shard(drv, sc, kind, shard):
    name, m, part = shard
    jf = os.path.join(sc, "%s_%s.jobs" % (kind, name))
    tr = os.path.join(sc, "%s_%s.ndjson" % (kind, name))
    with open(jf, "w") as f:
        for i, ((decl, meth, path, ops), tag) in enumerate(part):
            f.write("real %d 1 %d %s %s %s\n" % (i + 1, decl, meth, path, ops))
    with open(tr, "w") as out:
        p = subprocess.run([drv, jf, "data"], stdout=out, stderr=subprocess.PIPE, env=V.run_env())
    res = {"name": name, "kind": kind, "method": m, "jobs": part, "jobfile": jf, "trace": tr, "rc": p.returncode,
           "stderr": p.stderr.decode(errors="replace")[-3000:], "ok": False, "why": "", "wall": 0.0, "bytes": 0, "calls": 0}
    if p.returncode != 0:
        res["why"] = "driver exited %d (sanitizer report = C defect): %s" % (p.returncode, res["stderr"][-1500:])
        return res
    nlines = 0
    with open(tr) as f:
        for line in f:
            nlines += 1
            if line.startswith('{"e":"Read"'):
                e = json.loads(line)
                res["calls"] += len(e["inner"])
                res["bytes"] += sum(len(c) for c in e["inner"])
    if nlines == 0:
        res["why"] = "empty trace"
        return res
    meta = "/tmp/codec_ground_%d_%s_%s" % (os.getpid(), kind, name)
    shutil.rmtree(meta, ignore_errors=True)
    cmd = ["timeout", "-k", "10", "1700", "java", "-XX:+UseParallelGC", "-Xmx3g", "-Xss64m", "-cp", V.TLA_CP, "tlc2.TLC",
           "-workers", "1", "-metadir", meta, "-noGenerateSpecTE", "-config", "Trace_Codec.cfg", "Trace_Codec.tla"]
    env = dict(os.environ)
    env.pop("JAVA_TOOL_OPTIONS", None)
    env["TRACE"] = tr
    t0 = time.time()
    q = subprocess.run(cmd, cwd=SPEC, env=env, stdout=subprocess.PIPE, stderr=subprocess.STDOUT)
    res["wall"] = time.time() - t0
    shutil.rmtree(meta, ignore_errors=True)
    out = q.stdout.decode(errors="replace")
    mm = re.search(r'"ACCEPTED", "lines", (\d+)', out)
    if mm and int(mm.group(1)) == nlines and "No error has been found" in out:
        res["ok"] = True
        return res
    rj = re.search(r'"REJECTED_AT_LINE", (\d+)', out)
    mis = [l for l in out.splitlines() if "MISMATCH" in l]
    if rj:
        res["rejected_line"] = int(rj.group(1))
        res["why"] = "rejected at line %d: %s" % (res["rejected_line"], (mis[-1] if mis else "")[:1500])
    else:
        res["why"] = "TLC failed (exit %d): %s" % (q.returncode, out[-2500:])
    return res


def save_failure(res, idx):
    d = os.path.join(OUT, "fail_%d" % idx)
    shutil.rmtree(d, ignore_errors=True)
    os.makedirs(d)
    info = {"shard": res["name"], "kind": res["kind"], "method": res["method"], "why": res["why"]}
    line = res.get("rejected_line")
    if line:
        lines = open(res["trace"]).read().splitlines()
        start = max(i for i in range(line) if lines[i].startswith('{"e":"Reset"'))
        end = next((i for i in range(start + 1, len(lines)) if lines[i].startswith('{"e":"Reset"')), len(lines))
        jobno = json.loads(lines[start])["input"]
        (decl, meth, path, ops), tag = res["jobs"][jobno - 1]
        shutil.copy(path, os.path.join(d, "input.bin"))
        open(os.path.join(d, "trace.ndjson"), "w").write("\n".join(lines[start:end]) + "\n")
        open(os.path.join(d, "job.txt"), "w").write("real 1 1 %d %s %s %s\n" % (decl, meth, os.path.join(d, "input.bin"), ops))
        data = open(path, "rb").read()
        info.update({"what": tag, "declared": decl, "ops": ops, "input_len": len(data),
                     "input_hex": data[:400].hex() + ("..." if len(data) > 400 else ""), "line_in_execution": line - start})
    else:
        shutil.copy(res["jobfile"], os.path.join(d, "jobs.txt"))
        open(os.path.join(d, "stderr.txt"), "w").write(res["stderr"])
    json.dump(info, open(os.path.join(d, "why.json"), "w"), indent=1)
    return d, info


def main(argv):
    tier = "quick"
    only = None
    kinds = ("valid", "invalid")
    keep = False
    a = argv[1:]
    while a:
        x = a.pop(0)
        if x in ("quick", "thorough"):
            tier = x
        elif x == "-m":
            only = set(a.pop(0).split(","))
        elif x == "-k":
            kinds = (a.pop(0),)
        elif x == "--keep":
            keep = True
        else:
            print(__doc__)
            return 2
    seed = V.seed_from_env()
    os.makedirs(OUT, exist_ok=True)
    sc = os.path.join(OUT, "work_%d" % os.getpid())
    shutil.rmtree(sc, ignore_errors=True)
    os.makedirs(sc)
    t0 = time.time()
    drv = get_driver(sc)
    streams = [s for s in valid_streams() if only is None or s[1] in only]
    todo = []
    if "valid" in kinds:
        vj = valid_jobs(tier, streams, sc)
        todo += [("valid", s) for s in shards_of(vj, 1 if tier == "quick" else 2)]
        if tier == "thorough":
            for i, (tag, m, p, length) in enumerate(long_streams()):
                if only is not None and m not in only:
                    continue
                path = os.path.join(sc, "long%02d_%s.bin" % (i, m.strip("-")))
                open(path, "wb").write(p)
                todo.append(("valid", ("%s_long" % m.strip("-"), m, [((LONG_OUT, m, path, "R%d,L,C" % (LONG_OUT + 5)), tag + " (first %d bytes)" % LONG_OUT)])))
    if "invalid" in kinds:
        ij = invalid_jobs(tier, streams, sc, seed)
        todo += [("invalid", s) for s in shards_of(ij, 1 if tier == "quick" else 4)]
    print("codec_ground %s: %d streams, %d executions in %d shards (seed %d)" %
          (tier, len(streams), sum(len(s[2]) for _, s in todo), len(todo), seed))
    sys.stdout.flush()
    # big shards first
    todo.sort(key=lambda t: -sum(os.path.getsize(j[0][2]) for j in t[1][2]))
    with cf.ThreadPoolExecutor(max_workers=NCPU) as ex:
        results = list(ex.map(lambda t: run_shard(drv, sc, t[0], t[1]), todo))
    per = {}
    fails = []
    for r in results:
        p = per.setdefault(r["method"], {"valid": [0, 0, 0.0, 0, 0], "invalid": [0, 0, 0.0, 0, 0]})
        k = p[r["kind"]]
        k[0] += len(r["jobs"]); k[1] += r["bytes"]; k[2] += r["wall"]; k[3] += r["calls"]; k[4] += 1
        if not r["ok"]:
            fails.append(r)
    print("%-6s | %5s %9s %8s %7s %8s | %5s %9s %8s %7s" % ("method", "exec", "bytes", "calls", "tlc s", "ms/byte", "exec", "bytes", "calls", "tlc s"))
    print("%-6s | %-41s | %s" % ("", "(a) valid third-party streams", "(b) damaged streams"))
    for m in corpus.METHODS:
        if m not in per:
            continue
        v, i = per[m]["valid"], per[m]["invalid"]
        # JVM start + parsing the modules is about 1.3 s per shard and not the codec's
        msb = ("%8.3f" % (1000.0 * max(v[2] - 1.3 * v[4], 0.0) / v[1])) if v[1] else "       -"
        print("%-6s | %5d %9d %8d %7.1f %s | %5d %9d %8d %7.1f" % (m, v[0], v[1], v[3], v[2], msb, i[0], i[1], i[3], i[2]))
    print("wall %.1f s" % (time.time() - t0))
    if fails:
        print("FAILED shards: %d" % len(fails))
        for n, r in enumerate(fails):
            d, info = save_failure(r, n + 1)
            print("  %s %s %s -> %s" % (r["kind"], r["method"], r["why"][:600].replace("\n", " "), d))
            if "input_hex" in info:
                print("     input (%d bytes, %s): %s" % (info["input_len"], info["what"], info["input_hex"][:200]))
        print("work directory kept: " + sc)
        return 1
    if not keep:
        shutil.rmtree(sc, ignore_errors=True)
    print("OK: every execution accepted")
    return 0


if __name__ == "__main__":
    try:
        sys.exit(main(sys.argv))
    except V.HarnessError as e:
        print("HARNESS FAILURE: %s" % e)
        sys.exit(2)
