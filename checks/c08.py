"""C08 - no archive bytes can make the library or tool touch invalid memory or abort."""
import glob, json, os, random, shutil, struct, subprocess, concurrent.futures as cf
import vcommon as V
import readergen as RG
import headergen as HG
import tracerun as TR
import gtref, arc
import c13

LEVEL = "exploration"
ASSUMPTIONS = ["'invalid access' / abort is observed by AddressSanitizer and -fsanitize=bounds, by signals and by the exit status, on the "
               "executions that are run; uninitialised reads are not in the statement (no MSan)",
               "API call patterns decode or extract each entry at most once (caller discipline of the statement)",
               "the tool's own exit(255) on a failing stat() is a normal exit",
               "a sample of the library executions is additionally validated against Reader.tla with the members of a reference run"]
CLI_MODES = ["l", "v", "t", "p", "xn", "lv", "vv"]


def inputs(rng, sc, tier):
    """(path, class) inputs"""
    out = []

    def put(cls, data):
        p = os.path.join(sc, "i%d_%s.bin" % (len(out), cls))
        open(p, "wb").write(data)
        out.append((p, cls))
    corp = sorted(f for f in glob.glob(os.path.join(V.REPO, "test", "archives", "*", "*")) if os.path.isfile(f) and not f.endswith("README") and os.path.getsize(f) < 40000)
    pick = rng.sample(corp, 70 if tier == "quick" else len(corp))
    for f in pick:
        b = open(f, "rb").read()
        # single-byte substitutions in header regions, truncation at sampled offsets
        import lhaparse
        try:
            ms = lhaparse.members(b)
        except Exception:
            ms = []
        hdr_bytes = [o for m in ms for o in range(m["hdr_off"], m["hdr_off"] + m["hdr_len"])] or list(range(min(len(b), 64)))
        for _ in range(14 if tier == "quick" else 80):
            q = bytearray(b)
            for _ in range(rng.choice([1, 1, 2, 4])):
                q[rng.choice(hdr_bytes)] = rng.choice([0, 1, 0x7f, 0x80, 0xff, rng.randrange(256)])
            put("hdrmut", bytes(q))
        for _ in range(6 if tier == "quick" else 40):
            put("trunc", b[:rng.randrange(1, len(b))])
        for _ in range(2 if tier == "quick" else 20):
            q = bytearray(b)
            for _ in range(rng.choice([1, 5, 30])):
                q[rng.randrange(len(q))] ^= 1 << rng.randrange(8)
            put("bitflip", bytes(q))
    # structurally generated archives with inconsistent length fields
    for f in c13.extreme_archives(rng, sc):
        out.append((f, "lengths"))
    for i in range(500 if tier == "quick" else 8000):
        h = HG.wellformed_header(rng)
        muts = HG.mutations(h, rng, full=False, positions=rng.sample(range(min(len(h), 100)), min(4, len(h))))
        put("hdrgen", rng.choice(muts) + h)
    # level-0 extended areas of every length (each fixed offset an area decoder looks at is a boundary)
    for h in HG.level0_area_lengths():
        put("l0area", h)
    # unstructured bytes behind a valid first signature
    for i in range(300 if tier == "quick" else 6000):
        sig = rng.choice([b"-lh5-", b"-lh0-", b"-lhd-", b"-lz5-", b"-pm2-", b"-lh1-", b"-lzs-", b"-pm1-", b"-lh7-"])
        n = rng.choice([22, 30, 64, 300, 5000])
        body = bytearray(rng.randrange(256) for _ in range(n))
        body[2:7] = sig
        if rng.random() < 0.7:
            body[20] = rng.choice([0, 1, 2, 3])
        if rng.random() < 0.5 and body[20] in (0, 1):
            body[0] = min(255, max(22, rng.choice([22, 25, 40, n - 2 if n < 257 else 200])))
            body[1] = sum(body[2:2 + body[0]]) & 0xFF
        put("random", bytes(body))
    # combinations of header shape x OS type x kind of body: each feature is harmless alone, and each has code that relies on what
    # the others guarantee (a file has a name; a directory has a path; a Mac member's envelope repeats the name; a link has a target)
    import itertools
    import c06
    stamp = 1000000000
    k = 0
    for nm, pth, perm, meth, osb, body in itertools.product([None, b"ReadMe", b".", b"a|b", b""], [None, b"Folder\xff", b"Folder\xffReadMe\xff", b""],
                                                             [None, 0o120777], [b"-lh0-", b"-lhd-"], [ord("m"), ord("U")], ["mac", "short"]):
        k += 1
        exts = ([arc.x_name(nm)] if nm is not None else []) + ([(arc.X_PATH, pth)] if pth is not None else []) + ([arc.x_perm(perm)] if perm is not None else [])
        data = c06.macbinary(b"ReadMe", b"fork", stamp) if body == "mac" else b"abc"
        if meth == b"-lhd-":
            data = b""
        lvl = 1 + k % 3
        m = arc.Member(level=lvl, method=meth, name=(b"ReadMe" if (lvl == 1 and k % 2) else b""), payload=data, time=stamp if lvl >= 2 else arc.dos_time(2001, 9, 9, 1, 46, 40),
                       os=osb, exts=exts)
        put("shape", m.bytes() + arc.unix_file(b"after/second.txt", b"2nd", level=2).bytes() + b"\0")
    # level 0 / 1 headers whose name length sits on or next to what the header length leaves room for (checksum consistent): the fields
    # behind the name (CRC, OS type, next-header size) are read at offsets computed from it
    body = bytes((i * 7 + 3) & 0xFF for i in range(300))
    for lvl in (0, 1):
        for hl in list(range(22, 256, 7 if tier == "quick" else 1)) + [22, 23, 24, 25, 26, 27, 255, 254]:
            for pl in range(max(0, hl - 27), hl - 18):
                if pl > 255:
                    continue
                h = bytearray(b"\0\0-lh0-" + b"\x04\0\0\0" + b"\x04\0\0\0" + b"\0\0\0\0" + b"\x20" + bytes([lvl, pl]) + body)
                h[0] = hl
                if lvl == 1 and 2 + hl <= len(h) and hl >= 2:
                    h[hl] = 0; h[hl + 1] = 0
                h[1] = sum(h[2:2 + hl]) & 0xFF
                # (the input ends with the header: nothing behind it that a read past its end could quietly pick up)
                put("lengrid", bytes(h[:2 + hl + (2 if lvl == 1 else 0)]) + (b"data" if (hl + pl) % 2 else b""))
    # valid generated archives (members of every kind) bit-flipped in the data area
    for i in range(30 if tier == "quick" else 600):
        raw = bytearray(b"".join(m.raw() for m in RG.random_archive(rng, nmax=5)) + b"\0")
        for _ in range(rng.choice([0, 1, 3, 10])):
            raw[rng.randrange(len(raw))] ^= 1 << rng.randrange(8)
        put("genflip", bytes(raw))
    return out


def run(tier, seed, ev):
    rng = random.Random(seed)
    sc = V.scratch("c08")
    os.chmod(sc, 0o755)
    rdrv = V.build_driver("reader_drv", "san", wrap=True)
    lha = V.lha_binary("san")
    ins = inputs(rng, sc, tier)
    # ---- library: disciplined call patterns, all stream kinds --------------------------------
    jobs = []
    for i, (f, cls) in enumerate(ins):
        for rep in range(2):
            xd = os.path.join(sc, "x%d_%d" % (i, rep))
            os.makedirs(xd)
            ops = RG.random_ops(rng, 4, free_early=0.3)
            kind = rng.choice(["path", "FILE", "pipe", "cb", "cbns"])
            pol = rng.choice(["plain", "eod", "eof"])
            jobs.append("exec - %s %s %s %s 0 s %s" % (f, kind, pol, xd, ",".join(ops)))
            ev.cls(("lib", cls, kind, pol))
    res = TR.run_sharded(rdrv, jobs, sc, "lib", timeout=3000)
    viols = []
    for jf, tr, n, p in res:
        if p.returncode in (2, 3):
            raise V.HarnessError("reader_drv: " + p.stderr.decode()[-400:])
        if p.returncode != 0:
            done = sum(1 for l in open(tr) if l.startswith('{"e":"Free"'))
            jl = open(jf).read().splitlines()
            culprit = jl[done] if done < len(jl) else "?"
            d = V.replay_dir("C08", "libcrash-" + os.path.basename(jf))
            open(os.path.join(d, "job.txt"), "w").write(culprit + "\n")
            parts = culprit.split()
            if len(parts) > 2 and os.path.exists(parts[2]):
                shutil.copy(parts[2], os.path.join(d, "input.bin"))
            open(os.path.join(d, "stderr.txt"), "wb").write(p.stderr or b"")
            viols.append({"replay": d, "msg": "library driver died (exit %s) on %s: %s" % (p.returncode, culprit[:160], (p.stderr or b"").decode(errors="replace")[-900:])})
        elif any(l.startswith('{"e":"Budget"') for l in open(tr)):
            d = V.replay_dir("C08", "budget-" + os.path.basename(jf))
            shutil.copy(jf, os.path.join(d, "jobs.txt"))
            viols.append({"replay": d, "msg": "step budget exhausted (a call did not return) in " + os.path.basename(jf)})
    # ---- command line tool --------------------------------------------------------------------
    cli = [(f, cls, m) for (f, cls) in ins for m in rng.sample(CLI_MODES, 2 if tier == "quick" else 4)] + [(f, cls, "x") for (f, cls) in ins]

    def one(k):
        bad = []
        for j, (f, cls, mode) in enumerate(cli[k::V.NCPU]):
            xd = os.path.join(sc, "cli%d_%d" % (k, j))
            os.makedirs(xd)
            args = [lha, mode + ("w=" + xd if mode.startswith("x") else ""), f]
            try:
                p = V.run_bounded(args, capture_output=True, env=V.run_env(), stdin=subprocess.DEVNULL, timeout=300, cwd=xd)
                rc, err = p.returncode, p.stderr
            except subprocess.TimeoutExpired:
                rc, err = "timeout", b""
            if rc not in (0, 1, 255):
                bad.append((f, cls, mode, rc, err))
            shutil.rmtree(xd, ignore_errors=True)
        return bad
    with cf.ThreadPoolExecutor(max_workers=V.NCPU) as ex:
        for bad in ex.map(one, range(V.NCPU)):
            for (f, cls, mode, rc, err) in bad:
                d = V.replay_dir("C08", "cli-%s-%s" % (mode, os.path.basename(f)))
                shutil.copy(f, os.path.join(d, "input.bin"))
                open(os.path.join(d, "cmd.txt"), "w").write("lha %s input.bin\n" % mode)
                open(os.path.join(d, "stderr.txt"), "wb").write(err or b"")
                viols.append({"replay": d, "msg": "`lha %s` ended abnormally (%s) on a %s input: %s" % (mode, rc, cls, (err or b"").decode(errors="replace")[-700:])})
    for (f, cls, mode) in cli:
        ev.cls(("cli", cls, mode))
    ev.set("evaluations", len(jobs) + len(cli))
    ev.set("library_executions", len(jobs))
    ev.set("cli_executions", len(cli))
    ev.set("inputs", len(ins))
    # ---- a sample of library executions against Reader.tla -------------------------------------
    smp = rng.sample([x for x in ins if os.path.getsize(x[0]) < 20000], 40 if tier == "quick" else 400)
    truths, badref = gtref.reference_truths(rdrv, [f for f, _ in smp], sc, tag="c08ref")
    j2 = []
    for i, (f, cls) in enumerate(smp):
        if f not in truths:
            continue
        g = os.path.join(sc, "t%d.gt.json" % i)
        open(g, "w").write(json.dumps({"e": "Reset", "case": os.path.basename(f), "policy": "eod", "arc": truths[f]}, separators=(",", ":")) + "\n")
        ops = []
        for _ in range(len(truths[f]) + 2):
            ops += ["N"] + rng.choice([[], ["A64"], ["C"], ["R10", "R1000"]])
        j2.append("exec %s %s %s eod - 0 b %s" % (g, f, rng.choice(["path", "cb", "cbns", "pipe"]), ",".join(ops)))
    r2 = TR.run_sharded(rdrv, j2, sc, "val")
    v2, good = TR.validate_all("Trace_Reader", "Trace_Reader", r2, ev, "C08", xmx="4g")
    viols += v2
    for a, p in badref:
        d = V.replay_dir("C08", "ref-" + os.path.basename(a))
        shutil.copy(a, os.path.join(d, "input.bin"))
        viols.append({"replay": d, "msg": "reference run died on %s: %s" % (os.path.basename(a), (p.stderr or b"").decode(errors="replace")[-600:])})
    ev.set("validated_against_Reader", good)
    ev.sample(jobs[0][:250])
    ev.sample({"cli": "lha %s <%s input>" % (cli[0][2], cli[0][1])})
    ev.set("rule", "distinct = (library | cli, input class: header-byte substitutions / truncation / bit flips of corpus archives, generated "
                   "inconsistent length fields, mutated generated headers, random bytes behind a signature, flipped generated archives; "
                   "stream kind and policy | CLI mode)")
    shutil.rmtree(sc, ignore_errors=True)
    return viols


def replay(path):
    print("input and command are in", path)
    return 2
