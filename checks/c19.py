"""C19 - list output renders every member's header fields faithfully in Unix-LHA layout."""
import json, os, random, shutil, concurrent.futures as cf
import vcommon as V
import listgen as LG
import tracerun as TR

LEVEL = "model_checking"
ASSUMPTIONS = ["TZ=UTC; the current time comes from TEST_NOW_TIME (test build)",
               "the digits of the ratio column are computed by a float32 emulation outside TLA+ (harness/py/listgen.py); ListOutput.tla "
               "decides its operands and when ****** is shown",
               "header records are taken as the library returns them (their faithfulness is C05)",
               "TLC/SANY/CommunityModules trusted"]
MODES = ["l", "lv", "v", "vv"]


def build_traces(pid, rng, sc, tier, ev, hostile=False, n=None):
    lha = V.lha_binary("san")
    hd = V.build_driver("header_drv", "san")
    n = n or (60 if tier == "quick" else 8000)
    archives = [LG.make_archive(rng, sc, "a%d" % i, hostile=hostile) for i in range(n)]
    # corpus archives too (third-party headers)
    import glob
    corp = sorted(f for f in glob.glob(os.path.join(V.REPO, "test", "archives", "*", "*")) if os.path.isfile(f) and not f.endswith("README"))
    for f in (rng.sample(corp, 15) if tier == "quick" else corp):
        c = os.path.join(sc, "c_" + os.path.basename(os.path.dirname(f)) + "_" + os.path.basename(f))
        shutil.copy(f, c)
        archives.append(c)
    members, p = LG.collect_members(hd, archives, sc, "m")
    if members is None:
        d = V.replay_dir(pid, "header-dump-crash")
        open(os.path.join(d, "stderr.txt"), "wb").write(p.stderr)
        return None, [{"replay": d, "msg": "header_drv crashed while dumping headers: " + p.stderr.decode(errors="replace")[-800:]}]
    jobs = []
    for a, ms in zip(archives, members):
        names = [bytes(x for x in m["path"] if x >= 0) + bytes(x for x in m["filename"] if x >= 0) for m in ms]
        for mode in MODES:
            variants = [(0, [])]
            if rng.random() < 0.5:
                variants.append((rng.choice([1, 2]), []))
            if names and rng.random() < 0.6:
                nm = rng.choice(names)
                pats = [nm, nm[:1] + b"*", b"*" + nm[-2:], b"?" * len(nm), b"*", b"nomatch*"]
                variants.append((0, rng.sample(pats, rng.choice([1, 2]))))
            for quiet, filt in variants:
                filt = [f for f in filt if f and b"\0" not in f and not f.startswith(b"-")]
                now = rng.choice([LG.NOW, LG.NOW, 0, 15552000, 15551999, 0xFFFFFFFF, rng.getrandbits(32)])
                mtime = rng.choice([0, 1, LG.NOW, LG.NOW - 15552000, 0x7FFFFFFF, rng.getrandbits(31)])
                jobs.append((a, ms, mode, quiet, filt, now, mtime))
                ev.cls((mode, quiet, bool(filt), len(ms) > 0, now == LG.NOW))
    return (lha, jobs), []


def run_jobs(pid, lha, jobs, sc, ev):
    nsh = V.NCPU
    results = []

    def shard(k):
        tr = os.path.join(sc, "list_trace_%d.ndjson" % k)
        n = 0
        with open(tr, "w") as f:
            for (a, ms, mode, quiet, filt, now, mtime) in jobs[k::nsh]:
                # the archive's mtime is set per invocation: give each shard its own copy
                a2 = a + ".s%d" % k
                if not os.path.exists(a2):
                    shutil.copy(a, a2)
                e, p = LG.list_event(lha, a2, ms, mode, quiet, filt, now, mtime)
                if p.returncode not in (0, 1):
                    e = {"e": "Crash", "code": p.returncode, "archive": os.path.basename(a), "stderr": p.stderr.decode(errors="replace")[-500:]}
                f.write(json.dumps(e, separators=(",", ":")) + "\n")
                n += 1

        class P: returncode = 0; stderr = b""
        return tr, tr, n, P()
    with cf.ThreadPoolExecutor(max_workers=nsh) as ex:
        results = [r for r in ex.map(shard, range(nsh)) if r[2] > 0]
    return TR.validate_all("Trace_List", "Trace_List", results, ev, pid, xmx="4g")


def run(tier, seed, ev):
    rng = random.Random(seed)
    sc = V.scratch("c19")
    mc = V.tlc_must_pass("MC_Glob", "MC_Glob", workers=4, xmx="3g")
    ev.tlc(mc)
    if mc.violation:
        raise V.HarnessError("MC_Glob violates " + mc.violation)
    built, viols = build_traces("C19", rng, sc, tier, ev)
    if built is None:
        return viols
    lha, jobs = built
    v, good = run_jobs("C19", lha, jobs, sc, ev)
    viols += [x for x in v]
    # which rows are selected: the real matcher against Glob.tla, exhaustively over short patterns, through the list commands
    import maincommon as MC
    gev = MC.glob_list_events(rng, sc, lha, V.build_driver("header_drv", "san"), tier, ev)
    v2, g2 = MC.validate(gev, sc, ev, "C19")
    viols += v2
    good += g2
    ev.add("traces_validated_against_impl", good)
    ev.set("listings", len(jobs))
    ev.sample({"mode": jobs[0][2], "quiet": jobs[0][3], "filters": [f.decode("latin1") for f in jobs[0][4]], "members": len(jobs[0][1])})
    ev.set("rule", "distinct = (mode, quiet level, wildcard list present, archive non-empty, default `now`)")
    shutil.rmtree(sc, ignore_errors=True)
    return viols


def replay(path):
    print("the rejected listing (members, options, stdout bytes) is the rejected line of trace.ndjson in", path)
    return 2
