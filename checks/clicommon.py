"""Byte-exact validation of `lha t | x | e | p` (+ options q0..q2, i, n, v, w=, wildcards) against Cli.tla."""
import json, os, random, subprocess, shutil
import vcommon as V
import readergen as RG
import listgen as LG
import tracerun as TR


def plain_perms(ms):
    for g in ms:
        g.perms = "default"
    return ms


def crafted(rng, tier):
    """members that make the progress bar interesting: more than 58 blocks (scale factor > 1), declared
    lengths far beyond the data present, empty members, names with bytes that must not reach the terminal"""
    out = []
    big = bytes(rng.randrange(256) for _ in range(61 * 2048 + 5))        # 62 blocks of the stored methods: factor 2
    out.append([RG.G("file", b"big62", data=big, level=1), RG.G("file", b"after", data=b"x" * 2049), RG.G("file", b"one", data=b"x" * 2048)])
    out.append([RG.G("file", b"big127", data=big + big + big[:9000], level=2)])
    g = RG.G("file", b"declared_1M", data=b"hello", level=1); g.length = 1000000
    out.append([g, RG.G("file", b"empty", data=b"", level=0)])
    for nb in (57, 58, 59, 116, 117):
        g = RG.G("file", b"declared_%d_blocks" % nb, data=b"q" * 3000, level=1); g.length = nb * 2048 - rng.choice([0, 1, 2047])
        out.append([g])
    # members that really have nb blocks (every 'o' of the bar is printed): around each change of the scale factor; thorough: all
    blob = bytes(rng.randrange(256) for _ in range(4096)) * 66
    for nb in (range(0, 131) if tier == "thorough" else (0, 1, 2, 57, 58, 59, 60, 115, 116, 117, 118, 130)):
        n = max(0, nb * 2048 - rng.choice([0, 1, 1000, 2047])) if nb else 0
        out.append([RG.G("file", b"full_%d_blocks" % nb, data=blob[:n], level=1 + nb % 2)])
    out.append([RG.G("file", b"ctl\x1b[2Jname\x07", data=b"abc", level=1), RG.G("file", b"hi\xff\x80", data=b"abcd", level=2),
                RG.G("link", b"ln\x9b", target=b"t\x1b]0;x\x07", level=1), RG.G("dir", b"d\x0d", level=1)])
    out.append([RG.G("file", b"un", data=b"abc", method=b"-lh2-"), RG.G("file", b"bad", data=b"abcdef", crc=0x1234), RG.G("file", b"ok", data=b"fine")])
    pool = RG.compressed_pool()
    for meth in sorted(pool):
        payload, plain = pool[meth]
        mm = meth.encode()
        if mm == b"-lk7-":
            continue
        out.append([RG.G("file", b"c_" + mm.strip(b"-"), data=plain, method=mm, payload=payload, level=rng.choice([1, 2]))])
    return out


def hostile(rng, ms):
    """the same archive with every path component and link target decorated with bytes that must never reach a
    terminal (escape, bell, CSI, DEL, CR, LF, TAB, high bytes); 0xFF and '/' are separators and stay out"""
    bad = [b"\x1b[2J", b"\x07", b"\x9b", b"\x7f", b"\r", b"\n", b"\t", b"\x80", b"\xfe", b"\x1b]0;t\x07", b"\x01", b"\x1f"]
    ren = {}

    def comp(c):
        if c not in ren:
            ren[c] = c + rng.choice(bad) + (rng.choice(bad) if rng.random() < 0.3 else b"")
        return ren[c]
    for g in ms:
        trail = g.path.endswith(b"/")
        cs = g.path.strip(b"/").split(b"/")
        # (a MacBinary envelope repeats the file name: those members keep theirs)
        g.path = b"/".join([comp(c) for c in cs[:-1]] + [cs[-1] if g.outer is not None else comp(cs[-1])]) + (b"/" if trail else b"")
        if g.target is not None:
            g.target = g.target + rng.choice(bad)
    return ms


def commands(rng, mode_pool):
    mode = rng.choice(mode_pool)
    opts = ""
    if mode in ("x", "e"):
        opts += rng.choice(["f", "q0", "q1", "q2", "q"])
    else:
        opts += rng.choice(["", "", "q0", "q1", "q2", "q"])
    if rng.random() < 0.2:
        opts = "i" + opts
    if rng.random() < 0.15:
        opts = "v" + opts
    if rng.random() < 0.3:
        opts += "n"
    return mode, opts


def parse_events(rng, sc, lha, hdr, tier, ev):
    """arbitrary command words: usage page iff Cli!ParseCommand rejects; otherwise the output for the derived options"""
    ms = [RG.G("dir", b"d", level=1), RG.G("file", b"d/f1", data=b"hello\n", level=1), RG.G("file", b"g", data=b"x" * 3000, level=2),
          RG.G("link", b"ln", target=b"g", level=1), RG.G("file", b"bad", data=b"abc", crc=1, level=1)]
    a, _ = RG.write_case(sc, "parse", ms, "eod")
    os.chmod(a, 0o644)
    members, p = LG.collect_members(hdr, [a], sc, "parse")
    recs = members[0]
    out = []
    words = ["x", "e", "t", "p", "l", "v", "-x", "-t", "--t", "xq", "xq0", "xq1", "xq2", "xq3", "xq9", "xqq", "xq1q", "tq1n", "xfin", "xnf", "xw", "xw=", "xw=o",
             "xwo", "xfw=o", "xw=of", "xw==o", "xnw-o", "tw-o", "xnw=-o", "pnwq1", "xnwf", "tz", "z", "", "-", "xQ", "x0", "xqf", "tqn", "pn", "pq", "pq1", "xiq0", "xvq1f", "xn", "en", "tn", "T", "X"]
    import itertools
    for L in ((1, 2) if tier == "quick" else (1, 2, 3)):          # exhaustive short words
        words += ["".join(t) for t in itertools.product("xtplq09finvw=-z", repeat=L)]
    words = sorted(set(words), key=lambda w: (len(w), w))
    alpha = "lvtexpfinqw=0129z-"
    for _ in range(30 if tier == "quick" else 600):
        words.append(rng.choice("lvtexp-z") + "".join(rng.choice(alpha) for _ in range(rng.randint(0, 5))))
    for k, w in enumerate(words):
        cwd = os.path.join(sc, "pc%d" % k)
        os.makedirs(cwd)
        os.chmod(cwd, 0o777)
        cmd = [lha, w, a]
        if os.geteuid() == 0:
            cmd = ["setpriv", "--reuid=65534", "--regid=65534", "--clear-groups"] + cmd       # ("xw" alone extracts into "/")
        pr = V.run_bounded(cmd, capture_output=True, env=V.run_env(), stdin=subprocess.DEVNULL, timeout=120, cwd=cwd)
        if pr.returncode < 0 or pr.returncode == 99:
            raise V.HarnessError("lha %r died: %s" % (w, pr.stderr.decode(errors="replace")[-300:]))
        helped = pr.stdout.startswith(b"Lhasa v") and b"usage:" in pr.stdout and pr.returncode == 255
        mm = []
        for g, r in zip(ms, recs):
            t = g.truth()
            m = dict(r)
            m["produced"] = len(g.data[:g.length]) if t["sup"] else 0
            m["good"] = bool(t["good"])
            m["data"] = t["data"]
            m["exists"] = False
            mm.append(m)
        out.append({"e": "Parse", "cmd": list(w.encode()), "help": helped, "members": mm, "out": [] if helped else list(pr.stdout), "code": pr.returncode})
        ev.cls(("parse", helped, w[:1]))
        shutil.rmtree(cwd, ignore_errors=True)
    ev.add("command_words_tried", len(words))
    ev.set("command_words_exhaustive_up_to_length", 2 if tier == "quick" else 3)
    return out


def glob_events(rng, sc, lha, hdr, tier, ev):
    """the real wildcard matcher against Glob.tla, exhaustively over short patterns: one archive whose members are
    named by every string of up to 3 characters over {a, b, ?, *}, every pattern of up to 3 (thorough: 5) characters
    over {*, ?, a, b} (plus a sample of longer ones) as the only argument of `lha xn` / `lha pq2`"""
    import itertools
    names = [bytes(t) for L in (1, 2, 3) for t in itertools.product(b"ab?*", repeat=L)]
    names += [b"d/" + n for n in (b"a", b"ab", b"?", b"b*")]
    ms = [RG.G("file", n, data=n + b"\n", level=1 + (i % 2)) for i, n in enumerate(names)]
    a, _ = RG.write_case(sc, "glob", ms, "eod")
    members, p = LG.collect_members(hdr, [a], sc, "glob")
    recs = members[0]
    if len(recs) != len(ms):
        raise V.HarnessError("glob archive: %d members written, %d listed" % (len(ms), len(recs)))
    mm = []
    for g, r in zip(ms, recs):
        m = dict(r)
        m.update(produced=len(g.data), good=True, data=list(g.data), exists=False)
        mm.append(m)
    maxl = 3 if tier == "quick" else 5
    pats = [bytes(t) for L in range(1, maxl + 1) for t in itertools.product(b"*?abd/", repeat=L)]
    for _ in range(120 if tier == "quick" else 1500):
        pats.append(bytes(rng.choice(b"**??ab/d") for _ in range(rng.randint(maxl + 1, 7))))
    out = []
    for k, pat in enumerate(pats):
        word = "xn" if k % 2 else "pq2"
        pr = V.run_bounded([lha.encode(), word.encode(), a.encode(), pat], capture_output=True, env=V.run_env(), stdin=subprocess.DEVNULL, timeout=120, cwd=sc)
        if pr.returncode < 0 or pr.returncode == 99:
            raise V.HarnessError("lha %s with pattern %r died: %s" % (word, pat, pr.stderr.decode(errors="replace")[-300:]))
        out.append({"e": "Run", "cmd": list(word.encode()), "filters": [list(pat)], "members": mm if word == "pq2" else [dict(m, data=[]) for m in mm],
                    "out": list(pr.stdout), "code": pr.returncode, "archive": "glob.lzh"})
    ev.add("wildcard_patterns_exhaustive_up_to_length", maxl)
    ev.add("wildcard_patterns_tried", len(pats))
    ev.cls(("glob", maxl))
    return out


def run(pid, tier, seed, ev, count, hostile_names=False, modes=("t", "x", "e", "p"), globs=False):
    rng = random.Random(seed ^ 0xC11)
    sc = V.scratch(pid.lower() + "cli")
    lha = V.lha_binary("san")
    hdr = V.build_driver("header_drv", "san")
    sets = crafted(rng, tier)
    ncrafted = len(sets)
    for i in range(count):
        ms = plain_perms(RG.random_archive(rng, nmax=5))
        if hostile_names and i % 2 == 0:
            ms = hostile(rng, ms)
        sets.append(ms)
    archives = []
    for i, ms in enumerate(sets):
        a, _ = RG.write_case(sc, "a%d" % i, ms, "eod")
        archives.append(a)
    members, p = LG.collect_members(hdr, archives, sc, "cli")
    if members is None:
        raise V.HarnessError("header_drv: " + p.stderr.decode()[-300:])
    events = []
    for i, (ms, a, recs) in enumerate(zip(sets, archives, members)):
        if len(recs) != len(ms):
            raise V.HarnessError("archive %s: generator wrote %d members, library lists %d" % (a, len(ms), len(recs)))
        if any(LG.val(r["length"]) >= 2 ** 31 - 2 ** 20 for r in recs):
            continue
        for rep in range(2 if tier == "quick" else 5):
            mode, opts = commands(rng, modes)
            if i < ncrafted and rep == 0:
                mode, opts = ("t", "") if "t" in modes else ("x", "f") if "x" in modes else (modes[0], "")   # the crafted cases: always once in full
            if mode == "p" and sum(len(g.data) for g in ms) > 30000:
                mode = "t"
            xd = os.path.join(sc, "x%d_%d" % (i, rep))
            os.makedirs(xd)
            word = mode + opts + "w=" + xd
            filters = []
            if rng.random() < 0.25:
                filters = [rng.choice([b"*", b"a*", b"*/*", b"?", b"c_*", b"*1*", b"big*"])]
            pre = set()
            if "n" in opts and rng.random() < 0.5:
                # something already there, for the dry run to remark on
                for g in ms:
                    if g.kind == "file" and rng.random() < 0.5 and b"/" not in g.path.strip(b"/") and b"\0" not in g.path:
                        try:
                            open(os.path.join(xd.encode(), g.path), "wb").write(b"old")
                            pre.add(g.path)
                        except OSError:
                            pass
            # an extraction whose output file cannot be created (a directory sits at its path): no bytes are produced, so the member
            # must be reported as a failure however good its data is (Cli!Output with produced = 0, good = FALSE)
            blocked = set()
            if mode in ("x", "e") and "n" not in opts and "i" not in opts and rng.random() < 0.3:
                for g in ms:
                    if g.kind == "file" and g.outer is None and rng.random() < 0.5 and b"\0" not in g.path and g.method.decode("latin1") in RG.SUPPORTED \
                            and not any(o is not g and (o.path.rstrip(b"/") == g.path or o.path.startswith(g.path + b"/")) for o in ms):
                        try:
                            os.makedirs(os.path.join(xd.encode(), g.path.lstrip(b"/")))
                            blocked.add(g.path)
                        except OSError:
                            pass
            pr = V.run_bounded([lha.encode(), word.encode(), a.encode()] + filters, capture_output=True, env=V.run_env(),
                                stdin=subprocess.DEVNULL, timeout=300)
            if pr.returncode < 0 or pr.returncode == 99:
                raise V.HarnessError("lha %s %s died: %s" % (word, a, pr.stderr.decode(errors="replace")[-300:]))
            mm = []
            for g, r in zip(ms, recs):
                t = g.truth()
                inner = g.data[:g.length] if t["sup"] else b""
                m = dict(r)
                m["produced"] = len(inner)
                m["good"] = bool(t["good"])
                m["data"] = t["data"] if (mode == "p" and "n" not in opts) else []
                # (what the dry run remarks on is the output path: under option i that is the last component, so a member deeper in the
                #  archive can meet a file that was put there for a top-level member of the same name)
                m["exists"] = (g.path.rstrip(b"/").split(b"/")[-1] if ("i" in opts and g.kind != "dir") else g.path) in pre
                if g.path in blocked:
                    m["produced"], m["good"] = 0, False
                mm.append(m)
            events.append({"e": "Run", "cmd": list(word.encode()), "filters": [list(f) for f in filters], "members": mm,
                           "out": list(pr.stdout), "code": pr.returncode, "archive": os.path.basename(a),
                           "archive_hex": open(a, "rb").read().hex() if os.path.getsize(a) < 4096 else "(large: see clicommon.crafted)"})
            ev.cls(("cli", mode, opts, bool(filters)))
            shutil.rmtree(xd, ignore_errors=True)
    events += parse_events(rng, sc, lha, hdr, tier, ev)
    if globs:
        events += glob_events(rng, sc, lha, hdr, tier, ev)
    nsh = min(V.NCPU, max(1, len(events) // 4))
    results = []
    for k in range(nsh):
        tr = os.path.join(sc, "cli_trace_%d.ndjson" % k)
        sub = events[k::nsh]
        with open(tr, "w") as f:
            for e in sub:
                f.write(json.dumps(e, separators=(",", ":")) + "\n")
        results.append((tr, tr, len(sub), subprocess.CompletedProcess([], 0, b"", b"")))
    viols, good = TR.validate_all("Trace_Cli", "Trace_Cli", results, ev, pid, xmx="3g", timeout=1500)
    ev.add("cli_invocations_validated", len(events))
    shutil.rmtree(sc, ignore_errors=True)
    return viols
