"""Whole invocations of the tool as main() sees them (Cli!Main): argument shapes, the archive named by a path, by "-"
with the file itself on standard input, by "-" with a pipe on standard input; open failures; the usage page.
Every event is decided by Trace_Cli!TInvoke: stdout = Cli!MainOutput (listing or command output) byte for byte for the
members the archive yields when read from a seekable file."""
import fcntl, json, os, random, shutil, subprocess
import vcommon as V
import readergen as RG
import listgen as LG
import tracerun as TR

NOW = LG.NOW
F_SETPIPE_SZ = 1031


def _records(ms, recs, want_data):
    out = []
    for g, r in zip(ms, recs):
        t = g.truth()
        m = dict(r)
        m["ratio"] = list(LG.ratio_text(LG.val(r["packed"]), LG.val(r["length"])))
        m["produced"] = len(g.data[:g.length]) if t["sup"] else 0
        m["good"] = bool(t["good"])
        m["data"] = t["data"] if want_data else []
        m["exists"] = False
        out.append(m)
    return out


def _totalratio(recs, filters):
    sp = sl = 0
    for m in recs:
        full = bytes(x for x in m["path"] if x >= 0) + bytes(x for x in m["filename"] if x >= 0)
        if not filters or any(LG.glob_match(f, full) for f in filters):
            sp = (sp + LG.val(m["packed"])) & 0xFFFFFFFF
            sl = (sl + LG.val(m["length"])) & 0xFFFFFFFF
    return list(LG.ratio_text(sp, sl))


def _stdin_for(src, data, archive):
    """returns (file object or constant for stdin=, mtime the tool will see through fstat)"""
    if src == "redirect":
        f = open(archive, "rb")
        return f, int(os.fstat(f.fileno()).st_mtime)
    if src == "pipe":
        r, w = os.pipe()
        try:
            fcntl.fcntl(w, F_SETPIPE_SZ, max(4096, len(data) + 4096))
        except OSError:
            pass
        os.set_blocking(w, False)
        n = os.write(w, data) if data else 0
        os.close(w)
        if n != len(data):
            os.close(r)
            raise V.HarnessError("pipe too small for %d bytes" % len(data))
        f = os.fdopen(r, "rb")
        return f, int(os.fstat(f.fileno()).st_mtime)
    if src == "drip":
        # a pipe whose writer hands over 7 bytes at a time (short reads at the operating system level); only used where the
        # listing footer (the pipe's modification time) is not printed
        pr = subprocess.Popen(["dd", "if=" + archive, "bs=7"], stdout=subprocess.PIPE, stderr=subprocess.DEVNULL)
        return pr.stdout, 0
    if src == "null":
        f = open("/dev/null", "rb")
        return f, int(os.fstat(f.fileno()).st_mtime)
    return subprocess.DEVNULL, 0


def invoke_events(rng, sc, lha, hdr, tier, ev, prefixers=()):
    sets = []
    pool = RG.compressed_pool()
    lh5 = pool.get("-lh5-")
    lh1 = pool.get("-lh1-")
    base = [RG.G("dir", b"d", level=1), RG.G("file", b"d/f1", data=b"hello\n", level=1), RG.G("file", b"g", data=b"x" * 3000, level=2),
            RG.G("link", b"ln", target=b"g", level=1), RG.G("file", b"bad", data=b"abc", crc=1, level=0), RG.G("file", b"un", data=b"abc", method=b"-lh2-")]
    if lh5:
        base.append(RG.G("file", b"c5", data=lh5[1], method=b"-lh5-", payload=lh5[0], level=2))
    sets.append(("base", base))
    two = [RG.G("file", b"a.txt", data=b"A" * 70000, level=1)]
    if lh1:
        two.append(RG.G("file", b"sub/b.bin", data=lh1[1], method=b"-lh1-", payload=lh1[0], level=1))
    sets.append(("two", two))
    sets.append(("good", [RG.G("file", b"only", data=b"fine\n", level=2)]))
    for i in range(2 if tier == "quick" else 12):
        ms = RG.random_archive(rng, nmax=4, with_mac=False)
        for g in ms:
            g.perms = "default"
        sets.append(("r%d" % i, ms))
    arcs = []
    for tag, ms in sets:
        a, _ = RG.write_case(sc, "inv_" + tag, ms, "eod")
        os.chmod(a, 0o644)
        arcs.append(a)
    members, p = LG.collect_members(hdr, arcs, sc, "inv")
    if members is None:
        raise V.HarnessError("header_drv: " + p.stderr.decode()[-300:])
    cases = []                       # (tag, archive path, data, generator members, records)
    for (tag, ms), a, recs in zip(sets, arcs, members):
        if len(recs) != len(ms):
            raise V.HarnessError("archive %s: generator wrote %d members, library lists %d" % (a, len(ms), len(recs)))
        if any(LG.val(r["length"]) >= 2 ** 31 - 2 ** 20 for r in recs):
            continue
        data = open(a, "rb").read()
        cases.append((tag, a, data, ms, recs))
        # the same archive behind a self-extractor stub: same members (C16), whatever it is read through
        for pi, pf in enumerate(prefixers):
            if tag in ("base", "two") or rng.random() < 0.3:
                pa = os.path.join(sc, "inv_%s_p%d.bin" % (tag, pi))
                d2 = pf(rng) + data
                open(pa, "wb").write(d2)
                cases.append(("%s+stub%d" % (tag, pi), pa, d2, ms, recs))
    words = ["l", "lv", "v", "vv", "lq2", "vq1", "t", "tq1", "tq2", "p", "pq2", "pq1", "xn", "en", "tn", "-l", "-t"]
    events = []
    k = 0

    def run(args, src, data, archive, ms, recs, cwd, there, why=b""):
        nonlocal k
        k += 1
        inv_mode = None
        stdin, mt = _stdin_for(src, data, archive)
        if src == "path" and there and archive and os.path.exists(archive):
            mt = int(os.stat(archive).st_mtime)
        try:
            pr = V.run_bounded([lha.encode()] + args, capture_output=True, env=V.run_env(TEST_NOW_TIME=str(NOW)), stdin=stdin, timeout=300, cwd=cwd)
        finally:
            if hasattr(stdin, "close"):
                stdin.close()
        if pr.returncode < 0 or pr.returncode == 99:
            raise V.HarnessError("lha %r died: %s" % (args, pr.stderr.decode(errors="replace")[-300:]))
        word = args[0] if len(args) >= 2 else b"l"
        printing = word.lstrip(b"-")[:1] == b"p" and b"n" not in word
        filters = args[2:] if len(args) >= 2 else []
        mm = _records(ms, recs, printing)
        helped = b"usage: " in pr.stdout
        events.append({"e": "Invoke", "args": [list(x) for x in args], "prog": list(lha.encode()), "src": src, "there": bool(there), "why": list(why),
                       "help": helped, "members": mm, "now": LG.w32(NOW), "mtime": LG.w32(mt & 0xFFFFFFFF), "totalratio": _totalratio(recs, filters),
                       "out": list(pr.stdout), "err": list(pr.stderr) if not there else [], "code": pr.returncode})
        ev.cls(("invoke", src, len(args), word[:2].decode("latin1"), bool(there), helped))

    for tag, a, data, ms, recs in cases:
        ab = a.encode()
        for w in (words if not tag.startswith("r") else rng.sample(words, 5)):
            filt = []
            if rng.random() < 0.25:
                filt = [rng.choice([b"*", b"d/*", b"?", b"c*", b"*.txt", b"sub/*", b"nomatch"])]
            srcs = ["path", "redirect", "pipe"] if len(data) < 900000 else ["path", "redirect"]
            if w in ("lq2", "t", "tq1", "tq2", "p", "pq2", "pq1", "xn", "en", "tn", "-t") and len(data) < 200000:
                srcs.append("drip")
            for src in srcs:
                name = ab if src == "path" else b"-"
                run([w.encode(), name] + filt, src, data, a, ms, recs, sc, True)
        # extraction proper, into a fresh directory per source
        for src in ("path", "redirect", "pipe"):
            xd = os.path.join(sc, "invx%d" % k)
            os.makedirs(xd)
            run([b"xfw=" + xd.encode(), ab if src == "path" else b"-"], src, data, a, ms, recs, sc, True)
            shutil.rmtree(xd, ignore_errors=True)
        # one argument: the archive is listed, whatever the argument looks like
        run([ab], "path", data, a, ms, recs, sc, True)
        run([b"-"], "redirect", data, a, ms, recs, sc, True)
        run([b"-"], "pipe", data, a, ms, recs, sc, True)
    tag, a, data, ms, recs = cases[0]
    ab = a.encode()
    # argument shapes
    cwd = os.path.join(sc, "invcwd")
    os.makedirs(cwd)
    for nm in ("t", "x", "lv"):                                   # archives whose names are command words
        shutil.copy(a, os.path.join(cwd, nm))
        os.utime(os.path.join(cwd, nm), (NOW - 1000, NOW - 1000))
    enoent = os.strerror(2).encode()
    # only the name "-" means standard input: an archive whose name merely begins with '-' is a file
    for nm in ("-arc.lzh", "--", "-l"):
        shutil.copy(a, os.path.join(cwd, nm))
        os.utime(os.path.join(cwd, nm), (NOW - 2000, NOW - 2000))
        for w in (b"l", b"t", b"pq2"):
            run([w, nm.encode()], "path", data, os.path.join(cwd, nm), ms, recs, cwd, True)
    run([b"-arc.lzh"], "path", data, os.path.join(cwd, "-arc.lzh"), ms, recs, cwd, True)
    run([b"l", b"-missing"], "path", b"", "", [], [], cwd, False, enoent)
    run([], "none", b"", "", [], [], cwd, False)
    run([b"t"], "path", data, os.path.join(cwd, "t"), ms, recs, cwd, True)          # "lha t" = list the archive called t
    run([b"x"], "path", data, os.path.join(cwd, "x"), ms, recs, cwd, True)
    run([b"lv"], "path", data, os.path.join(cwd, "lv"), ms, recs, cwd, True)
    run([b"t", b"t"], "path", data, os.path.join(cwd, "t"), ms, recs, cwd, True)
    run([b"l"], "path", b"", "", [], [], cwd, False, enoent)                         # no archive called l
    run([b"p"], "path", b"", "", [], [], cwd, False, enoent)
    run([b"nonexistent.lzh"], "path", b"", "", [], [], cwd, False, enoent)
    for w in (b"l", b"v", b"t", b"x", b"p", b"xn", b"lq2"):
        run([w, b"missing.lzh"], "path", b"", "", [], [], cwd, False, enoent)
        run([w, b"missing.lzh", b"*"], "path", b"", "", [], [], cwd, False, enoent)
    run([b"l", b"t/below"], "path", b"", "", [], [], cwd, False, os.strerror(20).encode())   # ENOTDIR
    run([b"l", b""], "path", b"", "", [], [], cwd, False, enoent)
    for w in (b"z", b"", b"lz", b"xq1z", b"L", b"--l", b"l-", b"x="):                # rejected command words: usage page
        run([w, ab], "path", data, a, ms, recs, cwd, True)
        run([w, b"missing.lzh"], "path", b"", "", [], [], cwd, False)
        run([w, ab, b"*"], "path", data, a, ms, recs, cwd, True)
    # a rejected word alone is an archive name
    run([b"z"], "path", b"", "", [], [], cwd, False, enoent)
    run([b""], "path", b"", "", [], [], cwd, False, enoent)
    # a directory where an archive is expected: it can be opened, every read fails, the archive has no members
    os.makedirs(os.path.join(cwd, "adir"))
    os.utime(os.path.join(cwd, "adir"), (NOW - 3000, NOW - 3000))
    for w in (b"l", b"v", b"t", b"p", b"xn"):
        run([w, b"adir"], "path", b"", os.path.join(cwd, "adir"), [], [], cwd, True)
    run([b"adir"], "path", b"", os.path.join(cwd, "adir"), [], [], cwd, True)
    # nothing behind "-"
    for w in (b"l", b"v", b"t", b"p", b"x"):
        run([w, b"-"], "null", b"", "", [], [], cwd, True)
    run([b"-"], "null", b"", "", [], [], cwd, True)
    # "-" with filters, and an archive called "-" is not reachable by that name
    run([b"l", b"-", b"d/*", b"g"], "pipe", data, a, ms, recs, cwd, True)
    run([b"t", b"-", b"bad"], "redirect", data, a, ms, recs, cwd, True)
    ev.set("invocations_by_source", {s: sum(1 for e in events if e["src"] == s) for s in ("path", "redirect", "pipe", "drip", "null", "none")})
    return events


def glob_list_events(rng, sc, lha, hdr, tier, ev):
    """the list commands select rows by the same wildcard semantics (Glob.tla): one archive whose members are named by every
    string of up to 3 characters over {a, b, ?, *} (plus some below a directory), every pattern of up to 3 (thorough: 4)
    characters over {*, ?, a, b} and a sample of longer ones and of two-pattern lists, as arguments of lq2 / l / v"""
    import itertools
    names = [bytes(t) for L in (1, 2, 3) for t in itertools.product(b"ab?*", repeat=L)]
    names += [b"d/" + n for n in (b"a", b"ab", b"?", b"b*")]
    ms = [RG.G("file", n, data=n + b"\n", level=1 + (i % 2)) for i, n in enumerate(names)]
    a, _ = RG.write_case(sc, "globlist", ms, "eod")
    os.chmod(a, 0o644)
    os.utime(a, (NOW - 5000, NOW - 5000))
    members, p = LG.collect_members(hdr, [a], sc, "globlist")
    recs = members[0]
    if len(recs) != len(ms):
        raise V.HarnessError("glob archive: %d members written, %d listed" % (len(ms), len(recs)))
    mm = _records(ms, recs, False)
    maxl = 3 if tier == "quick" else 4
    lists = [[bytes(t)] for L in range(1, maxl + 1) for t in itertools.product(b"*?abd/", repeat=L)]
    for _ in range(60 if tier == "quick" else 1200):
        lists.append([bytes(rng.choice(b"**??ab/d") for _ in range(rng.randint(maxl + 1, 7)))])
    for _ in range(40 if tier == "quick" else 600):
        lists.append([bytes(rng.choice(b"*?ab") for _ in range(rng.randint(1, 3))) for _ in range(2)])
    events = []
    mt = int(os.stat(a).st_mtime)
    for k, pats in enumerate(lists):
        word = [b"lq2", b"lq2", b"l", b"vq2"][k % 4]
        pr = V.run_bounded([lha.encode(), word, a.encode()] + pats, capture_output=True, env=V.run_env(TEST_NOW_TIME=str(NOW)), stdin=subprocess.DEVNULL, timeout=120, cwd=sc)
        if pr.returncode < 0 or pr.returncode == 99:
            raise V.HarnessError("lha %s with patterns %r died: %s" % (word, pats, pr.stderr.decode(errors="replace")[-300:]))
        events.append({"e": "Invoke", "args": [list(word), list(a.encode())] + [list(x) for x in pats], "prog": list(lha.encode()), "src": "path", "there": True, "why": [],
                       "help": b"usage: " in pr.stdout, "members": mm, "now": LG.w32(NOW), "mtime": LG.w32(mt), "totalratio": _totalratio(recs, pats),
                       "out": list(pr.stdout), "err": [], "code": pr.returncode})
    ev.set("list_wildcard_patterns_exhaustive_up_to_length", maxl)
    ev.set("list_wildcard_lists_tried", len(lists))
    ev.cls(("glob-list", maxl))
    return events


def validate(events, sc, ev, pid):
    nsh = min(V.NCPU, max(1, len(events) // 8))
    results = []
    for k in range(nsh):
        tr = os.path.join(sc, "inv_trace_%d.ndjson" % k)
        sub = events[k::nsh]
        with open(tr, "w") as f:
            for e in sub:
                f.write(json.dumps(e, separators=(",", ":")) + "\n")
        results.append((tr, tr, len(sub), subprocess.CompletedProcess([], 0, b"", b"")))
    viols, good = TR.validate_all("Trace_Cli", "Trace_Cli", results, ev, pid, xmx="3g", timeout=1500)
    ev.add("tool_invocations_validated", len(events))
    return viols, good
