"""C01 - LHA static-Huffman methods (lh4/5/6/7/x, lk7) decode every valid stream exactly."""
import vcommon as V
import codeccommon as CC

LEVEL = "model_checking"
ASSUMPTIONS = ["valid = complete prefix code or the n = 0 single-symbol form, as the independent encoder (harness/py/enc/enc_lhnew.py) emits them",
               "the encoder's structural suite enumerates: every code symbol and offset symbol of the method, all three zero-run forms, the "
               "four skip-field values, n = 0 forms of all three tables, 16-bit codes, blocks of one command, empty blocks, distances into "
               "the pre-filled window and up to the window size",
               "TLC/SANY/CommunityModules trusted"]
METHODS = ["-lh4-", "-lh5-", "-lh6-", "-lh7-", "-lhx-", "-lk7-"]


def run(tier, seed, ev):
    import concurrent.futures as cf
    with cf.ThreadPoolExecutor(max_workers=2) as ex:
        mc = ex.submit(V.tlc_must_pass, "MC_Codec_Huff", "MC_Codec_Huff", workers=2, xmx="4g", timeout=1800)
        viols = CC.run("C01", [("lhnew", m) for m in METHODS], tier, seed, ev, 12000 if tier == "quick" else 1500000)
        viols += CC.ground(tier, METHODS, ev)
        r = mc.result()
        ev.tlc(r)
        if r.violation:
            raise V.HarnessError("MC_Codec_Huff violates " + r.violation)
    ev.set("rule", "one execution per (stream, read schedule); distinct = (method, structural case label of the encoder suite)")
    return viols


def replay(path):
    print("job, stream and rejected execution are in", path)
    return 2
