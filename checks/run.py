#!/usr/bin/env python3
"""Single entry point:  run.py <Cxx> quick|thorough      run.py <Cxx> --replay <path>
exit 0: property held on everything explored (KNOWN-FINDING lines allowed)
exit 1: VIOLATION property=<id> replay=<path> printed
exit 2: harness / model failure (no verdict)"""
import importlib, os, sys, time, traceback
sys.path.insert(0, os.path.join(os.path.dirname(os.path.abspath(__file__)), "..", "harness", "py"))
sys.path.insert(0, os.path.dirname(os.path.abspath(__file__)))
import vcommon as V


def main():
    if len(sys.argv) < 3:
        print(__doc__)
        return 2
    pid = sys.argv[1].upper()
    mod = importlib.import_module(pid.lower())
    seed = V.seed_from_env()
    if sys.argv[2] == "--replay":
        return mod.replay(sys.argv[3])
    tier = os.environ.get("VERIF_TIER") if sys.argv[2] not in ("quick", "thorough") else sys.argv[2]
    if tier not in ("quick", "thorough"):
        tier = "quick"
    import shutil
    shutil.rmtree(os.path.join(V.BUILD, V.REPLAYS, pid), ignore_errors=True)
    ev = V.Evidence(pid, tier, seed, mod.LEVEL)
    ev.assumptions = list(getattr(mod, "ASSUMPTIONS", []))
    try:
        viols = mod.run(tier, seed, ev) or []
    except V.HarnessError as e:
        import re
        if re.search(r"==\d+==ABORTING|SUMMARY: \w+Sanitizer|ERROR: \w+Sanitizer|^lha .* died\b|generator wrote \d+ members, library lists \d+", str(e)):
            # not a failure of the machinery: a run of the code under test died (a sanitizer report, or the tool killed by a signal), or listed other members than the generator wrote, at a place where the check only
            # expected results (a reference run, the listing of members, ...).  An execution that dies returns nothing, so the property
            # does not hold on it; say so rather than "no verdict".
            d = V.replay_dir(pid, "died")
            open(os.path.join(d, "why.txt"), "w").write(str(e) + "\n\n" + traceback.format_exc())
            ev.violations = 1
            ev.set("died_in_sanitizer_report", 1)
            ev.write()
            V.violation(pid, d, "a run of the code under test died: " + str(e)[-600:])
            print("%s %s: VIOLATED in %.1fs" % (pid, tier, time.time() - ev.t0))
            return 1
        print("HARNESS-FAILURE %s: %s" % (pid, e))
        traceback.print_exc()
        return 2
    known = V.known_findings(pid)
    new = []
    seen_known = {}
    for v in viols:
        sig = v.get("signature")
        k = next((e for e in known if sig and e.get("signature") == sig), None)
        if k is not None:
            seen_known.setdefault(k["signature"], k)
        else:
            new.append(v)
    for k in seen_known.values():
        V.known_finding_line(pid, k["what"])
    ev.violations = len(new)
    ev.set("known_findings_reproduced", len(seen_known))
    ev.write()
    for v in new:
        V.violation(pid, v["replay"], v.get("msg", ""))
    print("%s %s: %s in %.1fs" % (pid, tier, "VIOLATED" if new else "ok", time.time() - ev.t0))
    return 1 if new else 0


if __name__ == "__main__":
    sys.exit(main())
