"""C20 - freeing a reader releases everything, on any call history or allocation failure."""
import json, os, random, re, shutil
import vcommon as V
import readergen as RG
import tracerun as TR

LEVEL = "fault_enumeration"
ASSUMPTIONS = ["allocations are observed by link-time interposition of malloc/calloc/realloc/strdup/free/fopen/fdopen/fclose "
               "while a library call is in progress; libc-internal allocations (stdio buffers) are not counted",
               "caller discipline of the statement: at most one decode operation per member, one extract per entry",
               "TLC/SANY/CommunityModules trusted"]
POLICIES = ["plain", "eod", "eof"]
CFG = "Trace_Reader_leaks"


def histories(rng, sc, ncases, nprefix):
    hs = []
    for ci in range(ncases):
        ms = RG.random_archive(rng, nmax=rng.choice([1, 2, 3, 4, 6]), allow_bad=(ci % 3 == 0))
        # make sure dangerous symlinks and nested directories are well represented
        if ci % 4 == 1:
            ms.append(RG.G("link", b"zz%d" % ci, target=rng.choice([b"/abs", b"../up", b"a/../../b"]), level=rng.choice([1, 2])))
        if ci % 4 == 2:
            ms = [RG.G("dir", b"n1"), RG.G("dir", b"n1/n2"), RG.G("file", b"n1/n2/f", data=b"x" * 7)] + ms
        pol = rng.choice(POLICIES)
        a, g = RG.write_case(sc, "h%d" % ci, ms, pol)
        ops = RG.random_ops(rng, len(ms), free_early=0)
        if ci % 2 == 0:
            # extraction-heavy script so that directories are re-presented and links deferred
            ops = []
            for _ in range(len(ms) * 2 + 4):
                ops += ["N", "X"] if rng.random() < 0.8 else ["N"]
                if ci % 4 == 0 and rng.random() < 0.2:
                    ops.append("P" + rng.choice(["plain", "eod", "eof"]))      # the policy may change while directories are pending
        cuts = sorted(set([len(ops)] + [rng.randrange(1, len(ops) + 1) for _ in range(nprefix)]))
        for c in cuts:
            hs.append((g, a, pol, ops[:c], rng.choice(["path", "path", "FILE", "cb", "cbns"])))
    return hs


def failing_extractions(rng, sc):
    """extract operations that fail half-way for reasons of the file system, not of memory: a dangerous link whose placeholder cannot
    be created (its directory was never extracted), a file or link below a directory that was skipped - whatever the operation had taken by then must still be released"""
    hs = []
    cases = [
        ([RG.G("dir", b"nodir"), RG.G("link", b"nodir/link", target=b"../outside", level=2), RG.G("file", b"hello.txt", data=b"hi")], ["N", "N", "X", "N", "X", "N", "N"]),
        ([RG.G("dir", b"skipped"), RG.G("file", b"skipped/f", data=b"data"), RG.G("link", b"skipped/s", target=b"t", level=1)], ["N", "N", "X", "N", "X", "N"]),
        ([RG.G("link", b"a/b/c", target=b"../../../up", level=2), RG.G("link", b"l2", target=b"/abs", level=1)], ["N", "X", "N", "X", "N", "X", "N", "X", "N"]),
    ]
    for ci, (ms, ops) in enumerate(cases):
        for pol in POLICIES:
            a, g = RG.write_case(sc, "fx%d%s" % (ci, pol), ms, pol)
            for cut in sorted(set([len(ops), 3, 4])):
                hs.append((g, a, pol, ops[:cut], ["path", "cb"][ci % 2]))
    # the directory policy changed while directories are pending (and the archive abandoned right there, or walked to its end)
    for pi, (ms, pol, ops) in enumerate(RG.policy_switch_cases()):
        if pi % 3 == 2:
            continue
        a, g = RG.write_case(sc, "psw%d" % pi, ms, pol)
        hs.append((g, a, pol, ops, "path"))
    return hs


def shape_histories(rng, sc, tier, drv):
    """archives that vary the *header* rather than the call history: every sequence of up to two (thorough: three) extended
    header types - repeats included, so a second file name / path / user / group header replaces a value already stored -
    in level 1 (also with a directory part inside the in-header name, which sets the path before any path header is seen),
    2 and 3 headers; ground truth from a reference run; the history is next, next, next"""
    import itertools
    import arc, gtref
    import headergen as HG
    types = [0x00, 0x01, 0x02, 0x41, 0x50, 0x51, 0x52, 0x53, 0x54, 0xCC, 0x99]
    archives = []
    k = 0
    for L in range(0, 3 if tier == "quick" else 4):
        for combo in itertools.product(types, repeat=L):
            k += 1
            if L == 3 and k % 4:
                continue
            shapes = [(1, b"sub\\inhdr"), (1, b"inhdr"), (2, b""), (3, b"")]
            for lvl, nm in (shapes if tier != "quick" else [shapes[0], shapes[1 + k % 3]]):
                exts = [HG.EXT_BUILDERS[t](rng) for t in combo]
                if lvl >= 2 and 0x01 not in combo:
                    exts.append(arc.x_name(b"nm%d" % k))
                m = arc.Member(level=lvl, method=b"-lh0-", name=nm, payload=b"abc", time=12345678, os=rng.choice(HG.OSES), exts=exts)
                a = os.path.join(sc, "shape%d_%d%s.lzh" % (k, lvl, "p" if b"sub" in nm else ""))
                open(a, "wb").write(m.bytes() + RG.G("file", b"second", data=b"2nd", level=2).raw() + b"\0")
                archives.append(a)
    # special contents of the string-valued headers: names and paths a decoder may treat specially
    specials = {0x01: [b".", b"..", b"", b"a/b", b"/", b"x|y", b"|", b"a\\b", b"n" * 300, b"\xff", b"..\\x"],
                0x02: [b"", b"/", b"\xff", b"..\xff", b".\xff", b"a\xff\xffb\xff", b"a\xff..\xff", b"\xff\xff", b"a/b/", b"p" * 300 + b"\xff", b"a\\b\\"],
                0x52: [b"", b"g" * 300], 0x53: [b"", b"u" * 300], 0x00: [b"", b"\x00" * 40]}
    sk = 0
    for t, vals in sorted(specials.items()):
        for v in vals:
            for lvl, nm in ((1, b"inhdr"), (2, b""), (3, b"")):
                sk += 1
                ext = arc.x_common(v) if t == 0x00 else (t, v)
                exts = [ext] + ([arc.x_name(b"nm%d" % sk)] if (lvl >= 2 and t != 0x01 and sk % 2) else [])
                m = arc.Member(level=lvl, method=b"-lh0-", name=nm, payload=b"abc", time=12345678, os=ord("U"), exts=exts)
                a = os.path.join(sc, "special%d_%02x_%d.lzh" % (sk, t, lvl))
                open(a, "wb").write(m.bytes() + RG.G("file", b"second", data=b"2nd", level=2).raw() + b"\0")
                archives.append(a)
    truths, bad = gtref.reference_truths(drv, archives, sc, tag="shaperef")
    hs = []
    for a, q in bad:
        # the run that was to establish what the archive contains fell over: run the archive all the same, with an empty ground truth - the driver
        # then dies again and the death is reported by validate_all as what it is
        g = a[:-4] + ".gt.json"
        open(g, "w").write(json.dumps({"e": "Reset", "case": os.path.basename(a), "policy": "eod", "arc": []}, separators=(",", ":")) + "\n")
        hs.append((g, a, "eod", ["N", "N", "N"], "path"))
    for a in archives:
        if a not in truths:
            continue
        g = a[:-4] + ".gt.json"
        open(g, "w").write(json.dumps({"e": "Reset", "case": os.path.basename(a), "policy": "eod", "arc": truths[a]}, separators=(",", ":")) + "\n")
        hs.append((g, a, "eod", ["N", "N", "N"], "path"))
    return hs


def run(tier, seed, ev):
    rng = random.Random(seed)
    sc = V.scratch("c20")
    import concurrent.futures as cf
    with cf.ThreadPoolExecutor(max_workers=2) as ex:
        # the ownership model: refs == owners, nothing live after Free, with one allocation failure anywhere
        mc = ex.submit(V.tlc_must_pass, "MC_Reader", "MC_Reader_c20" if tier == "quick" else "MC_Reader_c20_t", workers=8, xmx="12g", timeout=2400 if tier == "quick" else 9000)
        drv = V.build_driver("reader_drv", "san", wrap=True)
        hs = histories(rng, sc, 40 if tier == "quick" else 400, 2 if tier == "quick" else 6)
        hs += failing_extractions(rng, sc)
        nhist = len(hs)
        hs += shape_histories(rng, sc, tier, drv)
        ev.set("header_shape_archives", len(hs) - nhist)
        # pass 1: fault-free runs, to count allocations
        jobs1 = []
        for i, (g, a, pol, ops, kind) in enumerate(hs):
            xd = os.path.join(sc, "x1_%d" % i)
            os.makedirs(xd)
            jobs1.append("exec %s %s %s %s %s 0 ab %s" % (g, a, kind, pol, xd, ",".join(ops)))
        res1 = TR.run_sharded(drv, jobs1, sc, "p1")
        viols, good1 = TR.validate_all("Trace_Reader", CFG, res1, ev, "C20")
        # allocation counts per execution, in job order per shard
        counts = {}
        for jf, tr, n, p in res1:
            if p.returncode != 0:
                continue
            frees = [json.loads(l)["allocs"] for l in open(tr) if l.startswith('{"e":"Free"')]
            for j, c in zip(open(jf).read().splitlines(), frees):
                counts[j] = c
        # pass 2: for every k, the k-th allocation fails
        jobs2 = []
        for j in jobs1:
            if j not in counts:
                continue
            p = j.split()
            for k in range(1, counts[j] + 1):
                xd = os.path.join(sc, "x2_%d" % len(jobs2))
                os.makedirs(xd)
                q = list(p)
                q[5], q[6] = xd, str(k)
                jobs2.append(" ".join(q))
                ev.cls((os.path.basename(p[1]), len(p[8].split(",")), k))
        res2 = TR.run_sharded(drv, jobs2, sc, "p2")
        v2, good2 = TR.validate_all("Trace_Reader", CFG, res2, ev, "C20")
        viols += v2
        mcr = mc.result()
        # vacuity guard: the release logic as it was before the repair must violate the ownership
        # invariants in the same model (otherwise the model could not express a leak at all)
        unf = V.tlc("MC_Reader", "MC_Reader_unfixed", workers=8, xmx="8g", timeout=900)
        if unf.violation not in ("NothingLiveAfterFree", "RefsAreOwners"):
            raise V.HarnessError("vacuity guard failed: unrepaired release logic does not violate the ownership invariants: %r" % unf)
        ev.set("unfixed_model_violates", unf.violation)
    ev.tlc(mcr)
    if mcr.violation:
        d = V.replay_dir("C20", "model")
        open(os.path.join(d, "tlc.out"), "w").write(mcr.out)
        raise V.HarnessError("ownership model violates %s - it models the code as it is, so either the model or the code is off (%s)" % (mcr.violation, d))
    ev.set("evaluations", len(jobs1) + len(jobs2))
    ev.set("histories", len(jobs1))
    ev.set("fault_points", len(jobs2))
    ev.set("traces_validated_against_impl", good1 + good2)
    for j in (jobs1[:1] + jobs2[:2]):
        ev.sample(j)
    ev.set("rule", "one execution per (history, k): history = (archive, policy, call sequence cut at a prefix, stream kind), "
                   "k = index of the failing allocation, enumerated over all allocations of the fault-free run; distinct = (archive, history length, k)")
    for v in viols:
        v["signature"] = classify(v)
        jf = os.path.join(v["replay"], "jobs.txt")
        for ln in (open(jf) if os.path.exists(jf) else []):
            for f in ln.split()[1:3]:
                if os.path.isfile(f):
                    shutil.copy(f, v["replay"])
    shutil.rmtree(sc, ignore_errors=True)
    return viols


def classify(v):
    """signature of a rejection, for known_findings.json"""
    msg = v.get("msg", "")
    if '"e":"Free"' in msg and "liveBlocks" in msg:
        return "leak-at-free"
    if "RefsAreOwners" in msg:
        return "refs-not-owners"
    return None


def replay(path):
    drv = V.build_driver("reader_drv", "san", wrap=True)
    sc = V.scratch("c20r")
    lines = []
    for i, ln in enumerate(open(os.path.join(path, "jobs.txt"))):
        p = ln.split()
        p[1] = os.path.join(path, os.path.basename(p[1]))
        p[2] = os.path.join(path, os.path.basename(p[2]))
        xd = os.path.join(sc, "x%d" % i)
        os.makedirs(xd)
        p[5] = xd
        lines.append(" ".join(p))
    ev = V.Evidence("C20", "quick", 0, LEVEL)
    res = TR.run_sharded(drv, lines, sc, "replay", nshards=1)
    viols, good = TR.validate_all("Trace_Reader", CFG, res, ev, "C20")
    for v in viols:
        V.violation("C20", v["replay"], v["msg"])
    print("accepted %d executions" % good)
    return 1 if viols else 0
