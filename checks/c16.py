"""C16 - same members from file, pipe or callbacks, and after any self-extractor prefix."""
import glob, json, os, random, shutil
import vcommon as V
import readergen as RG
import tracerun as TR
import gtref, arc
import maincommon as MC

LEVEL = "model_checking"
ASSUMPTIONS = ["caller-supplied read callbacks fill the buffer unless at end of input (a short read is a failure by design); "
               "short reads are explored only in the scan phase, where the code tolerates them",
               "for corpus archives the members are those of a reference run over a seekable file (the property is relative)",
               "TLC/SANY/CommunityModules trusted"]
KINDS = ["path", "FILE", "pipe", "drip", "cb", "cbk", "cbns"]
SIGS = [b"-lh", b"-lz", b"-pm"]


def is_sfx(f):
    """self-extractors of the corpus: by name, or because the file does not start with a member header"""
    b = os.path.basename(f).lower()
    return "sfx" in b or b.endswith((".exe", ".com", ".run")) or open(f, "rb").read(5)[2:5] not in SIGS


def clean_prefix(rng, n):
    """n bytes containing no method signature and no self-extractor marker"""
    b = bytearray(rng.randrange(256) for _ in range(n))
    for i in range(len(b)):
        if b[i] == 0x2d:          # no '-' at all: no '-l??-' / '-pm?-' pattern can occur
            b[i] = 0x2e
    s = bytes(b)
    for mk in (b"LHA-SFX", b"LhASFX V1.2,"):
        s = s.replace(mk, b"X" * len(mk))
    return s


def decoy_prefix(rng, gap=None, first=None):
    """stub + marker + stub + a header-like decoy + stub.  gap: bytes between the decoy and the real archive; first: the decoy's first byte
    (in real stubs the bytes around the signature are code, so what would be a header's length byte is anything)"""
    mk = rng.choice([b"LHA-SFX", b"LhASFX V1.2,"])
    decoy = arc.Member(level=rng.choice([0, 1, 2]), method=b"-lh5-", name=b"DECOY", payload=b"", length=7, crc=1).header()
    if gap is None:
        gap = rng.choice([0, 1, 2, 3, 7, 30]) if rng.random() < 0.5 else rng.randrange(0, 300)
    if first is None:
        first = rng.choice([None, None, 0, 0xFF, 0x7F, decoy[0] + 3])
    if first is not None:
        decoy = bytes([first & 0xFF]) + decoy[1:]
    return clean_prefix(rng, rng.randrange(0, 600)) + mk + clean_prefix(rng, rng.randrange(0, 40)) + decoy + clean_prefix(rng, gap)


def stream_jobs(rng, sc, tier, ev):
    """InputStream-level conformance: prefixes x kinds x read/skip scripts"""
    jobs = []
    ms = [RG.G("file", b"first.txt", data=b"hello world\n" * 3, level=l) for l in (0, 1, 2)]
    plens = list(range(0, 65)) + [k * 24 + d for k in range(3, 43) for d in (-1, 0, 1)]
    if tier == "quick":
        plens = plens[::3] + [255 * 1024 - 1]
    else:
        plens += [rng.randrange(1024, 255 * 1024) for _ in range(6)] + [255 * 1024 - 1, 256 * 1024 - 30, 256 * 1024 + 5, 256 * 1024 + 40]
    cases = [("plain%d" % n, clean_prefix(rng, n)) for n in plens] + [("decoy%d" % i, decoy_prefix(rng)) for i in range(10 if tier == "quick" else 80)] + \
        [("decoyg%df%s" % (g_, f_), decoy_prefix(rng, gap=g_, first=f_)) for g_ in (0, 1, 2, 3, 10, 40) for f_ in (None, 0, 0xFF, 0x60)]
    # a first header that carries a method signature but is otherwise impossible (level byte 4, 0x10, 0xFF; length byte 0): the scan
    # goes by the signature alone, at every position of the header in the 24-byte window
    damaged = [("damaged%d_%d" % (n, k), clean_prefix(rng, n), k) for n in (range(0, 26) if tier == "quick" else range(0, 50)) for k in (n % 4,)]
    # the corpus itself, self-extractors first: the scan of real stubs (DECLHA, LhASFX, PMarc -pms-)
    corp = sorted(f for f in glob.glob(os.path.join(V.REPO, "test", "archives", "*", "*")) if os.path.isfile(f) and not f.endswith("README"))
    sfx = [f for f in corp if is_sfx(f)]
    for fi, f in enumerate(sfx + (corp if tier == "thorough" else rng.sample(corp, 10))):
        data = open(f, "rb").read()
        if len(data) > 400000:
            continue
        kind = ["cb", "cbns", "FILE", "pipe"][fi % 4]
        g = os.path.join(sc, "c%d.gt.json" % fi)
        open(g, "w").write(json.dumps({"e": "Reset", "kind": kind, "data": list(data), "case": os.path.basename(f)}, separators=(",", ":")) + "\n")
        jobs.append("stream %s %s %s 0 R22,R2,R100,R1" % (g, f, kind))
        ev.cls(("stream-corpus", os.path.basename(f), kind))
    for ci, case in enumerate(cases + damaged):
        tag, pre = case[0], case[1]
        body = b"".join(m.raw() for m in ms[ci % 3:] + ms[:ci % 3]) + b"\0"
        if len(case) > 2:
            bb = bytearray(body)
            if case[2] == 3:
                bb[0] = 0
            else:
                bb[20] = (4, 0x10, 0xFF)[case[2]]
            body = bytes(bb)
        data = pre + body
        df = os.path.join(sc, "s%d.bin" % ci)
        open(df, "wb").write(data)
        for kind in (["cb", "cbns", "FILE", "pipe"] if ci % 4 == 0 or tier == "thorough" else [["cb", "cbns", "FILE", "pipe"][ci % 4]]):
            g = os.path.join(sc, "s%d_%s.gt.json" % (ci, kind))
            open(g, "w").write(json.dumps({"e": "Reset", "kind": kind, "data": list(data), "case": tag}, separators=(",", ":")) + "\n")
            ops = []
            left = len(body)
            for _ in range(rng.randint(2, 9)):
                if rng.random() < 0.65 or not ops:
                    n = rng.choice([0, 1, 2, 21, 22, 24, 25, 5, 64, 200])
                    ops.append("R%d" % n)
                else:
                    ops.append("S%d" % rng.choice([0, 1, 31, 32, 33, 64, 100, 1000]))
            seed = rng.randrange(1, 1 << 30) if (kind in ("cb", "cbns") and rng.random() < 0.5) else 0
            # a skip is only legal once the lead-in is drained: start with reads covering 24 bytes
            ops = ["R22", "R2"] + ops
            jobs.append("stream %s %s %s %d %s" % (g, df, kind, seed, ",".join(ops)))
            ev.cls(("stream", tag.rstrip("0123456789"), len(pre) % 24, kind, seed != 0))
    return jobs


def reader_jobs(rng, sc, tier, ev, drv):
    """Reader-level: members(kind, P + A) == members(seekable file, A)"""
    archives = []
    corp = sorted(f for f in glob.glob(os.path.join(V.REPO, "test", "archives", "*", "*")) if os.path.isfile(f) and not f.endswith("README"))
    # self-extractors of the corpus (the first header is not at offset 0) are always included
    sfx = [f for f in corp if is_sfx(f) and os.path.getsize(f) < 200000]
    pick = corp if tier == "thorough" else sorted(set(rng.sample(corp, 16) + sfx))
    for f in pick:
        if os.path.getsize(f) < 200000:
            archives.append(f)
    for i in range(10 if tier == "quick" else 60):
        ms = RG.random_archive(rng, nmax=5)
        a = os.path.join(sc, "g%d.lzh" % i)
        open(a, "wb").write(b"".join(m.raw() for m in ms) + b"\0")
        archives.append(a)
    # an archive stored inside an archive: the outer member's data begins with something that parses as a header, so a reader that
    # goes on after a failed skip finds members that are not there.  Cut at many places.
    inner = b"".join(m.raw() for m in [RG.G("file", b"inner.txt", data=b"inner data " * 9, level=1), RG.G("file", b"in2", data=b"2", level=0)]) + b"\0"
    nested = [RG.G("file", b"inner.lzh", data=inner, level=1), RG.G("file", b"after.txt", data=b"after the nested archive\n", level=2)]
    nraw = b"".join(m.raw() for m in nested) + b"\0"
    na = os.path.join(sc, "nested.lzh")
    open(na, "wb").write(nraw)
    archives.append(na)
    for cut in range(30, len(nraw), 5 if tier == "quick" else 1):
        t = os.path.join(sc, "nested_cut%d.lzh" % cut)
        open(t, "wb").write(nraw[:cut])
        archives.append(t)
    # truncations of some of them
    for f in rng.sample(archives, 8 if tier == "quick" else 60):
        b = open(f, "rb").read()
        if len(b) > 40:
            t = os.path.join(sc, "t%d_%s" % (len(archives), os.path.basename(f)))
            open(t, "wb").write(b[:rng.randrange(24, len(b))])
            archives.append(t)
    truths, bad = gtref.reference_truths(drv, archives, sc)
    jobs = []
    for ai, a in enumerate(archives):
        if a not in truths:
            continue
        g = os.path.join(sc, "r%d.gt.json" % ai)
        open(g, "w").write(json.dumps({"e": "Reset", "case": os.path.basename(a), "policy": "eod", "arc": truths[a]}, separators=(",", ":")) + "\n")
        raw = open(a, "rb").read()
        # does the archive itself start with a stub (self-extractor)?  then leave it alone
        variants = [("A", a)]
        if raw[2:5] in SIGS:
            for vi in range(2):
                pre = clean_prefix(rng, rng.choice([1, 5, 23, 24, 25, 100, 1000, 30000])) if vi == 0 else decoy_prefix(rng)
                pa = os.path.join(sc, "p%d_%d.bin" % (ai, vi))
                open(pa, "wb").write(pre + raw)
                variants.append(("P%d" % vi, pa))
        for vt, path in variants:
            for kind in KINDS:
                if vt != "A" and rng.random() < 0.5:
                    continue
                ops = []
                for _ in range(len(truths[a]) + 2):
                    ops.append("N")
                    q = rng.random()
                    if q < 0.35:
                        small = len(truths[a]) < 4 and sum(len(m.get("data", [])) for m in truths[a]) < 3000
                        ops.append("A%d" % rng.choice([1, 64, 4096]) if small else "A4096")
                    elif q < 0.6:
                        ops.append("C")
                    elif q < 0.7:
                        ops += ["R%d" % rng.choice([1, 10, 1000])] * 2
                jobs.append("exec %s %s %s eod - 0 b %s" % (g, path, kind, ",".join(ops)))
                ev.cls(("reader", os.path.basename(os.path.dirname(a)), vt, kind))
    return jobs, bad


def run(tier, seed, ev):
    rng = random.Random(seed)
    sc = V.scratch("c16")
    viols = []
    import concurrent.futures as cf
    with cf.ThreadPoolExecutor(max_workers=3) as ex:
        mcs = [ex.submit(V.tlc_must_pass, "MC_InputStream", "MC_InputStream_scan", workers=4, xmx="4g", timeout=900)]
        if tier == "thorough":
            mcs.append(ex.submit(V.tlc_must_pass, "MC_InputStream", "MC_InputStream_scan_short", workers=6, xmx="8g", timeout=1800))
        sdrv = V.build_driver("stream_drv", "san")
        rdrv = V.build_driver("reader_drv", "san", wrap=True)
        import time
        t0 = time.time()
        sj = stream_jobs(rng, sc, tier, ev)
        res = TR.run_sharded(sdrv, sj, sc, "st")
        t1 = time.time()
        v1, g1 = TR.validate_all("Trace_InputStream", "Trace_InputStream", res, ev, "C16", xmx="6g")
        t2 = time.time()
        rj, bad = reader_jobs(rng, sc, tier, ev, rdrv)
        t3 = time.time()
        res2 = TR.run_sharded(rdrv, rj, sc, "rd", nshards=V.NCPU if tier == "quick" else 4 * V.NCPU)
        t4 = time.time()
        v2, g2 = TR.validate_all("Trace_Reader", "Trace_Reader", res2, ev, "C16", xmx="6g", timeout=1500 if tier == "quick" else 6000)
        t5 = time.time()
        # the tool itself: archive named by path, "-" with the file on standard input, "-" with a pipe (Cli!Main, Trace_Cli!TInvoke)
        lha = V.lha_binary("san")
        hdrv = V.build_driver("header_drv", "san")
        inv = MC.invoke_events(rng, sc, lha, hdrv, tier, ev,
                               prefixers=(lambda r: clean_prefix(r, r.choice([1, 23, 24, 25, 1000, 30000, 255 * 1024 - 1])), decoy_prefix))
        v3, g3 = MC.validate(inv, sc, ev, "C16")
        ev.set("phase_seconds", {"stream_run": round(t1 - t0, 1), "stream_validate": round(t2 - t1, 1), "reference_runs": round(t3 - t2, 1),
                                 "reader_run": round(t4 - t3, 1), "reader_validate": round(t5 - t4, 1)})
        for f in mcs:
            r = f.result()
            ev.tlc(r)
            if r.violation:
                raise V.HarnessError("InputStream bounded model violates %s" % r.violation)
    viols = v1 + v2 + v3
    for a, p in bad:
        d = V.replay_dir("C16", "refcrash-" + os.path.basename(a))
        shutil.copy(a, d)
        open(os.path.join(d, "stderr.txt"), "wb").write(p.stderr or b"")
        viols.append({"replay": d, "msg": "reference run of %s did not complete: %s" % (a, (p.stderr or b"").decode(errors="replace")[-600:])})
    ev.add("traces_validated_against_impl", g1 + g2 + g3)
    ev.set("stream_level_executions", len(sj))
    ev.set("reader_level_executions", len(rj))
    ev.sample(sj[0][:300])
    ev.sample(rj[0][:300])
    ev.set("rule", "distinct = (level, prefix class or archive family, prefix variant, stream kind)")
    for v in viols:
        jf = os.path.join(v["replay"], "jobs.txt")
        if os.path.exists(jf):
            for ln in open(jf):
                p = ln.split()
                for f in (p[1:3] if len(p) > 2 and not ln.startswith("{") else []):
                    if os.path.exists(f) and os.path.getsize(f) < 5000000:
                        shutil.copy(f, v["replay"])
    shutil.rmtree(sc, ignore_errors=True)
    return viols


def replay(path):
    print("replay: re-run `python3 checks/run.py C16 quick` with VERIF_SEED of the run; inputs are in", path)
    return 2
