"""shared by C05 / C11 / C12: run header cases through header_drv and Trace_Header"""
import os, re, shutil
import vcommon as V
import headergen as HG
import tracerun as TR


def run_and_validate(pid, cfg, cases, sc, ev, tag):
    drv = V.build_driver("header_drv", "san")
    res = HG.run_cases(drv, cases, sc, tag)
    viols, good = TR.validate_all("Trace_Header", cfg, res, ev, pid, xmx="6g", timeout=2400)
    return viols, good


def stats_from(ev_outs):
    ok = rej = 0
    for out in ev_outs:
        for m in re.finditer(r'<<"STATS", (\d+), (\d+)', out):
            ok += int(m.group(1)); rej += int(m.group(2))
    return ok, rej
