"""C13 - every call returns; work and heap are bounded by the bytes present and the declared size."""
import glob, json, os, random, shutil, struct
import vcommon as V
import readergen as RG
import tracerun as TR
import gtref, arc, corpus
import c16

LEVEL = "model_checking"
ASSUMPTIONS = ["work is counted in read/skip callback calls and bytes requested (deterministic), for callback streams; FILE streams are "
               "covered by termination within a CPU limit >= 1000x the normal cost",
               "heap = bytes obtained through malloc/calloc/realloc/strdup inside library calls (link-time interposition)",
               "members of each (truncated, extreme) input are those of a reference run over a seekable file",
               "TLC/SANY/CommunityModules trusted"]
KINDS = ["path", "FILE", "pipe", "cb", "cbns"]


def extreme_archives(rng, sc):
    """structurally generated archives with extreme / inconsistent length fields"""
    out = []

    def put(tag, raw):
        p = os.path.join(sc, "x_%s.lzh" % tag)
        open(p, "wb").write(raw)
        out.append(p)
    ok = RG.G("file", b"ok.txt", data=b"fine\n" * 4, level=1).raw()
    # level 3: header length field 2^32-1, 1 MiB + 1, 1 MiB exactly (with little data behind it)
    for tag, hl in (("l3_max", 0xFFFFFFFF), ("l3_1m1", 1024 * 1024 + 1), ("l3_1m", 1024 * 1024), ("l3_small", 31), ("l3_100k", 100000),
                    ("l3_9m", 9 * 1024 * 1024), ("l3_64m", 64 * 1024 * 1024), ("l3_1g", 1024 * 1024 * 1024)):
        h = bytearray(arc.header(3, b"-lh0-", 5, 5, exts=[arc.x_name(b"a")]))
        struct.pack_into("<I", h, 24, hl)
        put(tag, ok + bytes(h) + b"hello" + b"\0")
    # level 3: extended header size fields at the extremes
    for tag, es in (("l3_ext_max", 0xFFFFFFFF), ("l3_ext_4", 4), ("l3_ext_5", 5)):
        h = bytearray(arc.header(3, b"-lh0-", 5, 5, exts=[arc.x_name(b"a")]))
        struct.pack_into("<I", h, 28, es)
        put(tag, ok + bytes(h) + b"hello" + b"\0")
    # level 1: long chains of minimal extended headers; a chain that promises more than is there
    chain = [(0x99, b"")] * 3000
    put("l1_chain3000", ok + arc.Member(level=1, name=b"c", payload=b"data", exts=chain).bytes() + ok + b"\0")
    put("l1_chain_cut", (ok + arc.Member(level=1, name=b"c", payload=b"data", exts=chain).bytes())[:2000])
    h = bytearray(arc.header(1, b"-lh0-", 4, 4, name=b"n", exts=[arc.x_name(b"zz")]))
    struct.pack_into("<H", h, len(h) - 2, 65535)     # next-size of the last header: 65535 bytes that are not there
    h[1] = sum(h[2:2 + h[0]]) & 0xFF
    put("l1_ext_65535", ok + bytes(h) + b"data")
    # 4 GiB members with almost no data
    for lvl in (0, 1, 2, 3):
        m = arc.Member(level=lvl, method=b"-lh5-", name=b"big" if lvl < 2 else b"", payload=b"\0" * 40, length=0xFFFFFFFF, crc=0,
                       packed=0xFFFFFFF0 if lvl != 1 else 0xFFFFF000, exts=[arc.x_name(b"big")] if lvl >= 1 else [])
        put("huge_l%d" % lvl, ok + m.bytes())
    # compressed sizes that, taken as signed 32-bit numbers, point back to an earlier header (or to the member's own):
    # skipping such a member must go forward (and meet the end of the archive), never back
    for lvl in (0, 1, 2):
        m = arc.Member(level=lvl, method=b"-lh0-", name=b"back" if lvl < 2 else b"", payload=b"", length=5, crc=0,
                       exts=[arc.x_name(b"back")] if lvl == 2 else [])
        own = len(m.bytes())
        for tag, k in (("own", own), ("prev", own + len(ok)), ("mid", own + 3), ("one", 1), ("half", 0x80000000)):
            m2 = arc.Member(level=lvl, method=b"-lh0-", name=b"back" if lvl < 2 else b"", payload=b"", length=5, crc=0, packed=(1 << 32) - k,
                            exts=[arc.x_name(b"back")] if lvl == 2 else [])
            put("back_l%d_%s" % (lvl, tag), ok + m2.bytes())
            put("back_l%d_%s_then" % (lvl, tag), ok + m2.bytes() + ok + b"\0")
    # decoders that never run dry / loop on themselves, declared 4 GiB
    payloads = {
        "-pm1-": b"",                              # continues on implicit zero bits for ever
        "-pm2-": b"\x00" * 8,
        "-lh1-": b"\xff" * 64,
        "-lh5-": b"\x00\x01" + b"\x00" * 32,      # blocks of length ...
        "-lh7-": b"\x00\x00" * 20,
        "-lzs-": b"\x00" * 64,                     # copies of the (space-filled) window
        "-lz5-": b"\x00" + b"\xff\xff" * 30,       # self-referential copies
        "-lh0-": b"",
    }
    for meth, pl in payloads.items():
        m = arc.Member(level=1, method=meth.encode(), name=b"e", payload=pl, length=0xFFFFFFFF, crc=0)
        put("endless_" + meth.strip("-"), m.bytes() + ok + b"\0")
    # -pm1- really is endless once its header has been read (the stream continues on zero bits): the declared length alone stops it,
    # whatever that length is - in particular 0, and lengths around the decoder's internal buffer sizes
    for pl in (b"\xfd\x00\x00", b"\xfd", b"\xff\xff\xff"):
        for ln in (0, 1, 2, 63, 64, 65, 4095, 4096, 4097, 20000):
            m = arc.Member(level=1, method=b"-pm1-", name=b"e", payload=pl, length=ln, crc=0)
            put("pm1zero_%s_%d" % (pl.hex(), ln), m.bytes() + ok + b"\0")
    # the same question for every other method: a declared length of 0 (or 1) in front of data that would decode to more
    pool = RG.compressed_pool()
    for meth in sorted(pool):
        payload, plain = pool[meth]
        mm = meth.encode()
        if mm == b"-lk7-":
            continue
        for ln in (0, 1):
            m = arc.Member(level=1, method=mm, name=b"z", payload=payload, length=ln, crc=arc.crc16(plain[:ln]))
            put("declared%d_%s" % (ln, meth.strip("-")), m.bytes() + ok + b"\0")
    return out


def many_decoders(rng, sc):
    """a dozen members that each need a decoder with a large state (about 2 MiB for -lhx-), plain and from MacLHA archives (where the
    decoder sits behind the MacBinary pass-through): the heap bound is a constant, so each decoder must be gone before the next"""
    out = []
    for tag, osb in (("plain", ord("U")), ("mac", ord("m"))):
        for meth in (b"-lhx-", b"-lh7-", b"-pm1-", b"-lh1-"):
            ms = [arc.Member(level=2, method=meth, name=b"", payload=bytes(rng.randrange(256) for _ in range(45)), length=50 + i, crc=0, os=osb,
                             exts=[arc.x_name(b"m%d" % i)]) for i in range(12)]
            p = os.path.join(sc, "manydec_%s_%s.lzh" % (meth.strip(b"-").decode(), tag))
            open(p, "wb").write(b"".join(m.bytes() for m in ms) + b"\0")
            out.append(p)
    return out


def inputs(rng, sc, tier):
    files = []
    corp = sorted(f for f in glob.glob(os.path.join(V.REPO, "test", "archives", "*", "*")) if os.path.isfile(f) and not f.endswith("README") and os.path.getsize(f) < 60000)
    base = rng.sample(corp, 12 if tier == "quick" else 60)
    for i in range(6 if tier == "quick" else 30):
        ms = RG.random_archive(rng, nmax=4)
        a = os.path.join(sc, "g%d.lzh" % i)
        open(a, "wb").write(b"".join(m.raw() for m in ms) + b"\0")
        base.append(a)
    # truncations: every offset for small archives (thorough), sampled offsets otherwise
    for f in base:
        b = open(f, "rb").read()
        offs = range(1, len(b)) if (tier == "thorough" and len(b) < 600) else sorted(set(rng.randrange(1, len(b)) for _ in range(6 if tier == "quick" else 25)))
        for o in offs:
            t = os.path.join(sc, "t%d_%d_%s" % (len(files), o, os.path.basename(f)))
            open(t, "wb").write(b[:o])
            files.append((t, "trunc"))
    for f in extreme_archives(rng, sc):
        files.append((f, "extreme"))
    for f in many_decoders(rng, sc):
        files.append((f, "manydec"))
    # unstructured and mutated inputs
    for i in range(10 if tier == "quick" else 200):
        b = bytearray(open(rng.choice(base), "rb").read())
        for _ in range(rng.randint(1, 8)):
            b[rng.randrange(len(b))] = rng.randrange(256)
        t = os.path.join(sc, "m%d.bin" % i)
        open(t, "wb").write(bytes(b))
        files.append((t, "mutated"))
    return files


def run(tier, seed, ev):
    rng = random.Random(seed)
    sc = V.scratch("c13")
    import concurrent.futures as cf
    with cf.ThreadPoolExecutor(max_workers=4) as ex:
        mcs = {"skip": ex.submit(V.tlc_must_pass, "MC_InputStream", "MC_InputStream_skip", workers=2, xmx="2g"),
               "scan": ex.submit(V.tlc_must_pass, "MC_InputStream", "MC_InputStream_scan", workers=2, xmx="3g"),
               "decoder": ex.submit(V.tlc_must_pass, "MC_DecoderApi", "MC_DecoderApi_live", workers=4, xmx="4g", timeout=900)}
        unfixed = ex.submit(V.tlc, "MC_InputStream", "MC_InputStream_skip_unfixed", None, 2, 600)
        rdrv = V.build_driver("reader_drv", "san", wrap=True)
        files = inputs(rng, sc, tier)
        truths, bad = gtref.reference_truths(rdrv, [f for f, _ in files], sc)
        jobs = []
        for fi, (f, cls) in enumerate(files):
            if f not in truths:
                continue
            g = os.path.join(sc, "w%d.gt.json" % fi)
            alen = os.path.getsize(f)
            open(g, "w").write(json.dumps({"e": "Reset", "case": os.path.basename(f), "policy": "eod", "alen": alen, "arc": truths[f]},
                                          separators=(",", ":")) + "\n")
            for kind in (KINDS if (cls != "trunc" or fi % 3 == 0) else [KINDS[fi % 5]]):
                n = len(truths[f])
                ops = []
                for _ in range(n + 2):
                    ops.append("N")
                    q = rng.random()
                    if cls == "manydec":
                        ops.append(rng.choice(["C", "A4096", "R10", "C"]))
                    elif cls == "extreme" and os.path.basename(f).startswith(("x_pm1zero", "x_declared")):
                        ops.append(rng.choice(["A4096", "A512", "C", "A4096"]))
                    elif cls == "extreme":
                        # decode a bounded number of requested bytes, however large the declared size
                        ops += ["R4096"] * rng.choice([1, 3, 6]) if q < 0.7 else []
                    elif q < 0.3:
                        ops.append("A4096")
                    elif q < 0.5:
                        ops.append("C")
                    elif q < 0.6:
                        ops += ["R100", "R1"]
                jobs.append("exec %s %s %s eod - 0 mw%s %s" % (g, f, kind, "" if cls == "extreme" else "b", ",".join(ops)))
                ev.cls((cls, os.path.basename(f).split("_")[0] if cls not in ("extreme", "manydec") else os.path.basename(f), kind))
        res = TR.run_sharded(rdrv, jobs, sc, "w", timeout=900, cpu_limit=40 if tier == "quick" else 900)
        viols, good = TR.validate_all("Trace_Reader", "Trace_Reader_work", res, ev, "C13", xmx="6g")
        # archives of very many tiny members (directories; empty files; one-byte files that are checked): whatever is kept per member must
        # be given back before the next one - the heap bound is a constant plus twice the input, and a header is several times its bytes
        tj = []
        for tag, mk, n, op in (("dirs", lambda i: arc.Member(level=0, method=b"-lhd-", name=b"d%d\\" % (i % 10), payload=b"").bytes(), 90000, "Z"),
                               ("empty", lambda i: arc.Member(level=0, method=b"-lh0-", name=b"e", payload=b"").bytes(), 90000, "Z"),
                               ("one", lambda i: arc.Member(level=0, method=b"-lh0-", name=b"f", payload=b"x").bytes(), 60000, "Zc")):
            pth = os.path.join(sc, "tiny_%s.lzh" % tag)
            with open(pth, "wb") as f:
                for i in range(n if tier == "quick" else 3 * n):
                    f.write(mk(i))
                f.write(b"\0")
            for kind in ("cbns", "cb", "path"):
                tj.append(("exec - %s %s eod - 0 m %s" % (pth, kind, op), os.path.getsize(pth), n if tier == "quick" else 3 * n))
        tres = TR.run_sharded(rdrv, [j for j, _, _ in tj], sc, "tiny", timeout=900, cpu_limit=200)
        seen = 0
        for jf, tr, n, p in tres:
            lines = [json.loads(l) for l in open(tr) if l.startswith('{"e":"Drain"')]
            jl = open(jf).read().splitlines()
            for job, d in zip(jl, lines):
                alen, want = [(a, w) for (j, a, w) in tj if j == job][0]
                seen += 1
                if d["n"] != want or d["peak"] > 8388608 + 2 * alen:
                    dd = V.replay_dir("C13", "tiny-" + os.path.basename(jf))
                    open(os.path.join(dd, "jobs.txt"), "w").write(job + "\n")
                    viols.append({"replay": dd, "msg": "archive of %d tiny members (%d bytes): %d members walked, peak heap %d bytes, bound %d (%s)"
                                                        % (want, alen, d["n"], d["peak"], 8388608 + 2 * alen, job.split()[2:4])})
            if p.returncode != 0 or len(lines) != len(jl):
                dd = V.replay_dir("C13", "tinyrun-" + os.path.basename(jf))
                shutil.copy(jf, os.path.join(dd, "jobs.txt"))
                viols.append({"replay": dd, "msg": "walking an archive of very many tiny members did not complete (exit %s): %s" % (p.returncode, (p.stderr or b"").decode(errors="replace")[-300:])})
        ev.set("tiny_member_walks", seen)
        # a source that starts failing (read: -1, skip: 0) after k callbacks and goes on failing: every call still returns.  Only the
        # step budget and the driver's end are looked at here - what the members are after a source error is not a listed property
        ej = []
        for fi, (f, cls) in enumerate(files):
            if cls in ("trunc", "mutated") or f not in truths or os.path.getsize(f) > 20000 or len(truths[f]) < 2:
                continue
            for kind in ("cbns", "cb"):
                for k in sorted(set([1, 2, 3, 5, 8] + [rng.randrange(1, 60) for _ in range(4)])):
                    ops = []
                    for _ in range(len(truths[f]) + 2):
                        ops += ["N"] + rng.choice([[], [], ["R10"], ["C"], ["A4096"]])
                    ej.append("exec - %s %sE%d eod - 0 m %s" % (f, kind, k, ",".join(ops)))
                # ... and a source that breaks at a byte offset: the read crossing it comes back short, everything after it fails; and one that
                # never hands over more than a few bytes at a time
                sz = os.path.getsize(f)
                for sfx in ["B%d" % x for x in sorted(set([1, 2, 21, 22, 25, 30, sz - 1] + [rng.randrange(1, sz) for _ in range(5)]))] + ["S1", "S5", "S24"]:
                    ops = []
                    for _ in range(len(truths[f]) + 2):
                        ops += ["N"] + rng.choice([[], [], ["R10"], ["C"], ["A4096"]])
                    ej.append("exec - %s %s%s eod - 0 m %s" % (f, kind, sfx, ",".join(ops)))
        eres = TR.run_sharded(rdrv, ej, sc, "e", timeout=600, cpu_limit=40)
        for jf, tr, n, p in eres:
            spun = any(l.startswith('{"e":"Budget"') for l in open(tr))
            if p.returncode != 0 or spun:
                d = V.replay_dir("C13", "srcerr-" + os.path.basename(jf))
                shutil.copy(jf, os.path.join(d, "jobs.txt"))
                open(os.path.join(d, "stderr.txt"), "wb").write(p.stderr or b"")
                viols.append({"replay": d, "msg": "with a source that fails for good after k callbacks a call did not return (step budget exhausted: %s, driver exit %s) in %s"
                                                  % (spun, p.returncode, os.path.basename(jf))})
        ev.set("source_error_executions", len(ej))
        # every command of the tool returns: the overwrite prompt with every sequence of up to two answers and with input that stops
        # at, or in the middle of, an answer (TreeModel!Ask: end of input at the prompt ends the tool) - a run stopped by the harness'
        # CPU / output limits is an event no action matches
        import c06
        pres = c06.prompt_pass(rng, sc, tier, ev, maxlen=2)
        v3, g3 = TR.validate_all("Trace_Extract", "Trace_Extract", pres, ev, "C13", xmx="3g")
        viols += v3
        good += g3
        for k, f in mcs.items():
            r = f.result()
            ev.tlc(r)
            if r.violation:
                raise V.HarnessError("bounded model %s violates %s" % (k, r.violation))
        u = unfixed.result()
        if u.violation is None:
            raise V.HarnessError("vacuity guard: the unrepaired read-loop skip must violate SkipTerminates in the model: %r" % u)
        ev.set("unfixed_skip_model_violates", u.violation)
    for a, p in bad:
        d = V.replay_dir("C13", "ref-" + os.path.basename(a))
        shutil.copy(a, d)
        msg = "reference run over %s did not complete (exit %s): %s" % (os.path.basename(a), p.returncode, (p.stderr or b"").decode(errors="replace")[-500:])
        open(os.path.join(d, "why.txt"), "w").write(msg)
        viols.append({"replay": d, "msg": msg})
    ev.add("traces_validated_against_impl", good)
    ev.set("executions", len(jobs))
    ev.set("inputs", len(files))
    ev.sample(jobs[0][:300])
    ev.sample(jobs[-1][:300])
    ev.set("rule", "distinct = (input class: truncation / extreme length fields / mutated, source archive or extreme case, stream kind)")
    for v in viols:
        jf = os.path.join(v["replay"], "jobs.txt")
        if os.path.exists(jf):
            for ln in open(jf):
                p = ln.split()
                for f in (p[1:3] if len(p) > 2 and not ln.startswith("{") else []):
                    if os.path.exists(f) and os.path.getsize(f) < 5000000:
                        shutil.copy(f, v["replay"])
    shutil.rmtree(sc, ignore_errors=True)
    return viols


def replay(path):
    print("inputs and the rejected execution are in", path)
    return 2
