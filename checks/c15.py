"""C15 - members are independent of how other members were skipped, read or checked."""
import json, os, random, shutil, subprocess
import vcommon as V
import readergen as RG
import tracerun as TR

LEVEL = "model_checking"
ASSUMPTIONS = ["caller discipline of the statement: at most one decode operation per member, one extract per entry",
               "ground truth of generated archives comes from the generator; for -pm1- and corpus archives from a reference run",
               "TLC/SANY/CommunityModules trusted; state projections come from the LHASA_VERIF accessors"]
POLICIES = ["plain", "eod", "eof"]


def gen_jobs(rng, sc, ncases, ev, flags="b", tag="c"):
    jobs = []
    for ci in range(ncases):
        ms = RG.random_archive(rng, nmax=rng.choice([1, 2, 3, 4, 6, 9]), bare_dirs=True)
        pol = rng.choice(POLICIES)
        a, g = RG.write_case(sc, "%s%d" % (tag, ci), ms, pol)
        for si in range(3):
            xd = os.path.join(sc, "x%s%d_%d" % (tag, ci, si))
            os.makedirs(xd)
            ops = RG.random_ops(rng, len(ms), policy_switch=0.12 if si == 2 else 0.0)
            kind = rng.choice(["path", "FILE", "cb", "cbns", "pipe"]) if si else "path"
            jobs.append("exec %s %s %s %s %s 0 %s %s" % (g, a, kind, pol, xd, flags, ",".join(ops)))
            ev.cls(("gen", pol, tuple(sorted(set(m.kind for m in ms))), kind))
    return jobs


def nested_dir_walks(rng, sc, ev, flags="b"):
    """directories inside directories, left and re-entered: an outer directory, an inner one with something in it, then an entry that is still
    inside the outer one but elsewhere (a longer sibling path, a shorter one, a name that begins like the inner one, a directory), then entries
    outside - with every choice of which directories the caller extracts, under each policy.  When each directory comes back is Reader.tla's
    (end_of_top_dir compares stored paths)."""
    jobs = []
    k = 0
    for inner in (b"c", b"cc"):
        for depth3 in (False, True):
            for sib in (("file", b"a/b/two"), ("dir", b"a/b"), ("file", b"a/bcd/two"), ("file", b"a/three"), ("file", b"a/" + inner + b"2"),
                        ("dir", b"a/" + inner + b"d"), ("file", b"ab/x"), ("file", b"a/" + inner + b"/again"), ("file", b"a/b/c/d/deep")):
                ms = [RG.G("dir", b"a"), RG.G("dir", b"a/" + inner)]
                if depth3:
                    ms.append(RG.G("dir", b"a/" + inner + b"/d"))
                    ms.append(RG.G("file", b"a/" + inner + b"/d/zero", data=b"0"))
                ms.append(RG.G("file", b"a/" + inner + b"/one", data=b"1"))
                ms.append(RG.G(sib[0], sib[1], data=b"2") if sib[0] == "file" else RG.G("dir", sib[1]))
                ms.append(RG.G("file", b"a/three3", data=b"3"))
                ms.append(RG.G("file", b"z", data=b"z"))
                dirs = [i for i, m in enumerate(ms) if m.kind == "dir"]
                subsets = [set(dirs), {dirs[0]}, {dirs[1]}, set(dirs[:2])] + ([{dirs[0], dirs[2]}] if depth3 else [])
                for pol in ("eod", "eof", "plain"):
                    a, g = RG.write_case(sc, "nest%d%s" % (k, pol), ms, pol)
                    for si, sub in enumerate(subsets):
                        xd = os.path.join(sc, "xnest%d%s%d" % (k, pol, si))
                        os.makedirs(xd)
                        ops = []
                        for i in range(len(ms)):
                            ops += ["N", "X"] if i in sub else ["N"]
                        ops += ["N", "X"] * len(dirs) + ["N", "N"]
                        jobs.append("exec %s %s %s %s %s 0 %s %s" % (g, a, ["path", "cb", "FILE"][(k + si) % 3], pol, xd, flags, ",".join(ops)))
                k += 1
    ev.set("nested_directory_walks", len(jobs))
    ev.cls(("nested-dir-walks", len(jobs)))
    return jobs


def deferred_orders(rng, sc, ev, flags="b"):
    """several dangerous symbolic links of different (and equal) path lengths in every order of arrival, all extracted: the
    re-presentation order (longest first, later arrivals before earlier ones of the same length) is Reader.tla's"""
    import itertools
    jobs = []
    names = {1: b"l", 4: b"lnk4", 7: b"lnk_mid", 16: b"lnk_longest_name"}
    orders = list(itertools.permutations([1, 7, 16])) + list(itertools.permutations([1, 4, 7, 16])) + \
        [(7, 7, 1), (1, 7, 7), (7, 1, 7), (16, 7, 7), (7, 16, 7), (7, 7, 16), (7, 7, 7), (16, 1, 16, 1)]
    for oi, order in enumerate(orders):
        ms = [RG.G("file", b"first.txt", data=b"1st")]
        seen = {}
        for ln in order:
            seen[ln] = seen.get(ln, 0) + 1
            nm = names[ln] if seen[ln] == 1 else names[ln][:-1] + b"%d" % seen[ln]
            ms.append(RG.G("link", nm, target=rng.choice([b"/abs/t", b"../up", b"a/../../b"]), level=rng.choice([1, 2])))
        ms.append(RG.G("file", b"last.txt", data=b"last"))
        pol = ["eod", "eof", "plain"][oi % 3]
        a, g = RG.write_case(sc, "dord%s%d" % (flags, oi), ms, pol)
        xd = os.path.join(sc, "xdord%s%d" % (flags, oi))
        os.makedirs(xd)
        # (one of the links is skipped in some histories: what is not extracted is not re-presented)
        ops = []
        for i in range(len(ms)):
            ops += ["N", "X"] if not (oi % 5 == 4 and i == 2) else ["N"]
        ops += ["N"] * (len(order) + 2)
        jobs.append("exec %s %s %s %s %s 0 %s %s" % (g, a, ["path", "cb", "FILE"][oi % 3], pol, xd, flags, ",".join(ops)))
        ev.cls(("deferred-order", order))
    # both kinds of entry the reader presents again on its own, pending at once when the input ends: directories first, then the links
    shapes = [
        [RG.G("dir", b"d"), RG.G("link", b"d/lnk", target=b"/nonexistent/t", level=2), RG.G("file", b"d/f.txt", data=b"f")],
        [RG.G("dir", b"d"), RG.G("dir", b"d/e"), RG.G("link", b"d/e/up", target=b"../../../x", level=1), RG.G("file", b"d/e/f", data=b"f"), RG.G("link", b"d/z", target=b"/abs", level=2)],
        [RG.G("link", b"first", target=b"/abs/a", level=2), RG.G("dir", b"d"), RG.G("file", b"d/f", data=b"1"), RG.G("dir", b"d/sub"), RG.G("file", b"d/sub/g", data=b"2")],
        [RG.G("dir", b"d"), RG.G("link", b"d/lnk", target=b"../o", level=2), RG.G("file", b"d/f.txt", data=b"f"), RG.G("file", b"top.txt", data=b"t")],
    ]
    for si, ms in enumerate(shapes):
        for pol in ("eod", "eof", "plain"):
            a, g = RG.write_case(sc, "dpend%s%d%s" % (flags, si, pol), ms, pol)
            for skip in (None, 0, 1):
                xd = os.path.join(sc, "xdpend%s%d%s%s" % (flags, si, pol, skip))
                os.makedirs(xd)
                ops = []
                for i in range(len(ms)):
                    ops += ["N"] if skip == i else ["N", "X"]
                ops += ["N", "X"] * (len(ms)) + ["N", "N"]
                jobs.append("exec %s %s %s %s %s 0 %s %s" % (g, a, ["path", "cb"][si % 2], pol, xd, flags, ",".join(ops)))
        ev.cls(("pending-both", si))
    for pi, (ms, pol, ops) in enumerate(RG.policy_switch_cases()):
        a, g = RG.write_case(sc, "psw%s%d" % (flags, pi), ms, pol)
        xd = os.path.join(sc, "xpsw%s%d" % (flags, pi))
        os.makedirs(xd)
        jobs.append("exec %s %s %s %s %s 0 %s %s" % (g, a, ["path", "cb"][pi % 2], pol, xd, flags, ",".join(ops)))
    ev.cls(("policy-switch", len(jobs)))
    return jobs


def tlc_scripts(seed, tier, sc, ev):
    """behaviours generated by TLC from the bounded Reader model (simulation of MC_Reader): archive as a
    sequence of entry shapes, directory policy, call sequence - concretised to real archives"""
    import re
    g = V.tlc_must_pass("MC_Reader", "MC_Reader_gen", workers=1, simulate=600 if tier == "quick" else 8000, depth=30, seed=seed, xmx="3g", timeout=1200)
    jobs = []
    seen = set()
    for m in re.finditer(r'<<"SCRIPT", "(.*)">>', g.out):
        j = json.loads(m.group(1).replace('\\"', '"'))
        key = json.dumps(j)
        if key in seen or len(j["ops"]) < 4 or "ftr" in j["arc"]:
            continue
        seen.add(key)
        ms = []
        for i, sh in enumerate(j["arc"]):
            n = b"%d" % i
            if sh == "f": ms.append(RG.G("file", b"f" + n, data=b"F" + n))
            elif sh == "fa": ms.append(RG.G("file", b"a/fa" + n, data=b"FA" + n * 3, level=1))
            elif sh == "fab": ms.append(RG.G("file", b"a/b/fab" + n, data=b"x"))
            elif sh == "fbad":
                x = RG.G("file", b"bad" + n, data=b"BAD"); x.crc ^= 0x55; ms.append(x)
            elif sh == "funs": ms.append(RG.G("file", b"u" + n, data=b"U", method=b"-lh2-"))
            elif sh == "da": ms.append(RG.G("dir", b"a"))
            elif sh == "dab": ms.append(RG.G("dir", b"a/b"))
            elif sh == "dc": ms.append(RG.G("dir", b"c"))
            elif sh == "sl": ms.append(RG.G("link", b"sl" + n, target=b"t"))
            elif sh == "dl1": ms.append(RG.G("link", b"d", target=b"../x"))
            elif sh == "dl4": ms.append(RG.G("link", b"a/dl", target=b"/abs"))
        pol = {"PLAIN": "plain", "EOD": "eod", "EOF": "eof"}[j["policy"]]
        k = len(jobs)
        a, gt = RG.write_case(sc, "m%d" % k, ms, pol)
        xd = os.path.join(sc, "xm%d" % k)
        os.makedirs(xd)
        jobs.append("exec %s %s %s %s %s 0 b %s" % (gt, a, ["path", "cb", "cbns"][k % 3], pol, xd, ",".join(j["ops"])))
        ev.cls(("tlc-script", pol, tuple(j["arc"])))
    ev.set("tlc_generated_scripts", len(jobs))
    return jobs


def run(tier, seed, ev):
    rng = random.Random(seed)
    sc = V.scratch("c15")
    import concurrent.futures as cf
    with cf.ThreadPoolExecutor(max_workers=2) as ex:
        mc = ex.submit(V.tlc_must_pass, "MC_Reader", "MC_Reader_c15" if tier == "quick" else "MC_Reader_c15_t",
                       workers=8, xmx="12g", timeout=2400 if tier == "quick" else 9000)
        drv = V.build_driver("reader_drv", "san", wrap=True)
        jobs = gen_jobs(rng, sc, 150 if tier == "quick" else 2500, ev) + tlc_scripts(seed, tier, sc, ev) + deferred_orders(rng, sc, ev) + deferred_orders(rng, sc, ev, flags="bL") + nested_dir_walks(rng, sc, ev)
        res = TR.run_sharded(drv, jobs, sc, "gen")
        viols, good = TR.validate_all("Trace_Reader", "Trace_Reader", res, ev, "C15")
        # two readers over two archives: interleaved call by call, and on two threads; each reader's
        # trace is validated on its own - a shared mutable would make one of them deviate
        d2 = V.build_driver("reader2_drv", "san")
        pj = gen_jobs(rng, sc, 40 if tier == "quick" else 600, ev, flags="b", tag="p")
        pj = [j for j in pj if j.split()[3] in ("path", "cb")]
        pj = pj[:len(pj) // 2 * 2]
        # pairs made for overlap: both readers decode members of several pieces, with different contents, by every operation
        for di, (opsa, opsb) in enumerate([("N,X,N,X,N,X,N", "N,X,N,X,N,X,N"), ("N,X,N,C,N,X,N", "N,A64,N,X,N,C,N"), ("N,C,N,C,N,C", "N,X,N,A1000,N,X"),
                                           ("N,X,N,X,N,X,N", "N,R10,N,C,N,A7,N")]):
            for side, ops in (("a", opsa), ("b", opsb)):
                fill = (b"ABCDEFGHIJKLMNOPQRSTUVWXYZ" if side == "a" else b"0123456789") * 400
                ms = [RG.G("file", b"%s%d_1" % (side.encode(), di), data=fill[:300], level=1), RG.G("file", b"%s%d_2" % (side.encode(), di), data=fill[3:5003], level=2),
                      RG.G("file", b"%s%d_3" % (side.encode(), di), data=fill[7:77], level=0)]
                a, g = RG.write_case(sc, "ov%d%s" % (di, side), ms, "eod")
                xd = os.path.join(sc, "xov%d%s" % (di, side))
                os.makedirs(xd)
                pj.append("exec %s %s %s eod %s 0 b %s" % (g, a, "path" if di % 2 else "cb", xd, ops))
        import subprocess

        def two(mode, k, lines, drv2=None):
            # (each mode extracts into directories of its own: what a reader does depends on what is already there -
            #  a directory that exists is not re-presented)
            fresh = []
            for ln in lines:
                q = ln.split()
                if q[5] != "-":
                    q[5] = q[5] + "_" + mode + ("t" if drv2 else "")
                    os.makedirs(q[5], exist_ok=True)
                fresh.append(" ".join(q))
            lines = fresh
            jf = os.path.join(sc, "pair_%s_%d.txt" % (mode, k))
            open(jf, "w").write("\n".join(lines) + "\n")
            oa, ob = os.path.join(sc, "pair_%s_%d_a.ndjson" % (mode, k)), os.path.join(sc, "pair_%s_%d_b.ndjson" % (mode, k))
            if drv2:
                # the same pairs under ThreadSanitizer: a data race between the two readers' threads is an event that
                # no action of Reader.tla matches (the model's argument is that readers share no variable)
                oa, ob = oa + ".tsan", ob + ".tsan"
                p = subprocess.run([drv2, mode, jf, oa, ob], capture_output=True, timeout=1200,
                                   env=V.run_env(TSAN_OPTIONS="halt_on_error=1:exitcode=66:second_deadlock_stack=1"))
                if b"unexpected memory mapping" in p.stderr:
                    p = subprocess.run(["setarch", "-R", drv2, mode, jf, oa, ob], capture_output=True, timeout=1200,
                                       env=V.run_env(TSAN_OPTIONS="halt_on_error=1:exitcode=66"))
                return jf, p
            p = subprocess.run([d2, mode, jf, oa, ob], capture_output=True, env=V.run_env(), timeout=1200)
            return [(jf, oa, len(lines) // 2, p), (jf, ob, len(lines) // 2, p)]
        pres = []
        nsh = 4
        for mode in ("interleave", "threads", "nested"):
            for k in range(nsh):
                sub = [x for i in range(k * 2, len(pj) - 1, nsh * 2) for x in pj[i:i + 2]]
                if sub:
                    pres += two(mode, k, sub)
        d2t = V.build_driver("reader2_drv", "tsan")
        races = []
        for k in range(nsh):
            sub = [x for i in range(k * 2, len(pj) - 1, nsh * 2) for x in pj[i:i + 2]]
            if sub:
                jf, p = two("threads", k, sub, drv2=d2t)
                if p.returncode == 66 or b"ThreadSanitizer: data race" in p.stderr:
                    races.append((jf, p))
                elif p.returncode not in (0, 2, 3):
                    # the library itself fell over (signal or sanitizer report) while two readers ran: no sequence of headers came back at all
                    races.append((jf, p))
                elif p.returncode != 0:
                    raise V.HarnessError("reader2_drv under ThreadSanitizer exited %s: %s" % (p.returncode, p.stderr.decode(errors="replace")[-600:]))
                ev.add("two_reader_pairs_under_tsan", len(sub) // 2)
        v2, g2 = TR.validate_all("Trace_Reader", "Trace_Reader", pres, ev, "C15")
        viols += v2
        good += g2
        for jf, p in races:
            d = V.replay_dir("C15", "race-" + os.path.basename(jf))
            shutil.copy(jf, os.path.join(d, "jobs.txt"))
            open(os.path.join(d, "tsan.txt"), "wb").write(p.stderr)
            viols.append({"replay": d, "msg": ("two readers on two threads touch the same memory (ThreadSanitizer): " if (p.returncode == 66 or b"data race" in p.stderr)
                                                 else "two readers on two threads: the run died (exit %s): " % p.returncode) + p.stderr.decode(errors="replace")[-1500:], "kind": "race"})
        ev.set("two_reader_executions", g2)
        mcr = mc.result()
    ev.tlc(mcr)
    if mcr.violation:
        d = V.replay_dir("C15", "model")
        open(os.path.join(d, "tlc.out"), "w").write(mcr.out)
        raise V.HarnessError("bounded Reader model violates %s (%s)" % (mcr.violation, d))
    ev.add("traces_validated_against_impl", good)
    ev.set("executions", len(jobs))
    for j in jobs[:3]:
        ev.sample(j)
    ev.set("rule", "distinct = (policy, set of entry kinds in the archive, stream kind)")
    for v in viols:
        # keep the inputs next to the replay
        jf = os.path.join(v["replay"], "jobs.txt")
        for ln in (open(jf) if os.path.exists(jf) else []):
            for f in ln.split()[1:3]:
                if os.path.isfile(f):
                    shutil.copy(f, v["replay"])
    shutil.rmtree(sc, ignore_errors=True)
    return viols


def replay(path):
    drv = V.build_driver("reader_drv", "san", wrap=True)
    sc = V.scratch("c15r")
    lines = []
    for i, ln in enumerate(open(os.path.join(path, "jobs.txt"))):
        p = ln.split()
        p[1] = os.path.join(path, os.path.basename(p[1]))
        p[2] = os.path.join(path, os.path.basename(p[2]))
        xd = os.path.join(sc, "x%d" % i)
        os.makedirs(xd)
        p[5] = xd
        lines.append(" ".join(p))
    ev = V.Evidence("C15", "quick", 0, LEVEL)
    res = TR.run_sharded(drv, lines, sc, "replay", nshards=1)
    viols, good = TR.validate_all("Trace_Reader", "Trace_Reader", res, ev, "C15")
    for v in viols:
        V.violation("C15", v["replay"], v["msg"])
    print("accepted %d executions" % good)
    return 1 if viols else 0
