"""C15 - members are independent of how other members were skipped, read or checked."""
import json, os, random, shutil, subprocess
import vcommon as V
import readergen as RG
import tracerun as TR

LEVEL = "model_checking"
ASSUMPTIONS = ["caller discipline of the statement: at most one decode operation per member, one extract per entry",
               "ground truth of generated archives comes from the generator; for -pm1- and corpus archives from a reference run",
               "TLC/SANY/CommunityModules trusted; state projections come from the LHASA_VERIF accessors"]
POLICIES = ["plain", "eod", "eof"]


def gen_jobs(rng, sc, ncases, ev, flags="b", tag="c"):
    jobs = []
    for ci in range(ncases):
        ms = RG.random_archive(rng, nmax=rng.choice([1, 2, 3, 4, 6, 9]))
        pol = rng.choice(POLICIES)
        a, g = RG.write_case(sc, "%s%d" % (tag, ci), ms, pol)
        for si in range(3):
            xd = os.path.join(sc, "x%s%d_%d" % (tag, ci, si))
            os.makedirs(xd)
            ops = RG.random_ops(rng, len(ms))
            kind = rng.choice(["path", "FILE", "cb", "cbns", "pipe"]) if si else "path"
            jobs.append("exec %s %s %s %s %s 0 %s %s" % (g, a, kind, pol, xd, flags, ",".join(ops)))
            ev.cls(("gen", pol, tuple(sorted(set(m.kind for m in ms))), kind))
    return jobs


def run(tier, seed, ev):
    rng = random.Random(seed)
    sc = V.scratch("c15")
    import concurrent.futures as cf
    with cf.ThreadPoolExecutor(max_workers=2) as ex:
        mc = ex.submit(V.tlc_must_pass, "MC_Reader", "MC_Reader_c15" if tier == "quick" else "MC_Reader_c15_t",
                       workers=8, xmx="12g", timeout=2400)
        drv = V.build_driver("reader_drv", "san", wrap=True)
        jobs = gen_jobs(rng, sc, 150 if tier == "quick" else 2500, ev)
        res = TR.run_sharded(drv, jobs, sc, "gen")
        viols, good = TR.validate_all("Trace_Reader", "Trace_Reader", res, ev, "C15")
        # two readers over two archives: interleaved call by call, and on two threads; each reader's
        # trace is validated on its own - a shared mutable would make one of them deviate
        d2 = V.build_driver("reader2_drv", "san")
        pj = gen_jobs(rng, sc, 40 if tier == "quick" else 600, ev, flags="b", tag="p")
        pj = [j for j in pj if j.split()[3] in ("path", "cb")]
        pj = pj[:len(pj) // 2 * 2]
        import subprocess

        def two(mode, k, lines):
            jf = os.path.join(sc, "pair_%s_%d.txt" % (mode, k))
            open(jf, "w").write("\n".join(lines) + "\n")
            oa, ob = os.path.join(sc, "pair_%s_%d_a.ndjson" % (mode, k)), os.path.join(sc, "pair_%s_%d_b.ndjson" % (mode, k))
            p = subprocess.run([d2, mode, jf, oa, ob], capture_output=True, env=V.run_env(), timeout=1200)
            return [(jf, oa, len(lines) // 2, p), (jf, ob, len(lines) // 2, p)]
        pres = []
        nsh = 4
        for mode in ("interleave", "threads"):
            for k in range(nsh):
                sub = [x for i in range(k * 2, len(pj) - 1, nsh * 2) for x in pj[i:i + 2]]
                if sub:
                    pres += two(mode, k, sub)
        v2, g2 = TR.validate_all("Trace_Reader", "Trace_Reader", pres, ev, "C15")
        viols += v2
        good += g2
        ev.set("two_reader_executions", g2)
        mcr = mc.result()
    ev.tlc(mcr)
    if mcr.violation:
        d = V.replay_dir("C15", "model")
        open(os.path.join(d, "tlc.out"), "w").write(mcr.out)
        raise V.HarnessError("bounded Reader model violates %s (%s)" % (mcr.violation, d))
    ev.add("traces_validated_against_impl", good)
    ev.set("executions", len(jobs))
    for j in jobs[:3]:
        ev.sample(j)
    ev.set("rule", "distinct = (policy, set of entry kinds in the archive, stream kind)")
    for v in viols:
        # keep the inputs next to the replay
        for ln in open(os.path.join(v["replay"], "jobs.txt")):
            p = ln.split()
            for f in (p[1], p[2]):
                if os.path.exists(f):
                    shutil.copy(f, v["replay"])
    shutil.rmtree(sc, ignore_errors=True)
    return viols


def replay(path):
    drv = V.build_driver("reader_drv", "san", wrap=True)
    sc = V.scratch("c15r")
    lines = []
    for i, ln in enumerate(open(os.path.join(path, "jobs.txt"))):
        p = ln.split()
        p[1] = os.path.join(path, os.path.basename(p[1]))
        p[2] = os.path.join(path, os.path.basename(p[2]))
        xd = os.path.join(sc, "x%d" % i)
        os.makedirs(xd)
        p[5] = xd
        lines.append(" ".join(p))
    ev = V.Evidence("C15", "quick", 0, LEVEL)
    res = TR.run_sharded(drv, lines, sc, "replay", nshards=1)
    viols, good = TR.validate_all("Trace_Reader", "Trace_Reader", res, ev, "C15")
    for v in viols:
        V.violation("C15", v["replay"], v["msg"])
    print("accepted %d executions" % good)
    return 1 if viols else 0
