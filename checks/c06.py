"""C06 - extraction reproduces the archived tree: contents, names, times, modes, links."""
import json, os, random, re, shutil, struct, subprocess, sys, concurrent.futures as cf
import vcommon as V
import arc, extractgen as EG
import tracerun as TR
sys.path.insert(0, os.path.join(V.ROOT, "harness", "py", "enc"))

LEVEL = "model_checking"
ASSUMPTIONS = ["well-formed archives: each directory entry is followed contiguously by its contents",
               "owner ids are not checked (chown fails for the unprivileged user and lhasa ignores that); time stamps of symbolic links, of "
               "directories that receive a deferred link, and of entries whose stamp is 0 are not checked, as in the statement",
               "umask 022; TZ=UTC",
               "compressed members come from independent encoders (harness/py/enc) whose streams the real decoders expand exactly",
               "TLC/SANY/CommunityModules trusted"]
METHODS = ["-lh0-", "-lh0-", "-lz4-", "-lh5-", "-lh1-", "-lzs-", "-lz5-", "-lh6-", "-lh7-", "-lh4-", "-lhx-", "-pm2-", "-pm1-", "-pm0-"]


def compress(method, data, rng):
    import common as EC
    if method in ("-lh0-", "-lz4-", "-pm0-"):
        return data
    if method == "-lzs-":
        import enc_lzs as E
        cmds = [("lit", b) for b in data]
        return E.encode(cmds)
    if method == "-lz5-":
        import enc_lz5 as E
        return E.encode([("lit", b) for b in data])
    if method == "-lh1-":
        import enc_lh1 as E
        cmds = EC.greedy_parse(data, 4096, 3, 60)
        return E.encode(cmds)
    if method in ("-lh4-", "-lh5-", "-lh6-", "-lh7-", "-lhx-"):
        import enc_lhnew as E
        cmds = EC.greedy_parse(data, min(E.window(method), 8192), 3, 256)
        return E.encode(cmds, method)
    if method == "-pm2-":
        import enc_pm2 as E
        return E.encode([("lit", b) for b in data])
    if method == "-pm1-":
        import enc_pm1 as E
        cmds = [("lit", b) for b in data]
        return E.encode(cmds, tree="auto")
    raise ValueError(method)


def macbinary(name, data, mtime):
    """a MacBinary envelope as MacLHA attaches it: 128-byte header + data fork, padded to 128"""
    h = bytearray(128)
    h[1] = len(name)
    h[2:2 + len(name)] = name
    struct.pack_into(">I", h, 0x53, len(data))
    struct.pack_into(">I", h, 0x57, 0)
    struct.pack_into(">I", h, 0x5f, mtime + 2082844800)
    body = bytes(h) + data
    pad = (-len(body)) % 128
    return body + b"\0" * pad


class Tree:
    def __init__(self, rng, tier):
        self.rng, self.members, self.items, self.n = rng, [], [], 0
        self.tier = tier
        self.has_deferred = set()

    def name(self):
        self.n += 1
        return b"n%d%s" % (self.n, self.rng.choice([b"", b".txt", b"_X", b" sp"]))

    def add_file(self, d):
        r = self.rng
        nm = self.name()
        path = d + nm
        data = bytes(r.choice(b"abc \n") if r.random() < 0.7 else r.randrange(256) for _ in range(r.choice([0, 1, 10, 100, 700, 3000])))
        method = r.choice(METHODS)
        lvl = r.choice([1, 2, 2, 3])
        mt = r.choice([1000000000, 1234567890, 86400 * 365, 2 ** 31 - 2, 0])
        perms = r.choice([0o100644, 0o100600, 0o100755, 0o100444, None])
        try:
            payload = compress(method, data, r)
        except Exception:
            method, payload = "-lh0-", data
        if r.random() < 0.12:
            # a member from a Mac archive, with or without a MacBinary envelope
            env = r.random() < 0.6
            mt = mt or 1000000000     # (the envelope is recognised by, among other things, its time stamp agreeing with the header's)
            body = macbinary(nm, data, mt) if env else data
            m = arc.unix_file(path, body, level=lvl, method=b"-lh0-", perms=None, time=mt)
            m.os = ord("m")
            self.members.append(m)
            self.items.append({"p": path, "ty": "file", "data": data, "mtime": mt, "mode": 0o600})
            return
        m = arc.unix_file(path, data, level=lvl, method=method.encode(), payload=payload, perms=perms, time=mt)
        self.members.append(m)
        self.items.append({"p": path, "ty": "file", "data": data, "mtime": mt, "mode": (perms & 0o7777) if perms is not None else 0o600})

    def add_link(self, d, siblings):
        r = self.rng
        nm = self.name()
        if r.random() < 0.7 or not siblings:
            tgt = r.choice([b"somewhere", b"a/b/c", nm + b"x", b"."] + [s.split(b"/")[-1] for s in siblings[:3]])
            self.members.append(arc.unix_symlink(d + nm, tgt, level=r.choice([1, 2])))
            self.items.append({"p": d + nm, "ty": "link", "t": tgt})
        else:
            tgt = r.choice([b"../elsewhere", b"/nonexistent/abs", b"x/../../y"])
            self.members.append(arc.unix_symlink(d + nm, tgt, level=2))
            self.items.append({"p": d + nm, "ty": "unsafe", "t": tgt})
            # the directory that receives the link at the very end gets a new mtime: excluded by the statement
            self.has_deferred.add(d)

    def add_dir(self, d, depth):
        r = self.rng
        nm = self.name().replace(b" ", b"_")
        path = d + nm
        perms = r.choice([0o40755, 0o40700, 0o40555, 0o40500, 0o40775, None])
        mt = r.choice([1000000000, 946684800, 0])
        self.members.append(arc.unix_dir(path, level=r.choice([1, 2, 3]), perms=perms, time=mt))
        it = {"p": path, "ty": "dir", "mtime": mt, "mode": (perms & 0o7777) if perms is not None else 0o755}
        self.items.append(it)
        self.fill(path + b"/", depth + 1)
        return it

    def fill(self, d, depth):
        r = self.rng
        sib = []
        maxd = 3 if self.tier == "quick" else 6
        for _ in range(r.randint(0 if depth else 1, 4 if depth else 5)):
            q = r.random()
            if q < 0.55 or depth >= maxd:
                self.add_file(d)
                sib.append(self.items[-1]["p"])
            elif q < 0.7:
                self.add_link(d, sib)
            else:
                self.add_dir(d, depth)


def expect_event(t, root, tree, opts):
    """Expect event: what the generator demands of the final tree (relative paths under root)"""
    base = EG.loc_of(root)
    items = []
    for it in t.items:
        p = it["p"]
        if opts.get("ignore_path"):
            if it["ty"] == "dir":
                continue
            p = p.split(b"/")[-1]
        if opts.get("wdir"):
            p = opts["wdir"].encode() + b"/" + p
        e = {"loc": base + EG.loc_of(p), "ty": it["ty"], "size": 0, "crc": 0, "mtime": [-1], "mode": -1, "traw": ""}
        if it["ty"] == "file":
            e.update(size=len(it["data"]), crc=arc.crc16(it["data"]), mode=it["mode"])
            if it["mtime"]:
                e["mtime"] = [(it["mtime"] >> 16) & 0xFFFF, it["mtime"] & 0xFFFF]
        elif it["ty"] == "dir":
            e["mode"] = it["mode"]
            d = it["p"] + b"/"
            if it["mtime"] and d not in t.has_deferred:
                e["mtime"] = [(it["mtime"] >> 16) & 0xFFFF, it["mtime"] & 0xFFFF]
        elif it["ty"] == "link":
            e["traw"] = it["t"].hex()
        items.append(e)
    if opts.get("wdir"):
        parts = opts["wdir"].split("/")
        for k in range(1, len(parts) + 1):
            items.append({"loc": base + EG.loc_of("/".join(parts[:k])), "ty": "dir", "size": 0, "crc": 0, "mtime": [-1], "mode": 0o755, "traw": ""})
    return {"e": "Expect", "items": items, "tree": tree}


def run(tier, seed, ev):
    rng = random.Random(seed)
    sc = V.scratch("c06")
    os.chmod(sc, 0o755)
    lha = V.lha_binary("plain")
    ncases = 240 if tier == "quick" else 4000
    cases = []
    for i in range(ncases):
        t = Tree(random.Random(rng.getrandbits(32)), tier)
        t.fill(b"", 0)
        opt = rng.choice([[], [], ["f"], ["q0"], ["q1"], ["q2"], ["v"], ["i"], ["w=out"], ["f", "w=a/b"], ["q1", "f", "v"]])
        cases.append((i, t, opt))
    os.umask(0o022)

    def one(k):
        tr = os.path.join(sc, "e_trace_%d.ndjson" % k)
        n = 0
        with open(tr, "w") as f:
            for (i, t, opt) in cases[k::V.NCPU]:
                rd = os.path.join(sc, "run_%d" % i)
                os.makedirs(rd); os.chmod(rd, 0o755)
                a = os.path.join(rd, "a.lzh")
                open(a, "wb").write(arc.archive(t.members))
                wdir = None
                for o in opt:
                    if o.startswith("w="):
                        wdir = o[2:]
                args = ["x" + "".join(o for o in opt)]
                try:
                    evs, p, root, outs, tree = EG.run_tool(lha, args, a, rd, mode="extract", wdir=wdir)
                except subprocess.TimeoutExpired:
                    f.write(json.dumps({"e": "Timeout", "case": i}) + "\n")
                    continue
                evs.append(expect_event(t, root, tree, {"ignore_path": "i" in opt, "wdir": wdir}))
                if p.returncode not in (0, 1):       # 1: some entry failed (e.g. an unsafe link in a read-only directory) - a normal exit
                    evs.append({"e": "AbnormalExit", "code": p.returncode, "stderr": p.stderr.decode(errors="replace")[-300:], "stdout": p.stdout.decode(errors="replace")[-300:]})
                for e in evs:
                    f.write(json.dumps(e, separators=(",", ":")) + "\n")
                n += 1
                shutil.rmtree(rd, ignore_errors=True)

        class P: returncode = 0; stderr = b""
        return tr, tr, n, P()
    with cf.ThreadPoolExecutor(max_workers=V.NCPU) as ex:
        results = [r for r in ex.map(one, range(V.NCPU)) if r[2] > 0]
    viols, good = TR.validate_all("Trace_Extract", "Trace_Extract", results, ev, "C06", xmx="4g")
    ev.add("traces_validated_against_impl", good)
    ev.set("extractions", len(cases))
    for (i, t, opt) in cases:
        ev.cls((tuple(opt), len(t.members) > 5, bool(t.has_deferred), any(m.os == ord("m") for m in t.members)))
    ev.sample({"options": cases[0][2], "entries": [it["p"].decode("latin1") + ("/" if it["ty"] == "dir" else "") for it in cases[0][1].items][:20]})
    ev.set("rule", "one extraction per generated directory-first tree and option set; distinct = (options, large tree, has unsafe links, has Mac members)")
    shutil.rmtree(sc, ignore_errors=True)
    return viols


def replay(path):
    print("the rejected extraction is in", path)
    return 2
