"""C06 - extraction reproduces the archived tree: contents, names, times, modes, links."""
import json, os, random, re, shutil, struct, subprocess, sys, concurrent.futures as cf
import vcommon as V
import arc, extractgen as EG
import tracerun as TR
sys.path.insert(0, os.path.join(V.ROOT, "harness", "py", "enc"))

LEVEL = "model_checking"
ASSUMPTIONS = ["well-formed archives: each directory entry is followed contiguously by its contents",
               "time stamps of symbolic links, of "
               "directories that receive a deferred link, and of entries whose stamp is 0 are not checked, as in the statement",
               "umask 022; TZ=UTC",
               "compressed members come from independent encoders (harness/py/enc) whose streams the real decoders expand exactly",
               "TLC/SANY/CommunityModules trusted"]
METHODS = ["-lh0-", "-lh0-", "-lz4-", "-lh5-", "-lh1-", "-lzs-", "-lz5-", "-lh6-", "-lh7-", "-lh4-", "-lhx-", "-pm2-", "-pm1-", "-pm0-"]


def compress(method, data, rng):
    import common as EC
    if method in ("-lh0-", "-lz4-", "-pm0-"):
        return data
    if method == "-lzs-":
        import enc_lzs as E
        cmds = [("lit", b) for b in data]
        return E.encode(cmds)
    if method == "-lz5-":
        import enc_lz5 as E
        return E.encode([("lit", b) for b in data])
    if method == "-lh1-":
        import enc_lh1 as E
        cmds = EC.greedy_parse(data, 4096, 3, 60)
        return E.encode(cmds)
    if method in ("-lh4-", "-lh5-", "-lh6-", "-lh7-", "-lhx-"):
        import enc_lhnew as E
        cmds = EC.greedy_parse(data, min(E.window(method), 8192), 3, 256)
        return E.encode(cmds, method)
    if method == "-pm2-":
        import enc_pm2 as E
        return E.encode([("lit", b) for b in data])
    if method == "-pm1-":
        import enc_pm1 as E
        cmds = [("lit", b) for b in data]
        return E.encode(cmds, tree="auto")
    raise ValueError(method)


def macbinary(name, data, mtime):
    """a MacBinary envelope as MacLHA attaches it: 128-byte header + data fork, padded to 128"""
    h = bytearray(128)
    h[1] = len(name)
    h[2:2 + len(name)] = name
    struct.pack_into(">I", h, 0x53, len(data))
    struct.pack_into(">I", h, 0x57, 0)
    struct.pack_into(">I", h, 0x5f, mtime + 2082844800)
    body = bytes(h) + data
    pad = (-len(body)) % 128
    return body + b"\0" * pad


OWNERS = [(0, 0), (1, 1), (1000, 100), (65534, 65534), (65535, 65535), (12345, 54321), (65534, 7), (0, 65534), (7, 0)]


class Tree:
    def __init__(self, rng, tier, owners=False):
        self.rng, self.members, self.items, self.n = rng, [], [], 0
        self.tier = tier
        self.has_deferred = set()
        self.owners = owners      # some entries record owner ids (extended header 0x51)

    def own(self):
        """appends an owner header to the member just added, sometimes"""
        if self.owners and self.rng.random() < 0.6:
            u, g = self.rng.choice(OWNERS)
            self.members[-1].exts.append(arc.x_uidgid(u, g))
            self.items[-1]["own"] = [u, g]

    def name(self):
        self.n += 1
        return b"n%d%s" % (self.n, self.rng.choice([b"", b".txt", b"_X", b" sp"]))

    def add_file(self, d):
        r = self.rng
        nm = self.name()
        path = d + nm
        data = bytes(r.choice(b"abc \n") if r.random() < 0.7 else r.randrange(256) for _ in range(r.choice([0, 1, 10, 100, 700, 3000])))
        method = r.choice(METHODS)
        lvl = r.choice([1, 2, 2, 3])
        mt = r.choice([1000000000, 1234567890, 86400 * 365, 2 ** 31 - 2, 0])
        perms = r.choice([0o100644, 0o100600, 0o100755, 0o100444, None, 0o100000, 0o100777, 0o100400])
        try:
            payload = compress(method, data, r)
        except Exception:
            method, payload = "-lh0-", data
        if r.random() < 0.12:
            # a member from a Mac archive, with or without a MacBinary envelope
            env = r.random() < 0.6
            mt = mt or 1000000000     # (the envelope is recognised by, among other things, its time stamp agreeing with the header's)
            body = macbinary(nm, data, mt) if env else data
            m = arc.unix_file(path, body, level=lvl, method=b"-lh0-", perms=None, time=mt)
            m.os = ord("m")
            self.members.append(m)
            self.items.append({"p": path, "ty": "file", "data": data, "mtime": mt, "mode": 0o600})
            return
        m = arc.unix_file(path, data, level=lvl, method=method.encode(), payload=payload, perms=perms, time=mt)
        self.members.append(m)
        self.items.append({"p": path, "ty": "file", "data": data, "mtime": mt, "mode": (perms & 0o7777) if perms is not None else 0o600})
        self.own()

    def add_link(self, d, siblings):
        r = self.rng
        nm = self.name()
        if r.random() < 0.7 or not siblings:
            tgt = r.choice([b"somewhere", b"a/b/c", nm + b"x", b"."] + [s.split(b"/")[-1] for s in siblings[:3]])
            self.members.append(arc.unix_symlink(d + nm, tgt, level=r.choice([1, 2])))
            self.items.append({"p": d + nm, "ty": "link", "t": tgt})
            self.own()
        else:
            tgt = r.choice([b"../elsewhere", b"/nonexistent/abs", b"x/../../y"])
            self.members.append(arc.unix_symlink(d + nm, tgt, level=2))
            self.items.append({"p": d + nm, "ty": "unsafe", "t": tgt})
            # the directory that receives the link at the very end gets a new mtime: excluded by the statement
            self.has_deferred.add(d)

    def add_dir(self, d, depth):
        r = self.rng
        nm = self.name().replace(b" ", b"_")
        path = d + nm
        perms = r.choice([0o40755, 0o40700, 0o40555, 0o40500, 0o40775, None, 0o41777, 0o44755, 0o45777, 0o41700])   # (no set-group-id bit: the kernel hands it down to directories created below, which is not lhasa's doing)
        mt = r.choice([1000000000, 946684800, 0])
        self.members.append(arc.unix_dir(path, level=r.choice([1, 2, 3]), perms=perms, time=mt))
        it = {"p": path, "ty": "dir", "mtime": mt, "mode": (perms & 0o7777) if perms is not None else 0o755, "hp": perms is not None}
        self.items.append(it)
        self.own()
        self.fill(path + b"/", depth + 1)
        return it

    def fill(self, d, depth):
        r = self.rng
        sib = []
        maxd = 3 if self.tier == "quick" else 6
        for _ in range(r.randint(0 if depth else 1, 4 if depth else 5)):
            q = r.random()
            if q < 0.55 or depth >= maxd:
                self.add_file(d)
                sib.append(self.items[-1]["p"])
            elif q < 0.7:
                self.add_link(d, sib)
            else:
                self.add_dir(d, depth)


def expect_event(t, root, tree, opts):
    """Expect event: what the generator demands of the final tree (relative paths under root)"""
    base = EG.loc_of(root)
    items = []
    for it in t.items:
        p = it["p"]
        if opts.get("ignore_path"):
            if it["ty"] == "dir":
                continue
            p = p.split(b"/")[-1]
        if opts.get("wdir"):
            p = opts["wdir"].encode() + b"/" + p
        e = {"loc": base + EG.loc_of(p), "ty": it["ty"], "size": 0, "crc": 0, "mtime": [-1], "mode": -1, "traw": ""}
        if it["ty"] == "file":
            e.update(size=len(it["data"]), crc=arc.crc16(it["data"]), mode=it["mode"])
            if it["mtime"]:
                e["mtime"] = [(it["mtime"] >> 16) & 0xFFFF, it["mtime"] & 0xFFFF]
        elif it["ty"] == "dir":
            e["mode"] = it["mode"]
            d = it["p"] + b"/"
            if it["mtime"] and d not in t.has_deferred:
                e["mtime"] = [(it["mtime"] >> 16) & 0xFFFF, it["mtime"] & 0xFFFF]
        elif it["ty"] == "link":
            e["traw"] = it["t"].hex()
        items.append(e)
    if opts.get("wdir") and items:         # (the w= directory comes into being with the first entry extracted into it)
        parts = opts["wdir"].split("/")
        for k in range(1, len(parts) + 1):
            items.append({"loc": base + EG.loc_of("/".join(parts[:k])), "ty": "dir", "size": 0, "crc": 0, "mtime": [-1], "mode": 0o755, "traw": ""})
    return {"e": "Expect", "items": items, "tree": tree}


def model_event(t, tree, opt, filters, pre, answers, code=None, who=None):
    """ExpectModel event: the generator only says what the archive is meant to contain; TreeModel.tla computes the tree"""
    items = []
    for it in t.items:
        p = it["p"]
        e = {"pb": list(p + (b"/" if it["ty"] == "dir" else b"")), "comps": EG.loc_of(p), "ty": it["ty"], "size": 0, "crc": 0,
             "mtime": [-1], "mode": -1, "traw": "", "hp": bool(it.get("hp", True)), "own": it.get("own", [-1])}
        if it["ty"] == "file":
            e.update(size=len(it["data"]), crc=arc.crc16(it["data"]), mode=it["mode"])
            if it["mtime"]:
                e["mtime"] = [(it["mtime"] >> 16) & 0xFFFF, it["mtime"] & 0xFFFF]
        elif it["ty"] == "dir":
            e["mode"] = it["mode"]
            if it["mtime"] and (it["p"] + b"/") not in t.has_deferred:
                e["mtime"] = [(it["mtime"] >> 16) & 0xFFFF, it["mtime"] & 0xFFFF]
        elif it["ty"] == "link":
            e["traw"] = it["t"].hex()
        items.append(e)
    wd = []
    for o in opt:
        if o.startswith("w="):
            wd = EG.loc_of(o[2:])
    return {"e": "ExpectModel", "items": items, "filters": [list(f) for f in filters],
            "opts": {"flat": "i" in opt, "wd": wd, "policy": "all" if any(o == "f" or o.startswith("q") for o in opt) else "prompt",
                     **({"me": list(who[0]), "priv": bool(who[1])} if who else {})},
            "pre": [{"comps": EG.loc_of(rel), "ty": kind, "size": len(val or b"") if kind == "file" else 0, "crc": arc.crc16(val) if kind == "file" else 0, "mode": md,
                     "traw": val.hex() if kind == "link" else "",
                     "live": kind != "link" or any(r2 == os.path.normpath(os.path.join(os.path.dirname(rel), val.decode("latin1"))) for (r2, k2, v2, m2) in pre)}
                    for (rel, kind, val, md) in pre],
            "answers": list(answers), "tree": tree, **({"code": code} if code is not None else {})}


def model_case(rng, t, opt):
    """wildcard arguments, files already present, and what is typed at the overwrite prompt"""
    files = [it for it in t.items if it["ty"] == "file"]
    filters = []
    if rng.random() < 0.5 and t.items:
        for _ in range(rng.choice([1, 1, 2])):
            it = rng.choice(t.items)
            full = it["p"] + (b"/" if it["ty"] == "dir" else b"")
            q = rng.random()
            if q < 0.25:
                filters.append(full)
            elif q < 0.5:
                filters.append(full[:rng.randrange(1, len(full) + 1)] + b"*")
            elif q < 0.65:
                filters.append(b"*" + full[rng.randrange(len(full)):])
            elif q < 0.8:
                filters.append(bytes(63 if rng.random() < 0.3 else c for c in full))
            else:
                filters.append(rng.choice([b"*", b"*.txt", b"n?", b"*/*", b"n1*", b"*_X*", b"?*/?*"]))
    wd = b""
    for o in opt:
        if o.startswith("w="):
            wd = o[2:].encode() + b"/"
    pre = []
    seen = set()
    for it in files:
        if rng.random() < 0.45:
            rel = it["p"].split(b"/")[-1] if "i" in opt else it["p"]
            rel = wd + rel
            if rel in seen:
                continue
            seen.add(rel)
            q = rng.random()
            rels = rel.decode("ascii")
            if q < 0.12:
                # a directory (empty, or with something in it) where the archived file belongs: it stays
                pre.append((rels, "dir", None, 0o755))
                if rng.random() < 0.5:          # (an empty directory stays as well: nothing the tool tries on the way may remove it)
                    pre.append((rels + "/kept", "file", b"inside %d" % len(pre), 0o644))
            elif q < 0.7:
                pre.append((rels, "file", b"old contents %d" % len(pre), 0o644))
            else:
                # a symbolic link where the archived file belongs: to a directory, to a file, to nothing (all inside the tree)
                tn = "zz_t%d" % len(pre)
                trel = os.path.join(os.path.dirname(rels), tn)
                if q < 0.82:
                    pre.append((trel, "dir", None, 0o755))
                elif q < 0.92:
                    pre.append((trel, "file", b"link target %d" % len(pre), 0o644))
                pre.append((rels, "link", tn.encode(), 0o777))
    # something already there where a symbolic link entry belongs: it is replaced without a question
    for it in t.items:
        if it["ty"] in ("link", "unsafe") and rng.random() < 0.35:
            rel = wd + (it["p"].split(b"/")[-1] if "i" in opt else it["p"])
            if rel in seen:
                continue
            seen.add(rel)
            rels = rel.decode("ascii")
            if rng.random() < 0.6:
                pre.append((rels, "file", b"in the way %d" % len(pre), 0o644))
            else:
                pre.append((rels, "link", b"zz_nowhere", 0o777))
    lines = [rng.choice([b"y", b"n", b"", b"Y", b"N", b"x", b"yes", b"no way", b"  y", b"q", b"A", b"S", b"a", b"s"]) for _ in range(rng.randint(0, 6))]
    if rng.random() < 0.75:
        lines.append(rng.choice([b"a", b"s", b"All", b"skip"]))        # (otherwise the input may end at a prompt: the tool exits there)
    stdin = b"".join(ln + b"\n" for ln in lines)
    answers = bytes((ln + b"\n")[0] for ln in lines)
    return filters, pre, stdin, answers


def policy_pass(rng, sc, tier, ev):
    """the library's own extraction (lha_reader_extract with the paths of the headers) under each of its three
    directory policies: the tree left behind must be TreeModel's.  Under the PLAIN policy a directory's metadata is
    applied when it is created, so the time stamp of a directory that receives children afterwards is not guaranteed."""
    rdrv = V.build_driver("reader_drv", "san", wrap=True)
    n = 45 if tier == "quick" else 600
    jobs, meta = [], []
    for i in range(n):
        t = Tree(random.Random(rng.getrandbits(32)), tier, owners=(i % 2 == 0))
        t.fill(b"", 0)
        pol = ("plain", "eod", "eof")[i % 3]
        rd = os.path.join(sc, "pol_%d" % i)
        xd = os.path.join(rd, "x")
        os.makedirs(xd)
        a = os.path.join(rd, "a.lzh")
        open(a, "wb").write(arc.archive(t.members))
        jobs.append("exec - %s path %s %s 0 - %s" % (a, pol, xd, ",".join(["N,X"] * (2 * len(t.members) + 3))))
        meta.append((t, pol, xd))
        ev.cls(("library-policy", pol, bool(t.has_deferred)))
    res = TR.run_sharded(rdrv, jobs, sc, "pol")
    for jf, tr, k, p in res:
        if p.returncode != 0:
            raise V.HarnessError("reader_drv failed in the policy pass: %s" % (p.stderr or b"").decode(errors="replace")[-400:])
    out = []
    nsh = V.NCPU
    for k in range(nsh):
        tr = os.path.join(sc, "pol_expect_%d.ndjson" % k)
        cnt = 0
        with open(tr, "w") as f:
            for (t, pol, xd) in meta[k::nsh]:
                tree = EG.walk_tree(xd)
                e = model_event(t, tree, ["f"], [], [], b"", who=((os.geteuid(), os.getegid()), os.geteuid() == 0))
                if pol == "plain":
                    parents = {it["p"] for it in t.items if it["ty"] == "dir" and any(o["p"].startswith(it["p"] + b"/") for o in t.items)}
                    for it, x in zip(t.items, e["items"]):
                        if it["p"] in parents:
                            x["mtime"] = [-1]
                f.write(json.dumps({"e": "Reset", "cwd": EG.loc_of(xd), "root": EG.loc_of(xd), "pre": [], "mode": "extract", "case": "policy-" + pol}, separators=(",", ":")) + "\n")
                f.write(json.dumps(e, separators=(",", ":")) + "\n")
                cnt += 1

        class P: returncode = 0; stderr = b""
        if cnt:
            out.append((tr, tr, cnt, P()))
    for (t, pol, xd) in meta:
        for dp, dns, fns in os.walk(xd):
            try:
                os.chmod(dp, 0o700)
            except OSError:
                pass
    ev.set("library_policy_extractions", len(meta))
    return out


def owner_pass(rng, sc, tier, ev):
    """archives that record owner ids, extracted by the tool as a privileged user (files and directories are handed to the recorded ids) and
    as an unprivileged one (the system refuses, the tool carries on): the owners in the tree left behind must be TreeModel's (no strace here:
    only the final tree is compared)"""
    lha = V.lha_binary("plain")
    amroot = os.geteuid() == 0
    n = 64 if tier == "quick" else 900
    cases = []
    for i in range(n):
        t = Tree(random.Random(rng.getrandbits(32)), tier, owners=True)
        t.fill(b"", 0)
        opt = rng.choice([["f"], ["f"], ["q1"], [], ["i", "f"], ["f", "w=o"], ["q2", "w=a/b"]])
        cases.append((i, t, opt, model_case(rng, t, opt)))

    def one(i):
        _, t, opt, (filters, pre, stdin, answers) = cases[i]
        priv = amroot and i % 3 != 0
        rd = os.path.join(sc, "own_%d" % i)
        root = os.path.join(rd, "root")
        os.makedirs(root); os.chmod(rd, 0o755)
        a = os.path.join(rd, "a.lzh")
        open(a, "wb").write(arc.archive(t.members))
        for (rel, kind, val, md) in pre:
            p = os.path.join(root, rel)
            os.makedirs(os.path.dirname(p), exist_ok=True)
            if kind == "dir":
                os.makedirs(p, exist_ok=True); os.chmod(p, md)
            elif kind == "file":
                open(p, "wb").write(val); os.chmod(p, md)
            else:
                os.symlink(val, p)
        cmd = []
        me = (os.geteuid(), os.getegid())
        if amroot and not priv:
            me = (EG.UNPRIV, EG.UNPRIV)
            for dp, dns, fns in os.walk(rd):
                os.lchown(dp, *me)
                for x in fns + dns:
                    os.lchown(os.path.join(dp, x), *me)
            cmd = ["setpriv", "--reuid=%d" % me[0], "--regid=%d" % me[1], "--clear-groups"]
        args = ("x" if i % 4 else "e") + "".join(o for o in sorted(opt, key=lambda o: o.startswith("w=")))
        reset = {"e": "Reset", "cwd": EG.loc_of(root), "root": EG.loc_of(root), "pre": [], "mode": "extract", "case": "owners-%d-%s" % (i, "priv" if priv else "unpriv")}
        try:
            p = V.run_bounded(cmd + [lha, args, a] + [bytes(f) for f in filters], capture_output=True, cwd=root, env=V.run_env(), input=stdin, timeout=120, cpu=30, fsize=64 << 20)
        except subprocess.TimeoutExpired:
            p = subprocess.CompletedProcess([], -9, b"", b"")
        if p.returncode not in (0, 1, 255):
            shutil.rmtree(rd, ignore_errors=True)
            return [reset, {"e": "DidNotReturn", "code": p.returncode, "typed": list(stdin), "stderr_tail": p.stderr.decode(errors="replace")[-200:]}]
        tree = EG.walk_tree(root)
        e = model_event(t, tree, opt, filters, pre, answers, code=p.returncode, who=(me, priv))
        for dp, dns, fns in os.walk(root):
            try:
                os.chmod(dp, 0o700)
            except OSError:
                pass
        shutil.rmtree(rd, ignore_errors=True)
        return [reset, e]
    with cf.ThreadPoolExecutor(max_workers=V.NCPU) as ex:
        evs = list(ex.map(one, range(n)))
    out = []
    nsh = V.NCPU
    for k in range(nsh):
        tr = os.path.join(sc, "own_expect_%d.ndjson" % k)
        sub = evs[k::nsh]
        with open(tr, "w") as f:
            for pair in sub:
                for e in pair:
                    f.write(json.dumps(e, separators=(",", ":")) + "\n")

        class P: returncode = 0; stderr = b""
        if sub:
            out.append((tr, tr, len(sub), P()))
    ev.set("extractions_with_recorded_owners", n)
    ev.set("extractions_as_privileged_user", sum(1 for i in range(n) if amroot and i % 3 != 0))
    for (i, t, opt, mc) in cases:
        ev.cls(("owners", tuple(opt), amroot and i % 3 != 0))
    return out


def prompt_pass(rng, sc, tier, ev, maxlen=None):
    """every sequence of answers (y, n, a, s, an empty line, an unrecognised line; upper case too) of up to 3 (thorough: 4)
    lines at the overwrite prompt, for an archive of four files that are all present already: the files replaced must be
    exactly those TreeModel!Ask says (no strace here: only the final tree is compared)"""
    import itertools
    lha = V.lha_binary("plain")
    t = Tree(random.Random(7), tier)
    # (a dangerous link comes first: when the input ends at a prompt the tool is gone before the link is made, and what stays behind is its
    #  placeholder - an empty file only the owner can touch)
    t.members.append(arc.unix_symlink(b"lnk", b"../x", level=2))
    t.items.append({"p": b"lnk", "ty": "unsafe", "t": b"../x"})
    for nm, data in ((b"f1", b"new one"), (b"f2", b"new two!"), (b"d/f3", b"new three"), (b"f4", b"4")):
        if nm == b"d/f3":
            t.members.append(arc.unix_dir(b"d", level=1, perms=0o40755, time=1000000000))
            t.items.append({"p": b"d", "ty": "dir", "mtime": 1000000000, "mode": 0o755, "hp": True})
        t.members.append(arc.unix_file(nm, data, level=2, method=b"-lh0-", payload=data, perms=0o100644, time=1234567890))
        t.items.append({"p": nm, "ty": "file", "data": data, "mtime": 1234567890, "mode": 0o644})
    a = os.path.join(sc, "prompt.lzh")
    open(a, "wb").write(arc.archive(t.members))
    alphabet = [b"y", b"n", b"a", b"s", b"", b"x", b"Y", b"S"]
    seqs = [()]
    for L in range(1, (maxlen or (3 if tier == "quick" else 4)) + 1):
        seqs += list(itertools.product(alphabet if L < 3 or tier != "quick" else alphabet[:6], repeat=L))
    # the last line typed need not end in a newline: input that simply stops in the middle of an answer
    seqs += [("NONL",) + q for q in [(b"y",), (b"x",), (b"n", b"a"), (b"",), (b"y", b"y", b"y", b"y"), (b"q", b"q")]]
    runs = []

    def one(k):
        seq = seqs[k]
        nonl = len(seq) > 0 and seq[0] == "NONL"
        if nonl:
            seq = seq[1:]
        lines = list(seq)                         # (no padding: the input may end at a prompt, which ends the tool)
        rd = os.path.join(sc, "pr_%d" % k)
        os.makedirs(os.path.join(rd, "d"))
        pre = []
        for rel in ("f1", "f2", "d/f3", "f4"):
            open(os.path.join(rd, rel), "wb").write(b"old " + rel.encode())
            os.chmod(os.path.join(rd, rel), 0o644)
            pre.append((rel, "file", b"old " + rel.encode(), 0o644))
        typed = b"".join(x + b"\n" for x in lines)
        if nonl:
            typed = typed[:-1]
        try:
            p = V.run_bounded([lha, "x", a], capture_output=True, cwd=rd, env=V.run_env(), input=typed, timeout=120, cpu=20, fsize=32 << 20)
        except subprocess.TimeoutExpired:
            p = subprocess.CompletedProcess([], -9, b"", b"")
        if p.returncode not in (0, 1, 255):
            # stopped by the harness' limits (it printed or ran for ever), or died: no action of the trace spec matches this
            shutil.rmtree(rd, ignore_errors=True)
            return [{"e": "Reset", "cwd": EG.loc_of(rd), "root": EG.loc_of(rd), "pre": [], "mode": "extract", "case": "prompt-" + b",".join(seq).decode()},
                    {"e": "DidNotReturn", "code": p.returncode, "typed": list(typed), "stderr_tail": p.stderr.decode(errors="replace")[-200:]}]
        tree = EG.walk_tree(rd)
        # (a line that is not terminated is not an answer: the input ends while the tool is still reading it, which ends the tool)
        answers = bytes((x + b"\n")[0] for x in (lines[:-1] if nonl else lines))
        e = model_event(t, tree, [], [], pre, answers, code=p.returncode)
        shutil.rmtree(rd, ignore_errors=True)
        return [{"e": "Reset", "cwd": EG.loc_of(rd), "root": EG.loc_of(rd), "pre": [], "mode": "extract", "case": "prompt-" + b",".join(seq).decode()}, e]
    with cf.ThreadPoolExecutor(max_workers=V.NCPU) as ex:
        evs = list(ex.map(one, range(len(seqs))))
    out = []
    nsh = V.NCPU
    for k in range(nsh):
        tr = os.path.join(sc, "prompt_expect_%d.ndjson" % k)
        sub = evs[k::nsh]
        with open(tr, "w") as f:
            for pair in sub:
                for e in pair:
                    f.write(json.dumps(e, separators=(",", ":")) + "\n")

        class P: returncode = 0; stderr = b""
        if sub:
            out.append((tr, tr, len(sub), P()))
    ev.set("prompt_answer_sequences_exhaustive", len(seqs))
    ev.cls(("prompt-exhaustive", len(seqs)))
    return out


def run(tier, seed, ev):
    rng = random.Random(seed)
    sc = V.scratch("c06")
    os.chmod(sc, 0o755)
    lha = V.lha_binary("plain")
    ncases = 240 if tier == "quick" else 4000
    cases = []
    for i in range(ncases):
        t = Tree(random.Random(rng.getrandbits(32)), tier)
        t.fill(b"", 0)
        opt = rng.choice([[], [], ["f"], ["q0"], ["q1"], ["q2"], ["v"], ["i"], ["w=out"], ["f", "w=a/b"], ["q1", "f", "v"], ["i", "w=o"], ["i", "f"]])
        cases.append((i, t, opt, model_case(rng, t, opt) if i % 2 else None))
    os.umask(0o022)

    def one(k):
        tr = os.path.join(sc, "e_trace_%d.ndjson" % k)
        n = 0
        with open(tr, "w") as f:
            for (i, t, opt, mc) in cases[k::V.NCPU]:
                rd = os.path.join(sc, "run_%d" % i)
                os.makedirs(rd); os.chmod(rd, 0o755)
                a = os.path.join(rd, "a.lzh")
                open(a, "wb").write(arc.archive(t.members))
                wdir = None
                for o in opt:
                    if o.startswith("w="):
                        wdir = o[2:]
                args = [("x" if i % 3 else "e") + "".join(o for o in sorted(opt, key=lambda o: o.startswith("w=")))]
                try:
                    if mc:
                        filters, pre, stdin, answers = mc
                        evs, p, root, outs, tree = EG.run_tool(lha, args, a, rd, mode="extract", wdir=wdir, pre=pre, stdin=stdin, filters=filters)
                    else:
                        evs, p, root, outs, tree = EG.run_tool(lha, args, a, rd, mode="extract", wdir=wdir)
                except subprocess.TimeoutExpired:
                    f.write(json.dumps({"e": "Timeout", "case": i}) + "\n")
                    continue
                if mc:
                    evs.append(model_event(t, tree, opt, filters, pre, answers, code=p.returncode))
                else:
                    evs.append(expect_event(t, root, tree, {"ignore_path": "i" in opt, "wdir": wdir}))
                if p.returncode not in ((0, 1, 255) if mc else (0, 1)):       # (255 with typed answers: input ended at the prompt) 1: some entry failed (e.g. an unsafe link in a read-only directory) - a normal exit
                    evs.append({"e": "AbnormalExit", "code": p.returncode, "stderr": p.stderr.decode(errors="replace")[-300:], "stdout": p.stdout.decode(errors="replace")[-300:]})
                for e in evs:
                    f.write(json.dumps(e, separators=(",", ":")) + "\n")
                n += 1
                shutil.rmtree(rd, ignore_errors=True)

        class P: returncode = 0; stderr = b""
        return tr, tr, n, P()
    with cf.ThreadPoolExecutor(max_workers=V.NCPU) as ex:
        results = [r for r in ex.map(one, range(V.NCPU)) if r[2] > 0]
    results += policy_pass(rng, sc, tier, ev)
    results += prompt_pass(rng, sc, tier, ev)
    results += owner_pass(random.Random(seed ^ 0x0DD), sc, tier, ev)
    viols, good = TR.validate_all("Trace_Extract", "Trace_Extract", results, ev, "C06", xmx="4g")
    # members from MacLHA archives: envelope recognition, what is handed out, verdict (MacBinary.tla)
    import maccommon
    viols += maccommon.run("C06", tier, seed, ev)
    # the print command: banner + exactly the selected members' contents (Cli.tla)
    import clicommon as CL
    viols += CL.run("C06", tier, seed, ev, 12 if tier == "quick" else 200, modes=("p",), globs=True)
    ev.add("traces_validated_against_impl", good)
    ev.set("extractions", len(cases))
    for (i, t, opt, mc) in cases:
        ev.cls((tuple(opt), len(t.members) > 5, bool(t.has_deferred), any(m.os == ord("m") for m in t.members),
                bool(mc and mc[0]), bool(mc and mc[1])))
    ev.set("extractions_decided_by_TreeModel", sum(1 for c in cases if c[3]))
    ev.sample({"options": cases[0][2], "entries": [it["p"].decode("latin1") + ("/" if it["ty"] == "dir" else "") for it in cases[0][1].items][:20]})
    ev.set("rule", "one extraction per generated directory-first tree and option set; distinct = (options, large tree, has unsafe links, has Mac members)")
    shutil.rmtree(sc, ignore_errors=True)
    return viols


def replay(path):
    print("the rejected extraction is in", path)
    return 2
