"""C11 - returned paths never contain '.', '..' or empty components; names contain no '/'."""
import itertools, random, shutil
import vcommon as V
import headergen as HG
import hdrcommon as HC
import arc

LEVEL = "model_checking"
ASSUMPTIONS = ["Clean(path, filename) is evaluated by TLC on the values the library returned; MC_PathCollapse relates the C state machine "
               "to the declarative normal form", "TLC/SANY/CommunityModules trusted"]
ALPHA = [ord("."), ord("/"), ord("\\"), 0xFF, 0, ord("a")]


def carriers(s, os_):
    """headers carrying the string s as a stored path / name, in every place a path can come from"""
    out = []
    if len(s) <= 200:
        out.append(arc.Member(level=0, method=b"-lh0-", name=s, payload=b"x").bytes())
        out.append(arc.Member(level=1, method=b"-lh0-", name=s, payload=b"x", os=os_).bytes())
        out.append(arc.Member(level=0, method=b"-lhd-", name=s, payload=b"").bytes())
    out.append(arc.Member(level=2, method=b"-lh0-", payload=b"x", os=os_, exts=[(arc.X_FILENAME, s)] if s else []).bytes())
    out.append(arc.Member(level=2, method=b"-lh0-", payload=b"x", os=os_, exts=[arc.x_name(b"f")] + ([(arc.X_PATH, s)] if s else [])).bytes())
    out.append(arc.Member(level=1, method=b"-lhd-", name=b"", payload=b"", os=os_, exts=[(arc.X_PATH, s)] if s else []).bytes())
    out.append(arc.Member(level=3, method=b"-lh0-", payload=b"x", os=os_, exts=[(arc.X_PATH, s), (arc.X_FILENAME, s)] if s else []).bytes())
    # symbolic links, both spellings: "name|target" in the file name header / split over path and name
    out.append(arc.Member(level=2, method=b"-lhd-", payload=b"", os=ord("U"), exts=[(arc.X_FILENAME, s + b"|t"), arc.x_perm(0o120777)]).bytes())
    out.append(arc.Member(level=2, method=b"-lhd-", payload=b"", os=ord("U"), exts=([(arc.X_PATH, s)] if s else []) + [arc.x_name(b"l|" + s), arc.x_perm(0o120777)]).bytes())
    out.append(arc.Member(level=1, method=b"-lhd-", name=b"", payload=b"", os=ord("U"), exts=([(arc.X_PATH, s + b"|" + s)] if s else []) + [arc.x_name(b"z"), arc.x_perm(0o120777)]).bytes())
    # directory-method entries that are not links but carry a file name all the same (the format does not forbid it)
    if s:
        out.append(arc.Member(level=2, method=b"-lhd-", payload=b"", os=os_, exts=[(arc.X_PATH, b"d/"), (arc.X_FILENAME, s)]).bytes())
        out.append(arc.Member(level=2, method=b"-lhd-", payload=b"", os=ord("U"), exts=[(arc.X_FILENAME, s), (arc.X_PATH, b"d/"), arc.x_perm(0o40755)]).bytes())
        out.append(arc.Member(level=1, method=b"-lhd-", name=b"", payload=b"", os=os_, exts=[(arc.X_FILENAME, s), (arc.X_PATH, s)]).bytes())
    return out


def pair_carriers(s1, s2, os_):
    """two stored strings in one header: the places a path can come from are not independent (an in-header name with a directory
    part next to a path header; a file name header after / before a path header; a directory entry named twice)"""
    out = []
    if len(s1) <= 200:
        out.append(arc.Member(level=1, method=b"-lh0-", name=s1, payload=b"x", os=os_, exts=[(arc.X_PATH, s2)] if s2 else []).bytes())
        out.append(arc.Member(level=1, method=b"-lh0-", name=s1, payload=b"x", os=os_, exts=([(arc.X_PATH, s2)] if s2 else []) + [arc.x_name(b"f")]).bytes())
        out.append(arc.Member(level=1, method=b"-lh0-", name=s1, payload=b"x", os=os_, exts=[(arc.X_FILENAME, s2)] if s2 else []).bytes())
        out.append(arc.Member(level=1, method=b"-lhd-", name=s1, payload=b"", os=os_, exts=[(arc.X_PATH, s2)] if s2 else []).bytes())
    if s1 and s2:
        out.append(arc.Member(level=2, method=b"-lh0-", payload=b"x", os=os_, exts=[(arc.X_PATH, s1), (arc.X_FILENAME, s2)]).bytes())
        out.append(arc.Member(level=2, method=b"-lh0-", payload=b"x", os=os_, exts=[(arc.X_FILENAME, s2), (arc.X_PATH, s1)]).bytes())
        out.append(arc.Member(level=3, method=b"-lh0-", payload=b"x", os=os_, exts=[(arc.X_PATH, s1), (arc.X_PATH, s2), arc.x_name(b"f")]).bytes())
        for pm in (None, 0o40755, 0o120777):
            px = [arc.x_perm(pm)] if pm is not None else []
            out.append(arc.Member(level=2, method=b"-lhd-", payload=b"", os=ord("U") if pm else os_, exts=[(arc.X_PATH, s1), (arc.X_FILENAME, s2)] + px).bytes())
            out.append(arc.Member(level=2, method=b"-lhd-", payload=b"", os=ord("U") if pm else os_, exts=px + [(arc.X_FILENAME, s2), (arc.X_PATH, s1)]).bytes())
    return out


def run(tier, seed, ev):
    rng = random.Random(seed)
    sc = V.scratch("c11")
    mc = V.tlc_must_pass("MC_PathCollapse", "MC_PathCollapse" if tier == "quick" else "MC_PathCollapse_t", workers=8, xmx="6g", timeout=1800)
    ev.tlc(mc)
    if mc.violation:
        raise V.HarnessError("MC_PathCollapse violates %s" % mc.violation)
    cases = []
    maxlen = 5 if tier == "quick" else 7
    nstr = 0
    for L in range(0, maxlen + 1):
        for t in itertools.product(ALPHA, repeat=L):
            s = bytes(t)
            nstr += 1
            cases += carriers(s, [0, ord("U"), ord("M")][nstr % 3])
    small = [bytes(t) for L in range(0, 3 if tier == "quick" else 4) for t in itertools.product([ord("."), ord("/"), ord("\\"), ord("a")], repeat=L)]
    npairs = 0
    for s1 in small:
        for s2 in small:
            npairs += 1
            cases += pair_carriers(s1, s2, [0, ord("U"), ord("M")][npairs % 3])
    three = [bytes(t) for t in itertools.product([ord("."), ord("/"), ord("\\"), ord("a")], repeat=3)] + [b"a/../..", b"..\\..\\x", b"a\\b/c", b"./../up"]
    for _ in range(400 if tier == "quick" else 0):
        npairs += 1
        cases += pair_carriers(rng.choice(three + small), rng.choice(three + small), rng.choice([0, ord("U"), ord("M")]))
    ev.set("string_pairs", npairs)
    ev.set("strings_exhaustive", nstr)
    ev.set("exhaustive", True)
    for i in range(1500 if tier == "quick" else 60000):
        n = rng.choice([5, 6, 7, 8, 12, 30, 100, 255])
        s = bytes(rng.choice(ALPHA + [ord("b"), ord("|"), ord("A")]) for _ in range(n))
        cs = carriers(s, rng.choice([0, ord("U"), ord("M"), ord(" "), ord("K")]))
        cases += rng.sample(cs, 3)
    viols, good = HC.run_and_validate("C11", "Trace_Header_C11", cases, sc, ev, "c11")
    ev.add("traces_validated_against_impl", good)
    ev.set("cases", len(cases))
    ev.sample({"input_hex": cases[100].hex()})
    ev.sample({"input_hex": cases[-1].hex()[:300]})
    ev.set("rule", "all strings over {'.','/','\\\\',0xFF,NUL,'a'} up to length %d through thirteen carriers (in-header names of level 0/1, file "
                   "name and path extended headers, directory entries with and without a file name, symlinks in both spellings) + random longer strings" % maxlen)
    shutil.rmtree(sc, ignore_errors=True)
    return viols


def replay(path):
    print("rejected execution and case file are in", path)
    return 2
