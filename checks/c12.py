"""C12 - headers failing their own checksum, CRC or length rules are never returned."""
import random, shutil
import vcommon as V
import headergen as HG
import hdrcommon as HC
import arc

LEVEL = "model_checking"
ASSUMPTIONS = ["the integrity rule is Header.tla's Parse(bytes).ok, computed by TLC from the logged bytes (checksum and CRC-16 included)",
               "TLC/SANY/CommunityModules trusted"]


def base_headers(rng, n):
    hs = []
    fixed = [
        arc.Member(level=0, method=b"-lh0-", name=b"L0.TXT", payload=b"data").bytes(),
        arc.Member(level=0, method=b"-lh5-", name=b"dir\\f", payload=b"xy", l0ext=b"U\0" + b"\x01\x02\x03\x04" + b"\xa4\x81\xe8\x03\xe8\x03").bytes(),
        arc.Member(level=1, method=b"-lh0-", name=b"l1", payload=b"data", os=ord("M"), exts=[arc.x_name(b"long name"), arc.x_path(b"p/q/"), arc.x_common()]).bytes(),
        arc.Member(level=1, method=b"-lhd-", name=b"", payload=b"", os=ord("U"), exts=[arc.x_path(b"some/dir/"), arc.x_perm(0o40755)]).bytes(),
        arc.Member(level=2, method=b"-lh0-", payload=b"data", os=ord("U"), exts=[arc.x_common(), arc.x_name(b"two"), arc.x_perm(0o100644), arc.x_uidgid(1, 2), arc.x_utime(99)]).bytes(),
        arc.Member(level=2, method=b"-lhd-", payload=b"", os=ord("U"), exts=[arc.x_name(b"l|t"), arc.x_path(b"d/"), arc.x_perm(0o120777)]).bytes(),
        arc.Member(level=3, method=b"-lh0-", payload=b"data", os=ord("U"), exts=[arc.x_common(), arc.x_name(b"three"), arc.x_wintime(1, 2, 3)]).bytes(),
        arc.Member(level=2, method=b"-lh0-", payload=b"data", os=ord("K"), exts=[arc.x_name(b"os9k")]).bytes() ,
    ]
    hs += [(h + b"\x00trailing", len(h) - 4) for h in fixed[:n]]
    while len(hs) < n:
        h = HG.wellformed_header(rng)
        hs.append((h, min(len(h), 90)))
    return hs


def run(tier, seed, ev):
    rng = random.Random(seed)
    sc = V.scratch("c12")
    cases = []
    cases += HG.identity_cross_product()
    cases += HG.level0_area_lengths()
    bases = base_headers(rng, 16 if tier == "quick" else 120)
    for h, hdrlen in bases:
        cases.append(h)
        # all 255 substitutions at every byte position of the header (quick: of the first 8 headers)
        cases += HG.mutations(h, rng, full=True, positions=range(hdrlen))
        # length-field perturbations
        for off in (0, 1, 7, 8, 9, 10, 21, 24, 25, 26, 27, 28, 29, 30, 31):
            for d in (1, 2, 255, 256, 65535, -1, -2):
                if off + 2 <= len(h):
                    import struct
                    v = (struct.unpack_from("<H", h, off)[0] + d) & 0xFFFF
                    cases.append(h[:off] + struct.pack("<H", v) + h[off + 2:])
        ev.cls(("base", h[20], len(h)))
    # the whole (header length, path length) grid of level 0/1 with the checksum byte made consistent: the
    # integrity rule must then hold or fail on the *length arithmetic* alone (incl. its 8-bit edges)
    body = bytes((i * 7 + 3) & 0xFF for i in range(300))
    step = 1 if tier == "thorough" else 3
    for lvl in (0, 1):
        for hl in list(range(0, 256, step)) + [255, 254, 22, 25, 24, 21]:
            for pl in list(range(0, 256, step)) + [255, 231, 232, 233, 234, 230, 229]:
                h = bytearray(b"\0\0-lh0-" + b"\x04\0\0\0" + b"\x04\0\0\0" + b"\0\0\0\0" + b"\x20" + bytes([lvl, pl]) + body)
                h[0] = hl
                if lvl == 1 and 2 + hl <= len(h) and hl >= 2:
                    h[hl] = 0; h[hl + 1] = 0          # next-header size 0 where a level-1 header would end
                h[1] = sum(h[2:2 + hl]) & 0xFF
                cases.append(bytes(h))
    ev.set("length_grid_cases", len(cases))
    # level 2 / 3: total length x first extended size, consistent with the common CRC absent
    for lvl in (2, 3):
        for total in list(range(0, 80)) + [255, 256, 257, 65535]:
            for first in (0, 1, 2, 3, 4, 5, 6, 7, 20, 40, 65535):
                try:
                    h = bytearray(arc.Member(level=lvl, method=b"-lh0-", payload=b"data", os=ord("U"), exts=[arc.x_name(b"nm"), arc.x_perm(0o644)], fix_common=False).bytes() + body)
                except Exception:
                    continue
                import struct as _st
                if lvl == 2:
                    _st.pack_into("<H", h, 0, total); _st.pack_into("<H", h, 24, first)
                else:
                    _st.pack_into("<I", h, 24, total); _st.pack_into("<I", h, 28, first)
                cases.append(bytes(h))
    # level 3: the 32-bit size fields at the values where 32-bit sums wrap (2^32 - k for small k puts "offset + size" back inside the header),
    # at the sign bit, and around the 1 MiB cap - in the first size field and in the one that ends the first extended header
    import struct as _st
    h0 = arc.Member(level=3, method=b"-lh0-", payload=b"", os=ord("U"), exts=[arc.x_name(b"nm"), arc.x_perm(0o644)], fix_common=False).bytes()
    assert _st.unpack_from("<I", h0, 28)[0] == 7 and _st.unpack_from("<I", h0, 35)[0] == 7, "layout of the level-3 base header"
    wide = [2 ** 32 - k for k in range(1, 72)] + [2 ** 31 + d for d in (-2, -1, 0, 1, 5)] + [0xFFFF0000 + d for d in (0, 7, 0x30)] + \
           [0x10000, 0x10007, 0x100000, 0x100001, 0xFFFFF, 0x1000000]
    for pos in (28, 35, 24):
        for v in wide:
            for tail in (body, b"", b"\0" * 64):
                hh = bytearray(h0 + tail)
                _st.pack_into("<I", hh, pos, v)
                cases.append(bytes(hh))
    ev.set("level3_wide_size_cases", 3 * 3 * len(wide))
    # plus sparse mutations of many more random headers
    for i in range(200 if tier == "quick" else 3000):
        h = HG.wellformed_header(rng)
        cases += HG.mutations(h, rng, full=False, positions=rng.sample(range(min(len(h), 120)), min(12, len(h))))[:60]
    viols, good = HC.run_and_validate("C12", "Trace_Header_C12", cases, sc, ev, "c12")
    ev.add("traces_validated_against_impl", good)
    ev.set("cases", len(cases))
    ev.set("base_headers_with_all_255_substitutions", len(bases))
    ev.sample({"base_hex": bases[0][0].hex()})
    ev.set("rule", "for each base header: all 255 substitutions at every header byte, every truncation, length-field perturbations; "
                   "cases_definition_rejects counts the cases that carry the obligation (not returned, iteration ends)")
    shutil.rmtree(sc, ignore_errors=True)
    return viols


def replay(path):
    print("rejected execution and case file are in", path)
    return 2
