"""C05 - every well-formed level 0-3 header is returned with exactly its encoded fields."""
import random, shutil
import vcommon as V
import headergen as HG
import hdrcommon as HC

LEVEL = "model_checking"
ASSUMPTIONS = ["time stamps of level 0/1 (MS-DOS local time) are verified under TZ=UTC only",
               "character classification is that of the C locale (ASCII)",
               "well-formed = accepted by Header.tla's Parse, which is written from the format and grounded on every header of the "
               "third-party corpus",
               "TLC/SANY/CommunityModules trusted"]


def run(tier, seed, ev):
    rng = random.Random(seed)
    sc = V.scratch("c05")
    cases = HG.corpus_cases()
    ev.set("corpus_headers", len(cases))
    n = 12000 if tier == "quick" else 800000
    for i in range(n):
        cases.append(HG.wellformed_header(rng, level=i % 4))
    # every subset-order of the supported extended headers up to length 3 (thorough: 4), by type
    import itertools
    types = [0x00, 0x01, 0x02, 0x41, 0x50, 0x51, 0x52, 0x53, 0x54, 0xCC, 0x99]
    import arc
    k = 0
    for L in range(0, 4 if tier == "quick" else 5):
        for combo in itertools.product(types, repeat=L):
            k += 1
            if tier == "quick" and L == 3 and k % 3:
                continue
            exts = [HG.EXT_BUILDERS[t](rng) for t in combo]
            if 0x01 not in combo:
                exts.append(arc.x_name(b"nm%d" % k))
            lvl = 1 + k % 3
            m = arc.Member(level=lvl, method=b"-lh0-", name=b"inhdr" if lvl == 1 else b"", payload=b"abc", time=12345678, os=rng.choice(HG.OSES), exts=exts)
            cases.append(m.bytes() + b"tail")
            ev.cls(("ext-order", lvl, combo))
    # symbolic links: '|' in names and targets, both spellings, empty sides
    for nm in (b"l", b"a|b", b"", b"d/l", b"X"):
        for tg in (b"t", b"a|b", b"", b"../x|y", b"/abs", b"T/U"):
            for lvl in (1, 2, 3):
                full = nm + b"|" + tg
                d, _, n = full.rpartition(b"/")
                ex = ([arc.x_name(n)] if n else []) + ([arc.x_path(d + b"/")] if d else []) + [arc.x_perm(0o120777)]
                cases.append(arc.Member(level=lvl, method=b"-lhd-", name=b"", payload=b"", os=rng.choice([ord("U"), 0, ord("M")]), exts=ex).bytes())
                ex2 = [arc.x_name(full), arc.x_perm(0o120755)]
                cases.append(arc.Member(level=lvl, method=b"-lhd-", name=b"", payload=b"", os=ord("U"), exts=ex2).bytes())
    cases += HG.identity_cross_product()
    cases += HG.level0_area_lengths()
    # two stored strings in one header (in-header name with a directory part next to path / file name headers, both orders)
    import c11
    small = [bytes(t) for L in range(0, 3) for t in itertools.product([ord("."), ord("/"), ord("\\"), ord("a"), ord("B")], repeat=L)]
    for i1, s1 in enumerate(small):
        for i2, s2 in enumerate(small):
            cases += c11.pair_carriers(s1, s2, [0, ord("U"), ord("M"), ord("m")][(i1 + i2) % 4])
    viols, good = HC.run_and_validate("C05", "Trace_Header_C05", cases, sc, ev, "c05")
    ev.add("traces_validated_against_impl", good)
    ev.set("cases", len(cases))
    ev.sample({"input_hex": cases[-1].hex()[:200]})
    ev.sample({"input_hex": cases[len(cases) // 2].hex()[:200]})
    ev.set("rule", "cases = corpus headers + random well-formed headers with fields at range ends + every order of <= 3 (4) extended "
                   "header types; cases_definition_accepts counts those the TLA+ definition accepts (only they carry an obligation)")
    shutil.rmtree(sc, ignore_errors=True)
    return viols


def replay(path):
    print("rejected execution and case file are in", path)
    return 2
