"""C07 - a member is reported good only if its bytes match the recorded length and CRC-16."""
import json, os, random, re, shutil, subprocess, concurrent.futures as cf
import vcommon as V
import readergen as RG
import tracerun as TR
import gtref, arc

LEVEL = "model_checking"
ASSUMPTIONS = ["the recorded length/CRC are the values the library returns in the header (their faithful parsing is C05)",
               "members from Mac archives with a MacBinary envelope are left out here: what is handed out is deliberately not what the "
               "CRC covers (the envelope is stripped); they are covered relative to the reference run in C16",
               "TLC/SANY/CommunityModules trusted; CRC-16 of the produced bytes is computed by TLC from Crc16.tla"]


def variants(rng, tier):
    """archives: intact members of every method, and corruptions of them"""
    pool = RG.compressed_pool()
    out = []
    for meth in sorted(pool):
        payload, plain = pool[meth]
        ln = rng.choice([300, 1000, 5000, len(plain)]) if tier == "thorough" else rng.choice([100, 300, 700])
        base = dict(data=plain[:ln], method=(b"-lh7-" if meth == "-lk7-" else meth.encode()), payload=payload)
        if meth == "-lk7-":
            continue
        out.append(("intact", meth, [RG.G("file", b"a_" + meth.strip("-").encode(), level=rng.choice([0, 1, 2]), **base)]))
        g = RG.G("file", b"crc1", level=1, **base); g.crc ^= 1 << rng.randrange(16)
        out.append(("crc-flip", meth, [g]))
        g = RG.G("file", b"len+1", level=2, **base); g.length += 1
        out.append(("len+1", meth, [g]))
        if ln > 1:
            g = RG.G("file", b"len-1", level=2, **base); g.length -= 1
            out.append(("len-1", meth, [g]))
        # data bit flips and truncations (thorough: more of each)
        for _ in range(2 if tier == "quick" else 10):
            q = bytearray(payload)
            pos = rng.randrange(min(len(q), 400))
            q[pos] ^= 1 << rng.randrange(8)
            g = RG.G("file", b"flip", level=1, data=plain[:ln], method=base["method"], payload=bytes(q))
            out.append(("data-flip", meth, [g, RG.G("file", b"after", data=b"ok")]))
            cutp = rng.randrange(0, min(len(payload), 600))
            g = RG.G("file", b"cut", level=1, data=plain[:ln], method=base["method"], payload=payload)
            g.avail = cutp
            out.append(("truncated", meth, [RG.G("file", b"before", data=b"ok"), g]))
    for meth in (b"-lh0-", b"-lz4-", b"-pm0-"):
        for n in (0, 1, 2, 100, 1023, 1024, 1025, 3000):
            data = bytes(rng.randrange(256) for _ in range(n))
            out.append(("stored", meth.decode(), [RG.G("file", b"s%d" % n, data=data, method=meth, level=rng.choice([0, 1, 2, 3]))]))
            if n:
                q = bytearray(data); q[rng.randrange(n)] ^= 1 << rng.randrange(8)
                g = RG.G("file", b"sf%d" % n, data=data, method=meth, payload=bytes(q), level=1)
                out.append(("stored-flip", meth.decode(), [g]))
                g = RG.G("file", b"st%d" % n, data=data, method=meth, level=1); g.avail = rng.randrange(n)
                out.append(("stored-trunc", meth.decode(), [g]))
                # more bytes stored than the header declares, length and CRC recorded for the declared part: what is produced is exactly
                # that part, so the member is good (and the next header is found after all the stored bytes)
                for k in sorted(set([1, n // 2, n - 1]) - {0}):
                    if k < n:
                        g = RG.G("file", b"sl%d_%d" % (n, k), data=data[:n - k], method=meth, payload=data, level=rng.choice([0, 1, 2]))
                        out.append(("stored-slack", meth.decode(), [g, RG.G("file", b"after", data=b"ok")]))
        g = RG.G("file", b"zero_len_big", data=b"abc", method=meth, level=1); g.length = 0
        out.append(("declared-0", meth.decode(), [g]))
        g = RG.G("file", b"huge", data=b"abc", method=meth, level=1); g.length = 0xFFFFFFFF
        out.append(("declared-4g", meth.decode(), [g]))
    out.append(("unsupported", "-lh2-", [RG.G("file", b"u", data=b"abc", method=b"-lh2-"), RG.G("file", b"v", data=b"ok")]))
    # multi-member mixes: verdicts are per member, exit status is the disjunction
    for i in range(6 if tier == "quick" else 60):
        # (members from MacLHA archives hand out only a part of the stream the verdict is about: the read pass cannot
        #  judge them; their verdicts are checked by Trace_Mac below, which gets the stored stream from the generator)
        out.append(("mix", "mix", RG.random_archive(rng, nmax=5, with_mac=False)))
    return out


def cli_events(lha, a, names, mode, sc, i):
    """run `lha t` / `lha x`; returns trace lines (syntactic parse of the tool's stdout)"""
    xd = os.path.join(sc, "cli%s_%d" % (mode, i))
    os.makedirs(xd)
    cmd = [lha, "t", a] if mode == "t" else [lha, "xw=" + xd, a]
    p = V.run_bounded(cmd, capture_output=True, env=V.run_env(), stdin=subprocess.DEVNULL, timeout=300)
    out = p.stdout
    good = set()
    word = b"Tested" if mode == "t" else b"Melted"
    for seg in re.split(rb"[\r\n]", out):
        m = re.match(rb"(.*)\t- " + word + rb"\s*$", seg)
        if m:
            nm = m.group(1)
            if mode == "x" and nm.startswith(xd.encode() + b"/"):
                nm = nm[len(xd) + 1:]
            good.add(nm)
    ev = [{"e": "Reset", "pass": "cli-" + mode}]
    for idx, (nm, isfile) in enumerate(names):
        if isfile:
            ev.append({"e": "Cli", "i": idx + 1, "good": nm in good})
    ev.append({"e": "Exit", "code": p.returncode})
    return ev, p


def run(tier, seed, ev):
    rng = random.Random(seed)
    sc = V.scratch("c07")
    viols = []
    with cf.ThreadPoolExecutor(max_workers=V.NCPU) as ex:
        mcs = [ex.submit(V.tlc_must_pass, "MC_Crc16", "MC_Crc16_burst", env={"SHARD": s}, workers=1, xmx="2g") for s in range(8)]
        mcs.append(ex.submit(V.tlc_must_pass, "MC_Crc16", "MC_Crc16_pairs_q", env={"SHARD": 0}, workers=2, xmx="3g"))
        mcs.append(ex.submit(V.tlc_must_pass, "MC_Crc16", "MC_Crc16_linear", env={"SHARD": 0}, xmx="2g"))
        rdrv = V.build_driver("reader_drv", "san", wrap=True)
        bdrv = V.build_driver("burst_drv", "fast")
        lha = V.lha_binary("san")
        # --- exhaustive bursts on the implementation -----------------------------------------
        bursts = []
        for n in ([1, 2, 3, 4] if tier == "quick" else [1, 2, 3, 4, 5, 6, 8, 12, 24]):
            data = bytes(rng.randrange(256) for _ in range(n))
            for lvl in ((1,) if tier == "quick" else (0, 1, 2)):
                m = RG.G("file", b"b", data=data, level=lvl)
                raw = m.raw() + b"\0"
                a = os.path.join(sc, "burst_%d_%d.lzh" % (n, lvl))
                open(a, "wb").write(raw)
                off = len(raw) - 1 - n
                maxw = 16 if n <= 6 else 12
                bursts.append((n, lvl, ex.submit(subprocess.run, [bdrv, a, str(off), str(n), str(maxw)], capture_output=True, env=V.run_env())))
        # --- three passes through the reader + the command line ------------------------------
        vs = variants(rng, tier)
        gts = {}
        for ps in ("read", "check", "extract", "mixed"):
            g = os.path.join(sc, "gt_%s.json" % ps)
            open(g, "w").write(json.dumps({"e": "Reset", "pass": ps}, separators=(",", ":")) + "\n")
            gts[ps] = g
        jobs = []
        meta = []
        for i, (cls, meth, ms) in enumerate(vs):
            a, _ = RG.write_case(sc, "v%d" % i, ms, "eod")
            xd = os.path.join(sc, "x%d" % i)
            os.makedirs(xd)
            n = len(ms) + 1
            jobs.append("exec %s %s path default - 0 bh %s" % (gts["read"], a, ",".join(["N,A4096"] * n)))
            jobs.append("exec %s %s path default - 0 h %s" % (gts["check"], a, ",".join(["N,C"] * n)))
            jobs.append("exec %s %s path default %s 0 ho %s" % (gts["extract"], a, xd, ",".join(["N,X"] * (2 * n))))
            xd2 = os.path.join(sc, "xm%d" % i)
            os.makedirs(xd2)
            mixed = []
            for _ in range(n):
                mixed += ["N", "R%d" % rng.choice([0, 1, 10, 64, 100000])] + [rng.choice(["C", "X"])]
            jobs.append("exec %s %s path default %s 0 hso %s" % (gts["mixed"], a, xd2, ",".join(mixed)))
            names = [(m.path if m.kind != "dir" else m.path.rstrip(b"/") + b"/", m.kind == "file") for m in ms]
            meta.append((a, names, cls, meth))
            ev.cls((cls, meth))
        # one driver process per shard of archives (3 executions each, kept together)
        nsh = V.NCPU
        shards = [list(range(k, len(vs), nsh)) for k in range(nsh)]
        traces = []

        def shard_run(k):
            idxs = shards[k]
            if not idxs:
                return None
            jf = os.path.join(sc, "jobs_%d.txt" % k)
            open(jf, "w").write("\n".join(j for i in idxs for j in jobs[4 * i:4 * i + 4]) + "\n")
            p = subprocess.run([rdrv, jf], capture_output=True, env=V.run_env(), timeout=1200)
            if p.returncode in (2, 3):
                raise V.HarnessError("reader_drv: " + p.stderr.decode()[-400:])
            # splice the command line's view after the three passes of each archive
            execs = []
            for ln in p.stdout.decode().splitlines():
                if ln.startswith('{"e":"Reset"'):
                    execs.append([])
                execs[-1].append(ln)
            tr = os.path.join(sc, "trace_%d.ndjson" % k)
            with open(tr, "w") as f:
                for n_, i in enumerate(idxs):
                    for e in execs[4 * n_:4 * n_ + 4]:
                        f.write("\n".join(e) + "\n")
                    if len(execs) < 4 * n_ + 4:
                        break
                    a, names, cls, meth = meta[i]
                    for mode in ("t", "x"):
                        evs, cp = cli_events(lha, a, names, mode, sc, i)
                        if cp.returncode not in (0, 1):
                            evs.append({"e": "Crash", "code": cp.returncode, "stderr": cp.stderr.decode(errors="replace")[-300:]})
                        for e in evs:
                            f.write(json.dumps(e, separators=(",", ":")) + "\n")
            return jf, tr, len(idxs), p
        results = [r for r in ex.map(shard_run, range(nsh)) if r]
        v1, good = TR.validate_all("Trace_Verdict", "Trace_Verdict", results, ev, "C07", xmx="4g")
        viols += v1
        for f in mcs:
            r = f.result()
            ev.tlc(r)
            if r.violation:
                raise V.HarnessError("Crc16 model: %s violated" % r.violation)
        tot = 0
        for n, lvl, f in bursts:
            p = f.result()
            if p.returncode not in (0, 1) or not p.stdout.strip():
                raise V.HarnessError("burst_drv failed: rc=%s %s" % (p.returncode, p.stderr.decode()[-400:]))
            j = json.loads(p.stdout.decode().strip().splitlines()[-1])
            tot += j["cases"]
            if p.returncode == 1:
                d = V.replay_dir("C07", "burst_%d_%d" % (n, lvl))
                shutil.copy(os.path.join(sc, "burst_%d_%d.lzh" % (n, lvl)), d)
                open(os.path.join(d, "result.json"), "w").write(json.dumps(j))
                viols.append({"replay": d, "msg": "burst not detected (or intact member rejected): %s" % json.dumps(j)})
        ev.set("burst_cases_on_implementation", tot)
    # the whole of stdout of `lha t | x | e` (progress bar, verdict words) and the exit status against Cli.tla
    import clicommon as CL
    viols += CL.run("C07", tier, seed, ev, 20 if tier == "quick" else 300, modes=("t", "x", "e"))
    import maccommon
    viols += maccommon.run("C07", tier, seed, ev)
    ev.add("traces_validated_against_impl", good)
    ev.set("archives", len(vs))
    ev.sample({"class": vs[0][0], "method": vs[0][1], "job": jobs[0][:200]})
    ev.sample({"class": vs[1][0], "method": vs[1][1], "job": jobs[4][:200]})
    ev.set("rule", "distinct = (corruption class, method); per archive: read pass (bytes -> TLC computes CRC/length), check pass, "
                   "extract pass, lha t, lha x")
    for v in viols:
        jf = os.path.join(v["replay"], "jobs.txt")
        if os.path.exists(jf):
            for ln in open(jf):
                p = ln.split()
                if len(p) > 2 and ln.startswith("exec ") and os.path.exists(p[2]):
                    shutil.copy(p[2], v["replay"])
    shutil.rmtree(sc, ignore_errors=True)
    return viols


def replay(path):
    print("inputs and the rejected execution are in", path)
    return 2
