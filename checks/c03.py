"""C03 - LArc -lzs-/-lz5- and the stored methods decode every valid stream exactly."""
import vcommon as V
import codeccommon as CC

LEVEL = "model_checking"
ASSUMPTIONS = ["streams that end inside a two-byte -lz5- copy command are not well-formed (the C code then uses an uninitialised byte) and are excluded",
               "encoders (harness/py/enc) are independent of lhasa; disagreement between encoder and definition would be a harness bug",
               "TLC/SANY/CommunityModules trusted"]


def run(tier, seed, ev):
    import concurrent.futures as cf
    with cf.ThreadPoolExecutor(max_workers=2) as ex:
        mcs = [ex.submit(V.tlc_must_pass, "MC_Codec_Lzs", "MC_Codec_Lzs", workers=2, xmx="4g", timeout=1200),
               ex.submit(V.tlc_must_pass, "MC_Codec_Lz5", "MC_Codec_Lz5", workers=2, xmx="4g", timeout=1200)]
        viols = CC.run("C03", [("larc", "-lzs-"), ("larc", "-lz5-"), ("null", "-lh0-")], tier, seed, ev, 30000 if tier == "quick" else 2000000)
        viols += CC.ground(tier, ["-lzs-", "-lz5-", "-lh0-", "-lz4-", "-pm0-"], ev)
        for f in mcs:
            r = f.result()
            ev.tlc(r)
            if r.violation:
                raise V.HarnessError("bounded codec model violates " + r.violation)
    ev.set("rule", "one execution per (stream, read schedule); distinct = (method, structural case label of the encoder suite)")
    return viols


def replay(path):
    print("job, stream and rejected execution are in", path)
    return 2
