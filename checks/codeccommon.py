"""Three-way agreement for the compression formats (C01-C04):
     independent encoder (harness/py/enc)  ->  C decoder (decoder_drv, ASan)  ->  TLA+ definition (Codec_*, Trace_Codec)
For a command list cmds:  bits = encode(cmds); the driver feeds bits to the C decoder and logs every
chunk dtype->read produced; Trace_Codec decodes bits by its own rules and requires (1) every logged
chunk = the definition's chunk, (2) every chunk = the corresponding slice of expand(cmds), (3) nothing
missing at the end."""
import json, os, random, shutil, subprocess, sys, concurrent.futures as cf
import vcommon as V
import tracerun as TR
ENC = os.path.join(V.ROOT, "harness", "py", "enc")
sys.path.insert(0, ENC)

_collected = []


def _structural_cases(family, method, rng, quick):
    """the encoder package's structural suites, collected instead of executed"""
    import selftest as ST
    del _collected[:]

    def flush(self):
        _collected.extend(self.cases)
        self.cases = []
    ST.Suite.flush = flush
    ST.Suite.summary = lambda self, extra="": (flush(self), True)[1]
    if family == "lhnew":
        ST.test_lhnew(None, rng, quick, method)
    elif family == "lh1":
        ST.test_lh1(None, rng, quick)
    elif family == "larc":
        import enc_lzs, enc_lz5
        ST.test_larc(None, rng, quick, enc_lzs if method == "-lzs-" else enc_lz5, method)
    elif family == "null":
        ST.test_null(None, rng)
    elif family == "pm2":
        ST.test_pm2(None, rng, quick)
    elif family == "pm1":
        ST.test_pm1(None, rng, quick)
    return [c for c in _collected if c[1] == method or family in ("null",)]


def run(pid, families, tier, seed, ev, maxout, extra=None):
    """families: list of (family, method).  Returns violations."""
    rng = random.Random(seed)
    sc = V.scratch(pid.lower())
    drv = V.build_driver("decoder_drv", "san")
    jobs = []          # (jobline, expected bytes, declared, label)
    iid = 0
    for fam, method in families:
        try:
            cases = _structural_cases(fam, method, random.Random(rng.getrandbits(32)), tier == "quick")
        except Exception as e:
            raise V.HarnessError("encoder suite for %s failed: %r" % (method, e))
        if fam == "pm1":
            # "a -pm1- stream that ends before the declared length is continued as if followed by zero bits": the same stream without the zero
            # bytes at its end (which cuts inside whatever code or command ends there) denotes the same bytes
            cut = [(label + " / zero bytes at the end dropped", meth, stream.rstrip(b"\0"), expected) for (label, meth, stream, expected) in cases
                   if stream.rstrip(b"\0") != stream and len(expected) <= 4000]
            ev.add("pm1_streams_with_zero_tail_dropped", len(cut))
            cases = cases + cut
        rng.shuffle(cases)
        cases = [c for c in (extra or []) if c[1] == method] + cases
        kept = 0
        for (label, meth, stream, expected) in cases:
            if len(expected) > maxout and not (label.startswith("overlap x ring seam") and len(expected) < 20000):
                continue
            kept += 1
            path = os.path.join(sc, "c%d.bin" % len(jobs))
            open(path, "wb").write(stream)
            n = len(expected)
            for dl, sch in ((n, ["R%d" % (n + 9)]), (n, ["R1", "R7", "R0", "R4096", "R%d" % (n + 1)]))[:1 if kept % 3 else 2]:
                iid += 1
                jobs.append(("real %d 1 %d %s %s %s" % (iid, dl, meth, path, ",".join(sch + ["L", "C"])), expected, dl, label))
            ev.cls((meth, label[:60]))
        ev.add("streams_" + method.strip("-"), kept)
    # run, sharded by method order
    nsh = V.NCPU
    results = []

    def shard(k):
        sub = jobs[k::nsh]
        if not sub:
            return None
        jf = os.path.join(sc, "jobs_%d.txt" % k)
        with open(jf, "w") as f:
            for i, (j, exp, dl, label) in enumerate(sub):
                p = j.split(); p[1] = str(i + 1)
                f.write(" ".join(p) + "\n")
        p = subprocess.run([drv, jf, "data"], capture_output=True, env=V.run_env(), timeout=3000)
        tr = os.path.join(sc, "trace_%d.ndjson" % k)
        # splice the encoder side's ground truth into the New / End lines (nothing is inferred from the run)
        i = -1
        with open(tr, "w") as f:
            for ln in p.stdout.decode().splitlines():
                try:
                    if ln.startswith('{"e":"New"'):
                        i += 1
                        e = json.loads(ln)
                        e["expect"] = list(sub[i][1])
                        ln = json.dumps(e, separators=(",", ":"))
                    elif ln.startswith('{"e":"End"'):
                        e = json.loads(ln)
                        if e.get("complete"):
                            e["want"] = min(len(sub[i][1]), sub[i][2])
                        ln = json.dumps(e, separators=(",", ":"))
                except ValueError:
                    ln = '{"e":"Garbled"}'      # the driver died in the middle of a line
                f.write(ln + "\n")
        return jf, tr, len(sub), p
    with cf.ThreadPoolExecutor(max_workers=nsh) as ex:
        results = [r for r in ex.map(shard, range(nsh)) if r]
    viols, good = TR.validate_all("Trace_Codec", "Trace_Codec", results, ev, pid, xmx="6g", timeout=3000)
    ev.add("traces_validated_against_impl", good)
    ev.set("executions", len(jobs))
    for j in jobs[:2]:
        ev.sample({"job": j[0][:200], "label": j[3], "expected_len": len(j[1])})
    for v in viols:
        jf = os.path.join(v["replay"], "jobs.txt")
        if os.path.exists(jf):
            for ln in open(jf):
                p = ln.split()
                if len(p) > 5 and os.path.exists(p[5]):
                    shutil.copy(p[5], v["replay"])
    shutil.rmtree(sc, ignore_errors=True)
    return viols


def ground(tier, methods, ev):
    """grounding of the definition on third-party streams (corpus): checks/codec_ground.py restricted to methods"""
    p = subprocess.run([sys.executable, os.path.join(V.ROOT, "checks", "codec_ground.py"), tier, "-m", ",".join(methods), "-k", "valid"],
                       capture_output=True, timeout=6000)
    out = p.stdout.decode(errors="replace")
    ev.set("corpus_grounding", out.strip().splitlines()[-1][:200] if out.strip() else "no output")
    if p.returncode != 0:
        d = V.replay_dir(ev.pid, "grounding")
        open(os.path.join(d, "codec_ground.out"), "w").write(out + p.stderr.decode(errors="replace"))
        return [{"replay": d, "msg": "the C decoder and the TLA+ definition disagree on a third-party stream, or the decoder crashed: " + out[-600:]}]
    return []
