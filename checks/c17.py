"""C17 - the checksum routine is CRC-16/ARC for every buffer and every split of it."""
import json, os, re, subprocess, concurrent.futures as cf
import vcommon as V

LEVEL = "model_checking"
ASSUMPTIONS = ["TLC, SANY and the CommunityModules Bitwise/Json/IOUtils overrides are trusted",
               "the reference table is exported by TLC from the bitwise definition, never read from the C source"]


def _drv(exe, *args, timeout=1800):
    p = subprocess.run([exe] + [str(a) for a in args], capture_output=True, env=V.run_env(), timeout=timeout)
    out = p.stdout.decode()
    if p.returncode not in (0, 1) or not out.strip():
        raise V.HarnessError("crc_drv %s failed rc=%d: %s" % (args[0], p.returncode, p.stderr.decode()[-2000:]))
    return p.returncode, json.loads(out.strip().splitlines()[-1])


def run(tier, seed, ev):
    viols = []
    sc = V.scratch("c17")
    tabf = os.path.join(sc, "tab.json")
    # ---- bounded models -------------------------------------------------------------
    jobs = {}
    with cf.ThreadPoolExecutor(max_workers=V.NCPU) as ex:
        jobs["export"] = ex.submit(V.tlc_must_pass, "MC_Crc16", "MC_Crc16_export", env={"SHARD": 0, "CRC_TAB_OUT": tabf})
        jobs["linear"] = ex.submit(V.tlc_must_pass, "MC_Crc16", "MC_Crc16_linear", env={"SHARD": 0}, xmx="2g")
        jobs["feed"] = ex.submit(V.tlc_must_pass, "MC_Crc16", "MC_Crc16_feed", env={"SHARD": 0}, workers=2, xmx="2g")
        if tier == "quick":
            jobs["pairs_q"] = ex.submit(V.tlc_must_pass, "MC_Crc16", "MC_Crc16_pairs_q", env={"SHARD": 0}, workers=4, xmx="3g")
        else:
            for s in range(16):
                jobs["pairs_%d" % s] = ex.submit(V.tlc_must_pass, "MC_Crc16", "MC_Crc16_pairs", env={"SHARD": s},
                                                 workers=1, xmx="3g", timeout=1500)
        gen = ex.submit(V.tlc_must_pass, "MC_Crc16", "MC_Crc16_gen", env={"SHARD": 0},
                        simulate=300 if tier == "quick" else 5000, depth=8, seed=seed, xmx="2g")
        # meanwhile build the drivers
        drv = V.build_driver("crc_drv", "san")
        drv_fast = V.build_driver("crc_drv", "fast")
        res = {k: f.result() for k, f in jobs.items()}
        gen = gen.result()
    for k, r in res.items():
        if r.violation:
            # the definition and the table form disagree inside TLA+: the model is broken, not the code
            raise V.HarnessError("Crc16 model %s: invariant %s violated" % (k, r.violation))
        ev.tlc(r)
    ev.set("pairs_checked_in_tlc", sum(r.distinct for k, r in res.items() if k.startswith("pairs")))
    # ---- replay: TLC-generated behaviours into the C routine ------------------------------
    vec = os.path.join(sc, "vectors.txt")
    nvec = 0
    with open(vec, "w") as f:
        for m in re.finditer(r'<<"VEC", "(.*)">>', gen.out):
            hist = json.loads(m.group(1).replace('\\"', '"'))
            f.write("%d\n" % len(hist))
            for st in hist:
                f.write("%d %s %d\n" % (len(st["piece"]), " ".join(map(str, st["piece"])), st["reg"]))
            if nvec < 2:
                ev.sample({"tlc_behaviour": [{"piece": st["piece"][:8], "len": len(st["piece"]), "reg": st["reg"]} for st in hist]})
            nvec += 1
    if nvec == 0:
        raise V.HarnessError("generator produced no behaviours")
    bad = []
    rc, j = _drv(drv, "vectors", tabf, vec)
    ev.add("traces_validated_against_impl", j["cases"])
    if rc:
        bad.append(("vectors", j))
    # ---- exhaustive on the implementation side --------------------------------------------
    rc, j = _drv(drv, "pairs", tabf)
    ev.set("impl_pairs_1byte", j["cases"])
    if rc:
        bad.append(("pairs", j))
    if tier == "thorough":
        rc, j = _drv(drv_fast, "pairs2", tabf, V.NCPU)
        ev.set("impl_cases_2byte", j["cases"])
        if rc:
            bad.append(("pairs2", j))
    rc, j = _drv(drv, "long", tabf, seed, 400 if tier == "quick" else 4000, 1 << 20 if tier == "thorough" else (1 << 17) + 8)
    ev.set("impl_long_buffers", j["cases"])
    if rc:
        bad.append(("long", j))
    rc, j = _drv(drv, "words", tabf)
    ev.set("impl_structured_buffers", j["cases"])
    if rc:
        bad.append(("words", j))
    # ---- validation: recorded executions against the spec ---------------------------------
    tr = os.path.join(sc, "trace.ndjson")
    n_exec = 150 if tier == "quick" else 1500
    with open(tr, "w") as f:
        p = subprocess.run([drv, "trace", str(seed), str(n_exec), "2048"], stdout=f, env=V.run_env())
    if p.returncode != 0:
        bad.append(("trace-run", {"rc": p.returncode}))
    else:
        ok, line, r = V.validate_trace("Trace_Crc16", "Trace_Crc16", tr, timeout=900)
        ev.tlc(r)
        if ok:
            ev.add("traces_validated_against_impl", n_exec)
            ev.set("trace_events", V.count_lines(tr))
        else:
            bad.append(("trace", {"rejected_line": line}))
    ev.set("exhaustive", True)
    ev.set("rule", "1-byte: all 2^24 (state,byte) pairs on the implementation vs the TLC-exported table; "
                   "2-byte: all 2^32 in the thorough tier; TLC: table form == bitwise definition on "
                   + ("all 2^24 pairs" if tier == "thorough" else "all states x basis bytes + basis states x all bytes with GF(2)-linearity"))
    for kind, j in bad:
        d = V.replay_dir("C17", kind)
        with open(os.path.join(d, "result.json"), "w") as f:
            json.dump({"kind": kind, "detail": j, "seed": seed, "tier": tier}, f)
        for fn in ("tab.json", "vectors.txt", "trace.ndjson"):
            if os.path.exists(os.path.join(sc, fn)):
                os.replace(os.path.join(sc, fn), os.path.join(d, fn))
        viols.append({"replay": d, "msg": "%s: %s" % (kind, json.dumps(j))})
    import shutil
    shutil.rmtree(sc, ignore_errors=True)
    return viols


def replay(path):
    with open(os.path.join(path, "result.json")) as f:
        j = json.load(f)
    os.environ["VERIF_SEED"] = str(j["seed"])
    ev = V.Evidence("C17", j["tier"], j["seed"], LEVEL)
    v = run(j["tier"], j["seed"], ev)
    for x in v:
        V.violation("C17", x["replay"], x.get("msg", ""))
    return 1 if v else 0
