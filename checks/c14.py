"""C14 - decoder reads: split-invariant, exact declared length, faithful CRC/length, progress."""
import itertools, json, os, random, re, shutil, subprocess, concurrent.futures as cf
import vcommon as V
import corpus

LEVEL = "model_checking"
ASSUMPTIONS = ["request sizes near SIZE_MAX (where stream_pos + buf_len wraps) are outside the statement and not generated",
               "TLC, SANY, CommunityModules (Json, IOUtils, SequencesExt, Bitwise) are trusted",
               "the wrapper LHADecoderType observes exactly what the algorithm's read() returned"]


def cfg_consts(cfg):
    txt = open(os.path.join(V.SPEC, cfg)).read()
    out = {}
    for m in re.finditer(r"^\s*(\w+)\s*=\s*(\{[^}]*\}|\w+)", txt, re.M):
        v = m.group(2)
        out[m.group(1)] = [int(x) for x in v.strip("{}").split(",")] if v.startswith("{") else (int(v) if v.isdigit() else v)
    return out


def script_jobs(rng, tier, ev):
    """Executions over the same finite space as MC_DecoderApi (constants read from its cfg)."""
    c = cfg_consts("MC_DecoderApi.cfg")
    sizeseqs = [s for n in range(c["MAXCHUNKS"] + 1) for s in itertools.product(c["ChunkSizes"], repeat=n)
                if sum(s) <= c["MAXTOTAL"]]
    ops = ["R%d" % k for k in c["ReadSizes"]] + ["M"]
    scheds = [s for n in range(1, 5) for s in itertools.product(ops, repeat=n) if s.count("M") <= 1]
    inputs = [(s, dl) for s in sizeseqs for dl in range(c["MAXLEN"] + 1)]
    ev.set("script_inputs_total", len(inputs))
    n_per = 3 if tier == "quick" else 30
    jobs = []
    iid = 0
    for (s, dl) in inputs:
        iid += 1
        ss = ",".join(map(str, s)) or "-"
        jobs.append("script %d 1 %d %d %d %s R%d,L,C" % (iid, dl, c["BLOCK"], c["MAXREAD"], ss, c["BIG"]))
        for sch in rng.sample(scheds, n_per):
            o = []
            for x in sch:
                o.append(x)
                if x != "M":
                    o += ["L", "C"]
            jobs.append("script %d 0 %d %d %d %s %s" % (iid, dl, c["BLOCK"], c["MAXREAD"], ss, ",".join(o)))
            ev.cls(("script", len(s), min(dl, sum(s)) == dl, sch))
    return jobs, iid


MEASURE_CAP = 6000   # -pm1- continues on implicit zero bits for ever: "exact" is capped


def measure(drv, streams, sc):
    """length each stream produces under one maximal read with a large declared length"""
    jf = os.path.join(sc, "measure.jobs")
    with open(jf, "w") as f:
        for i, (name, path) in enumerate(streams):
            f.write("real %d 1 %d %s %s R%d,L\n" % (i + 1, MEASURE_CAP, name, path, MEASURE_CAP))
    p = subprocess.run([drv, jf], capture_output=True, env=V.run_env())
    if p.returncode in (2, 3):
        raise V.HarnessError("decoder_drv: " + p.stderr.decode()[-500:])
    if p.returncode != 0:
        return None, p
    lens = [json.loads(l)["v"] for l in p.stdout.decode().splitlines() if l.startswith('{"e":"Len"')]
    return lens, p


def real_jobs(rng, tier, drv, sc, ev, first_input):
    pay = corpus.sample_payloads()
    streams = []
    cut = 260 if tier == "quick" else 1200
    for name in corpus.METHODS:
        if name not in pay:
            raise V.HarnessError("no corpus payload for " + name)
        src, p, length, crc = pay[name]
        variants = [("valid-prefix", p[:cut])]
        # invalid streams: bit-flipped and random bytes
        q = bytearray(p[:cut])
        for _ in range(6):
            q[rng.randrange(len(q))] ^= 1 << rng.randrange(8)
        variants.append(("flipped", bytes(q)))
        variants.append(("random", bytes(rng.randrange(256) for _ in range(cut // 2))))
        if tier == "thorough":
            variants.append(("empty", b""))
        for tag, data in variants:
            path = os.path.join(sc, "s_%s_%s.bin" % (name.strip("-"), tag))
            open(path, "wb").write(data)
            streams.append((name, path))
    lens, p = measure(drv, streams, sc)
    if lens is None:
        return None, p, streams
    jobs = []
    iid = first_input
    for (name, path), exact in zip(streams, lens):
        decl = sorted({0, 1, max(exact - 1, 0), exact, exact + 1, exact + 1000})
        if tier == "quick":
            decl = sorted({0, max(exact - 1, 0), exact, exact + 1})
        for dl in decl:
            iid += 1
            jobs.append("real %d 1 %d %s %s R%d,L,C" % (iid, dl, name, path, dl + 9))
            n = min(dl, exact)
            scheds = []
            scheds.append(["R1"] * min(n + 2, 400) + ["R%d" % (dl + 1)])
            scheds.append(["M"] + ["R%d" % k for k in [7, 0, 13, 1, 0, 31, 64, 127]] + ["R%d" % (dl + 1)])
            scheds.append(["R%d" % (n // 2), "M", "R0", "R%d" % (n + 5)])
            scheds.append(["R%d" % (n + 100), "R5", "M", "R0"])
            # W: the monitor is attached from inside a progress callback (for the handler that is logged an attachment like any other)
            scheds.append(["W"] + ["R%d" % k for k in [64, 64, 1000]] + ["R%d" % (dl + 1)])
            scheds.append(["R%d" % (n // 2 + 1), "R64", "W", "R64", "R%d" % (n + 5)])
            if tier == "thorough":
                scheds.append(["R%d" % rng.choice([1, 2, 3, 5, 17, 100, 1000, 4096, 5000]) for _ in range(40)] + ["M", "R%d" % (dl + 1)])
                scheds.append(["R0", "R0", "M", "R%d" % max(n - 1, 0), "R1", "R1", "R1"])
            for sch in scheds:
                o = []
                for x in sch:
                    o.append(x)
                    if x not in ("M", "W") and rng.random() < 0.3:
                        o += ["L", "C"]
                o += ["L", "C"]
                jobs.append("real %d 0 %d %s %s %s" % (iid, dl, name, path, ",".join(o)))
            ev.cls(("real", name, os.path.basename(path).split("_")[-1], dl < exact, dl == exact, dl > exact))
    return jobs, None, streams


def run(tier, seed, ev):
    rng = random.Random(seed)
    sc = V.scratch("c14")
    viols = []
    with cf.ThreadPoolExecutor(max_workers=4) as ex:
        mc = ex.submit(V.tlc_must_pass, "MC_DecoderApi", "MC_DecoderApi_quick" if tier == "quick" else "MC_DecoderApi",
                       workers=10, xmx="12g", timeout=1500, coverage=False)
        live = ex.submit(V.tlc_must_pass, "MC_DecoderApi", "MC_DecoderApi_live", workers=4, xmx="4g", timeout=900)
        drv = V.build_driver("decoder_drv", "san")
        sjobs, last = script_jobs(rng, tier, ev)
        rjobs, fail, streams = real_jobs(rng, tier, drv, sc, ev, last)
        # run the implementation, sharded
        bad_runs = []
        if fail is not None:
            bad_runs.append(("measure", fail))
            rjobs = []
        jobs = sjobs + rjobs
        # shards must keep all executions of one input together, reference first: shard by input id
        nsh = V.NCPU
        shards = [[] for _ in range(nsh)]
        for j in jobs:
            shards[int(j.split()[1]) % nsh].append(j)
        # renumber inputs per shard (the trace spec wants 1,2,3,... in order of first appearance)
        traces = []
        for si, sh in enumerate(shards):
            if not sh:
                continue
            ren = {}
            jf = os.path.join(sc, "jobs_%d.txt" % si)
            with open(jf, "w") as f:
                for j in sh:
                    parts = j.split()
                    parts[1] = str(ren.setdefault(parts[1], len(ren) + 1))
                    f.write(" ".join(parts) + "\n")
            traces.append((jf, os.path.join(sc, "trace_%d.ndjson" % si)))

        def runone(t):
            jf, tr = t
            with open(tr, "w") as out:
                p = subprocess.run([drv, jf], stdout=out, stderr=subprocess.PIPE, env=V.run_env())
            return t, p
        for t, p in ex.map(runone, traces):
            if p.returncode in (2, 3):
                raise V.HarnessError("decoder_drv: " + p.stderr.decode()[-500:])
            if p.returncode != 0:
                bad_runs.append((t[0], p))
        mcr, liver = mc.result(), live.result()
    for r, nm in ((mcr, "MC_DecoderApi"), (liver, "MC_DecoderApi_live")):
        ev.tlc(r)
        if r.violation:
            d = V.replay_dir("C14", "model-" + nm)
            open(os.path.join(d, "tlc.out"), "w").write(r.out)
            # a violation inside the bounded model of the design: concretise before claiming anything
            raise V.HarnessError("bounded model %s violates %s (see %s); the model is validated against the code below, "
                                 "so this is a modelling error until reproduced on the implementation" % (nm, r.violation, d))
    # validate traces
    nexec = 0
    with cf.ThreadPoolExecutor(max_workers=V.NCPU) as ex:
        futs = {ex.submit(V.validate_trace, "Trace_DecoderApi", "Trace_DecoderApi", tr, None, 1500, "3g"): (jf, tr)
                for jf, tr in traces if not any(b[0] == jf for b in bad_runs)}
        for fu in futs:
            jf, tr = futs[fu]
            ok, line, r = fu.result()
            n = sum(1 for _ in open(jf))
            ev.tlc(r)
            if ok:
                nexec += n
            else:
                d = V.replay_dir("C14", "trace-" + os.path.basename(tr))
                shutil.copy(jf, os.path.join(d, "jobs.txt"))
                shutil.copy(tr, os.path.join(d, "trace.ndjson"))
                for _, pth in streams:
                    shutil.copy(pth, d)
                ctx = ""
                if line and line > 0:
                    lines = open(tr).read().splitlines()
                    ctx = "rejected at line %d: %s" % (line, lines[line - 1][:600] if line <= len(lines) else "<end>")
                else:
                    ctx = "invariant %s violated on an observed execution\n%s" % (r.violation, r.out[-1500:])
                open(os.path.join(d, "why.txt"), "w").write(ctx + "\n")
                viols.append({"replay": d, "msg": ctx})
    for what, p in bad_runs:
        d = V.replay_dir("C14", "run-" + os.path.basename(str(what)))
        open(os.path.join(d, "stderr.txt"), "wb").write(p.stderr or b"")
        if os.path.exists(str(what)):
            shutil.copy(str(what), os.path.join(d, "jobs.txt"))
        for _, pth in streams:
            shutil.copy(pth, d)
        viols.append({"replay": d, "msg": "driver exited %d: %s" % (p.returncode, (p.stderr or b"").decode(errors="replace")[-1500:])})
    ev.add("traces_validated_against_impl", nexec)
    ev.set("executions", len(jobs))
    for j in (sjobs[:2] + rjobs[:2]):
        ev.sample(j if len(j) < 400 else j[:400] + "...")
    ev.set("rule", "distinct = (kind, script shape or method+stream class, declared-vs-producible class, schedule shape)")
    shutil.rmtree(sc, ignore_errors=True)
    return viols


def replay(path):
    drv = V.build_driver("decoder_drv", "san")
    jf = os.path.join(path, "jobs.txt")
    # streams were copied next to jobs.txt: rewrite their paths
    lines = []
    for l in open(jf):
        p = l.split()
        if p[0] == "real":
            p[5] = os.path.join(path, os.path.basename(p[5]))
        lines.append(" ".join(p))
    j2 = os.path.join(path, "jobs.replay.txt")
    open(j2, "w").write("\n".join(lines) + "\n")
    tr = os.path.join(path, "trace.replay.ndjson")
    with open(tr, "w") as out:
        p = subprocess.run([drv, j2], stdout=out, stderr=subprocess.PIPE, env=V.run_env())
    if p.returncode != 0:
        print(p.stderr.decode()[-2000:])
        V.violation("C14", path)
        return 1
    ok, line, r = V.validate_trace("Trace_DecoderApi", "Trace_DecoderApi", tr)
    if not ok:
        print("rejected at line", line)
        V.violation("C14", path)
        return 1
    print("accepted")
    return 0
