"""C18 - archive-derived text printed by the tool is printable ASCII only."""
import json, os, random, shutil, subprocess, concurrent.futures as cf
import vcommon as V
import listgen as LG
import tracerun as TR
import arc
import c19

LEVEL = "model_checking"
ASSUMPTIONS = ["file data dumped by `p` is not archive-derived *text*: members carry plain ASCII data so that all of stdout can be checked",
               "header records are taken as the library returns them; list output is additionally compared with ListOutput.tla",
               "TLC/SANY/CommunityModules trusted"]
FIELDS = ["name", "path", "target", "method_first", "method_later", "user", "group", "longpath", "longname", "linkpath", "longlinkpath",
          "linklongname", "linkemptytarget", "dirthenlink", "filethendir"]
# the hostile byte at the far end of texts longer than the buffers a formatting routine might use (128 .. 4096 bytes)
TAIL_FIELDS = ["tailpath1030", "tailpath4100", "tailname1030", "tailtarget1030", "tailpath260", "tailname520"]
MODES = ["l", "lv", "v", "vv", "t", "x", "xn", "xq0", "xq1", "xq2", "p", "xx_n", "xx_s", "xx_a", "xx_y", "xx_z", "xxn", "xxi", "x_notdir"]
# xx_*: a second extraction over the result of a first one, without f / q: every file is asked about on standard error, the answers
# being n, s (skip all), a (all), y, or something unrecognised first; xxn: dry run over existing files; xxi: the same with option i
ANSWERS = {"xx_n": b"n\nn\nn\nn\n", "xx_s": b"s\n", "xx_a": b"a\n", "xx_y": b"y\ny\ny\ny\n", "xx_z": b"zz\n\x1b\nq\ny\nn\nn\n", "xxn": b"", "xxi": b"n\ny\ns\n"}


def hostile_archive(field, byte, later):
    """one archive in which `field` of the first / a later member contains `byte`"""
    b = bytes([byte])
    clean = arc.unix_file(b"plain.txt", b"just text\n", level=2)
    kw = dict(level=2, method=b"-lh0-", name=b"", payload=b"some text\n", os=ord("U"), time=1000000000)
    exts = [arc.x_name(b"n" + (b if field == "name" else b"") + b"m.txt"), arc.x_perm(0o100644)]
    method = b"-lh0-"
    if field == "path":
        exts.append((arc.X_PATH, b"d" + b + b"e\xff"))
    # components too long for the file system: every system call on them fails, and the failures are reported by name
    if field == "longpath":
        exts.append((arc.X_PATH, b"d" + b + b"e" * 300 + b"\xff"))
    if field == "longname":
        exts[0] = arc.x_name(b"n" + b + b"m" * 300)
    if field == "user":
        exts.append(arc.x_user(b"u" + b + b"v"))
    if field == "group":
        exts.append(arc.x_group(b"g" + b + b"h"))
    if field == "target":
        exts = [arc.x_name(b"lnk|t" + b + b"u"), arc.x_perm(0o120777)]
        kw.update(method=b"-lhd-", payload=b"")
    # a symbolic link below a hostile directory name: links are not asked about first, so it is the creation of the parent
    # directories that meets the obstacle (a file in the way / a component too long) and reports it
    if field in ("linkpath", "longlinkpath"):
        exts = [arc.x_name(b"lnk|tgt"), (arc.X_PATH, b"d" + b + b"e" * (1 if field == "linkpath" else 300) + b"\xff"), arc.x_perm(0o120777)]
        kw.update(method=b"-lhd-", payload=b"")
    # symbolic links that cannot be created (name too long; empty target; a directory of that name extracted just before), and a
    # directory that cannot be created because a file of that name came first: what is said about the failure names the path
    if field == "linklongname":
        exts = [arc.x_name(b"l" + b + b"k" * 300 + b"|tgt"), arc.x_perm(0o120777)]
        kw.update(method=b"-lhd-", payload=b"")
    if field == "linkemptytarget":
        exts = [arc.x_name(b"l" + b + b"k|"), arc.x_perm(0o120777)]
        kw.update(method=b"-lhd-", payload=b"")
    if field in ("dirthenlink", "filethendir"):
        nmh = b"d" + b + b"e"
        if field == "dirthenlink":
            first = arc.Member(level=2, method=b"-lhd-", name=b"", payload=b"", os=ord("U"), time=1000000000, exts=[(arc.X_PATH, nmh + b"\xff"), arc.x_perm(0o40755)])
            second = arc.Member(level=2, method=b"-lhd-", name=b"", payload=b"", os=ord("U"), time=1000000000, exts=[arc.x_name(nmh + b"|target"), arc.x_perm(0o120777)])
        else:
            first = arc.Member(level=2, method=b"-lh0-", name=b"", payload=b"text\n", os=ord("U"), time=1000000000, exts=[arc.x_name(nmh), arc.x_perm(0o100644)])
            second = arc.Member(level=2, method=b"-lhd-", name=b"", payload=b"", os=ord("U"), time=1000000000, exts=[(arc.X_PATH, nmh + b"\xff"), arc.x_perm(0o40755)])
        return first.bytes() + second.bytes() + clean.bytes() + b"\0"
    if field.startswith("tail"):
        n = int(field.lstrip("tailpathnmrge"))
        if field.startswith("tailpath"):
            comps = [b"e" * 200] * (n // 201)
            exts.append((arc.X_PATH, b"\xff".join(comps + [b"d" * (n - 201 * len(comps)) + b + b"e"]) + b"\xff"))
        elif field.startswith("tailname"):
            exts[0] = arc.x_name(b"n" * n + b + b"m")
        else:
            exts = [arc.x_name(b"lnk|" + b"t" * n + b + b"u"), arc.x_perm(0o120777)]
            kw.update(method=b"-lhd-", payload=b"")
    if field == "method_first":
        method = b"-lh" + b + b"-"            # bytes 3 and 4 are fixed by the signature scan
        kw.update(method=method)
    if field == "method_later":
        method = bytes([byte, 0x6c, byte, 0x35, byte])
        kw.update(method=method)
    m = arc.Member(exts=exts, **kw)
    ms = [clean, m] if (later or field == "method_later") and field != "method_first" else [m, clean]
    return b"".join(x.bytes() for x in ms) + b"\0"


def run(tier, seed, ev):
    rng = random.Random(seed)
    sc = V.scratch("c18")
    lha = V.lha_binary("san")
    hd = V.build_driver("header_drv", "san")
    classes = [0x01, 0x07, 0x08, 0x09, 0x0a, 0x0d, 0x1b, 0x1f, 0x7f, 0x80, 0x9b, 0xa0, 0xff]
    if tier == "thorough":
        classes = list(range(1, 256))
    configs = [(f, b, later) for f in FIELDS for b in classes for later in (False, True)]
    configs += [(f, b, False) for f in TAIL_FIELDS for b in classes]
    archives = {}
    for (f, b, later) in configs:
        a = os.path.join(sc, "h_%s_%02x_%d.lzh" % (f, b, later))
        open(a, "wb").write(hostile_archive(f, b, later))
        archives[(f, b, later)] = a
    members, p = LG.collect_members(hd, list(archives.values()), sc, "m")
    if members is None:
        d = V.replay_dir("C18", "header-dump-crash")
        return [{"replay": d, "msg": "header_drv crashed: " + p.stderr.decode(errors="replace")[-500:]}]
    mem = dict(zip(archives.values(), members))
    jobs = [(cfg, mode) for cfg in configs for mode in MODES]
    ev.set("configurations", len(jobs))
    ev.set("exhaustive", True)
    nsh = V.NCPU

    def shard(k):
        tr = os.path.join(sc, "out_trace_%d.ndjson" % k)
        n = 0
        with open(tr, "w") as f:
            for (cfg, mode) in jobs[k::nsh]:
                a = archives[cfg]
                if mode in ("l", "lv", "v", "vv"):
                    a2 = a + ".s%d" % k
                    if not os.path.exists(a2):
                        shutil.copy(a, a2)
                    e, p = LG.list_event(lha, a2, mem[a], mode, 0, [], LG.NOW, LG.NOW - 1000)
                elif mode == "x_notdir":
                    # a regular file where the member's directory would have to be (error messages name the path)
                    xd = os.path.join(sc, "x%d_%d" % (k, n))
                    os.makedirs(xd)
                    if cfg[0] in ("path", "linkpath") and cfg[1] not in (0, 0x2f):
                        open(os.path.join(xd.encode(), b"d" + bytes([cfg[1]]) + b"e"), "wb").write(b"in the way")
                    p = V.run_bounded([lha, "xw=" + xd, a], capture_output=True, env=V.run_env(), stdin=subprocess.DEVNULL, timeout=120)
                    e = {"e": "Out", "mode": mode, "cfg": [cfg[0], cfg[1], cfg[2]], "out": list(p.stdout + p.stderr)}
                    if p.returncode == 255:
                        p.returncode = 1
                    shutil.rmtree(xd, ignore_errors=True)
                elif mode.startswith("xx"):
                    xd = os.path.join(sc, "x%d_%d" % (k, n))
                    os.makedirs(xd)
                    first = V.run_bounded([lha, ("xiw=" if mode == "xxi" else "xw=") + xd, a], capture_output=True, env=V.run_env(), stdin=subprocess.DEVNULL, timeout=120)
                    cmd = {"xxn": "xnw=", "xxi": "xiw="}.get(mode, "xw=") + xd
                    p = V.run_bounded([lha, cmd, a], capture_output=True, env=V.run_env(), input=ANSWERS[mode], timeout=120)
                    e = {"e": "Out", "mode": mode, "cfg": [cfg[0], cfg[1], cfg[2]], "out": list(p.stdout + p.stderr)}
                    if p.returncode == 255:
                        p.returncode = 1           # (end of input at the prompt: the tool's own exit(-1))
                    shutil.rmtree(xd, ignore_errors=True)
                else:
                    xd = os.path.join(sc, "x%d_%d" % (k, n))
                    os.makedirs(xd)
                    cmd = {"t": "t", "x": "xw=" + xd, "xn": "xnw=" + xd, "xq0": "xq0w=" + xd, "xq1": "xq1w=" + xd, "xq2": "xq2w=" + xd, "p": "p"}[mode]
                    p = V.run_bounded([lha, cmd, a], capture_output=True, env=V.run_env(), stdin=subprocess.DEVNULL, timeout=120)
                    e = {"e": "Out", "mode": mode, "cfg": [cfg[0], cfg[1], cfg[2]], "out": list(p.stdout + p.stderr)}
                    shutil.rmtree(xd, ignore_errors=True)
                if p.returncode not in (0, 1, 255):      # (255 = the tool's own exit(-1), e.g. after "Failed to read file type": a normal exit)
                    e = {"e": "Crash", "code": p.returncode, "cfg": [cfg[0], cfg[1], cfg[2]], "mode": mode, "stderr": p.stderr.decode(errors="replace")[-300:]}
                f.write(json.dumps(e, separators=(",", ":")) + "\n")
                n += 1

        class P: returncode = 0; stderr = b""
        return tr, tr, n, P()
    with cf.ThreadPoolExecutor(max_workers=nsh) as ex:
        results = [r for r in ex.map(shard, range(nsh)) if r[2] > 0]
    viols, good = TR.validate_all("Trace_List", "Trace_List", results, ev, "C18", xmx="4g")
    # random hostile archives through the list commands as well (names of any length etc.)
    built, v0 = c19.build_traces("C18", rng, sc, tier, ev, hostile=True, n=40 if tier == "quick" else 600)
    viols += v0
    if built:
        v2, g2 = c19.run_jobs("C18", built[0], built[1], sc, ev)
        viols += v2
        good += g2
    # test / extract / print / dry run with every option, names decorated with hostile bytes: stdout = Cli!Output
    import clicommon as CL
    viols += CL.run("C18", tier, seed, ev, 30 if tier == "quick" else 400, hostile_names=True)
    for cfg in configs:
        ev.cls((cfg[0], cfg[1] < 0x20, cfg[1] >= 0x7f, cfg[2]))
    ev.add("traces_validated_against_impl", good)
    ev.sample({"field": "method_later", "byte": 0x1b, "mode": "v", "archive_hex": hostile_archive("method_later", 0x1b, True).hex()})
    ev.set("rule", "every (field, byte class, first/later member, mode) combination is generated: fields " + ",".join(FIELDS) +
                   "; modes " + ",".join(MODES) + "; distinct = (field, control?, high?, position)")
    for v in viols:
        v["signature"] = "raw-method-column" if ("C18" in v.get("msg", "") or "C19" in v.get("msg", "")) and '"mode":"v' in v.get("msg", "") else None
    shutil.rmtree(sc, ignore_errors=True)
    return viols


def replay(path):
    print("the rejected invocation is the rejected line of trace.ndjson in", path)
    return 2
