import json,sys
# debug aid: show which expected item differs from the walked tree (the verdict itself is TLC's)
for d in sys.argv[1:]:
    lines=open(d+"/trace.ndjson").read().splitlines()
    why=open(d+"/why.txt").read()
    import re
    ln=int(re.search(r"rejected at line (\d+)",why).group(1))
    e=json.loads(lines[ln-1])
    def nm(loc): return "/".join(bytes.fromhex(c).decode('latin1') for c in loc[6:])
    if e["e"]=="Expect":
        tree={tuple(x["loc"]):x for x in e["tree"]}
        for it in e["items"]:
            t=tree.get(tuple(it["loc"]))
            if not t: print("MISSING",nm(it["loc"]),it["ty"]); continue
            diffs=[]
            if t["ty"]!=it["ty"]: diffs.append(("ty",t["ty"],it["ty"]))
            if it["ty"]=="file" and (t["size"],t["crc"])!=(it["size"],it["crc"]): diffs.append(("content",t["size"],it["size"]))
            if it["mtime"]!=[-1] and t["mtime"]!=it["mtime"]: diffs.append(("mtime",t["mtime"],it["mtime"]))
            if it["mode"]!=-1 and t["mode"]!=it["mode"]: diffs.append(("mode",oct(t["mode"]),oct(it["mode"])))
            if it["ty"]=="link" and t.get("traw")!=it["traw"]: diffs.append(("target",t.get("traw"),it["traw"]))
            if diffs: print("DIFF",nm(it["loc"]),diffs)
        if len(tree)!=len(e["items"]): print("COUNT",len(tree),len(e["items"]), sorted(set(nm(l) for l in tree)-set(nm(i["loc"]) for i in e["items"])))
    else:
        print(e["e"], "at", ln, "; previous lines:"); print("\n".join(l[:200] for l in lines[max(0,ln-6):ln-1]))
    # show the command
    print([l for l in lines[:ln] if l.startswith('{"e":"Reset"')][-1][:200])
