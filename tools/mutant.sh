#!/bin/sh
# usage: tools/mutant.sh <sed-expr> <file-relative-to-repo> <check id> [tier]
# builds a scratch copy of /repo under /tmp/mut, applies the sed expression, runs the check against it
set -e
rm -rf /tmp/mut; mkdir -p /tmp/mut/test
rsync -a --exclude '*.o' --exclude '*.lo' --exclude '.libs' --exclude '*.a' /repo/lib /repo/src /repo/config.h /tmp/mut/
ln -s /repo/test/archives /tmp/mut/test/archives; ln -s /repo/test/compressed /tmp/mut/test/compressed; ln -s /repo/test/output /tmp/mut/test/output
sed -i "$1" /tmp/mut/$2
if diff -q /repo/$2 /tmp/mut/$2 >/dev/null; then echo "MUTATION DID NOT APPLY"; exit 3; fi
diff /repo/$2 /tmp/mut/$2 | head -6
cd /verif && VERIF_REPO=/tmp/mut python3 checks/run.py $3 ${4:-quick} 2>&1 | grep -v "^/\\\\\|^  *[0-9]*,\?$" | tail -${5:-6}
rm -rf /tmp/mut
