#!/usr/bin/env python3
"""setup_cmd: offline; verifies the tools the checks need and parses every specification."""
import glob, os, shutil, subprocess, sys
ROOT = os.path.dirname(os.path.dirname(os.path.abspath(__file__)))
sys.path.insert(0, os.path.join(ROOT, "harness", "py"))
import vcommon as V
missing = [t for t in ("clang", "java", "ar", "strace", "setpriv", "timeout", "rsync") if not shutil.which(t)]
if missing:
    print("missing tools:", missing); sys.exit(1)
for d in ("build", "evidence"):
    os.makedirs(os.path.join(ROOT, d), exist_ok=True)
bad = 0
for f in sorted(glob.glob(os.path.join(ROOT, "spec", "*.tla"))):
    r = subprocess.run(["java", "-cp", V.TLA_CP, "tla2sany.SANY", os.path.basename(f)], cwd=os.path.join(ROOT, "spec"),
                       capture_output=True)
    out = r.stdout.decode() + r.stderr.decode()
    if r.returncode != 0 or "*** Errors" in out or "Fatal" in out:
        print("SANY failed:", f); print(out[-1500:]); bad += 1
if bad:
    sys.exit(1)
V.build_lib("san"); V.build_lib("plain")
print("setup ok")
