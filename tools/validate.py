#!/usr/bin/env python3
# run with python3-vt (has jsonschema): validates MANIFEST.json and every evidence file
import json, glob, sys, jsonschema
m = json.load(open('/verif/MANIFEST.json'))
jsonschema.validate(m, json.load(open('/root/.vp/MANIFEST.schema.json')))
es = json.load(open('/root/.vp/EVIDENCE.schema.json'))
for c in m['checks']:
    e = json.load(open(c['evidence_file']))
    jsonschema.validate(e, es)
    assert e['level'] == c['level_claimed']['category'], (c['property_id'], e['level'])
ids = {c['property_id'] for c in m['checks']} | {n['property_id'] for n in m.get('not_applicable', [])}
assert ids == {"C%02d" % i for i in range(1, 21)}, ids
print("manifest + %d evidence files valid" % len(m['checks']))
