#!/bin/sh
# Development aid (not a registered check): which lines of /repo's lib and src does no quick check reach?
# usage: tools/coverage.sh [check ids...]   (default: all) -> build/cov/report.txt, build/cov/uncovered.txt
cd /verif
COV=/verif/build/cov; rm -rf $COV; mkdir -p $COV; chmod 777 $COV
ids="$@"; [ -z "$ids" ] && ids=$(ls checks/c[0-9][0-9].py | sed 's/.*c\([0-9][0-9]\).py/C\1/')
for c in $ids; do
  VERIF_COV=$COV python3 checks/run.py $c quick > $COV/run_$c.log 2>&1; echo "$c exit=$? $(tail -1 $COV/run_$c.log)"
done
llvm-profdata-14 merge -sparse $COV/*.profraw -o $COV/all.profdata || exit 2
# any instrumented binary that contains all of lib and src: the san lha binary built with coverage
BIN=$(ls -t build/obj/san-*/lha | head -1)
OBJS=""; for b in $(ls -t build/obj/*/lha build/obj/*/*_drv-* 2>/dev/null | head -40); do OBJS="$OBJS -object $b"; done
llvm-cov-14 report $BIN $OBJS -instr-profile=$COV/all.profdata /repo/lib /repo/src > $COV/report.txt 2>$COV/report.err
llvm-cov-14 show $BIN $OBJS -instr-profile=$COV/all.profdata /repo/lib /repo/src -show-line-counts-or-regions 2>/dev/null | awk '/^\/repo/{f=$0} /^ *[0-9]+\| *0\|/{print f " " $0}' > $COV/uncovered.txt
tail -45 $COV/report.txt
