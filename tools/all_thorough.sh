#!/bin/sh
# runs every registered check in the thorough tier, one after the other; prints a summary line each
for c in "$@"; do
  s=$(date +%s)
  python3 checks/run.py $c thorough > /tmp/thorough_$c.log 2>&1
  rc=$?
  echo "$c rc=$rc $(( $(date +%s) - s ))s $(grep -c VIOLATION /tmp/thorough_$c.log) violations; $(tail -1 /tmp/thorough_$c.log | cut -c1-150)"
done
