#!/bin/sh
# Runs the repository's own test suite with the verification guard OFF, on a scratch copy of
# /repo's working tree (outside /repo and /verif); the copy is removed afterwards.
set -u
REPO=${VERIF_REPO:-/repo}
D=$(mktemp -d /var/tmp/lhasa-baseline.XXXXXX)
trap 'rm -rf "$D"' EXIT INT TERM
rsync -a --exclude .git "$REPO"/ "$D"/ || exit 2
cd "$D" || exit 2
# the tree is configured in place; if the generated Makefile is missing, configure first
if [ ! -f Makefile ]; then
  if [ -x ./configure ]; then ./configure >/dev/null || exit 2; else ./autogen.sh >/dev/null || exit 2; fi
fi
# force a rebuild of the objects from the current sources (guard is simply not defined)
find . -name '*.o' -o -name '*.lo' -o -name '*.a' -o -name '*.la' | xargs rm -f
rm -f src/lha src/test-lha test/*.log test/*.trs
make -j8 >/dev/null 2>&1 || { echo "build failed"; make 2>&1 | tail -20; exit 2; }
make -j8 check > check.out 2>&1
rc=$?
grep -E '^(PASS|FAIL|ERROR|SKIP|XFAIL|XPASS):' check.out
grep -E '^# (TOTAL|PASS|FAIL|ERROR)' check.out
exit $rc
