#!/usr/bin/env python3
"""Regenerates MANIFEST.json from the table below (single source of truth for the interface)."""
import json, os
ROOT = os.path.dirname(os.path.dirname(os.path.abspath(__file__)))
ALL = ["C%02d" % i for i in range(1, 21)]

CHECKS = {
 "C01": dict(
    category="model_checking",
    text="Codec_LhNew.tla (parameterised for -lh4/5/6/7/x- and LHARK -lk7-) defines block headers, the three code tables with their "
         "n = 0 forms, zero-run forms and skip field, canonical prefix codes (Codec_Huff.tla, declarative) and LZ77 copies over a "
         "space-filled window; TLC checks on all length vectors of <= 5 symbols that the transcription of tree_decode.c stays in "
         "bounds, terminates and equals the canonical code on complete codes. Three-way agreement at real scale: an independent "
         "encoder emits streams for structural cases (every code and offset symbol, all zero-run forms, skip values, single-symbol "
         "tables, 16-bit codes, blocks of one command, empty blocks, distances into the pre-filled window, overlap x ring seam for -lh5-) "
         "and random command lists; "
         "the real decoder's every chunk must equal the TLA+ definition's chunk and the corresponding slice of the LZ77 expansion of "
         "the commands. The definition is grounded on the third-party streams of the corpus.",
    design_ref="DESIGN.md section 5, C01",
    note="Encoder and TLA+ definition were written independently (different authorship within this project: sub-agents with no shared "
         "code) and both agree with the third-party corpus streams.",
    technique="TLA+ executable format definition (Codec_LhNew/Codec_Huff) used by TLC as trace validator of the real decoder's chunks; "
              "three-way agreement with an independent encoder; TLC model checking of the tree builder on small alphabets"),
 "C02": dict(
    category="model_checking",
    text="Codec_Lh1.tla carries the LZHUF reference algorithm (StartHuff, update with node exchange, reconst at MAX_FREQ, the fixed "
         "position code); lhasa's -lh1- decoder, which maintains frequency groups instead, is run on streams from an independent LZHUF "
         "encoder: skewed, tie-heavy and uniform symbol distributions, all copy lengths 3..60, distances 0/63/64/4095, streams of more "
         "than 32768 symbols so that the tree is rebuilt repeatedly, Fibonacci-weighted counts that produce the longest codes the scheme can have (18 bits), and a ramp distribution that drives the number of distinct node "
         "frequencies (lhasa's frequency groups) beyond 314 of the 627 possible. TLC replays every stream through the reference and requires "
         "every decoded command (chunk) of the C decoder to equal the reference's and the LZ77 expansion of the commands - any "
         "divergence of the adaptive tree shows as a wrong symbol. Grounded on the corpus' -lh1- members. Codec_Lh1Groups.tla transcribes "
         "lhasa's own structure (nodes, groups, group leaders, the group free list) function by function with the alphabet size and the "
         "reorder limit as parameters; MC_Codec_Lh1Lock explores, for alphabets of 2..16 symbols, every symbol sequence (quick: depth-"
         "bounded; thorough: the full reachable set of (reference, lhasa) state pairs, 3.4 M states) and checks node-for-node equality "
         "with the reference, equal codes, the group invariants (a group = a run of equal frequencies, leaders, allocator) and that no "
         "array index leaves its array. The transcription is bound to the code by lh1groups_drv, which #includes the current "
         "lib/lh1_decoder.c (also rebuilt with small NUM_CODES / TREE_REORDER_LIMIT), logs every code the real read_code consumes "
         "and dumps the struct; Trace_Lh1Groups requires field-for-field equality (stale entries included) at every dump.",
    design_ref="DESIGN.md section 5, C02",
    note="The bounded lock-step model covers alphabets of 2..16 symbols (all sequence lengths for seven instances in the thorough tier); at "
         "the real size (314 symbols, limit 32768) the lock-step is checked on executions: every code read by the real read_code, and the "
         "real struct at dumps, against both the group transcription and the LZHUF reference.",
    technique="TLA+ transcription of the LZHUF reference used by TLC to validate every decoded command of the real decoder; three-way "
              "agreement with an independent LZHUF encoder; bounded lock-step model of lhasa's frequency-group structure against the "
              "reference, bound to the compiled code by struct dumps validated by TLC"),
 "C03": dict(
    category="model_checking",
    text="Codec_Lzs/Lz5/Null.tla define the LArc formats declaratively (flags, absolute ring positions, the LArc initial fill pattern by "
         "region, write positions, self-overlapping copies); TLC checks on scaled-down rings that for all command lists of length "
         "<= 3 the definition equals plain LZ77 expansion and the ring transcription. At real scale, an independent encoder's streams "
         "(copies from every region of the lz5 pattern, never-written positions, seam positions, extreme lengths, overlap distances, overlap x "
         "ring seam: sources that run into the bytes being written and begin k bytes before the end of the ring for every k, "
         "every literal count per flag byte, stored data of every length around the 1 KiB block size) are decoded by the real "
         "decoders; every chunk must equal the definition's and the expansion of the commands. Grounded on the corpus.",
    design_ref="DESIGN.md section 5, C03",
    note="Streams ending inside a two-byte lz5 copy command are excluded (not well-formed).",
    technique="TLA+ executable format definitions validated by TLC against the real decoders' chunks; three-way agreement with an "
              "independent encoder; bounded model checking at scaled-down window sizes"),
 "C04": dict(
    category="model_checking",
    text="Codec_Pm2.tla / Codec_Pm1.tla define the PMarc formats: move-to-front history with the PMarc initial order, pm2 table "
         "(re)definition schedule 1K/2K/4K/8K/+4K counted per output byte also in the middle of copies with the optional-rebuild bit, "
         "pm1 start-header trees, position-dependent copy ranges, byte blocks, and continuation on implicit zero bits. An independent "
         "encoder drives every structural case (each history and copy class at its edges, each pm2 schedule state entered by a "
         "literal / end of copy / mid-copy - and by copies at distance 0 (runs), 1, 63 and further back, of length 2, 40 and 256, ending on the "
         "point, one byte short of it, one past it and across it - all 32 pm1 trees, every pm1 threshold +-1, early stream end - every pm1 stream also with the zero bytes at its end dropped, which cuts "
         "inside the last literal's code at every bit position); the real decoder's chunks "
         "must equal the definition's and the expansion of the commands. Grounded on the corpus' PMarc members (CRC recorded by PMarc).",
    design_ref="DESIGN.md section 5, C04",
    note="No public PMarc specification is available; definition and encoder were derived independently from the source and agree with "
         "third-party data.",
    technique="TLA+ executable format definitions validated by TLC against the real decoders' chunks; three-way agreement with an "
              "independent PMarc encoder"),
 "C08": dict(
    category="exploration",
    text="Spec-directed exploration under AddressSanitizer and -fsanitize=bounds: inputs are corpus archives with substitutions "
         "confined to header bytes (located by an independent container walker), truncations and bit flips; structurally "
         "generated archives with inconsistent/extreme length fields (level-3 lengths and extended sizes, level-1 chains, 4 GiB "
         "members, endless decoders); mutated generated headers of all levels (the generator of C05/C12); random bytes behind a "
         "valid signature with plausible level/length/checksum bytes; bit-flipped generated multi-member archives; the cross product header "
         "shape x OS type x kind of body (Mac envelopes behind nameless headers, link modes without targets); level 0 / 1 headers whose "
         "name length sits on or next to what the header leaves room for; level-0 extended areas of every length 0..26 for each kind of area "
         "(each fixed offset an area decoder reads is a boundary). Each input "
         "is driven through the library with disciplined random call sequences (next/read/check/extract, three directory "
         "policies, five stream kinds) and through the tool in modes l, lv, v, vv, t, p, xn and x. Any sanitizer report, signal, "
         "abnormal exit status or exhausted step budget is a violation; a sample of the library executions is validated against "
         "Reader.tla using the members of a reference run.",
    design_ref="DESIGN.md section 5, C08",
    note="Not a proof: memory safety is observed by sanitizers on the executions run. The specifications decide what is run and "
         "what each call must return; MSan is not used.",
    technique="spec-directed input generation (Header/Reader/InputStream TLA+ specs) with ASan+bounds as the observer of invalid "
              "accesses; sample trace validation against the Reader spec"),
 "C09": dict(
    category="exploration",
    text="For all 14 method names: valid streams from independent encoders under every table strategy (optimal, flat, single-symbol, "
         "maximum-length, full alphabet), corpus streams, bit-flipped / truncated / random-headed variants of them, constant and "
         "random bytes, and a sweep over first bytes of the table header; each with declared lengths from {0, 1, 100, 5000, 70000, "
         "2^32-1} and several read schedules (one large read, 1-byte reads, primes with zero-length reads, monitor attached), "
         "under AddressSanitizer and -fsanitize=bounds, with output buffers of exactly the requested size. A crash, sanitizer "
         "report or signal is a violation; a sample is validated against DecoderApi.tla (n <= k, buffer bounds, faithful "
         "length/CRC, inner decoder never called after it returned 0). Block headers of the -lh4-..-lk7- family are assembled by hand "
         "with every value of every table field (single-code tables naming symbols beyond the alphabet, counts beyond it). Every "
         "hostile stream of at most 200 bytes is also decoded by the TLA+ format definitions (Trace_Codec): on invalid input the C "
         "decoder must produce exactly the definition's chunks (the definitions index nothing outside ring, tables and buffer). Read "
         "schedules include small reads that leave a decoded run half-consumed followed by reads of about one run (17 .. 4097 bytes).",
    design_ref="DESIGN.md section 5, C09",
    note="Not a proof: memory safety is observed by sanitizers on the executions run. Found and fixed: -pm2- copy_decode overrun "
         "(known_findings.json).",
    technique="spec-directed stream generation (format classes from the encoders / codec specs) with ASan+bounds as the observer; "
              "sample trace validation against the DecoderApi TLA+ spec"),
 "C06": dict(
    category="model_checking",
    text="Generated directory-first trees (nested directories incl. read-only ones, files of random content in 14 methods built by "
         "independent encoders, safe and unsafe symbolic links, Mac members with and without a MacBinary envelope, header "
         "levels 1-3) are extracted by the real tool under strace as an unprivileged user with option sets from {f, q0..q2, v, i, "
         "w=DIR}. The trace is validated against FsModel/Trace_Extract: every system call's outcome must be the model's (so the "
         "order of mkdir 0700 / writes / final chmod+utime on directories is part of what is checked), the tree found on disk "
         "afterwards must equal the model's tree (types, modes, link targets), and it must equal the generator's expectation: "
         "every file's size and CRC-16, mtime (when recorded), mode (recorded bits or 0600), every safe link's target, every "
         "directory's recorded mode and mtime although its children were written after it; unsafe links and the directories "
         "receiving them are left open as in the statement; nothing else may exist. For half of the extractions the expected tree is "
         "computed by TreeModel.tla from the archive's intended contents, the options, wildcard arguments (Glob.tla), what is present "
         "beforehand (files; symbolic links to a directory, to a file or to nothing where a file belongs; files and links where a "
         "link entry belongs) and the answers typed at the overwrite prompt (y/n/a/s, empty and unrecognised lines, upper case): a file is "
         "replaced only under the policy in force, only matching members are touched, missing parents appear with 0755. The "
         "library's own extraction (lha_reader_extract with header paths) is run under each of its three directory policies and "
         "the resulting tree compared with TreeModel (PLAIN: time stamps of directories that receive children excepted). Owners: archives whose "
         "entries record owner ids are extracted by the tool as a privileged user (files are handed to the recorded ids when created, directories "
         "when their metadata is applied; links, parents and what was there before are not) and as an unprivileged one (the refusal is ignored) - "
         "TreeModel carries an owner per node. The "
         "print command's stdout (banner + exactly the selected members' bytes) is compared with Cli.tla. Exhaustive bindings: every "
         "sequence of up to 3 (thorough: 4) prompt answers over {y, n, a, s, empty, unrecognised, upper case} on an archive whose files "
         "all exist already; every wildcard pattern of up to 3 (thorough: 5) characters over {*, ?, a, b} against members named by "
         "every string of up to 3 characters over {a, b, ?, *} (real matcher = Glob.tla's declarative Match). MacBinary.tla defines "
         "when an envelope is recognised and what is then handed out; single-member MacLHA archives that vary every field of the "
         "envelope (zero fields, name field and padding, fork lengths incl. sums wrapping modulo 2^32, stamps at +-14 h, Mac "
         "dates before 1970, resource-fork-only, 128-byte members, streams shorter than announced) are run through lha p / t / x and "
         "bytes, verdict and file size must be MacBinary!Outer's.",
    design_ref="DESIGN.md section 5, C06",
    note="Owner ids, link time stamps and stamp-0 entries are outside the statement. umask 022, TZ=UTC. The expectation comes from the "
         "generator (a declarative description of the tree) or from TreeModel.tla, the model tree from replaying the observed calls. "
         "A directory that already exists keeps its mode and time (extract_directory treats EEXIST as success): modelled as such, "
         "the statement's guarantee is read as being about directories the extraction creates. End of input at the overwrite prompt ends "
         "the tool (exit status 255); TreeModel says what is on disk then, and the exhaustive answer sequences include the ones that run out.",
    technique="trace validation of strace-observed extraction against the FsModel/Extract TLA+ specs plus comparison of the final tree "
              "with the model tree (generator's description / TreeModel.tla: wildcards, pre-existing files, prompt answers, three library "
              "policies), decided by TLC; print output against Cli.tla"),
 "C10": dict(
    category="model_checking",
    text="Extract.tla models `lha x` entry by entry over FsModel.tla (path resolution with '.', '..', relative/absolute symbolic links, "
         "errno classes, owner permission bits): parent creation, unlink+open(O_EXCL), placeholders and deferred links longest path "
         "first. TLC explores all archives of <= 4 (thorough 5) entries over 35 file/dir/link entries and checks after every call: "
         "nothing outside the extraction directory is touched before the deferred phase, the canary is intact, no dangerous link "
         "exists while entries are still written, deferred links are ordered - and it finds the recorded known finding (escape through "
         "a re-pointed safe link in the deferred phase) when the mask is removed. Binding: the real tool runs under strace as an "
         "unprivileged user on the known-finding archives, on archives generated by TLC from the same model (whose predicted "
         "escape/no-escape must match the tool), on random hostile archives (.., absolute, backslash/0xFF/NUL names, link/file/dir "
         "name reuse, options f/i/q/w=, pre-existing files and links), on a family of link targets that mention '..' in every position "
         "(after a directory or after a link to '.', followed by a file below the link) and with read-only commands; every system call is replayed "
         "on FsModel: its outcome must equal the kernel's, and Confined / NoEarlyDanger / O_EXCL-only / ReadOnly are evaluated "
         "after each call. Every raw path extended header of up to 3 (thorough: 4) tokens over {.., ., a, NUL, 0xFF, /, \\} is "
         "extracted as a directory entry with recorded permissions and time and as a file entry; entries whose stored name is empty or made "
         "of separators and dots (the output path is the extraction directory itself) as link, directory and file, with and without w=.",
    design_ref="DESIGN.md section 5, C10",
    note="Precondition of the statement: no symbolic links to directories in the initial tree. One known finding is recorded "
         "(known_findings.json) and reported as KNOWN-FINDING; any other escape is a violation.",
    technique="TLC model checking of the extraction design over a symbolic-link file-system model; trace validation of strace-observed "
              "system calls against that model with confinement invariants after every call; replay of TLC-generated archives"),
 "C18": dict(
    category="model_checking",
    text="The configuration space is enumerated completely: field in {name, path component, link target, method of the first member, "
         "method of a later member, user, group} x byte class (13 representatives of 0x01-0x1F incl. ESC/BEL/CR/LF/TAB, 0x7F, 0x80-0xFF; "
         "thorough: all 255 values) x first/later member x mode in {l, lv, v, vv, t, x, xn, xq0, xq1, xq2, p, a second extraction over "
         "the first one's result with each answer to the overwrite prompt (n, s, a, y, unrecognised), a dry run over it, option i}. Every byte the tool "
         "writes to stdout and stderr is logged and TLC evaluates the invariant (printable ASCII, LF, CR, TAB) on each; for the "
         "list modes stdout must in addition equal ListOutput.tla's rendering ('?' exactly where the hostile byte was). Random "
         "hostile archives (names of any length, hostile wildcard arguments) go through the list commands as well. "
         "Cli.tla defines all of stdout of t / x / e / p and the dry runs (progress bar, verdict lines, symlink lines, banners, EXTRACT / "
         "VERIFY lines, option parsing incl. q0..q2, i, v, n, w=, wildcards): archives whose every path component and link target is "
         "decorated with escape, bell, CSI, DEL, CR, LF, TAB and high bytes are run in every mode and stdout must equal Cli!Output. Failure "
         "paths that name a path: a file in the way of a directory, components too long for the file system, symbolic links that cannot "
         "be created (name too long, empty target, a directory of that name extracted just before), a directory after a file of its name; "
         "hostile bytes at the far end of paths, names and targets of 260 .. 4100 bytes.",
    design_ref="DESIGN.md section 5, C18",
    note="File data printed by `p` is kept ASCII so that all output can be checked. Found and fixed: raw method column "
         "(known_findings.json).",
    technique="complete enumeration of the (field, byte class, position, mode) configurations; invariant evaluated by TLC on the logged "
              "output bytes; list output validated against the ListOutput TLA+ spec"),
 "C19": dict(
    category="model_checking",
    text="ListOutput.tla defines the bytes `lha l|lv|v|vv` print: column sets, permission strings (Unix, OS-9, OS name), uid/gid, "
         "sizes as decimal renderings of 32-bit word pairs, ******/ratio, method+CRC, short and full time stamps by civil-from-days "
         "arithmetic with the six-month rule, [level], sanitised names and link targets, separators only between columns with a width, "
         "headings, footer with count, sums mod 2^32 and archive mtime; selection by Glob.tla (TLC checks the C matcher's "
         "transcription equal to the declarative matcher on all pattern/string pairs up to length 5). For generated archives "
         "(all levels, sizes 0..2^32-1 incl. packed > original and original = 0, all OS types, full-range permission words, "
         "uid/gid, stamps around now-15552000, 0, 2^31, 2^32-1, names up to 255 bytes, symlinks, directories) and corpus "
         "archives, for each of l/lv/v/vv with quiet levels, wildcard lists and several `now`/mtime values, stdout must equal "
         "the rendering byte for byte. Row selection is bound exhaustively: every wildcard pattern of up to 3 (thorough: 4) characters "
         "over {*, ?, a, b}, samples of longer ones and of two-pattern lists, against members named by every string of up to 3 characters "
         "over {a, b, ?, *}, through lq2 / l / vq2 (Cli!MainOutput). For generated archives the record behind every row must be Header!Parse of "
         "the member's bytes (Trace_List!RecordIsParse), so rows are checked against the archive and not against what the library says it "
         "contains; packed / original pairs include ratios on the edge of the printed precision (exact ties, pairs sensitive to the order of "
         "the single-precision operations); link entries under the OS types whose all-capitals names are folded to lower case, with name, path "
         "and target case patterns (the fold is decided by the name and never touches the target).",
    design_ref="DESIGN.md section 5, C19",
    note="TZ=UTC; `now` via TEST_NOW_TIME. The ratio digits come from a float32 emulation in the harness (not TLA+). Header records "
         "are those the library returns.",
    technique="TLA+ executable rendering (ListOutput, Glob) compared byte for byte with the tool's stdout by TLC trace validation; "
              "TLC model checking of the wildcard matcher"),
 "C05": dict(
    category="model_checking",
    text="Header.tla defines Parse(bytes) for levels 0-3 from the format (field offsets, extended-header chains with last-one-wins, "
         "level-1 packed-size subtraction on 32-bit word pairs, level-0 Unix/OS-9 areas, separators, case folding by OS type, "
         "symlink splitting, OS-9 permission mapping, Amiga/LHARK fix-ups, MS-DOS time -> Unix time with mktime's normalisation "
         "under UTC, Windows times as words, common CRC). The definition is grounded on all 233 member headers of the third-party "
         "corpus. Every case - corpus headers, 12000 (thorough: 150000) random well-formed headers with fields at their range ends "
         "and random extended-header mixes, every order of up to 3 (4) of the 11 extended-header types, symlinks with '|' on both "
         "sides, two stored strings per header (in-header name with a directory part next to path / file name headers, both orders), "
         "the identity cross product (OS type x method x length x name header x path header x kind of permissions x level), names a "
         "decoder might treat specially, FILETIME values at the conversion boundaries - is run through lha_reader_next_file and TLC "
         "compares every returned field (and the first member bytes) with Parse.",
    design_ref="DESIGN.md section 5, C05",
    note="TZ=UTC and the C locale are assumed. The TLA+ definition is the oracle; it was written independently of the C control flow "
         "and agrees with the C code on the whole corpus.",
    technique="TLA+ executable definition of the header formats (Header.tla); trace validation of every returned header field by TLC"),
 "C11": dict(
    category="model_checking",
    text="TLC checks on all strings over {'.','/','a'} up to length 8 (thorough 10) that the in-place state machine of collapse_path "
         "(transcribed) equals the declarative normal form, that the result is clean, not longer, and idempotent. On the "
         "implementation, all strings over {'.','/','\\',0xFF,NUL,'a'} up to length 5 (thorough 7) are put through thirteen carriers "
         "(level-0/1 in-header names, file-name and path extended headers, directory entries with and without a file name header, level 3, "
         "symlinks in both spellings) "
         "for case-folding and non-folding OS types, plus random longer strings, plus all pairs of strings of up to 2 (thorough 3) "
         "characters over {'.','/','\\','a'} in seven two-string carriers (in-header name next to a path and / or file name header, "
         "both orders, doubled path headers); TLC evaluates Clean(path, filename) on every returned header.",
    design_ref="DESIGN.md section 5, C11",
    note="The cleanliness predicate is evaluated on the logged values of the real library; the model only adds the equivalence "
         "argument for collapse_path.",
    technique="TLC model checking of the collapse_path state machine against the declarative normal form; exhaustive small-string "
              "conformance with the invariant evaluated by TLC on returned headers"),
 "C12": dict(
    category="model_checking",
    text="For 16 (thorough 120) well-formed base headers covering all levels and chain shapes: all 255 substitutions at every byte "
         "position of the header, every truncation point, and perturbations of every length field (level 3: the 32-bit size fields at 2^32 - k, "
         "where 32-bit sums wrap back into the header, at the sign bit and around the 1 MiB cap); plus sparse mutations of "
         "hundreds of random headers. For each mutated input TLC evaluates the integrity rule (Header.tla's Parse, incl. byte "
         "checksum and CRC-16 computed in TLA+) on the logged bytes and requires: rule fails => no header returned and the next "
         "request returns none either. Level-0 extended areas of every length 0..26 (Unix, OS-9/68K, OS-9, unknown). The identity cross product (OS type x method x length x name header x path header x kind of "
         "permissions x level) covers the rules about entries without a name or a path, the Amiga directory quirk included.",
    design_ref="DESIGN.md section 5, C12",
    note="A dummy member precedes each case so that the lead-in scan (which would skip a damaged signature) is not in play.",
    technique="TLA+ executable integrity rule (Header.tla) evaluated by TLC on exhaustive single-byte substitutions / truncations, "
              "trace validation of accept/reject"),
 "C07": dict(
    category="model_checking",
    text="TLC proves the burst lemma on the CRC-16 definition: every burst of 1..16 bits at each of the 8 bit alignments leaves a "
         "non-zero remainder (all 2^15 odd patterns x 8 offsets), XOR-linearity in the data, and that feeding zero bytes never "
         "maps a non-zero register to zero (all 65536 states) - so a burst in a stored member can never be masked, whatever the "
         "member's length. On the implementation: all bursts of width <= 16 at every bit offset of stored members of 1..4 "
         "(thorough: up to 24) bytes are applied and lha_reader_check must say bad (about 10^6 cases, exhaustive). For generated "
         "archives in every method (intact; recorded CRC/length perturbed; data bit flips; truncation; declared length 0 and "
         "2^32-1; unsupported method; multi-member mixes; stored members with more bytes than they declare) three passes through the real reader are recorded - read (all bytes "
         "logged), check, extract - plus `lha t` and `lha x`; the trace spec computes length and CRC-16 of the produced bytes "
         "with its own Crc16 and requires every verdict (library return values, Tested/Melted lines, exit status) to be "
         "exactly supported /\\ length = recorded /\\ CRC = recorded. The complete stdout of `lha t | x | e` (progress bar "
         "with its scale factor, Tested / CRC error / Melted / Failure lines) and the exit status are compared byte for byte with "
         "Cli.tla (Trace_Cli) on generated archives and crafted progress-bar cases (57/58/59/116/117 blocks, declared length far beyond "
         "the data, every corpus method), and on extractions whose output file cannot be created (a directory already at the member's path: "
         "nothing may be reported as melted).",
    design_ref="DESIGN.md section 5, C07",
    note="The recorded length/CRC are taken as the library returns them in the header (C05 covers parsing). MacBinary members "
         "are excluded (the envelope is stripped before the caller sees the bytes).",
    technique="TLC model checking of the CRC burst lemma (Crc16 spec); exhaustive burst injection on the implementation; trace "
              "validation of read/check/extract/CLI verdicts against the spec's own CRC-16 of the logged bytes"),
 "C13": dict(
    category="model_checking",
    text="TLC checks liveness of the loops that could fail to return: the read-loop variant of lha_input_stream_skip (one action "
         "per iteration, source full / short / at end of input: every skip terminates - and the unrepaired loop violates this, a "
         "vacuity guard), the lead-in scan (terminates for every prefix and chunking), and lha_decoder_read's refill loop. The "
         "implementation is then run on truncations of corpus and generated archives at sampled (thorough: every) offsets, "
         "structurally generated archives with extreme length fields (level-3 header length up to 2^32-1 and around the 1 MiB cap, "
         "level-3 extended sizes, level-1 chains of 3000 extended headers, chains promising absent data, 4 GiB member sizes, "
         "decoders that never run dry with 4 GiB declared, archives of a dozen members that each need a large-state decoder - plain and behind "
         "the MacBinary pass-through, -pm1- members that really are endless with declared lengths 0..20000, declared lengths 0 and 1 in "
         "front of real streams of every method) and mutated archives, through all five stream kinds, under a "
         "deterministic step budget; every call's result is validated against Reader.tla and the trace spec evaluates on every "
         "call: callback calls <= 2*len+64*ops+256, bytes requested <= 3*len+out+(1MiB+8K)*ops+64K, peak heap <= 8 MiB+2*len. Sources that "
         "fail for good after k callbacks (read: -1, skip: 0) must still let every call return. Archives of 10^5 tiny members are walked to the "
         "end with the heap under the same bound (nothing may be kept per member passed). Sources that break at a byte offset (the read crossing "
         "it comes back short, everything after fails) and sources that hand over 1, 5 or 24 bytes at a time must let every call return. The tool: the overwrite prompt with "
         "every sequence of up to two answers and with input that stops at or inside an answer, run under CPU and output limits "
         "(TreeModel!Ask: end of input at the prompt ends the tool).",
    design_ref="DESIGN.md section 5, C13",
    note="Work is measured in source callback calls/bytes for callback streams; FILE/pipe streams are covered by termination only. "
         "Found and fixed: endless loop in lha_input_stream_skip (known_findings.json).",
    technique="TLC liveness checking of the loop models (InputStream, DecoderApi); trace validation of work/heap counters and results "
              "against the Reader TLA+ spec on truncated / extreme inputs"),
 "C16": dict(
    category="model_checking",
    text="InputStream.tla defines the lead-in scan at the real constants (24-byte buffer, 12-byte look-ahead, 256 KiB limit, "
         "both self-extractor markers, decoy skipping, -pms- exclusion), lead-in replay and the four skip variants. TLC checks "
         "that for all prefix lengths 0..80 and all stub+marker+stub+decoy+stub forms (thorough: also arbitrary short reads) the "
         "stream ends positioned on the first byte of the real header. Binding: (1) lha_input_stream_read/_skip are driven "
         "directly over prefixes of every length 0..64, k*24+-1 up to 1 KiB, near 255/256 KiB, decoy forms and the corpus' real "
         "self-extractors, through callbacks (every request size and order must be the model's), seekable FILE and pipe; "
         "(2) Reader level: for corpus, generated and truncated archives, with and without clean or decoy prefixes, the calls made "
         "through path/FILE/pipe/callback/callback-without-skip streams must all yield the members of the reference run and "
         "be accepted by Reader.tla; (3) the tool: Cli!Main (src/main.c: argument shapes, the name '-' = standard input, open failure, "
         "usage page) decides every whole invocation - list, test, print, dry-run and extract commands on archives named by path, "
         "by '-' with the file itself on standard input, by '-' with a pipe and with a pipe fed 7 bytes at a time, with and without stubs in front: standard output "
         "must equal Cli!MainOutput byte for byte for the members of the seekable-file reading. Callback streams come in flavours: with a skip "
         "callback, without, with one that refuses to pass the end and stays where it was, and ones that fail for good after k calls; first headers "
         "damaged in the fields the scan does not look at; an archive stored inside an archive, cut every few bytes.",
    design_ref="DESIGN.md section 5, C16",
    note="Caller callbacks are assumed to fill the buffer unless at end of input. Reader-level ground truth is relative (reference run "
         "over a seekable file); the scan itself is validated absolutely against the spec on the raw bytes.",
    technique="TLA+ spec (InputStream) model-checked with TLC at the real constants; trace validation of lha_input_stream_* request "
              "sequences, of Reader-level executions across stream kinds and prefixes, and of whole tool invocations (Cli!Main) over path / "
              "redirected / piped standard input"),
 "C15": dict(
    category="model_checking",
    text="Reader.tla models lha_reader_* over lha_basic_reader_* (one action per public call; directory stack, deferred "
         "symlinks, decoder, basic reader position/remaining/eof, ghost reference counts). TLC checks for all archives of "
         "<= 3 (thorough: 4) members over 12 entry shapes, all three directory policies and all call sequences obeying the "
         "caller discipline: normal headers come in archive order at member boundaries whatever was read, skipped or checked; "
         "extracted directories are re-presented exactly where the policy says (never under PLAIN); deferred symlinks come "
         "last, longest first; end of archive is sticky. The implementation is bound by trace validation: generated "
         "multi-member archives (all header levels, stored and real compressed members of 10 methods, directories, safe and "
         "dangerous symlinks, bad CRC/length, unsupported methods, directory entries that record no metadata at all) are driven with random disciplined call sequences over "
         "five stream kinds; each call's result, returned bytes and projected internal state (LHASA_VERIF accessors) must "
         "equal the model's. Two readers over two archives run interleaved call by call, nested (reader B advanced from inside "
         "reader A's progress callback, i.e. in the middle of A's decoding loop; what A's extraction wrote must be A's member), on "
         "two threads, and on two threads under ThreadSanitizer (a data race is an event no action of the model matches); each "
         "reader's trace is validated on its own. Deterministic families: dangerous links of different and equal path lengths in every order "
         "of arrival, directories and deferred links pending at once when the input ends, the directory policy switched in the middle "
         "of the archive (and the archive abandoned right there), directory entries that record no metadata, nested directory walks (an inner "
         "directory left and the outer one re-entered at a longer, shorter, similar or deeper path, with every choice of which directories are "
         "extracted, under each policy). The projection's directory policy, inner-decoder flag and the stream kind the driver reports are compared too.",
    design_ref="DESIGN.md section 5, C15",
    note="Trusted: TLC/SANY/CommunityModules, clang+ASan, the generator's ground truth (archive layout and member contents). "
         "Concurrency (two readers on two threads) is observed (per-reader traces, ThreadSanitizer as event source), not explored.",
    technique="TLA+ spec (Reader) model-checked with TLC; trace validation of lha_reader_* executions with state projections, incl. "
              "two readers interleaved / nested / on two threads"),
 "C20": dict(
    category="fault_enumeration",
    text="For each generated history (archive incl. nested directories and dangerous symlinks, policy, disciplined call "
         "sequence cut at a prefix so that the archive is abandoned at arbitrary points, stream kind) and for header-shape "
         "archives (every sequence of up to two - thorough: three - extended header types, repeats included, in level 1-3 "
         "headers, also with a path already stored when the path header arrives; special contents of the string-valued headers: '.', "
         "'..', empty, separators, 300 bytes) the fault-free run's "
         "allocations are counted by link-time interposition, then the run is repeated once per k with the k-th allocation "
         "failing (all k). Every execution's trace (calls, results, state projections, Alloc/Dealloc/Fopen/Fclose events) is "
         "validated against Reader.tla: the failing call must return a failure value/end of archive, later calls must behave as "
         "the model does from that state, every free must release a live block, header reference counts must equal the "
         "model's owners, and nothing may be live after lha_reader_free + lha_input_stream_free. TLC additionally checks the "
         "ownership invariants in the bounded model with Free enabled in every state and one injected failure anywhere, and "
         "that the unrepaired release logic (FIXED = FALSE) violates them (vacuity guard). Histories also contain extractions that fail for "
         "reasons of the file system (the placeholder of a dangerous link below a directory never extracted) and switches of the directory "
         "policy while directories are pending.",
    design_ref="DESIGN.md section 5, C20",
    note="Trusted: the interposition shim (libc-internal allocations are not seen), TLC, clang+ASan. Found and fixed: three "
         "defects (known_findings.json).",
    technique="fault enumeration over all allocation points x call histories, decided by TLC trace validation against the "
              "Reader TLA+ spec with ghost ownership; bounded model checking of the ownership invariants"),
 "C14": dict(
    category="model_checking",
    text="DecoderApi.tla models lha_decoder_read line by line (clamp, copy/refill loop, failure latch, CRC, position, "
         "progress callbacks) in two grains; TLC checks exhaustively over all inner chunk scripts (total <= 6, including an "
         "inner decoder that returns 0 early), declared lengths 0..7 and read schedules with the monitor attached anywhere, "
         "that what is handed out is always a prefix of the source cut at the declared length, reached by any sufficient "
         "request, that length/CRC/callback sequence are faithful, that the inner decoder is never called after returning 0, "
         "that the fine and atomic grains agree, and (liveness) that every read terminates. The real lha_decoder_* is bound by "
         "trace validation: a synthetic decoder type plays the model's scripts, and all 14 real methods run behind a "
         "wrapper type on valid, bit-flipped and random streams with six declared lengths and many read schedules; every "
         "call's result, bytes, inner-call count, callbacks, CRC and length must be the model's, and every schedule must "
         "reproduce the bytes of the single maximal read. The monitor is also attached from inside a progress callback (the two handlers "
         "together must see the one rising sequence).",
    design_ref="DESIGN.md section 5, C14",
    note="Trusted: TLC/SANY/CommunityModules, clang+ASan, the wrapper type's view of the inner read(). Request sizes near "
         "SIZE_MAX are outside the statement.",
    technique="TLA+ spec (DecoderApi) model-checked with TLC incl. liveness; trace validation of lha_decoder_* executions "
              "(synthetic and real decoder types) against the spec's atomic read action"),
 "C17": dict(
    category="model_checking",
    text="TLC checks, for all 2^24 (state, byte) pairs, that the byte-table form equals the bitwise CRC-16/ARC "
         "definition (quick: all states x basis bytes, basis states x all bytes, plus GF(2)-linearity), and that "
         "piecewise feeding equals whole feeding; the C routine is then compared exhaustively (2^24 one-byte, "
         "2^32 two-byte cases in the thorough tier) with the table TLC exported, TLC-generated feeding behaviours "
         "are replayed into it, and recorded executions with random splits are validated by a trace spec. Structured buffers - 32-bit "
         "fields with boundary values in both byte orders behind 0..9 zero bytes, from register 0 / all ones, every alignment and "
         "every split - are compared with the exported table as well (180 096 cases).",
    design_ref="DESIGN.md section 5, C17",
    note="Trusted: TLC/SANY, CommunityModules Bitwise/Json/IOUtils, clang. The table used as reference is derived in "
         "TLA+ from the bitwise definition; the C source's table is never read.",
    technique="TLA+ spec (Crc16) model-checked with TLC; exhaustive conformance of lha_crc16_buf against the TLC-exported "
              "table; replay of TLC behaviours; trace validation"),
}

NOT_YET = "not claimed"

def main():
    checks = []
    for pid in ALL:
        if pid not in CHECKS:
            continue
        c = CHECKS[pid]
        checks.append({
            "property_id": pid,
            "quick_cmd": "python3 checks/run.py %s quick" % pid,
            "thorough_cmd": "python3 checks/run.py %s thorough" % pid,
            "evidence_file": "/verif/evidence/%s.json" % pid,
            "replay_cmd_template": "python3 checks/run.py %s --replay {path}" % pid,
            "engine": "tlc+harness",
            "level_claimed": {"category": c["category"], "text": c["text"], "design_ref": c["design_ref"]},
            "level_note": c["note"],
            "technique": c["technique"],
        })
    m = {
        "version": 1,
        "setup_cmd": "python3 tools/setup.py",
        "hooks": {
            "guard": "LHASA_VERIF",
            "enable": "checks compile /repo/lib/*.c and /repo/src/*.c from the working tree with clang -DLHASA_VERIF "
                      "(-DTEST_BUILD, ASan+bounds) into /verif/build/obj/<variant>-<content hash>; see harness/py/vcommon.py",
            "baseline_off_cmd": "sh tools/baseline_off.sh",
            "source_commits": json.load(open(os.path.join(ROOT, "tools", "hook_commits.json"))),
            "add_only": True,
        },
        "engines": [
            {"name": "tlc+harness", "path": "/verif/checks/run.py",
             "serves_properties": sorted(CHECKS),
             "kind_free_text": "TLA+ specifications under /verif/spec checked with TLC (bounded models, generators, "
                               "trace specs) and bound to the C code by drivers under /verif/harness"}],
        "checks": checks,
        "not_applicable": [{"property_id": p, "reason": NOT_YET} for p in ALL if p not in CHECKS],
        "notes": "See DESIGN.md. Exit codes: 0 held, 1 VIOLATION, 2 harness/model failure (no verdict).",
    }
    with open(os.path.join(ROOT, "MANIFEST.json"), "w") as f:
        json.dump(m, f, indent=1)
        f.write("\n")

if __name__ == "__main__":
    main()
