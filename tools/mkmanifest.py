#!/usr/bin/env python3
"""Regenerates MANIFEST.json from the table below (single source of truth for the interface)."""
import json, os
ROOT = os.path.dirname(os.path.dirname(os.path.abspath(__file__)))
ALL = ["C%02d" % i for i in range(1, 21)]

CHECKS = {
 "C14": dict(
    category="model_checking",
    text="DecoderApi.tla models lha_decoder_read line by line (clamp, copy/refill loop, failure latch, CRC, position, "
         "progress callbacks) in two grains; TLC checks exhaustively over all inner chunk scripts (total <= 6, including an "
         "inner decoder that returns 0 early), declared lengths 0..7 and read schedules with the monitor attached anywhere, "
         "that what is handed out is always a prefix of the source cut at the declared length, reached by any sufficient "
         "request, that length/CRC/callback sequence are faithful, that the inner decoder is never called after returning 0, "
         "that the fine and atomic grains agree, and (liveness) that every read terminates. The real lha_decoder_* is bound by "
         "trace validation: a synthetic decoder type plays the model's scripts, and all 14 real methods run behind a "
         "wrapper type on valid, bit-flipped and random streams with six declared lengths and many read schedules; every "
         "call's result, bytes, inner-call count, callbacks, CRC and length must be the model's, and every schedule must "
         "reproduce the bytes of the single maximal read.",
    design_ref="DESIGN.md section 5, C14",
    note="Trusted: TLC/SANY/CommunityModules, clang+ASan, the wrapper type's view of the inner read(). Request sizes near "
         "SIZE_MAX are outside the statement.",
    technique="TLA+ spec (DecoderApi) model-checked with TLC incl. liveness; trace validation of lha_decoder_* executions "
              "(synthetic and real decoder types) against the spec's atomic read action"),
 "C17": dict(
    category="model_checking",
    text="TLC checks, for all 2^24 (state, byte) pairs, that the byte-table form equals the bitwise CRC-16/ARC "
         "definition (quick: all states x basis bytes, basis states x all bytes, plus GF(2)-linearity), and that "
         "piecewise feeding equals whole feeding; the C routine is then compared exhaustively (2^24 one-byte, "
         "2^32 two-byte cases in the thorough tier) with the table TLC exported, TLC-generated feeding behaviours "
         "are replayed into it, and recorded executions with random splits are validated by a trace spec.",
    design_ref="DESIGN.md section 5, C17",
    note="Trusted: TLC/SANY, CommunityModules Bitwise/Json/IOUtils, clang. The table used as reference is derived in "
         "TLA+ from the bitwise definition; the C source's table is never read.",
    technique="TLA+ spec (Crc16) model-checked with TLC; exhaustive conformance of lha_crc16_buf against the TLC-exported "
              "table; replay of TLC behaviours; trace validation"),
}

NOT_YET = "machinery for this property is not built yet in this round (planned: DESIGN.md section 5)"

def main():
    checks = []
    for pid in ALL:
        if pid not in CHECKS:
            continue
        c = CHECKS[pid]
        checks.append({
            "property_id": pid,
            "quick_cmd": "python3 checks/run.py %s quick" % pid,
            "thorough_cmd": "python3 checks/run.py %s thorough" % pid,
            "evidence_file": "/verif/evidence/%s.json" % pid,
            "replay_cmd_template": "python3 checks/run.py %s --replay {path}" % pid,
            "engine": "tlc+harness",
            "level_claimed": {"category": c["category"], "text": c["text"], "design_ref": c["design_ref"]},
            "level_note": c["note"],
            "technique": c["technique"],
        })
    m = {
        "version": 1,
        "setup_cmd": "python3 tools/setup.py",
        "hooks": {
            "guard": "LHASA_VERIF",
            "enable": "checks compile /repo/lib/*.c and /repo/src/*.c from the working tree with clang -DLHASA_VERIF "
                      "(-DTEST_BUILD, ASan+bounds) into /verif/build/obj/<variant>-<content hash>; see harness/py/vcommon.py",
            "baseline_off_cmd": "sh tools/baseline_off.sh",
            "source_commits": json.load(open(os.path.join(ROOT, "tools", "hook_commits.json"))),
            "add_only": True,
        },
        "engines": [
            {"name": "tlc+harness", "path": "/verif/checks/run.py",
             "serves_properties": sorted(CHECKS),
             "kind_free_text": "TLA+ specifications under /verif/spec checked with TLC (bounded models, generators, "
                               "trace specs) and bound to the C code by drivers under /verif/harness"}],
        "checks": checks,
        "not_applicable": [{"property_id": p, "reason": NOT_YET} for p in ALL if p not in CHECKS],
        "notes": "See DESIGN.md. Exit codes: 0 held, 1 VIOLATION, 2 harness/model failure (no verdict).",
    }
    with open(os.path.join(ROOT, "MANIFEST.json"), "w") as f:
        json.dump(m, f, indent=1)
        f.write("\n")

if __name__ == "__main__":
    main()
