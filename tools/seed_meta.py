#!/usr/bin/env python3
"""usage: seed_meta.py <seed id> <property> <first encounter text> <detected-by text>
Completes /verif/seeded/<id>/meta.json (written by the seeding agent) with what was verified here."""
import json, os, subprocess, sys
sid, prop, first, det = sys.argv[1:5]
d = os.path.join("/verif/seeded", sid)
p = os.path.join(d, "meta.json")
m = json.load(open(p))
m["property"] = prop
m["seed_id"] = sid
m["verified_on_commit"] = subprocess.run(["git", "-C", "/repo", "rev-parse", "--short", "HEAD"], capture_output=True, text=True).stdout.strip()
m["first_encounter"] = first
m["detected_by"] = det
m["verification"] = open(os.path.join(d, "verification.txt")).read().strip()
checks = " ".join(l.split()[1] for l in open(os.path.join(d, "checks_run.txt")) if l.startswith("check "))
m["what_i_ran"] = ("tools/seed_verify.sh %s %s: fresh worktree of /repo HEAD under /tmp, run_demo.sh on the pristine build and on the patched build, "
                   "make check with the patch, then VERIF_REPO=<worktree> python3 checks/run.py <check> quick for each listed check "
                   "(VIOLATION lines in checks_run.txt)" % (sid, checks))
json.dump(m, open(p, "w"), indent=1)
print(sid, m["verification"])
