#!/usr/bin/env python3
"""Development aid (not a registered check): re-runs, for every recorded seeded change, the quick check of its property against a scratch
copy of /repo with the change applied, and prints which changes the current checks no longer notice.

usage: tools/seed_regress.py [--jobs K] [ids...]
Scratch copies live under /tmp/sreg_<pid>_<id> and are removed after each run."""
import json, os, shutil, subprocess, sys, concurrent.futures as cf

ROOT = os.path.dirname(os.path.dirname(os.path.abspath(__file__)))


def run_one(sid):
    sd = os.path.join(ROOT, "seeded", sid)
    if os.path.exists(os.path.join(sd, "NOT_APPLICABLE")) or not os.path.exists(os.path.join(sd, "patch.diff")):
        return sid, "skipped", ""
    meta = json.load(open(os.path.join(sd, "meta.json")))
    prop = meta.get("property", sid[:3])[:3]
    d = "/tmp/sreg_%d_%s" % (os.getpid(), sid)
    shutil.rmtree(d, ignore_errors=True)
    os.makedirs(d + "/test")
    subprocess.run(["rsync", "-a", "--exclude", "*.o", "--exclude", "*.lo", "--exclude", ".libs", "--exclude", "*.a", "/repo/lib", "/repo/src", "/repo/config.h", d + "/"], check=True)
    for t in ("archives", "compressed", "output"):
        os.symlink("/repo/test/" + t, d + "/test/" + t)
    p = subprocess.run(["patch", "-p1", "-s", "-d", d, "-i", os.path.join(sd, "patch.diff")], capture_output=True)
    if p.returncode != 0:
        shutil.rmtree(d, ignore_errors=True)
        return sid, "patch-failed", (p.stdout + p.stderr).decode(errors="replace")[-200:]
    checks = [prop] + [c for c in meta.get("detected_by_checks", []) if c != prop]
    res = "MISSED"
    note = ""
    for c in checks[:3]:
        q = subprocess.run([sys.executable, os.path.join(ROOT, "checks", "run.py"), c, "quick"], capture_output=True, env=dict(os.environ, VERIF_REPO=d), cwd=ROOT)
        out = q.stdout.decode(errors="replace")
        if "VIOLATION" in out:
            res = "caught" if c == prop else "caught-by-other"
            note = c
            break
        if q.returncode == 2:
            note += " %s:harness(%s)" % (c, out.strip().splitlines()[-1][:80] if out.strip() else "?")
    shutil.rmtree(d, ignore_errors=True)
    return sid, res, note


def main():
    args = sys.argv[1:]
    jobs = 3
    if "--jobs" in args:
        i = args.index("--jobs")
        jobs = int(args[i + 1])
        del args[i:i + 2]
    ids = args or sorted(os.listdir(os.path.join(ROOT, "seeded")))
    bad = []
    with cf.ThreadPoolExecutor(max_workers=jobs) as ex:
        for sid, res, note in ex.map(run_one, ids):
            print("%-8s %-16s %s" % (sid, res, note), flush=True)
            if res not in ("caught", "skipped"):
                bad.append(sid)
    print("summary: %d seeds, not caught by the property's own quick check: %s" % (len(ids), " ".join(bad) or "none"))


if __name__ == "__main__":
    main()
