#!/bin/sh
# runs every quick check, four at a time; prints one line per check
cd /verif
ls checks/c[0-9][0-9].py | sed 's/.*c\([0-9][0-9]\).py/C\1/' | xargs -P 2 -I{} sh -c 'python3 checks/run.py {} quick > build/quick_{}.log 2>&1; echo "{} exit=$? $(tail -1 build/quick_{}.log)"'
