#!/bin/sh
# usage: seed_verify.sh <id> <check ids...>
# Confirms a seeded change (from /tmp/seed_<id>) on a fresh worktree of /repo's HEAD: demo passes on the
# pristine tree, fails with the patch, the repository's suite passes with the patch; then runs the given
# checks against the patched tree and records everything under /verif/seeded/<id>/.
id=$1; shift
S=/tmp/seed_$id; W=/tmp/sv_$id; OUT=/verif/seeded/$id
rm -rf $W; git -C /repo worktree prune; git -C /repo worktree add -q $W HEAD || exit 2
mkdir -p $OUT
cd $W && ./autogen.sh >/dev/null 2>&1 && make -j4 >/dev/null 2>&1 || { echo "$id: pristine build failed"; exit 2; }
bash $S/run_demo.sh $W > $OUT/demo_pristine.out 2>&1; rc0=$?
git apply $S/patch.diff || { echo "$id: patch does not apply to HEAD"; echo "patch does not apply to $(git -C /repo rev-parse --short HEAD)" > $OUT/NOT_APPLICABLE; git -C /repo worktree remove --force $W; exit 3; }
make -j4 >/dev/null 2>&1 || { echo "$id: patched build failed"; exit 2; }
bash $S/run_demo.sh $W > $OUT/demo_patched.out 2>&1; rc1=$?
make check > $OUT/make_check_patched.log 2>&1
# some demonstrations use the test build of the tool (src/test-lha), which only exists after `make check`
if [ $rc1 -eq 0 ]; then bash $S/run_demo.sh $W > $OUT/demo_patched.out 2>&1; rc1=$?; fi
npass=$(grep -c '^PASS:' $OUT/make_check_patched.log); nfail=$(grep -c '^FAIL:\|^ERROR:' $OUT/make_check_patched.log)
cp $S/patch.diff $OUT/; for f in $S/*; do case "$f" in *.log|*.out) ;; *) [ -f "$f" ] && [ $(stat -c %s "$f") -lt 300000 ] && cp "$f" $OUT/ ;; esac; done
[ -d $S/inputs ] && mkdir -p $OUT/inputs && cp $S/inputs/* $OUT/inputs/ 2>/dev/null
det=""
for c in "$@"; do
  cd /verif && VERIF_REPO=$W python3 checks/run.py $c quick > /tmp/sv_${id}_$c.log 2>&1; r=$?
  if grep -q '^VIOLATION' /tmp/sv_${id}_$c.log; then det="$det $c"; fi
  echo "check $c exit=$r" >> $OUT/checks_run.txt
  grep '^VIOLATION\|detail:' /tmp/sv_${id}_$c.log | head -4 | cut -c1-400 >> $OUT/checks_run.txt
done
echo "$id: demo pristine rc=$rc0, patched rc=$rc1, suite PASS=$npass FAIL=$nfail, detected by:$det" | tee $OUT/verification.txt
git -C /repo worktree remove --force $W
