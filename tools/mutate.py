#!/usr/bin/env python3
"""Development aid (not a registered check): mechanical single-token mutants of /repo's sources, each run against the quick checks
that are responsible for the file; prints which mutants no check noticed.  Survivors are candidates for a generator gap (or are
equivalent / unreachable - to be judged by reading them).

usage: tools/mutate.py <file relative to /repo> <n mutants> [seed] [--jobs K]
Scratch copies live under /tmp/mutate_<pid>_<i> and are removed after each run."""
import os, random, re, shutil, subprocess, sys, json, concurrent.futures as cf

CHECKS = {
    "lib/lha_file_header.c": ["C05", "C12", "C11"], "lib/ext_header.c": ["C05", "C12", "C11"],
    "lib/lha_reader.c": ["C15", "C20", "C07"], "lib/lha_basic_reader.c": ["C15", "C16"],
    "lib/lha_decoder.c": ["C14", "C07"], "lib/lha_input_stream.c": ["C16", "C13"],
    "lib/macbinary.c": ["C06", "C07"], "lib/lha_arch_unix.c": ["C06", "C10"],
    "src/list.c": ["C19", "C18"], "src/extract.c": ["C06", "C10", "C07"], "src/filter.c": ["C19", "C06"],
    "src/safe.c": ["C18", "C19"], "src/main.c": ["C16", "C07"],
    "lib/crc16.c": ["C17"], "lib/lh_new_decoder.c": ["C01", "C09"], "lib/tree_decode.c": ["C01", "C09"], "lib/lh1_decoder.c": ["C02", "C09"],
    "lib/lzs_decoder.c": ["C03", "C09"], "lib/lz5_decoder.c": ["C03", "C09"], "lib/pm2_decoder.c": ["C04", "C09"], "lib/pm1_decoder.c": ["C04", "C09"],
    "lib/pma_common.c": ["C04", "C09"], "lib/bit_stream_reader.c": ["C01", "C03", "C09"], "lib/null_decoder.c": ["C03"],
}
OPS = [(r"<=", "<"), (r">=", ">"), (r"(?<![<>=!-])<(?![<=])", "<="), (r"(?<![<>=!-])>(?![>=])", ">="), (r"==", "!="), (r"!=", "=="),
       (r"&&", "||"), (r"\|\|", "&&"), (r"\+ 1\b", "+ 2"), (r"- 1\b", "- 2"), (r"\+ 1\b", ""), (r"- 1\b", ""), (r"\b0x[0-9a-fA-F]+\b", None), (r"(?<![\w.])\d+\b", None),
       (r"!(?=[a-zA-Z(])", ""), (r"\+\+", "--"), (r"\+=", "-="), (r"-=", "+=")]


def candidates(src):
    out = []
    incomment = False
    for ln, line in enumerate(src.splitlines()):
        st = line.strip()
        if incomment:
            if "*/" in st:
                incomment = False
            continue
        if st.startswith("/*"):
            incomment = "*/" not in st
            continue
        if not st or st.startswith("//") or st.startswith("#") or st.startswith("*"):
            continue
        code = line.split("//")[0]
        if '"' in code:
            code = code[:code.index('"')]           # leave string literals alone
        for oi, (pat, rep) in enumerate(OPS):
            for m in re.finditer(pat, code):
                out.append((ln, m.start(), m.end(), oi))
        if re.match(r"^\s+[\w>.\-\[\]\*\(\) ]+(=[^=].*|\(.*\));\s*$", code) and "return" not in code and "=" in code or re.match(r"^\s+(free|fclose|lha_\w+|close_decoder|--\w.*|\+\+\w.*)\(?.*;\s*$", code):
            out.append((ln, 0, len(line), -1))         # statement deletion
    return out


def mutate(src, cand, rng):
    lines = src.split("\n")
    ln, a, b, oi = cand
    line = lines[ln]
    if oi == -1:
        new = re.sub(r"\S.*", ";", line, count=1)
        desc = "delete statement"
    else:
        pat, rep = OPS[oi]
        tok = line[a:b]
        if rep is None:
            v = int(tok, 8) if re.fullmatch(r'0[0-7]+', tok) else int(tok, 0)
            nv = rng.choice([v + 1, max(0, v - 1), v * 2, v // 2]) if v > 1 else rng.choice([v + 1, 2])
            rep = ("0x%x" % nv) if tok.lower().startswith("0x") else ("0%o" % nv) if re.fullmatch(r'0[0-7]+', tok) else str(nv)
        new = line[:a] + rep + line[b:]
        desc = "%s -> %s" % (tok, rep or "(nothing)")
    if new == line:
        return None, None
    lines[ln] = new
    return "\n".join(lines), "line %d: %s | %s  =>  %s" % (ln + 1, desc, line.strip()[:90], new.strip()[:90])


def run_one(args):
    i, rel, text, desc, checks = args
    d = "/tmp/mutate_%d_%d" % (os.getpid(), i)
    shutil.rmtree(d, ignore_errors=True)
    os.makedirs(d + "/test")
    subprocess.run(["rsync", "-a", "--exclude", "*.o", "--exclude", "*.lo", "--exclude", ".libs", "--exclude", "*.a", "/repo/lib", "/repo/src", "/repo/config.h", d + "/"], check=True)
    for t in ("archives", "compressed", "output"):
        os.symlink("/repo/test/" + t, d + "/test/" + t)
    open(os.path.join(d, rel), "w").write(text)
    res = {}
    for c in checks:
        p = subprocess.run([sys.executable, "/verif/checks/run.py", c, "quick"], capture_output=True, env=dict(os.environ, VERIF_REPO=d), cwd="/verif")
        out = p.stdout.decode(errors="replace")
        if "VIOLATION" in out:
            res[c] = "caught"
            break
        elif p.returncode == 2:
            res[c] = "harness:" + (out.strip().splitlines()[-1][:100] if out.strip() else "?")
            if "failed to build" in out or "compile" in out.lower():
                res[c] = "nocompile"
                break
        else:
            res[c] = "ok"
    shutil.rmtree(d, ignore_errors=True)
    return i, desc, res


def main():
    rel, n = sys.argv[1], int(sys.argv[2])
    seed = int(sys.argv[3]) if len(sys.argv) > 3 and not sys.argv[3].startswith("-") else 1
    jobs = int(sys.argv[sys.argv.index("--jobs") + 1]) if "--jobs" in sys.argv else 2
    rng = random.Random(seed)
    src = open(os.path.join("/repo", rel)).read()
    cands = candidates(src)
    rng.shuffle(cands)
    todo = []
    seen = set()
    for c in cands:
        text, desc = mutate(src, c, rng)
        if text is None or desc in seen:
            continue
        seen.add(desc)
        todo.append((len(todo), rel, text, desc, CHECKS[rel]))
        if len(todo) >= n:
            break
    print("%s: %d candidates, running %d mutants against %s" % (rel, len(cands), len(todo), CHECKS[rel]), flush=True)
    surv = []
    with cf.ThreadPoolExecutor(max_workers=jobs) as ex:
        for i, desc, res in ex.map(run_one, todo):
            status = "CAUGHT" if "caught" in res.values() else "nocompile" if "nocompile" in res.values() else "SURVIVED"
            print("%-9s %s  %s" % (status, desc, json.dumps(res)), flush=True)
            if status == "SURVIVED":
                surv.append(desc)
    print("summary: %d mutants, %d survived" % (len(todo), len(surv)))


if __name__ == "__main__":
    main()
