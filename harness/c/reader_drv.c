/* Driver for LHAReader (Reader.tla / Trace_Reader.tla).
 *
 * Job file, one execution per line (whitespace separated, no spaces inside fields):
 *   exec <gtfile|-> <archive> <stream> <policy> <xdir|-> <failk> <flags> <ops>
 *     stream : path | FILE | pipe | drip | cb | cbk | cbns      (how the input stream is built)
 *     policy : plain | eod | eof | default          (default: do not call set_dir_policy)
 *     xdir   : directory to chdir into for extraction ("-": stay)
 *     failk  : fail the k-th allocation made inside library calls (0: none)
 *     flags  : letters: a = log allocation events, b = log bytes of reads, h = log header fields,
 *              s = extract to safe explicit names instead of NULL, w = count source work,
 *              m = report live/peak heap bytes of the library (without logging every allocation)
 *     flags  : ... o = log the bytes of the file an extract operation wrote
 *     ops    : comma separated: N next, R<k> read, C check, X extract, P<policy> set policy,
 *              Q free reader+stream now (further ops are ignored), A<n> = repeat "N,R<n>*" to end
 * The content of <gtfile> (one JSON object, the ground truth for this execution) is copied to the
 * trace as the Reset line (with "e":"Reset" inside it).
 * Every library call is followed by one event line carrying the result and the state projection. */
#define _GNU_SOURCE
#include <stdio.h>
#include <stdlib.h>
#include <string.h>
#include <stdint.h>
#include <unistd.h>
#include <sys/stat.h>
#include "lib/public/lhasa.h"
#include "lib/lhasa_verif.h"
#include "lib/lha_file_header.h"
#include "alloc_shim.h"

static int f_alloc, f_bytes, f_hdr, f_safe, f_work, f_mem, f_out, f_long;

/* ---------- identity of a header: hex of path + filename (all headers passed here are live) ---------- */
static char idbuf[8][2100]; static int idrot;
static const char *idof(LHAFileHeader *h)
{
	char *s = idbuf[idrot++ % 8], *q = s;
	size_t lp = h->path ? strlen(h->path) : 0, lf = h->filename ? strlen(h->filename) : 0;
	for (size_t i = 0; i < lp && q - s < 2000; i++) q += sprintf(q, "%02x", (unsigned char) h->path[i]);
	for (size_t i = 0; i < lf && q - s < 2000; i++) q += sprintf(q, "%02x", (unsigned char) h->filename[i]);
	if (q == s) *q++ = '-';
	*q = 0;
	return s;
}
static void remember(LHAFileHeader *h) { (void) h; }

/* ---------- callback stream ---------- */
static uint8_t *adata; static size_t alen, apos;
static unsigned long src_calls, src_bytes, src_budget;
static long brk_at = -1; static size_t max_chunk;
static long err_after;          /* > 0: from the (err_after + 1)-th callback on, reading fails (-1) and skipping fails (0), for good */
static void budget(void)
{
	if (src_budget && src_calls > src_budget) {
		printf("{\"e\":\"Budget\",\"calls\":%lu,\"bytes\":%lu}\n", src_calls, src_bytes);
		fflush(stdout);
		_exit(0);
	}
}
static int cb_read(void *h, void *buf, size_t n)
{
	size_t k = alen - apos < n ? alen - apos : n;
	(void) h;
	src_calls++; src_bytes += n; budget();
	if (err_after > 0 && (long) src_calls > err_after) return -1;
	if (brk_at >= 0) {
		if ((long) apos >= brk_at) return -1;
		if ((long) (apos + k) > brk_at) k = (size_t) brk_at - apos;
	}
	if (max_chunk && k > max_chunk) k = max_chunk;
	memcpy(buf, adata + apos, k); apos += k;
	return (int) k;
}
static int cb_skip(void *h, size_t n)
{
	(void) h;
	src_calls++; budget();
	if (err_after > 0 && (long) src_calls > err_after) return 0;
	if (brk_at >= 0 && (long) (apos + n) > brk_at) return 0;
	if (alen - apos < n) { apos = alen; return 0; }
	apos += n;
	return 1;
}
/* a skip callback that refuses to go past the end of the input and then leaves the position where it was (cb_skip moves to the end):
   both are what a caller's callback may do */
static int cb_skip_keep(void *h, size_t n)
{
	(void) h;
	src_calls++; budget();
	if (err_after > 0 && (long) src_calls > err_after) return 0;
	if (brk_at >= 0 && (long) (apos + n) > brk_at) return 0;
	if (alen - apos < n) return 0;
	apos += n;
	return 1;
}
static void cb_close(void *h) { (void) h; }
static LHAInputStreamType cbt = { cb_read, cb_skip, cb_close };
static LHAInputStreamType cbt_ns = { cb_read, NULL, cb_close };
static LHAInputStreamType cbt_keep = { cb_read, cb_skip_keep, cb_close };

/* ---------- projection ---------- */
static const char *ctn[] = { "START", "NORMAL", "FAKE", "DEFER", "EOF" };
static void proj(LHAReader *r)
{
	LhasaVerifReaderState st;
	lhasa_verif_reader_project(r, &st);
	printf(",\"proj\":{\"ctype\":\"%s\",\"cur\":\"%s\",\"curRefs\":%u,\"bcur\":\"%s\",\"bRefs\":%u,\"rem\":%zu,\"beof\":%s,\"dec\":%s,\"inner\":%s,\"pol\":\"%s\",\"stack\":[",
	       ctn[st.curr_file_type], st.curr_file ? idof(st.curr_file) : "", st.curr_file ? st.curr_file->_refcount : 0,
	       st.basic_curr ? idof(st.basic_curr) : "", st.basic_curr ? st.basic_curr->_refcount : 0,
	       st.basic_remaining > 2000000000u ? 2000000000u : st.basic_remaining,
	       st.basic_eof ? "true" : "false", st.decoder_open ? "true" : "false", st.inner_decoder_open ? "true" : "false",
	       st.dir_policy == LHA_READER_DIR_PLAIN ? "plain" : st.dir_policy == LHA_READER_DIR_END_OF_FILE ? "eof" : st.dir_policy == LHA_READER_DIR_END_OF_DIR ? "eod" : "?");
	for (unsigned i = 0; i < st.n_dir_stack; i++) printf("%s[\"%s\",%u]", i ? "," : "", idof(st.dir_stack[i]), st.dir_stack[i]->_refcount);
	printf("],\"deferred\":[");
	for (unsigned i = 0; i < st.n_deferred; i++) printf("%s[\"%s\",%u]", i ? "," : "", idof(st.deferred[i]), st.deferred[i]->_refcount);
	printf("]}");
}
static void hexs(const char *k, const char *s)
{
	printf(",\"%s\":", k);
	if (!s) { printf("\"~\""); return; }   /* NULL pointer (TLC's Json module cannot read null) */
	putchar('"'); for (; *s; s++) printf("%02x", (unsigned char) *s); putchar('"');
}
static void tail(LHAReader *r)
{
	proj(r);
	if (f_alloc) printf(",\"faults\":%ld,\"files\":%ld", verif_failed_in_call, verif_live_files);
	if (f_alloc || f_mem) printf(",\"live\":%ld,\"peak\":%ld", verif_live_bytes, verif_peak_bytes);
	if (f_work) printf(",\"calls\":%lu,\"req\":%lu", src_calls, src_bytes);
	printf("}\n");
	verif_failed_in_call = 0;
}

static LHAReaderDirPolicy pol(const char *s)
{
	if (!strcmp(s, "plain")) return LHA_READER_DIR_PLAIN;
	if (!strcmp(s, "eof")) return LHA_READER_DIR_END_OF_FILE;
	return LHA_READER_DIR_END_OF_DIR;
}

#define LIB(stmt) do { verif_alloc_active = 1; stmt; verif_alloc_active = 0; } while (0)

static void hdrinfo(LHAFileHeader *h)
{
	/* header fields for ground-truth derivation from a reference run */
	printf(",\"packed\":%zu,\"length\":%zu,\"crc\":%u,\"os\":%u,\"plen\":%zu,\"isdir\":%s", h->compressed_length > 2000000000u ? 2000000000u : h->compressed_length,
	       h->length > 2000000000u ? 2000000000u : h->length, (unsigned) h->crc, (unsigned) h->os_type,
	       (h->path ? strlen(h->path) : 0) + (h->filename ? strlen(h->filename) : 0),
	       !strcmp(h->compress_method, LHA_COMPRESS_TYPE_DIR) ? "true" : "false");
	hexs("method", h->compress_method); hexs("path", h->path); hexs("name", h->filename); hexs("target", h->symlink_target);
}

int main(int argc, char **argv)
{
	static char line[1 << 20], outbuf[1 << 16];
	char cwd0[4096];
	FILE *jf = argc > 1 ? fopen(argv[1], "r") : stdin;
	if (!jf) { perror("jobs"); return 2; }
	setvbuf(stdout, outbuf, _IOFBF, sizeof outbuf);
	if (!getcwd(cwd0, sizeof cwd0)) return 2;
	while (fgets(line, sizeof line, jf)) {
		char gt[4096], arc[4096], skind[64], spol[64], xdir[4096], flags[64]; long failk;
		static char ops[1 << 20];
		if (strncmp(line, "exec ", 5)) continue;
		if (sscanf(line, "exec %4095s %4095s %63s %63s %4095s %ld %63s %1048575s", gt, arc, skind, spol, xdir, &failk, flags, ops) != 8) {
			fprintf(stderr, "bad job: %s", line); return 2;
		}
		f_alloc = !!strchr(flags, 'a'); f_bytes = !!strchr(flags, 'b'); f_hdr = !!strchr(flags, 'h');
		f_safe = !!strchr(flags, 's'); f_work = !!strchr(flags, 'w'); f_mem = !!strchr(flags, 'm'); f_out = !!strchr(flags, 'o'); f_long = !!strchr(flags, 'L');
		/* Reset line */
		if (strcmp(gt, "-")) {
			FILE *g = fopen(gt, "r"); int c;
			if (!g) { perror(gt); return 2; }
			while ((c = fgetc(g)) != EOF) if (c != '\n') putchar(c);
			putchar('\n'); fclose(g);
		} else printf("{\"e\":\"Reset\"}\n");
		/* input */
		{
			FILE *f = fopen(arc, "rb");
			if (!f) { perror(arc); return 2; }
			free(adata); adata = malloc(1 << 26); alen = fread(adata, 1, 1 << 26, f); fclose(f); apos = 0;
		}
		src_calls = src_bytes = 0; src_budget = 64 * alen + 200000;   /* deterministic step budget: a hang becomes a Budget event */
		if (strcmp(xdir, "-") && chdir(xdir) != 0) { perror(xdir); return 2; }
		verif_alloc_reset(); verif_fail_at = failk; verif_alloc_log = f_alloc;
		LHAInputStream *st = NULL; FILE *fh = NULL; int is_popen = 0;
		/* stream kinds cbE<k> / cbnsE<k>: the source fails for good after k callbacks */
		/* cb...B<f>: the source breaks at byte offset f - the read that crosses f hands over the bytes in front of it (a short read), every
		   later one fails (-1); cb...S<m>: never more than m bytes per read (short reads, no failure) */
		err_after = 0; brk_at = -1; max_chunk = 0;
		if (!strncmp(skind, "cb", 2)) {
			char *e = strpbrk(skind, "EBS");
			if (e) {
				if (*e == 'E') err_after = atol(e + 1); else if (*e == 'B') brk_at = atol(e + 1); else max_chunk = (size_t) atol(e + 1);
				*e = 0;
			}
		}
		if (!strcmp(skind, "path")) LIB(st = lha_input_stream_from(arc));
		else if (!strcmp(skind, "FILE")) { fh = fopen(arc, "rb"); LIB(st = lha_input_stream_from_FILE(fh)); }
		else if (!strcmp(skind, "pipe")) { char cmd[4200]; snprintf(cmd, sizeof cmd, "cat '%s'", arc); fh = popen(cmd, "r"); is_popen = 1; LIB(st = lha_input_stream_from_FILE(fh)); }
		/* drip: a pipe whose writer hands over 7 bytes at a time, so that the operating system's reads come back short */
		else if (!strcmp(skind, "drip")) { char cmd[4300]; snprintf(cmd, sizeof cmd, "dd if='%s' bs=7 2>/dev/null", arc); fh = popen(cmd, "r"); is_popen = 1; LIB(st = lha_input_stream_from_FILE(fh)); }
		else if (!strcmp(skind, "cbk")) LIB(st = lha_input_stream_new(&cbt_keep, NULL));
		else if (!strcmp(skind, "cb")) LIB(st = lha_input_stream_new(&cbt, NULL));
		else LIB(st = lha_input_stream_new(&cbt_ns, NULL));
		LHAReader *r = NULL;
		if (st) LIB(r = lha_reader_new(st));
		printf("{\"e\":\"New\",\"ok\":%s,\"stream\":\"%s\"", r ? "true" : "false", skind);
		if (f_alloc) printf(",\"faults\":%ld", verif_failed_in_call);
		printf("}\n"); verif_failed_in_call = 0;
		if (r && strcmp(spol, "default")) { LIB(lha_reader_set_dir_policy(r, pol(spol))); }
		char *save = NULL; int freed = 0; unsigned safe_n = 0;
		for (char *op = r ? strtok_r(ops, ",", &save) : NULL; op && !freed; op = strtok_r(NULL, ",", &save)) {
			switch (op[0]) {
			case 'N': {
				LHAFileHeader *h; int fake;
				LIB(h = lha_reader_next_file(r));
				if (h) remember(h);
				LIB(fake = lha_reader_current_is_fake(r));
				printf("{\"e\":\"Next\",\"id\":");
				printf("\"%s\"", h ? idof(h) : "");
				printf(",\"fake\":%s", fake ? "true" : "false");
				if (h && f_hdr) hdrinfo(h);
				tail(r);
				break; }
			case 'R': {
				size_t k = strtoul(op + 1, NULL, 10), n;
				uint8_t *buf = malloc(k ? k : 1);
				LIB(n = lha_reader_read(r, buf, k));
				printf("{\"e\":\"Read\",\"k\":%zu,\"n\":%zu", k, n);
				if (f_bytes) { printf(",\"bytes\":["); for (size_t i = 0; i < n && i < k; i++) printf("%s%u", i ? "," : "", buf[i]); printf("]"); }
				tail(r); free(buf);
				break; }
			case 'A': {
				/* read the current member to its end in pieces of <n> */
				size_t k = strtoul(op + 1, NULL, 10), n;
				uint8_t *buf = malloc(k ? k : 1);
				do {
					LIB(n = lha_reader_read(r, buf, k));
					printf("{\"e\":\"Read\",\"k\":%zu,\"n\":%zu", k, n);
					if (f_bytes) { printf(",\"bytes\":["); for (size_t i = 0; i < n && i < k; i++) printf("%s%u", i ? "," : "", buf[i]); printf("]"); }
					tail(r);
				} while (n > 0);
				free(buf);
				break; }
			case 'C': {
				int res;
				LIB(res = lha_reader_check(r, NULL, NULL));
				printf("{\"e\":\"Check\",\"res\":%s", res ? "true" : "false");
				tail(r);
				break; }
			case 'X': {
				int res; char safe[4400]; char *fn = NULL; struct stat sb; int existed = 0, after = 0; char *pth = NULL;
				LhasaVerifReaderState ps;
				lhasa_verif_reader_project(r, &ps);
				if (f_safe) { snprintf(safe, sizeof safe, "x%u", safe_n++); fn = safe; }
				/* flag L: the caller names the output itself, with a long name (the absolute path of the extraction directory in front) */
				if (f_long) { char cwd[4200]; if (!getcwd(cwd, sizeof cwd)) strcpy(cwd, "."); snprintf(safe, sizeof safe, "%s/out_%u", cwd, safe_n++); fn = safe; }
				if (ps.curr_file) {
					char *p = fn ? strdup(fn) : lha_file_header_full_path(ps.curr_file);
					if (p) { size_t l = strlen(p); while (l > 1 && p[l - 1] == '/') p[--l] = 0; existed = lstat(p, &sb) == 0; pth = p; }
				}
				LIB(res = lha_reader_extract(r, fn, NULL, NULL));
				if (pth) { after = lstat(pth, &sb) == 0; }
				printf("{\"e\":\"Extract\",\"res\":%s,\"existed\":%s,\"after\":%s", res ? "true" : "false", existed ? "true" : "false", after ? "true" : "false");
				/* flag o: what the operation wrote (the bytes of the regular file now at the output path) */
				if (f_out && pth && after && S_ISREG(sb.st_mode)) {
					if (sb.st_size > 65536) printf(",\"filebig\":true");
					else { FILE *of = fopen(pth, "rb"); int c, first = 1;
						if (of) { printf(",\"file\":["); while ((c = getc(of)) != EOF) { printf("%s%d", first ? "" : ",", c); first = 0; } printf("]"); fclose(of); } }
				}
				free(pth);
				tail(r);
				break; }
			case 'P':
				LIB(lha_reader_set_dir_policy(r, pol(op + 1)));
				printf("{\"e\":\"SetPolicy\",\"p\":\"%s\"", op + 1); tail(r);
				break;
			case 'Z': {
				/* walk to the end of the archive without logging each entry (archives of 10^5 members); Zc checks each member */
				unsigned long cnt = 0; LHAFileHeader *hh; int chk = op[1] == 'c';
				for (;;) { LIB(hh = lha_reader_next_file(r)); if (!hh) break; cnt++; if (chk) { LIB(lha_reader_check(r, NULL, NULL)); } }
				printf("{\"e\":\"Drain\",\"n\":%lu,\"live\":%ld,\"peak\":%ld}\n", cnt, verif_live_bytes, verif_peak_bytes);
				break; }
			case 'Q':
				freed = 1;
				break;
			}
		}
		if (r) LIB(lha_reader_free(r));
		if (st) LIB(lha_input_stream_free(st));
		if (fh) { if (is_popen) pclose(fh); else fclose(fh); }
		{
			long ids[32]; int n = verif_alloc_live_ids(ids, 32);
			printf("{\"e\":\"Free\",\"liveBlocks\":%ld,\"liveFiles\":%ld,\"peak\":%ld,\"allocs\":%ld,\"leaked\":[", verif_live_blocks, verif_live_files, verif_peak_bytes, verif_alloc_count);
			for (int i = 0; i < n; i++) printf("%s%ld", i ? "," : "", ids[i]);
			printf("]");
			if (f_work) printf(",\"calls\":%lu,\"req\":%lu,\"alen\":%zu", src_calls, src_bytes, alen);
			printf("}\n");
		}
		verif_fail_at = 0; verif_alloc_log = 0;
		if (chdir(cwd0) != 0) return 2;
		fflush(stdout);
	}
	return 0;
}
