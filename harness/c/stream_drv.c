/* Driver for LHAInputStream (InputStream.tla / Trace_InputStream.tla).
 * Job lines:  stream <gtfile> <datafile> <kind> <shortseed> <ops>
 *   kind: cb (callbacks with skip) | cbns (callbacks, no skip) | FILE (seekable) | pipe
 *   shortseed: 0 = the read callback always delivers what is there; else seed for short reads
 *              while the stream is still scanning for the first header (the only phase in which
 *              the library tolerates short reads)
 *   ops: R<n> = lha_input_stream_read(n), S<n> = lha_input_stream_skip(n)
 * One event per call with result, bytes, the source calls made during it, and the projection. */
#define _GNU_SOURCE
#include <stdio.h>
#include <stdlib.h>
#include <string.h>
#include <stdint.h>
#include <unistd.h>
#include "lib/lha_input_stream.h"
#include "lib/lhasa_verif.h"

static uint8_t *data; static size_t dlen, dpos;
static LHAInputStream *st;
static uint64_t rs; static int shorton;
static uint32_t rnd(void) { rs ^= rs << 13; rs ^= rs >> 7; rs ^= rs << 17; return (uint32_t) (rs >> 11); }
#define MAXC (1 << 20)
static struct { char op; size_t n; long r; } calls[MAXC]; static int ncalls;
static unsigned long budget;

static void rec(char op, size_t n, long r)
{
	if (ncalls < MAXC) { calls[ncalls].op = op; calls[ncalls].n = n; calls[ncalls].r = r; ncalls++; }
	if (budget && (unsigned long) ncalls > budget) {
		printf("{\"e\":\"Budget\",\"calls\":%d}\n", ncalls); fflush(stdout); _exit(0);
	}
}
static int cb_read(void *h, void *buf, size_t n)
{
	size_t k = dlen - dpos < n ? dlen - dpos : n;
	int state; size_t ll;
	(void) h;
	lhasa_verif_stream_project(st, &state, &ll);
	if (shorton && state == 0 && k > 1) k = 1 + rnd() % k;
	memcpy(buf, data + dpos, k); dpos += k;
	rec('r', n, (long) k);
	return (int) k;
}
static int cb_skip(void *h, size_t n)
{
	int ok;
	(void) h;
	if (dlen - dpos < n) { dpos = dlen; ok = 0; } else { dpos += n; ok = 1; }
	rec('s', n, ok);
	return ok;
}
static LHAInputStreamType cbt = { cb_read, cb_skip, NULL };
static LHAInputStreamType cbt_ns = { cb_read, NULL, NULL };

static void tail(void)
{
	int state; size_t ll;
	printf(",\"calls\":[");
	for (int i = 0; i < ncalls; i++) printf("%s[\"%c\",%zu,%ld]", i ? "," : "", calls[i].op, calls[i].n, calls[i].r);
	lhasa_verif_stream_project(st, &state, &ll);
	printf("],\"proj\":{\"state\":\"%s\",\"leadin\":%zu}}\n", state == 0 ? "INIT" : state == 1 ? "READING" : "FAIL", ll);
	ncalls = 0;
}

int main(int argc, char **argv)
{
	static char line[1 << 20], ops[1 << 20];
	FILE *jf = argc > 1 ? fopen(argv[1], "r") : stdin;
	if (!jf) return 2;
	while (fgets(line, sizeof line, jf)) {
		char gt[4096], df[4096], kind[32]; unsigned long seed;
		if (sscanf(line, "stream %4095s %4095s %31s %lu %1048575s", gt, df, kind, &seed, ops) != 5) continue;
		{ FILE *g = fopen(gt, "r"); int c; if (!g) { perror(gt); return 2; } while ((c = fgetc(g)) != EOF) if (c != '\n') putchar(c); putchar('\n'); fclose(g); }
		{ FILE *f = fopen(df, "rb"); if (!f) { perror(df); return 2; } free(data); data = malloc(1 << 24); dlen = fread(data, 1, 1 << 24, f); fclose(f); dpos = 0; }
		shorton = seed != 0; rs = seed * 2654435761u + 88172645463325252ull; ncalls = 0;
		budget = 64 * dlen + 100000;
		FILE *fh = NULL; int is_popen = 0;
		if (!strcmp(kind, "cb")) st = lha_input_stream_new(&cbt, NULL);
		else if (!strcmp(kind, "cbns")) st = lha_input_stream_new(&cbt_ns, NULL);
		else if (!strcmp(kind, "FILE")) { fh = fopen(df, "rb"); st = lha_input_stream_from_FILE(fh); }
		else { char cmd[4200]; snprintf(cmd, sizeof cmd, "cat '%s'", df); fh = popen(cmd, "r"); is_popen = 1; st = lha_input_stream_from_FILE(fh); }
		if (!st) return 2;
		char *save = NULL;
		for (char *op = strtok_r(ops, ",", &save); op; op = strtok_r(NULL, ",", &save)) {
			size_t n = strtoul(op + 1, NULL, 10);
			if (op[0] == 'R') {
				uint8_t *buf = malloc(n ? n : 1);
				int ok = lha_input_stream_read(st, buf, n);
				printf("{\"e\":\"Read\",\"n\":%zu,\"ok\":%s,\"bytes\":[", n, ok ? "true" : "false");
				if (ok) for (size_t i = 0; i < n; i++) printf("%s%u", i ? "," : "", buf[i]);
				printf("]"); tail(); free(buf);
			} else if (op[0] == 'S') {
				int ok = lha_input_stream_skip(st, n);
				printf("{\"e\":\"Skip\",\"n\":%zu,\"ok\":%s", n, ok ? "true" : "false"); tail();
			}
		}
		lha_input_stream_free(st);
		if (fh) { if (is_popen) pclose(fh); else fclose(fh); }
		fflush(stdout);
	}
	return 0;
}
