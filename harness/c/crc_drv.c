/* Driver binding Crc16.tla to lha_crc16_buf.  The reference table comes from TLC
 * (MC_Crc16 "export"), never from the C source. */
#include <stdio.h>
#include <stdlib.h>
#include <string.h>
#include <stdint.h>
#include <pthread.h>
#include "lib/crc16.h"

static unsigned tab[256];

static void load_tab(const char *path)
{
	FILE *f = fopen(path, "r");
	int n = 0, c;
	if (!f) { perror(path); exit(2); }
	while ((c = fgetc(f)) != EOF && c != '[') ;
	while (n < 256 && fscanf(f, "%u", &tab[n]) == 1) { n++; c = fgetc(f); }
	fclose(f);
	if (n != 256) { fprintf(stderr, "bad table (%d entries)\n", n); exit(2); }
}

static inline unsigned tstep(unsigned c, unsigned b)
{
	return (c >> 8) ^ tab[(c ^ b) & 0xff];
}

/* xorshift */
static uint64_t rs;
static uint32_t rnd(void) { rs ^= rs << 13; rs ^= rs >> 7; rs ^= rs << 17; return (uint32_t)(rs >> 11); }

static int pairs(void)
{
	unsigned long cases = 0, bad = 0;
	unsigned fc = 0, fb = 0, fg = 0, fw = 0;
	for (unsigned c = 0; c < 65536; c++)
		for (unsigned b = 0; b < 256; b++) {
			uint16_t r = (uint16_t) c; uint8_t x = (uint8_t) b;
			lha_crc16_buf(&r, &x, 1);
			cases++;
			if (r != tstep(c, b)) { if (!bad) { fc = c; fb = b; fg = r; fw = tstep(c, b); } bad++; }
		}
	printf("{\"mode\":\"pairs\",\"cases\":%lu,\"mismatch\":%lu,\"first\":[%u,%u,%u,%u]}\n", cases, bad, fc, fb, fg, fw);
	return bad != 0;
}

struct job { unsigned lo, hi; unsigned long cases, bad; unsigned first[5]; };
static void *pairs2_thread(void *p)
{
	struct job *j = p;
	for (unsigned c = j->lo; c < j->hi; c++)
		for (unsigned b = 0; b < 65536; b++) {
			uint16_t r = (uint16_t) c; uint8_t x[2] = { b & 0xff, b >> 8 };
			unsigned w = tstep(tstep(c, x[0]), x[1]);
			lha_crc16_buf(&r, x, 2);
			j->cases++;
			if (r != w) { if (!j->bad) { j->first[0] = c; j->first[1] = x[0]; j->first[2] = x[1]; j->first[3] = r; j->first[4] = w; } j->bad++; }
		}
	return NULL;
}
static int pairs2(int nthreads, unsigned stride)
{
	/* stride 1 = all 2^32 cases; stride s = states c = 0, s, 2s, ... (quick tier) */
	pthread_t th[64]; struct job jobs[64];
	unsigned long cases = 0, bad = 0; unsigned *first = NULL;
	(void) stride;
	for (int i = 0; i < nthreads; i++) {
		memset(&jobs[i], 0, sizeof jobs[i]);
		jobs[i].lo = 65536u / nthreads * i; jobs[i].hi = (i == nthreads - 1) ? 65536u : 65536u / nthreads * (i + 1);
		pthread_create(&th[i], NULL, pairs2_thread, &jobs[i]);
	}
	for (int i = 0; i < nthreads; i++) {
		pthread_join(th[i], NULL);
		cases += jobs[i].cases; bad += jobs[i].bad;
		if (jobs[i].bad && !first) first = jobs[i].first;
	}
	printf("{\"mode\":\"pairs2\",\"cases\":%lu,\"mismatch\":%lu,\"first\":[%u,%u,%u,%u,%u]}\n", cases, bad,
	       first ? first[0] : 0, first ? first[1] : 0, first ? first[2] : 0, first ? first[3] : 0, first ? first[4] : 0);
	return bad != 0;
}

/* long random buffers, every start alignment 0..7, random splits (empty and 1-byte pieces
 * included) vs whole vs the table form with TLC's table */
static int longbufs(unsigned long seed, int n, size_t maxlen)
{
	unsigned long cases = 0, bad = 0; long firstlen = -1; int firstal = -1;
	uint8_t *raw = malloc(maxlen + 16);
	rs = seed * 2654435761u + 88172645463325252ull;
	for (int it = 0; it < n; it++) {
		int al = it % 8;
		/* lengths around the sizes at which a narrower counter would wrap, then random ones */
		static const size_t edge[] = { 255, 256, 257, 32767, 32768, 32769, 65535, 65536, 65537, 65538, 70000, 131071, 131072, 131073 };
		size_t len = (it < 64) ? (size_t) it : (it - 64 < (int) (sizeof edge / sizeof edge[0]) && edge[it - 64] <= maxlen) ? edge[it - 64] : rnd() % (maxlen + 1);
		uint8_t *buf = (uint8_t *) ((((uintptr_t) raw + 7) & ~(uintptr_t) 7) + al);
		unsigned init = rnd() & 0xffff, want = init;
		for (size_t i = 0; i < len; i++) { buf[i] = rnd() & 0xff; want = tstep(want, buf[i]); }
		uint16_t whole = init; lha_crc16_buf(&whole, buf, len);
		uint16_t pw = init; size_t pos = 0;
		while (pos < len) {
			size_t k; unsigned r = rnd() % 8;
			if (r == 0) k = 0; else if (r == 1) k = 1; else if (r == 2) k = 2; else k = rnd() % (len - pos + 1);
			if (k > len - pos) k = len - pos;
			lha_crc16_buf(&pw, buf + pos, k); pos += k;
		}
		cases++;
		if (whole != want || pw != want) { if (!bad) { firstlen = len; firstal = al; } bad++; }
	}
	printf("{\"mode\":\"long\",\"cases\":%lu,\"mismatch\":%lu,\"first_len\":%ld,\"first_align\":%d}\n", cases, bad, firstlen, firstal);
	free(raw);
	return bad != 0;
}

/* structured buffers: short sequences of 32-bit fields with boundary values (0, 1, -1, sign bits, byte patterns), in both byte
 * orders, behind 0..9 zero bytes and in front of 0..3 further bytes, from register values that include 0 and all ones, at every
 * start alignment, whole and split at every position - the kind of data (counters, flags, padding) that a data-dependent
 * shortcut in the routine would be written for, and that random bytes never contain */
static int words(void)
{
	static const uint32_t sp[] = { 0, 1, 2, 0x7f, 0x80, 0xff, 0x100, 0xffff, 0x10000, 0x7fffffff, 0x80000000u, 0xffffffffu, 0xfffffffeu,
	                               0x01010101, 0x80808080u, 0xff00ff00u };
	static const unsigned inits[] = { 0, 1, 0x8000, 0xffff, 0xa001, 0xc0c1 };
	enum { NS = sizeof sp / sizeof sp[0] };
	unsigned long cases = 0, bad = 0; long first[6] = { -1, -1, -1, -1, -1, -1 };
	uint8_t raw[128];
	rs = 12345;
	for (int nw = 1; nw <= 3; nw++) {
		unsigned long combos = 1; for (int i = 0; i < nw; i++) combos *= NS;
		for (unsigned long c = 0; c < combos; c++)
		for (int be = 0; be < 2; be++)
		for (int pre = 0; pre <= 9; pre += (nw == 3 ? 4 : 1))
		for (unsigned ii = 0; ii < sizeof inits / sizeof inits[0]; ii++) {
			int al = (int) ((c + pre + ii) % 8), suf = (int) ((c + be) % 4);
			uint8_t *buf = (uint8_t *) ((((uintptr_t) raw + 7) & ~(uintptr_t) 7) + al);
			size_t len = 0; unsigned long cc = c;
			for (int i = 0; i < pre; i++) buf[len++] = 0;
			for (int i = 0; i < nw; i++) {
				uint32_t v = sp[cc % NS]; cc /= NS;
				for (int k = 0; k < 4; k++) buf[len++] = be ? (v >> (24 - 8 * k)) & 0xff : (v >> (8 * k)) & 0xff;
			}
			for (int i = 0; i < suf; i++) buf[len++] = rnd() & 0xff;
			unsigned want = inits[ii];
			for (size_t i = 0; i < len; i++) want = tstep(want, buf[i]);
			uint16_t whole = inits[ii]; lha_crc16_buf(&whole, buf, len);
			int ok = whole == want;
			for (size_t cut = 1; cut < len && ok; cut++) {
				uint16_t pw = inits[ii]; lha_crc16_buf(&pw, buf, cut); lha_crc16_buf(&pw, buf + cut, len - cut);
				if (pw != want) ok = 0;
			}
			cases++;
			if (!ok) { if (!bad) { first[0] = nw; first[1] = (long) c; first[2] = be; first[3] = pre; first[4] = inits[ii]; first[5] = al; } bad++; }
		}
	}
	printf("{\"mode\":\"words\",\"cases\":%lu,\"mismatch\":%lu,\"first\":[%ld,%ld,%ld,%ld,%ld,%ld]}\n", cases, bad, first[0], first[1], first[2], first[3], first[4], first[5]);
	return bad != 0;
}

/* replay of TLC-generated behaviours: lines "n p1len b.. p1reg p2len ..." (converted by the
 * runner from the JSON history): each piece is fed and the register compared after each */
static int vectors(const char *path)
{
	FILE *f = fopen(path, "r"); unsigned long cases = 0, bad = 0, steps = 0; long firstcase = -1;
	int np;
	if (!f) { perror(path); exit(2); }
	while (fscanf(f, "%d", &np) == 1) {
		uint16_t r = 0; int ok = 1;
		for (int i = 0; i < np; i++) {
			int len; unsigned want; uint8_t buf[4096];
			if (fscanf(f, "%d", &len) != 1 || len > 4096) exit(2);
			for (int k = 0; k < len; k++) { unsigned v; if (fscanf(f, "%u", &v) != 1) exit(2); buf[k] = v; }
			if (fscanf(f, "%u", &want) != 1) exit(2);
			lha_crc16_buf(&r, buf, len); steps++;
			if (r != want) ok = 0;
		}
		if (!ok) { if (!bad) firstcase = cases; bad++; }
		cases++;
	}
	fclose(f);
	printf("{\"mode\":\"vectors\",\"cases\":%lu,\"steps\":%lu,\"mismatch\":%lu,\"first_case\":%ld}\n", cases, steps, bad, firstcase);
	return bad != 0;
}

/* record executions for trace validation: ndjson on stdout */
static int trace(unsigned long seed, int n, size_t maxlen)
{
	uint8_t *raw = malloc(maxlen + 16);
	rs = seed * 2654435761u + 1442695040888963407ull;
	for (int it = 0; it < n; it++) {
		int al = it % 8;
		uint8_t *buf = (uint8_t *) ((((uintptr_t) raw + 7) & ~(uintptr_t) 7) + al);
		size_t len = (it < 20) ? (size_t) it : rnd() % (maxlen + 1);
		unsigned init = (it % 3 == 0) ? 0 : rnd() & 0xffff;
		uint16_t r = init, whole = init; size_t pos = 0;
		for (size_t i = 0; i < len; i++) buf[i] = (it % 5 == 4) ? 0 : rnd() & 0xff;
		printf("{\"e\":\"Reset\",\"init\":%u}\n", init);
		do {
			size_t k; unsigned q = rnd() % 6;
			if (q == 0) k = 0; else if (q == 1) k = 1; else k = rnd() % (len - pos + 1);
			if (k > len - pos) k = len - pos;
			lha_crc16_buf(&r, buf + pos, k);
			printf("{\"e\":\"Feed\",\"bytes\":[");
			for (size_t i = 0; i < k; i++) printf("%s%u", i ? "," : "", buf[pos + i]);
			printf("],\"reg\":%u}\n", r);
			pos += k;
		} while (pos < len);
		lha_crc16_buf(&whole, buf, len);
		printf("{\"e\":\"Whole\",\"reg\":%u}\n", whole);
	}
	free(raw);
	return 0;
}

int main(int argc, char **argv)
{
	if (argc < 2) return 2;
	if (!strcmp(argv[1], "trace")) return trace(strtoul(argv[2], 0, 10), atoi(argv[3]), strtoul(argv[4], 0, 10));
	load_tab(argv[2]);
	if (!strcmp(argv[1], "pairs")) return pairs();
	if (!strcmp(argv[1], "pairs2")) return pairs2(atoi(argv[3]), 1);
	if (!strcmp(argv[1], "long")) return longbufs(strtoul(argv[3], 0, 10), atoi(argv[4]), strtoul(argv[5], 0, 10));
	if (!strcmp(argv[1], "vectors")) return vectors(argv[3]);
	if (!strcmp(argv[1], "words")) return words();
	return 2;
}
