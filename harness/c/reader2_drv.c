/* Two readers at once (C15: operations on one reader never affect another).
 * usage: reader2_drv <mode> <jobfile> <outA> <outB>
 *   mode "interleave": the two executions of each pair of lines are advanced alternately, one
 *                      operation of A, one of B, ... in a single thread
 *   mode "threads":    each pair is run on two threads concurrently
 *   mode "nested":     A is advanced operation by operation; its check and extract operations carry a progress
 *                      callback, and each invocation of that callback - i.e. from inside A's decoding loop, after a
 *                      piece of A's member has been produced and before it is written - advances B by one operation;
 *                      what is left of B runs when A is done
 * jobfile: pairs of lines in the format of reader_drv ("exec <gt> <archive> <stream> <policy> <xdir> 0 b <ops>");
 * only streams "path" and "cb", ops N, R<k>, A<k>, C, X (X extracts to explicit names below <xdir>).
 * Each reader's events go to its own trace (same vocabulary as reader_drv, flag b). */
#define _GNU_SOURCE
#include <stdio.h>
#include <stdlib.h>
#include <string.h>
#include <stdint.h>
#include <pthread.h>
#include <unistd.h>
#include <sys/stat.h>
#include "lib/public/lhasa.h"
#include "lib/lhasa_verif.h"
#include "lib/lha_file_header.h"

typedef struct Ctx_ { char gt[4096], arc[4096], skind[64], spol[64], xdir[4096]; char *ops; char *save; char *next;
	uint8_t *data; size_t len, pos;
	LHAInputStream *st; LHAReader *r; FILE *out; unsigned xn; int done;
	struct Ctx_ *nest; } Ctx;

static int cb_read(void *h, void *buf, size_t n) { Ctx *c = h; size_t k = c->len - c->pos < n ? c->len - c->pos : n; memcpy(buf, c->data + c->pos, k); c->pos += k; return (int) k; }
static int cb_skip(void *h, size_t n) { Ctx *c = h; if (c->len - c->pos < n) { c->pos = c->len; return 0; } c->pos += n; return 1; }
static LHAInputStreamType cbt = { cb_read, cb_skip, NULL };

static void idof(LHAFileHeader *h, char *s)
{
	char *q = s;
	size_t lp = h->path ? strlen(h->path) : 0, lf = h->filename ? strlen(h->filename) : 0;
	for (size_t i = 0; i < lp && q - s < 2000; i++) q += sprintf(q, "%02x", (unsigned char) h->path[i]);
	for (size_t i = 0; i < lf && q - s < 2000; i++) q += sprintf(q, "%02x", (unsigned char) h->filename[i]);
	if (q == s) *q++ = '-';
	*q = 0;
}
static const char *ctn[] = { "START", "NORMAL", "FAKE", "DEFER", "EOF" };
static void tail(Ctx *c)
{
	LhasaVerifReaderState st; char a[2100], b[2100];
	lhasa_verif_reader_project(c->r, &st);
	a[0] = b[0] = 0;
	if (st.curr_file) idof(st.curr_file, a);
	if (st.basic_curr) idof(st.basic_curr, b);
	fprintf(c->out, ",\"proj\":{\"ctype\":\"%s\",\"cur\":\"%s\",\"curRefs\":%u,\"bcur\":\"%s\",\"bRefs\":%u,\"rem\":%zu,\"beof\":%s,\"dec\":%s,\"inner\":%s,\"pol\":\"%s\",\"stack\":[",
	        ctn[st.curr_file_type], a, st.curr_file ? st.curr_file->_refcount : 0, b, st.basic_curr ? st.basic_curr->_refcount : 0,
	        st.basic_remaining > 2000000000u ? 2000000000u : st.basic_remaining, st.basic_eof ? "true" : "false",
	        st.decoder_open ? "true" : "false", st.inner_decoder_open ? "true" : "false",
	       st.dir_policy == LHA_READER_DIR_PLAIN ? "plain" : st.dir_policy == LHA_READER_DIR_END_OF_FILE ? "eof" : st.dir_policy == LHA_READER_DIR_END_OF_DIR ? "eod" : "?");
	for (unsigned i = 0; i < st.n_dir_stack; i++) { idof(st.dir_stack[i], a); fprintf(c->out, "%s[\"%s\",%u]", i ? "," : "", a, st.dir_stack[i]->_refcount); }
	fprintf(c->out, "],\"deferred\":[");
	for (unsigned i = 0; i < st.n_deferred; i++) { idof(st.deferred[i], a); fprintf(c->out, "%s[\"%s\",%u]", i ? "," : "", a, st.deferred[i]->_refcount); }
	fprintf(c->out, "]}}\n");
}

static int start(Ctx *c, const char *line)
{
	static char flags[64]; long failk;
	c->ops = malloc(strlen(line) + 1);
	if (sscanf(line, "exec %4095s %4095s %63s %63s %4095s %ld %63s %s", c->gt, c->arc, c->skind, c->spol, c->xdir, &failk, flags, c->ops) != 8) return 0;
	FILE *g = fopen(c->gt, "r"); int ch;
	if (!g) return 0;
	while ((ch = fgetc(g)) != EOF) if (ch != '\n') fputc(ch, c->out);
	fputc('\n', c->out); fclose(g);
	FILE *f = fopen(c->arc, "rb"); if (!f) return 0;
	c->data = malloc(1 << 24); c->len = fread(c->data, 1, 1 << 24, f); fclose(f); c->pos = 0;
	c->st = !strcmp(c->skind, "cb") ? lha_input_stream_new(&cbt, c) : lha_input_stream_from(c->arc);
	c->r = lha_reader_new(c->st);
	fprintf(c->out, "{\"e\":\"New\",\"ok\":true,\"stream\":\"%s\"}\n", c->skind);
	if (strcmp(c->spol, "default"))
		lha_reader_set_dir_policy(c->r, !strcmp(c->spol, "plain") ? LHA_READER_DIR_PLAIN : !strcmp(c->spol, "eof") ? LHA_READER_DIR_END_OF_FILE : LHA_READER_DIR_END_OF_DIR);
	c->next = strtok_r(c->ops, ",", &c->save);
	c->done = c->next == NULL; c->xn = 0;
	return 1;
}

static void step(Ctx *c);
static void nest_cb(unsigned int block, unsigned int total, void *p)
{
	Ctx *c = p;
	(void) block; (void) total;
	if (c->nest && !c->nest->done) step(c->nest);
}

static void step(Ctx *c)
{
	char *op = c->next;
	if (!op) { c->done = 1; return; }
	switch (op[0]) {
	case 'N': {
		LHAFileHeader *h = lha_reader_next_file(c->r); char id[2100]; id[0] = 0;
		if (h) idof(h, id);
		fprintf(c->out, "{\"e\":\"Next\",\"id\":\"%s\",\"fake\":%s", id, lha_reader_current_is_fake(c->r) ? "true" : "false");
		tail(c); break; }
	case 'R': case 'A': {
		size_t k = strtoul(op + 1, NULL, 10), n; uint8_t *buf = malloc(k ? k : 1);
		do {
			n = lha_reader_read(c->r, buf, k);
			fprintf(c->out, "{\"e\":\"Read\",\"k\":%zu,\"n\":%zu,\"bytes\":[", k, n);
			for (size_t i = 0; i < n && i < k; i++) fprintf(c->out, "%s%u", i ? "," : "", buf[i]);
			fprintf(c->out, "]"); tail(c);
		} while (op[0] == 'A' && n > 0);
		free(buf); break; }
	case 'C': {
		int res = lha_reader_check(c->r, c->nest ? nest_cb : NULL, c);
		fprintf(c->out, "{\"e\":\"Check\",\"res\":%s", res ? "true" : "false"); tail(c); break; }
	case 'X': {
		char fn[4300]; int res; struct stat sb;
		int existed;
		snprintf(fn, sizeof fn, "%s/x%u", c->xdir, c->xn++);
		existed = lstat(fn, &sb) == 0;
		res = lha_reader_extract(c->r, fn, c->nest ? nest_cb : NULL, c);
		int after = lstat(fn, &sb) == 0;
		fprintf(c->out, "{\"e\":\"Extract\",\"res\":%s,\"existed\":%s,\"after\":%s", res ? "true" : "false", existed ? "true" : "false", after ? "true" : "false");
		/* what the operation wrote: the bytes of the regular file now at the output path */
		if (after && S_ISREG(sb.st_mode) && sb.st_size <= 65536) {
			FILE *of = fopen(fn, "rb"); int ch, first = 1;
			if (of) { fprintf(c->out, ",\"file\":["); while ((ch = getc(of)) != EOF) { fprintf(c->out, "%s%d", first ? "" : ",", ch); first = 0; } fprintf(c->out, "]"); fclose(of); }
		}
		tail(c); break; }
	}
	c->next = strtok_r(NULL, ",", &c->save);
	if (!c->next) c->done = 1;
}

static void finish(Ctx *c)
{
	lha_reader_free(c->r); lha_input_stream_free(c->st);
	fprintf(c->out, "{\"e\":\"Free\",\"liveBlocks\":0,\"liveFiles\":0,\"peak\":0,\"allocs\":0,\"leaked\":[]}\n");
	free(c->data); free(c->ops);
}

static void *thread_main(void *p) { Ctx *c = p; while (!c->done) step(c); return NULL; }

#include <unistd.h>
int main(int argc, char **argv)
{
	static char la[1 << 20], lb[1 << 20];
	if (argc < 5) return 2;
	int threads = !strcmp(argv[1], "threads"), nested = !strcmp(argv[1], "nested");
	FILE *jf = fopen(argv[2], "r"), *oa = fopen(argv[3], "w"), *ob = fopen(argv[4], "w");
	if (!jf || !oa || !ob) return 2;
	while (fgets(la, sizeof la, jf) && fgets(lb, sizeof lb, jf)) {
		Ctx a, b; memset(&a, 0, sizeof a); memset(&b, 0, sizeof b);
		a.out = oa; b.out = ob;
		if (!start(&a, la) || !start(&b, lb)) { fprintf(stderr, "bad pair\n"); return 2; }
		if (threads) {
			pthread_t ta, tb;
			pthread_create(&ta, NULL, thread_main, &a); pthread_create(&tb, NULL, thread_main, &b);
			pthread_join(ta, NULL); pthread_join(tb, NULL);
		} else if (nested) {
			a.nest = &b;
			while (!a.done) step(&a);
			while (!b.done) step(&b);
		} else {
			while (!a.done || !b.done) { if (!a.done) step(&a); if (!b.done) step(&b); }
		}
		finish(&a); finish(&b);
		fflush(oa); fflush(ob);
	}
	fclose(oa); fclose(ob);
	return 0;
}
