#include <stdlib.h>
#include <string.h>
#include <stdio.h>
#include "alloc_shim.h"

void *__real_malloc(size_t); void *__real_calloc(size_t, size_t); void *__real_realloc(void *, size_t);
void __real_free(void *); char *__real_strdup(const char *);
FILE *__real_fopen(const char *, const char *); FILE *__real_fdopen(int, const char *); int __real_fclose(FILE *);

int verif_alloc_active; long verif_alloc_count; long verif_fail_at; int verif_alloc_log;
long verif_live_bytes, verif_peak_bytes, verif_live_blocks, verif_live_files, verif_failed_in_call;
static int in_shim; static long next_id;

#define TAB (1 << 20)
static struct { void *p; long id; size_t sz; int isfile; } tab[TAB];

static void put(void *p, size_t sz, int isfile)
{
	size_t h = ((size_t) p >> 4) % TAB;
	for (int i = 0; i < TAB; i++, h = (h + 1) % TAB) {
		if (tab[h].p == NULL || tab[h].p == (void *) 1) {
			tab[h].p = p; tab[h].id = ++next_id; tab[h].sz = sz; tab[h].isfile = isfile;
			if (isfile) verif_live_files++;
			else { verif_live_blocks++; verif_live_bytes += sz; if (verif_live_bytes > verif_peak_bytes) verif_peak_bytes = verif_live_bytes; }
			if (verif_alloc_log) { in_shim++; printf("{\"e\":\"%s\",\"id\":%ld,\"sz\":%zu}\n", isfile ? "Fopen" : "Alloc", next_id, sz); in_shim--; }
			return;
		}
	}
	fprintf(stderr, "alloc shim table full\n"); _Exit(3);
}
static int del(void *p)
{
	size_t h = ((size_t) p >> 4) % TAB;
	for (int i = 0; i < TAB; i++, h = (h + 1) % TAB) {
		if (tab[h].p == NULL) return 0;
		if (tab[h].p == p) {
			if (tab[h].isfile) verif_live_files--;
			else { verif_live_blocks--; verif_live_bytes -= tab[h].sz; }
			if (verif_alloc_log) { in_shim++; printf("{\"e\":\"%s\",\"id\":%ld}\n", tab[h].isfile ? "Fclose" : "Dealloc", tab[h].id); in_shim--; }
			tab[h].p = (void *) 1;
			return 1;
		}
	}
	return 0;
}
static int should_fail(void)
{
	verif_alloc_count++;
	if (verif_fail_at && verif_alloc_count == verif_fail_at) {
		verif_failed_in_call++;
		if (verif_alloc_log) { in_shim++; printf("{\"e\":\"AllocFail\",\"k\":%ld}\n", verif_alloc_count); in_shim--; }
		return 1;
	}
	return 0;
}
#define PASS (!verif_alloc_active || in_shim)

void *__wrap_malloc(size_t n)
{
	void *p;
	if (PASS) return __real_malloc(n);
	if (should_fail()) return NULL;
	p = __real_malloc(n);
	if (p) put(p, n, 0);
	return p;
}
void *__wrap_calloc(size_t a, size_t b)
{
	void *p;
	if (PASS) return __real_calloc(a, b);
	if (should_fail()) return NULL;
	p = __real_calloc(a, b);
	if (p) put(p, a * b, 0);
	return p;
}
void *__wrap_realloc(void *o, size_t n)
{
	void *p;
	if (PASS) return __real_realloc(o, n);
	if (should_fail()) return NULL;
	p = __real_realloc(o, n);
	if (p) { if (o) del(o); put(p, n, 0); }
	return p;
}
char *__wrap_strdup(const char *s)
{
	char *p;
	if (PASS) return __real_strdup(s);
	if (should_fail()) return NULL;
	p = __real_strdup(s);
	if (p) put(p, strlen(s) + 1, 0);
	return p;
}
void __wrap_free(void *p)
{
	if (p && !in_shim) del(p);
	__real_free(p);
}
FILE *__wrap_fopen(const char *path, const char *mode)
{
	FILE *f = __real_fopen(path, mode);
	if (f && !PASS) put(f, 0, 1);
	return f;
}
FILE *__wrap_fdopen(int fd, const char *mode)
{
	FILE *f = __real_fdopen(fd, mode);
	if (f && !PASS) put(f, 0, 1);
	return f;
}
int __wrap_fclose(FILE *f)
{
	if (!in_shim) del(f);
	return __real_fclose(f);
}
void verif_alloc_reset(void)
{
	memset(tab, 0, sizeof tab);
	verif_alloc_count = 0; verif_live_bytes = verif_peak_bytes = verif_live_blocks = verif_live_files = 0;
	verif_failed_in_call = 0; next_id = 0;
}
int verif_alloc_live_ids(long *ids, int max)
{
	int n = 0;
	for (int i = 0; i < TAB && n < max; i++)
		if (tab[i].p && tab[i].p != (void *) 1) ids[n++] = tab[i].id;
	return n;
}
