/* C07, exhaustive part: every burst of at most 16 flipped bits, at every bit offset of the data
 * of a stored member, must turn the verdict of lha_reader_check to "bad".
 * usage: burst_drv <archive> <data_off> <data_len> <maxwidth>
 * The archive holds one stored member whose data lies at [data_off, data_off+data_len). */
#include <stdio.h>
#include <stdlib.h>
#include <string.h>
#include <stdint.h>
#include "lib/public/lhasa.h"

static uint8_t base[1 << 16], cur[1 << 16]; static size_t alen, apos;
static int cb_read(void *h, void *buf, size_t n) { size_t k = alen - apos < n ? alen - apos : n; (void) h; memcpy(buf, cur + apos, k); apos += k; return (int) k; }
static int cb_skip(void *h, size_t n) { (void) h; if (alen - apos < n) { apos = alen; return 0; } apos += n; return 1; }
static LHAInputStreamType cbt = { cb_read, cb_skip, NULL };

static int verdict(void)
{
	LHAInputStream *st; LHAReader *r; int res = -1;
	apos = 0;
	st = lha_input_stream_new(&cbt, NULL);
	r = lha_reader_new(st);
	if (lha_reader_next_file(r) != NULL) res = lha_reader_check(r, NULL, NULL);
	lha_reader_free(r); lha_input_stream_free(st);
	return res;
}

int main(int argc, char **argv)
{
	FILE *f = fopen(argv[1], "rb");
	size_t off = strtoul(argv[2], 0, 10), len = strtoul(argv[3], 0, 10); int maxw = atoi(argv[4]);
	unsigned long cases = 0, missed = 0; long first_bit = -1, first_pat = -1;
	if (!f) return 2;
	alen = fread(base, 1, sizeof base, f); fclose(f);
	memcpy(cur, base, alen);
	if (verdict() != 1) { fprintf(stderr, "intact member not reported good\n"); printf("{\"cases\":0,\"missed\":0,\"intact_good\":false}\n"); return 1; }
	for (size_t bit = 0; bit < len * 8; bit++) {
		for (int w = 1; w <= maxw; w++) {
			if (bit + w > len * 8) break;
			/* patterns of width exactly w: first and last bit set, middle bits free */
			unsigned long nmid = w <= 2 ? 1 : 1ul << (w - 2);
			for (unsigned long mid = 0; mid < nmid; mid++) {
				unsigned long pat = w == 1 ? 1 : (1ul | (mid << 1) | (1ul << (w - 1)));
				memcpy(cur, base, alen);
				for (int k = 0; k < w; k++) if (pat >> k & 1) { size_t b = bit + k; cur[off + b / 8] ^= (uint8_t) (1u << (b % 8)); }
				cases++;
				if (verdict() != 0) { if (!missed) { first_bit = (long) bit; first_pat = (long) pat; } missed++; }
			}
		}
	}
	printf("{\"cases\":%lu,\"missed\":%lu,\"intact_good\":true,\"first_bit\":%ld,\"first_pattern\":%ld,\"data_len\":%zu,\"maxwidth\":%d}\n",
	       cases, missed, first_bit, first_pat, len, maxw);
	return missed != 0;
}
