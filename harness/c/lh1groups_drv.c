/* lh1groups_drv - binds Codec_Lh1Groups part G (spec/Codec_Lh1Groups.tla) to the compiled code.

   The driver #includes the REAL lib/lh1_decoder.c (all its functions are static, so this is the
   only way to reach init_tree / increment_for_code / reconstruct_tree / read_code and the struct)
   and prints, as ndjson, what the decoder did and the complete tree state:

     {"e":"Init","nc":NUM_CODES,"limit":TREE_REORDER_LIMIT,"src":"..."}   after calloc + lha_lh1_init
     {"e":"Sym","s":code,"bits":[..]}      one read_code call: the code it returned and the bits it
                                           consumed from the stream
     {"e":"Syms","s":[..],"bits":[[..],..]}  the same for up to N consecutive calls (option batch=N as
                                           the last argument; flushed before every Dump) - long runs
                                           at full size, where one trace line per symbol is slow
     {"e":"Dump","at":k,"num_groups":..,"leaf":[..],"child_index":[..],"parent":[..],"freq":[..],
      "group":[..],"leaf_nodes":[..],"groups":[..],"group_leader":[..]}    the struct after k symbols
     {"e":"End","n":k,"why":"..."}         informational (skipped by the trace spec)

   Which source is included is decided by the build, never here:
       -DLH1_SRC="\"<lhasa root>/lib/lh1_decoder.c\""     (default: "lh1_decoder.c" via -I<root>/lib)
   For small alphabets the check compiles against a scratch copy of the CURRENT lh1_decoder.c in
   which only the two #define lines NUM_CODES / TREE_REORDER_LIMIT are replaced.

   usage:
     lh1groups_drv stream FILE MAXSYMS EVERY [LO HI] [batch=N]
         decode the -lh1- stream FILE with read_code / read_offset exactly as lha_lh1_read does
         (without producing output); Dump after every EVERY-th symbol, after every symbol k with
         LO <= k <= HI, and at the end.
     lh1groups_drv gen SEED COUNT EVERY KIND [LO HI] [batch=N]
         COUNT generated symbols.  For each: the driver computes the symbol's current code by
         walking parent[] from leaf_nodes[sym] up (bit = child_index of the parent - index), resets
         the bit reader, offers exactly those bits (then zero padding) and calls the real
         read_code, which walks down, returns a code and calls increment_for_code.  What is logged
         is what read_code returned and consumed - not what the driver intended.
         KIND 0 uniform; 1..  three quarters of the symbols from the first KIND codes (KIND >= 2);
         -1 ramp: code c (c+1) times in a row, c = 0, 1, ..., cyclically (many distinct weights);
         -2 one symbol only (deepest possible tree).

   exit 0 ok; 2 usage / io; sanitizer exit codes otherwise. */
#include <stdio.h>
#include <stdlib.h>
#include <string.h>
#include <stdint.h>

#define lha_lh1_decoder lh1groups_drv_lha_lh1_decoder      /* the one exported symbol */
#ifndef LH1_SRC
#define LH1_SRC "lh1_decoder.c"
#endif
#include LH1_SRC

/* ------------------------------------------------------------------ bit source */
static const unsigned char *src_data;
static size_t src_len, src_pos;         /* src_pos = bytes handed to the bit reader */

static size_t src_cb(void *buf, size_t len, void *user)
{
	size_t n = src_len - src_pos;
	(void) user;
	if (n > len) n = len;
	memcpy(buf, src_data + src_pos, n);
	src_pos += n;
	return n;
}

static long bit_position(LHALH1Decoder *d)
{
	return 8 * (long) src_pos - (long) d->bit_stream_reader.bits;
}

/* ------------------------------------------------------------------ output */
static void arr_begin(const char *name) { printf(",\"%s\":[", name); }

static void flush_syms(void);

static void dump(LHALH1Decoder *d, long at)
{
	int i;
	flush_syms();
	printf("{\"e\":\"Dump\",\"at\":%ld,\"num_groups\":%u", at, d->num_groups);
#define FIELD(name, n, expr) arr_begin(name); for (i = 0; i < (int) (n); ++i) printf(i ? ",%u" : "%u", (unsigned) (expr)); printf("]");
	FIELD("leaf", NUM_TREE_NODES, d->nodes[i].leaf)
	FIELD("child_index", NUM_TREE_NODES, d->nodes[i].child_index)
	FIELD("parent", NUM_TREE_NODES, d->nodes[i].parent)
	FIELD("freq", NUM_TREE_NODES, d->nodes[i].freq)
	FIELD("group", NUM_TREE_NODES, d->nodes[i].group)
	FIELD("leaf_nodes", NUM_CODES, d->leaf_nodes[i])
	FIELD("groups", NUM_TREE_NODES, d->groups[i])
	FIELD("group_leader", NUM_TREE_NODES, d->group_leader[i])
	printf("}\n");
}

/* batching: symbols and their bit strings are collected and written as one Syms event */
static long batch_max;                  /* 0: one Sym event per symbol */
static unsigned *batch_sym;
static char *batch_bits;                /* JSON text of the bit arrays */
static size_t batch_n, batch_len, batch_cap;

static void flush_syms(void)
{
	size_t i;
	if (batch_n == 0) return;
	printf("{\"e\":\"Syms\",\"s\":[");
	for (i = 0; i < batch_n; ++i) printf(i ? ",%u" : "%u", batch_sym[i]);
	printf("],\"bits\":[%.*s]}\n", (int) batch_len, batch_bits);
	batch_n = 0; batch_len = 0;
}

static void sym_event(unsigned code, const unsigned char *data, long b0, long b1)
{
	long p;
	if (batch_max > 0) {
		size_t need = batch_len + 2 * (size_t) (b1 - b0) + 8;
		if (need > batch_cap) {
			batch_cap = 2 * need + 1024;
			batch_bits = realloc(batch_bits, batch_cap);
			if (batch_bits == NULL) exit(2);
		}
		if (batch_n) batch_bits[batch_len++] = ',';
		batch_bits[batch_len++] = '[';
		for (p = b0; p < b1; ++p) {
			if (p > b0) batch_bits[batch_len++] = ',';
			batch_bits[batch_len++] = (char) ('0' + ((data[p / 8] >> (7 - p % 8)) & 1));
		}
		batch_bits[batch_len++] = ']';
		batch_sym[batch_n++] = code;
		if ((long) batch_n >= batch_max) flush_syms();
		return;
	}
	printf("{\"e\":\"Sym\",\"s\":%u,\"bits\":[", code);
	for (p = b0; p < b1; ++p) {
		printf(p > b0 ? ",%d" : "%d", (data[p / 8] >> (7 - p % 8)) & 1);
	}
	printf("]}\n");
}

static LHALH1Decoder *new_decoder(void)
{
	/* lha_decoder.c: calloc(1, sizeof(LHADecoder) + dtype->extra_size) */
	LHALH1Decoder *d = calloc(1, sizeof(LHALH1Decoder));
	if (d == NULL) exit(2);
	lha_lh1_init(d, src_cb, NULL);
	printf("{\"e\":\"Init\",\"nc\":%d,\"limit\":%d,\"src\":\"%s\"}\n", (int) NUM_CODES, (int) (TREE_REORDER_LIMIT), LH1_SRC);
	dump(d, 0);
	return d;
}

/* ------------------------------------------------------------------ generator */
static uint64_t rng_state;
static unsigned rnd(unsigned n)
{
	rng_state ^= rng_state << 13; rng_state ^= rng_state >> 7; rng_state ^= rng_state << 17;
	return (unsigned) ((rng_state >> 11) % n);
}

static unsigned ramp_c, ramp_left;
static unsigned next_symbol(int kind)
{
	if (kind == -2) return NUM_CODES / 2;
	if (kind == -1) {
		if (ramp_left == 0) { ramp_c = (ramp_c + 1) % NUM_CODES; ramp_left = ramp_c + 1; }
		--ramp_left;
		return ramp_c;
	}
	if (kind >= 2 && rnd(4) != 0) return rnd(kind < NUM_CODES ? (unsigned) kind : NUM_CODES);
	return rnd(NUM_CODES);
}

int main(int argc, char **argv)
{
	LHALH1Decoder *d;
	long k = 0, n, every, lo = 1, hi = 0;
	const char *why = "count";

	if (argc >= 2 && !strncmp(argv[argc - 1], "batch=", 6)) {
		batch_max = atol(argv[argc - 1] + 6);
		if (batch_max > 0) {
			batch_sym = calloc((size_t) batch_max, sizeof *batch_sym);
			if (batch_sym == NULL) return 2;
		}
		--argc;
	}

	if (argc >= 5 && !strcmp(argv[1], "stream")) {
		FILE *f = fopen(argv[2], "rb");
		unsigned char *data;
		long len;
		if (f == NULL) { perror(argv[2]); return 2; }
		fseek(f, 0, SEEK_END); len = ftell(f); rewind(f);
		data = malloc(len + 1);
		if (data == NULL || fread(data, 1, len, f) != (size_t) len) return 2;
		fclose(f);
		n = atol(argv[3]); every = atol(argv[4]);
		if (argc >= 7) { lo = atol(argv[5]); hi = atol(argv[6]); }
		src_data = data; src_len = len; src_pos = 0;
		d = new_decoder();
		while (k < n) {
			uint16_t code;
			unsigned int offset;
			long b0 = bit_position(d);
			if (!read_code(d, &code)) { why = "read_code failed (end of stream)"; break; }
			++k;
			sym_event(code, data, b0, bit_position(d));
			if (k % every == 0 || (k >= lo && k <= hi)) dump(d, k);
			/* lha_lh1_read: a copy code is followed by an offset */
			if (code >= 0x100 && !read_offset(d, &offset)) { why = "read_offset failed (end of stream)"; break; }
		}
		if (!(k % every == 0 || (k >= lo && k <= hi))) dump(d, k);
		free(data);
	} else if (argc >= 6 && !strcmp(argv[1], "gen")) {
		static unsigned char bits[NUM_TREE_NODES / 8 + 8];
		int kind = atoi(argv[5]);
		rng_state = 0x9E3779B97F4A7C15ULL ^ ((uint64_t) atol(argv[2]) * 0x100000001B3ULL);
		if (rng_state == 0) rng_state = 1;
		n = atol(argv[3]); every = atol(argv[4]);
		if (argc >= 8) { lo = atol(argv[6]); hi = atol(argv[7]); }
		src_data = bits; src_len = 0; src_pos = 0;
		d = new_decoder();
		while (k < n) {
			unsigned want = next_symbol(kind), node, len = 0, i;
			static unsigned char rev[NUM_TREE_NODES];
			uint16_t code;
			long b0;
			/* the code of `want`, leaf to root */
			node = d->leaf_nodes[want];
			while (node != 0 && len < NUM_TREE_NODES) {
				unsigned parent = d->nodes[node].parent;
				if (parent >= NUM_TREE_NODES) break;        /* (only a broken tree) */
				rev[len++] = (unsigned char) (d->nodes[parent].child_index - node);
				node = parent;
			}
			memset(bits, 0, sizeof bits);
			for (i = 0; i < len; ++i) {
				if (rev[len - 1 - i]) bits[i / 8] |= (unsigned char) (0x80 >> (i % 8));
			}
			/* fresh bit reader over exactly these bits (zero padded to whole bytes + 4) */
			bit_stream_reader_init(&d->bit_stream_reader, src_cb, NULL);
			src_len = len / 8 + 5; src_pos = 0;
			b0 = bit_position(d);
			if (!read_code(d, &code)) { why = "read_code failed on generated bits"; break; }
			++k;
			sym_event(code, bits, b0, bit_position(d));
			if (k % every == 0 || (k >= lo && k <= hi)) dump(d, k);
		}
		if (!(k % every == 0 || (k >= lo && k <= hi))) dump(d, k);
	} else {
		fprintf(stderr, "usage: %s stream FILE MAXSYMS EVERY [LO HI] | gen SEED COUNT EVERY KIND [LO HI]\n", argv[0]);
		return 2;
	}
	flush_syms();
	printf("{\"e\":\"End\",\"n\":%ld,\"why\":\"%s\"}\n", k, why);
	free(d);
	return 0;
}
