/* Driver for the decoder front end (DecoderApi.tla).
 *
 * Reads a job file; each line is one execution:
 *   script <input> <ref> <declared> <block> <maxread> <sizes: a,b,c|-> <ops: R5,M,R0,L,C,...>
 *   real   <input> <ref> <declared> <method> <path> <ops>
 * and writes one ndjson trace (Reset/New/Read/Monitor/Len/Crc/End) to stdout.
 *
 * "script": a synthetic LHADecoderType whose read() plays the chunk sizes (bytes numbered
 * consecutively mod 256, as MC_DecoderApi!MkScript); after the script it returns 0.
 * "real": the repository's decoder for <method>, behind a wrapper type that records every chunk
 * the algorithm produces.  Output buffers are malloc'd to exactly the requested size so that
 * ASan sees any byte written beyond what was asked for. */
#include <stdio.h>
#include <stdlib.h>
#include <string.h>
#include <stdint.h>
#include <unistd.h>
#include "lib/lha_decoder.h"

#define MAXINNER (1 << 20)
static struct { size_t off, n; } inner[MAXINNER];
static uint8_t *innerbuf; static size_t innercap, innerlen; static int ninner;
static unsigned cbs[1 << 16]; static int ncb; static unsigned cbtotal;
static int full_bytes = 1;
static int log_data;   /* argv[2] == "data": New events of real decoders carry the compressed bytes */

static void rec_inner(const uint8_t *b, size_t n)
{
	if (ninner >= MAXINNER) {
		/* the front end keeps calling the algorithm (more than a million times within one read): not a failure of the driver but an
		   observation - an event no action of the trace specs matches */
		printf("\n{\"e\":\"Runaway\",\"inner_calls\":%d}\n", ninner); fflush(stdout); _exit(0);
	}
	if (innerlen + n > innercap) { innercap = (innerlen + n) * 2 + 4096; innerbuf = realloc(innerbuf, innercap); }
	memcpy(innerbuf + innerlen, b, n);
	inner[ninner].off = innerlen; inner[ninner].n = n; ninner++; innerlen += n;
}

/* ---- synthetic type ---- */
static size_t sizes[256]; static int nsizes, sidx; static unsigned counter;
static int syn_init(void *e, LHADecoderCallback cb, void *cbd) { (void) e; (void) cb; (void) cbd; return 1; }
static size_t syn_read(void *e, uint8_t *buf)
{
	size_t n = sidx < nsizes ? sizes[sidx] : 0;
	(void) e;
	if (sidx < nsizes) sidx++;
	for (size_t i = 0; i < n; i++) buf[i] = (uint8_t) (++counter % 256);
	rec_inner(buf, n);
	return n;
}
static LHADecoderType syn = { syn_init, NULL, syn_read, 0, 0, 0 };

/* ---- wrapper around a real type ---- */
static LHADecoderType *orig; static LHADecoderType wrap;
static size_t wrap_read(void *e, uint8_t *buf) { size_t n = orig->read(e, buf); rec_inner(buf, n); return n; }

static uint8_t *data; static size_t dlen, dpos;
static size_t src(void *buf, size_t n, void *u)
{
	size_t k = dlen - dpos < n ? dlen - dpos : n;
	(void) u;
	memcpy(buf, data + dpos, k); dpos += k;
	return k;
}

static void cb(unsigned int b, unsigned int t, void *u) { (void) u; if (ncb < (1 << 16)) cbs[ncb++] = b; cbtotal = t; }

static void starter(unsigned int b, unsigned int t, void *u)
{
	static int nested;
	cb(b, t, NULL);          /* what this handler is told is part of the one sequence the decoder announces */
	if (!nested) { nested = 1; lha_decoder_monitor((LHADecoder *) u, cb, NULL); nested = 0; }
}
static void pcbs(void)
{
	printf("\"cbs\":[");
	for (int j = 0; j < ncb; j++) printf("%s%u", j ? "," : "", cbs[j]);
	printf("]");
	ncb = 0;
}
static void pbytes(const uint8_t *b, size_t n)
{
	putchar('[');
	for (size_t j = 0; j < n; j++) printf("%s%u", j ? "," : "", b[j]);
	putchar(']');
}

static void run_ops(LHADecoder *d, char *ops, size_t declared)
{
	char *save = NULL; size_t total = 0; int complete = 0;
	for (char *op = strtok_r(ops, ",", &save); op; op = strtok_r(NULL, ",", &save)) {
		if (op[0] == 'W') {
			/* the monitor is attached from inside a progress callback: a one-shot "start" handler that, when first called, installs
			 * the handler used from then on.  Both handlers log what they are told: together that is the sequence a single handler attached at this
			 * point would see (event Monitor). */
			lha_decoder_monitor(d, starter, d);
			printf("{\"e\":\"Monitor\","); pcbs(); printf(",\"total\":%u}\n", cbtotal);
		} else if (op[0] == 'M') {
			lha_decoder_monitor(d, cb, NULL);
			printf("{\"e\":\"Monitor\","); pcbs(); printf(",\"total\":%u}\n", cbtotal);
		} else if (op[0] == 'L') {
			printf("{\"e\":\"Len\",\"v\":%zu}\n", lha_decoder_get_length(d));
		} else if (op[0] == 'C') {
			printf("{\"e\":\"Crc\",\"v\":%u}\n", (unsigned) lha_decoder_get_crc(d));
		} else if (op[0] == 'R') {
			size_t k = strtoul(op + 1, NULL, 10);
			uint8_t *out = malloc(k ? k : 1);
			ninner = 0; innerlen = 0;
			size_t n = lha_decoder_read(d, out, k);
			printf("{\"e\":\"Read\",\"k\":%zu,\"n\":%zu,\"inner\":[", k, n);
			for (int j = 0; j < ninner; j++) { if (j) putchar(','); pbytes(innerbuf + inner[j].off, inner[j].n); }
			printf("],\"bytes\":"); pbytes(out, n <= k ? n : k); putchar(','); pcbs(); printf("}\n");
			complete = (total + k >= declared) || n < k;
			total += n;
			free(out);
		}
	}
	printf("{\"e\":\"End\",\"complete\":%s}\n", complete ? "true" : "false");
}

int main(int argc, char **argv)
{
	char line[1 << 16];
	FILE *jf = argc > 1 ? fopen(argv[1], "r") : stdin;
	if (!jf) { perror("jobs"); return 2; }
	(void) full_bytes;
	log_data = argc > 2 && !strcmp(argv[2], "data");
	while (fgets(line, sizeof line, jf)) {
		char kind[16], a1[4096], a2[4096], ops[1 << 15];
		unsigned long input, ref, declared, block, maxread;
		if (sscanf(line, "%15s", kind) != 1) continue;
		if (!strcmp(kind, "script")) {
			if (sscanf(line, "%*s %lu %lu %lu %lu %lu %4095s %32767s", &input, &ref, &declared, &block, &maxread, a1, ops) != 7) { fprintf(stderr, "bad job: %s", line); return 2; }
			nsizes = 0; sidx = 0; counter = 0;
			if (strcmp(a1, "-")) { char *sv = NULL; for (char *t = strtok_r(a1, ",", &sv); t; t = strtok_r(NULL, ",", &sv)) sizes[nsizes++] = strtoul(t, NULL, 10); }
			syn.max_read = maxread; syn.block_size = block;
			printf("{\"e\":\"Reset\",\"input\":%lu,\"ref\":%s}\n", input, ref ? "true" : "false");
			LHADecoder *d = lha_decoder_new(&syn, src, NULL, declared);
			printf("{\"e\":\"New\",\"declared\":%lu,\"block\":%lu,\"maxread\":%lu}\n", declared, block, maxread);
			run_ops(d, ops, declared);
			lha_decoder_free(d);
		} else if (!strcmp(kind, "real")) {
			if (sscanf(line, "%*s %lu %lu %lu %4095s %4095s %32767s", &input, &ref, &declared, a1, a2, ops) != 6) { fprintf(stderr, "bad job: %s", line); return 2; }
			FILE *f = fopen(a2, "rb");
			if (!f) { perror(a2); return 2; }
			free(data); data = malloc(1 << 24); dlen = fread(data, 1, 1 << 24, f); fclose(f); dpos = 0;
			orig = lha_decoder_for_name(a1);
			if (!orig) { fprintf(stderr, "no decoder %s\n", a1); return 2; }
			wrap = *orig; wrap.read = wrap_read;
			printf("{\"e\":\"Reset\",\"input\":%lu,\"ref\":%s}\n", input, ref ? "true" : "false");
			LHADecoder *d = lha_decoder_new(&wrap, src, NULL, declared);
			if (!d) { fprintf(stderr, "decoder_new failed\n"); return 2; }
			printf("{\"e\":\"New\",\"declared\":%lu,\"block\":%zu,\"maxread\":%zu,\"method\":\"%s\"", declared, wrap.block_size, wrap.max_read, a1);
			if (log_data) { printf(",\"data\":"); pbytes(data, dlen); }
			printf("}\n");
			run_ops(d, ops, declared);
			lha_decoder_free(d);
		}
		fflush(stdout);
	}
	return 0;
}
