/* Driver for header parsing (Header.tla / Trace_Header.tla).
 * Input file: first line "dummy <hex>" (a valid header of an empty member that precedes every
 * case, so that the input stream is already past its lead-in scan when the case is parsed),
 * then one line "case <hex>" per case.  For each case the stream is dummy ++ case; the driver
 * calls lha_reader_next_file three times (dummy, the case, and once more) and logs the header
 * returned for the case with every field, or ok=false. */
#include <stdio.h>
#include <stdlib.h>
#include <string.h>
#include <stdint.h>
#include "lib/public/lhasa.h"

static uint8_t *buf; static size_t blen, bpos;
static int cb_read(void *h, void *b, size_t n) { size_t k = blen - bpos < n ? blen - bpos : n; (void) h; memcpy(b, buf + bpos, k); bpos += k; return (int) k; }
static int cb_skip(void *h, size_t n) { (void) h; if (blen - bpos < n) { bpos = blen; return 0; } bpos += n; return 1; }
static LHAInputStreamType cbt = { cb_read, cb_skip, NULL };

static size_t unhex(const char *s, uint8_t *out)
{
	size_t n = 0;
	while (s[0] && s[1] && s[0] != '\n') { unsigned v; sscanf(s, "%2x", &v); out[n++] = (uint8_t) v; s += 2; }
	return n;
}
static void pstr(const char *k, const char *s)
{
	printf(",\"%s\":[", k);
	if (!s) printf("-1");
	else for (size_t i = 0; s[i]; i++) printf("%s%u", i ? "," : "", (unsigned char) s[i]);
	printf("]");
}
static void pw32(const char *k, unsigned long long v) { printf(",\"%s\":[%llu,%llu]", k, (v >> 16) & 0xffff, v & 0xffff); }
static void pw64(unsigned long long v, int first) { printf("%s%llu,%llu,%llu,%llu", first ? "" : ",", v & 0xffff, (v >> 16) & 0xffff, (v >> 32) & 0xffff, (v >> 48) & 0xffff); }

static void dump_fields(LHAFileHeader *h)
{
	printf(",\"level\":%u,\"method\":[%u,%u,%u,%u,%u],\"os\":%u,\"crc\":%u", h->header_level,
	       (unsigned char) h->compress_method[0], (unsigned char) h->compress_method[1], (unsigned char) h->compress_method[2],
	       (unsigned char) h->compress_method[3], (unsigned char) h->compress_method[4], h->os_type, h->crc);
	pw32("packed", h->compressed_length); pw32("length", h->length); pw32("time", h->timestamp);
	pstr("path", h->path); pstr("filename", h->filename); pstr("target", h->symlink_target);
	pstr("user", h->unix_username); pstr("group", h->unix_group);
	printf(",\"hasperms\":%s,\"hasids\":%s,\"hasccrc\":%s,\"haswin\":%s,\"hasos9\":%s",
	       h->extra_flags & LHA_FILE_UNIX_PERMS ? "true" : "false", h->extra_flags & LHA_FILE_UNIX_UID_GID ? "true" : "false",
	       h->extra_flags & LHA_FILE_COMMON_CRC ? "true" : "false", h->extra_flags & LHA_FILE_WINDOWS_TIMESTAMPS ? "true" : "false",
	       h->extra_flags & LHA_FILE_OS9_PERMS ? "true" : "false");
	printf(",\"perms\":%u,\"uid\":%u,\"gid\":%u,\"os9\":%u,\"ccrc\":%u,\"rawlen\":%zu,\"win\":[", h->unix_perms, h->unix_uid, h->unix_gid,
	       h->os9_perms, h->common_crc, h->raw_data_len);
	if (h->extra_flags & LHA_FILE_WINDOWS_TIMESTAMPS) { pw64(h->win_creation_time, 1); pw64(h->win_modification_time, 0); pw64(h->win_access_time, 0); }
	printf("]");
}

int main(int argc, char **argv)
{
	static char line[1 << 22]; static uint8_t dummy[4096], cs[1 << 21]; size_t dl = 0;
	FILE *f = argc > 1 ? fopen(argv[1], "r") : stdin;
	if (!f) return 2;
	while (fgets(line, sizeof line, f)) {
		if (!strncmp(line, "dummy ", 6)) { dl = unhex(line + 6, dummy); continue; }
		if (!strncmp(line, "arch ", 5)) {
			/* every header of an archive file, as the library returns them: one Arch line */
			char path[4096]; FILE *af; int first = 1;
			sscanf(line + 5, "%4095s", path);
			af = fopen(path, "rb");
			if (!af) { perror(path); return 2; }
			free(buf); buf = malloc(1 << 24); blen = fread(buf, 1, 1 << 24, af); fclose(af); bpos = 0;
			LHAInputStream *st = lha_input_stream_new(&cbt, NULL);
			LHAReader *r = lha_reader_new(st);
			LHAFileHeader *h;
			printf("{\"e\":\"Arch\",\"members\":[");
			while ((h = lha_reader_next_file(r)) != NULL) { printf("%s{\"ok\":true", first ? "" : ","); dump_fields(h); printf("}"); first = 0; }
			printf("]}\n");
			lha_reader_free(r); lha_input_stream_free(st);
			continue;
		}
		if (strncmp(line, "case ", 5)) continue;
		size_t cl = unhex(line + 5, cs);
		free(buf); buf = malloc(dl + cl + 1); memcpy(buf, dummy, dl); memcpy(buf + dl, cs, cl); blen = dl + cl; bpos = 0;
		LHAInputStream *st = lha_input_stream_new(&cbt, NULL);
		LHAReader *r = lha_reader_new(st);
		LHAFileHeader *h0 = lha_reader_next_file(r);
		if (!h0) {
			/* the well-formed header that only serves to get past the signature scan was itself not returned: that is an
			 * observation about the implementation (reported as a case of its own), not a failure of the harness */
			printf("{\"e\":\"Hdr\",\"in\":[");
			for (size_t i = 0; i < dl; i++) printf("%s%u", i ? "," : "", (unsigned char) dummy[i]);
			printf("],\"ok\":false,\"dummy\":true}\n");
			lha_reader_free(r); lha_input_stream_free(st);
			continue;
		}
		LHAFileHeader *h = lha_reader_next_file(r);
		printf("{\"e\":\"Hdr\",\"in\":[");
		for (size_t i = 0; i < cl; i++) printf("%s%u", i ? "," : "", cs[i]);
		printf("],\"ok\":%s", h ? "true" : "false");
		if (h) {
			dump_fields(h);
			/* the first bytes of the member as the caller can read them (stored methods: the data) */
			{ uint8_t d[8]; size_t n = lha_reader_read(r, d, sizeof d); printf(",\"data\":["); for (size_t i = 0; i < n; i++) printf("%s%u", i ? "," : "", d[i]); printf("]"); }
		}
		LHAFileHeader *h3 = lha_reader_next_file(r);
		printf(",\"more\":%s}\n", h3 ? "true" : "false");
		lha_reader_free(r); lha_input_stream_free(st);
	}
	return 0;
}
