/* Allocation / FILE-handle interposition for drivers (link with
 * -Wl,--wrap=malloc,--wrap=calloc,--wrap=realloc,--wrap=free,--wrap=strdup,--wrap=fopen,--wrap=fdopen,--wrap=fclose).
 * Only allocations made while verif_alloc_active != 0 (i.e. inside library calls) are
 * recorded, counted and subject to fault injection. */
#ifndef VERIF_ALLOC_SHIM_H
#define VERIF_ALLOC_SHIM_H
#include <stdio.h>
extern int verif_alloc_active;      /* set by the driver around library calls */
extern long verif_alloc_count;      /* allocations attempted while active */
extern long verif_fail_at;          /* fail the k-th allocation (1-based); 0 = never */
extern int verif_alloc_log;         /* print Alloc/Dealloc events to stdout */
extern long verif_live_bytes, verif_peak_bytes, verif_live_blocks, verif_live_files;
extern long verif_failed_in_call;   /* number of injected failures since last reset */
void verif_alloc_reset(void);
/* ids of blocks still live (up to max); returns count */
int verif_alloc_live_ids(long *ids, int max);
#endif
