"""Access to the repository's third-party corpus (test/archives, test/compressed)."""
import glob, os
import vcommon as V
import lhaparse

_cache = {}


def all_members():
    """[(archive path, member dict, payload bytes)] for every member the independent walker finds"""
    if "m" in _cache:
        return _cache["m"]
    out = []
    for f in sorted(glob.glob(os.path.join(V.REPO, "test", "archives", "**", "*"), recursive=True)):
        if os.path.isdir(f) or f.endswith("README"):
            continue
        b = open(f, "rb").read()
        try:
            ms = lhaparse.members(b)
        except Exception:
            continue
        for m in ms:
            out.append((f, m, lhaparse.payload(b, m)))
    _cache["m"] = out
    return out


METHODS = ["-lz4-", "-lz5-", "-lzs-", "-lh0-", "-lh1-", "-lh4-", "-lh5-", "-lh6-", "-lh7-", "-lhx-", "-lk7-",
           "-pm0-", "-pm1-", "-pm2-"]


def sample_payloads(minpacked=200):
    """one representative third-party payload per decoder name: {name: (source, payload, length, crc)}"""
    res = {}
    for f, m, p in all_members():
        meth = m["method"]
        if meth == "-lh7-" and "lhark" in f:
            meth = "-lk7-"
        if meth not in METHODS or m["packed"] < minpacked:
            continue
        if meth not in res or len(res[meth][1]) > len(p):
            res[meth] = (f + ":" + m["name"].decode("latin1"), p, m["length"], m["crc"])
    return res
