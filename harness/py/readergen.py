"""Generation of archives + ground truth for Reader-level trace validation (C15, C20, C07 ...)."""
import os, json, random
import arc, corpus
import vcommon as V

SUPPORTED = set(corpus.METHODS)


def _hex(b):
    return b.hex() if b else "-"


class G:
    """generator-level member: what the archive is *meant* to contain"""

    def __init__(self, kind, path, data=b"", method=b"-lh0-", payload=None, level=2, target=None,
                 crc=None, length=None, packed=None, avail=None, os=None, perms="default", time=1000000000):
        self.kind, self.path, self.data, self.method = kind, bytes(path), bytes(data), bytes(method)
        self.payload = self.data if payload is None else bytes(payload)
        self.level, self.target = level, target
        self.crc = arc.crc16(self.data) if crc is None else crc
        self.length = len(self.data) if length is None else length
        self.packed = len(self.payload) if packed is None else packed
        self.avail = avail            # None: all bytes present
        self.perms, self.time = perms, time
        self.os = os
        self.outer = None          # Mac members: what the caller obtains (envelope stripped), if different from data

    def member(self):
        kw = {}
        if self.kind == "file":
            p = 0o100644 if self.perms == "default" else self.perms
            m = arc.unix_file(self.path, self.data, level=self.level, method=self.method, payload=self.payload,
                              perms=p, time=self.time, length=self.length, crc=self.crc, packed=self.packed)
            if self.level == 0:
                # level 0 has no extended headers: keep the whole path in the in-header name
                m.name = self.path
            if self.os is not None:
                m.os = self.os
            return m
        if self.kind == "dir":
            p = 0o40755 if self.perms == "default" else self.perms
            return arc.unix_dir(self.path, level=max(self.level, 1), perms=p, time=self.time)
        return arc.unix_symlink(self.path, self.target, level=max(self.level, 1), time=self.time)

    def raw(self):
        b = self.member().bytes()
        if self.avail is not None:
            b = b[:len(b) - (len(self.payload) - self.avail)]
        return b

    def dangerous(self):
        t = self.target or b""
        return t.startswith(b"/") or b".." in t.split(b"/")

    def truth(self):
        """the member as the library must present it (ground truth record for Reader.tla)"""
        if self.kind == "dir":
            full = self.path.rstrip(b"/") + b"/"
            comps = [c.decode("latin1") for c in full.strip(b"/").split(b"/")]
            kind = "dir"
        else:
            full = self.path
            comps = [c.decode("latin1") for c in self.path.split(b"/")[:-1]]
            kind = "file" if self.kind == "file" else ("dlink" if self.dangerous() else "slink")
        sup = self.kind == "file" and self.method.decode("latin1") in SUPPORTED
        data = self.data[:self.length] if sup else b""
        if self.outer is not None:
            # MacBinary: the verdict is about the whole inner stream, the bytes handed out are the data fork
            good = sup and len(data) == self.length and arc.crc16(data) == self.crc
            # what MacBinary.tla needs to say for itself what the caller obtains (Trace_Reader compares at Reset)
            inner = self.payload[:self.packed][:self.length] if sup else b""
            mac = {"inner": list(inner), "fname": list(self.path.split(b"/")[-1]), "hlen": [(self.length >> 16) & 0xFFFF, self.length & 0xFFFF],
                   "ts": [(self.time >> 16) & 0xFFFF, self.time & 0xFFFF]}
            return {"id": _hex(full), "kind": kind, "dirp": comps, "plen": len(full), "packed": self.packed,
                    "avail": self.packed if self.avail is None else self.avail, "sup": sup, "data": list(self.outer), "good": good,
                    "macfail": bool(getattr(self, "macfail", False)), "mac": mac}
        good = sup and len(data) == self.length and arc.crc16(data) == self.crc and (self.avail is None or self.avail == self.packed)
        return {"id": _hex(full), "kind": kind, "dirp": comps, "plen": len(full), "packed": self.packed,
                "avail": self.packed if self.avail is None else self.avail, "sup": sup,
                "data": list(data), "good": good}


_pool = {}


def compressed_pool():
    """real third-party payloads whose plaintext is known (the GPL text of test/compressed/lh0.bin)"""
    if _pool:
        return _pool
    gpl = open(os.path.join(V.REPO, "test", "compressed", "lh0.bin"), "rb").read()
    want = arc.crc16(gpl)
    for f, m, p in corpus.all_members():
        meth = m["method"]
        if meth == "-lh7-" and "lhark" in f:
            meth = "-lk7-"
        if m["length"] == len(gpl) and m["crc"] == want and meth not in _pool and meth in SUPPORTED:
            _pool[meth] = (p, gpl)
    pm2 = os.path.join(V.REPO, "test", "compressed", "pm2.bin")
    if os.path.exists(pm2):
        _pool["-pm2-"] = (open(pm2, "rb").read(), gpl)
    return _pool


def mac_member(rng, path, level=1):
    """a member written by MacLHA: OS type 'm', with a MacBinary envelope, without one, or with an
    envelope announced (>= 128 bytes declared) but less than 128 bytes of data behind it"""
    import struct
    nm = path.split(b"/")[-1]
    data = bytes(rng.randrange(256) for _ in range(rng.choice([0, 5, 200])))
    mt = 1000000000
    q = rng.random()
    if q < 0.5:
        h = bytearray(128)
        h[1] = len(nm); h[2:2 + len(nm)] = nm
        struct.pack_into(">I", h, 0x53, len(data)); struct.pack_into(">I", h, 0x5f, mt + 2082844800)
        body = bytes(h) + data
        body += b"\0" * ((-len(body)) % 128)
        g = G("file", path, data=body, level=level, time=mt, os=ord("m"))
        g.outer = data if len(data) > 0 else body[128:128]       # data fork only (resource fork absent)
        if len(data) == 0:
            g.outer = b""
        return g
    if q < 0.75:
        g = G("file", path, data=data, level=level, time=mt, os=ord("m"))      # Mac member without envelope
        g.outer = data
        return g
    # announced 300 bytes, only 64 present: the envelope cannot even be read
    g = G("file", path, data=b"A" * 64, level=level, time=mt, os=ord("m"))
    g.length = 300
    g.outer = b""
    g.macfail = True
    return g


def random_archive(rng, nmax=6, with_compressed=True, allow_bad=True, with_mac=True, bare_dirs=False):
    """a directory-structured archive: dirs followed by their contents, files, links"""
    ms = []
    dirs = [b""]
    alldirs = []
    names = [b"a", b"b", b"c", b"dd", b"e1", b"longer_name"]
    used = set()
    n = rng.randint(1, nmax)
    pool = compressed_pool() if with_compressed else {}

    def fresh(prefix):
        # siblings whose name merely starts with the name of an earlier directory ("a/" ... "ab/y"):
        # being inside a directory is a matter of path components, not of string prefixes
        if len(alldirs) > 0 and rng.random() < 0.2:
            stem = rng.choice(alldirs) + rng.choice([b"b", b"0", b"_"])
            nm = stem + (b"/y" if rng.random() < 0.5 else b"")
            if nm not in used and stem not in used:
                used.add(nm)
                used.add(stem)         # (the implied directory: no file may take its name later)
                if nm != stem:
                    # the library's own extraction does not create missing parents: give the directory its entry
                    ms.append(G("dir", stem, level=2))
                return nm
        for _ in range(50):
            nm = prefix + rng.choice(names) + (b"%d" % rng.randrange(100) if rng.random() < 0.5 else b"")
            if nm not in used:
                used.add(nm)
                return nm
        return prefix + b"x%d" % len(used)

    while len(ms) < n:
        d = rng.choice(dirs)
        q = rng.random()
        if q < 0.22:
            p = fresh(d)
            ms.append(G("dir", p, level=rng.choice([1, 2, 2, 3]), perms=rng.choice(["default", 0o40700, 0o40555, None])))
            if bare_dirs and rng.random() < 0.35:
                # a directory entry that records nothing at all (no permissions, no owner, time stamp 0): it is re-presented like any other
                ms[-1].perms, ms[-1].time = None, 0
            dirs.append(p + b"/")
            alldirs.append(p)
            if rng.random() < 0.5:
                dirs = [x for x in dirs if p.startswith(x.rstrip(b"/")) or x == b""] + [p + b"/"]
        elif q < 0.34:
            tgt = rng.choice([b"f", b"a/b", b"../x", b"/etc/passwd", b"..", b"x/../y", b"."] * 3 + [     # (the plain shapes stay the most frequent)
                              # the shapes next to "a component that is '..'": two-character components, components that begin or end with two dots,
                              # '..' last, before a final '/', after an empty component
                              b"ab/c", b"a/bc", b"..a/b", b"a/..b", b"a../b", b".../x", b"ab", b"..a", b"x/..", b"a/../", b"..//x", b"./.."])
            ms.append(G("link", fresh(d), target=tgt, level=rng.choice([1, 2])))
        else:
            p = fresh(d)
            lvl = rng.choice([0, 1, 1, 2, 2, 3])
            if lvl == 0:
                p = p.split(b"/")[-1] if rng.random() < 0.5 else p
                if p in used and b"/" not in p:
                    p = p + b"%d" % len(used)
                used.add(p)
            if with_mac and rng.random() < 0.12 and lvl >= 1:
                ms.append(mac_member(rng, p, lvl))
                continue
            if pool and rng.random() < 0.45:
                meth = rng.choice(sorted(pool))
                payload, plain = pool[meth]
                ln = rng.choice([0, 1, 17, 64, 200, 300])
                mm = meth.encode()
                g = G("file", p, data=plain[:ln], method=(b"-lh7-" if mm == b"-lk7-" else mm), payload=payload, level=lvl)
                if mm == b"-lk7-":
                    continue  # LHARK members need os type 'K' at level 1: built separately
                ms.append(g)
            else:
                data = bytes(rng.randrange(256) for _ in range(rng.choice([0, 1, 5, 64, 130])))
                g = G("file", p, data=data, method=rng.choice([b"-lh0-", b"-lh0-", b"-lz4-", b"-pm0-"]), level=lvl)
                if allow_bad:
                    z = rng.random()
                    if z < 0.08:
                        g.crc ^= 1 << rng.randrange(16)
                    elif z < 0.14:
                        g.length += rng.choice([1, 5])
                    elif z < 0.2 and g.length > 0:
                        g.length -= 1
                    elif z < 0.26:
                        g.method = rng.choice([b"-lh2-", b"-lh3-", b"-lh9-"])
                ms.append(g)
    # (truncated archives are the business of C13/C16, where the reference run supplies what a
    #  truncated member yields; here every member is complete)
    return ms


def write_case(dirpath, tag, ms, policy, extra=None):
    """writes <tag>.lzh and <tag>.gt.json; returns (archive path, gt path)"""
    a = os.path.join(dirpath, tag + ".lzh")
    g = os.path.join(dirpath, tag + ".gt.json")
    raw = b"".join(m.raw() for m in ms)
    if not (ms and ms[-1].avail is not None):
        raw += b"\0"
    open(a, "wb").write(raw)
    gt = {"e": "Reset", "case": tag, "policy": policy, "arc": [m.truth() for m in ms]}
    if extra:
        gt.update(extra)
    open(g, "w").write(json.dumps(gt, separators=(",", ":")) + "\n")
    return a, g


def random_ops(rng, nmembers, free_early=0.1, policy_switch=0.0):
    """caller discipline of C15/C20: per entry at most one decode operation (reads in pieces | check |
    extract) and one extract; calls continue after the end is reached"""
    ops = []
    steps = nmembers + rng.randint(1, 6) + nmembers  # room for re-presented entries and calls after the end
    for _ in range(steps):
        ops.append("N")
        q = rng.random()
        if q < 0.2:
            pass
        elif q < 0.4:
            for _ in range(rng.randint(1, 4)):
                ops.append("R%d" % rng.choice([0, 1, 2, 3, 7, 16, 64, 100, 1000]))
        elif q < 0.5:
            ops.append("A%d" % rng.choice([1, 5, 64, 4096]))
        elif q < 0.65:
            ops.append("C")
        else:
            ops.append("X")
        if policy_switch and rng.random() < policy_switch:
            ops.append("P" + rng.choice(["plain", "eod", "eof"]))     # lha_reader_set_dir_policy in the middle of the archive
        if rng.random() < free_early / max(steps, 1) * 3:
            ops.append("Q")
            break
    return ops


def policy_switch_cases():
    """lha_reader_set_dir_policy in the middle of an archive, while extracted directories are waiting to be presented again:
    (members, initial policy, operations)"""
    out = []
    for first in ("eod", "eof", "plain"):
        for second in ("plain", "eod", "eof"):
            if first == second:
                continue
            for at in (1, 2, 4):
                ms = [G("dir", b"d"), G("file", b"d/f.txt", data=b"f"), G("dir", b"d/sub"), G("file", b"d/sub/g.txt", data=b"g"), G("file", b"z.txt", data=b"z")]
                ops = []
                for i in range(len(ms)):
                    ops += ["N", "X"]
                    if i + 1 == at:
                        ops.append("P" + second)
                ops += ["N", "X", "N", "X", "N", "N"]
                out.append((ms, first, ops))
                out.append((ms, first, ops[:ops.index("P" + second) + 1]))        # ... and the archive abandoned right after the switch
    return out
