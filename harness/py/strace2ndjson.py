"""strace output -> ndjson events for Trace_Extract.  Purely syntactic: one event per traced call
after the archive has been opened; paths are split into components; nothing is inferred."""
import re, json

CALL = re.compile(r'^(\d+)\s+(\w+)\((.*)\)\s+=\s+(-?\d+|\?)(?:\s+(E\w+))?')
STR = re.compile(r'"((?:[^"\\]|\\.)*)"')


def unesc(s):
    out = bytearray()
    i = 0
    while i < len(s):
        c = s[i]
        if c == "\\" and i + 1 < len(s):
            n = s[i + 1]
            if n in "01234567":
                j = i + 1
                k = j
                while k < len(s) and k < j + 3 and s[k] in "01234567":
                    k += 1
                out.append(int(s[j:k], 8) & 255)
                i = k
                continue
            if n == "x":
                out.append(int(s[i + 2:i + 4], 16))
                i += 4
                continue
            out.append({"n": 10, "t": 9, "r": 13, "\\": 92, '"': 34, "v": 11, "f": 12, "a": 7, "b": 8, "e": 27}.get(n, ord(n)))
            i += 2
            continue
        out += c.encode("latin1", "replace")
        i += 1
    return bytes(out)


def P(b):
    """path record: components as hex strings (names may hold any byte)"""
    comps = [c.hex() for c in b.split(b"/") if c != b""]
    # '.' and '..' keep their meaning for resolution: use the literal names
    comps = ["." if c == "2e" else ".." if c == "2e2e" else c for c in comps]
    return {"c": comps, "abs": b.startswith(b"/"), "trail": b.endswith(b"/") and len(b) > 1}


MUTATING = {"mkdir", "unlink", "creat", "symlink", "chmod", "chown", "utime", "fchmod", "fchown", "rmdir", "rename", "link", "truncate", "write"}


def convert(strace_path, archive_path, ignore_abs_prefixes=("/etc", "/usr", "/lib", "/proc", "/sys", "/dev")):
    ev = []
    started = False
    for line in open(strace_path, errors="replace"):
        m = CALL.match(line.strip())
        if not m:
            continue
        call, args, ret, errno = m.group(2), m.group(3), m.group(4), m.group(5) or ""
        if ret == "?":
            continue
        ret = int(ret)
        strs = [unesc(s) for s in STR.findall(args)]
        if not started:
            if call == "openat" and strs and strs[0] == archive_path.encode():
                started = True
            continue
        res = "ok" if ret >= 0 else errno
        if call in ("mkdir", "unlink", "rmdir", "chmod", "chown", "lchown", "truncate"):
            e = {"e": "Sys", "call": "chown" if call == "lchown" else call, "p": P(strs[0]), "res": res}
            if call in ("mkdir", "chmod"):
                e["mode"] = int(args.rsplit(",", 1)[1].strip(), 8) & 0o7777
            ev.append(e)
        elif call == "symlink":
            ev.append({"e": "Sys", "call": "symlink", "t": P(strs[0]), "traw": strs[0].hex(), "p": P(strs[1]), "res": res})
        elif call in ("rename", "link"):
            ev.append({"e": "Sys", "call": call, "p": P(strs[0]), "p2": P(strs[1]), "res": res})
        elif call in ("openat", "open"):
            path = strs[0] if strs else b""
            if "O_CREAT" in args or "O_WRONLY" in args or "O_RDWR" in args or "O_TRUNC" in args:
                mode = 0
                mm = re.search(r",\s*(0[0-7]+)\s*$", args)
                if mm:
                    mode = int(mm.group(1), 8)
                ev.append({"e": "Sys", "call": "creat", "p": P(path), "excl": "O_EXCL" in args, "creatflag": "O_CREAT" in args,
                           "trunc": "O_TRUNC" in args, "mode": mode & 0o7777, "fd": ret, "res": res})
            elif not any(path.startswith(x.encode()) for x in ignore_abs_prefixes):
                ev.append({"e": "Sys", "call": "openr", "p": P(path), "fd": ret, "res": res})
        elif call in ("utimensat", "utime", "utimes", "futimesat"):
            if strs:
                ev.append({"e": "Sys", "call": "utime", "p": P(strs[0]), "res": res})
        elif call in ("fchmod", "fchown"):
            a = args.split(",")
            e = {"e": "Sys", "call": call, "fd": int(a[0]), "res": res}
            if call == "fchmod":
                e["mode"] = int(a[1].strip(), 8) & 0o7777
            ev.append(e)
        elif call == "write":
            fd = int(args.split(",", 1)[0])
            if fd >= 3:
                ev.append({"e": "Sys", "call": "write", "fd": fd, "res": res})
        elif call in ("newfstatat", "stat", "lstat", "fstatat64"):
            if call == "newfstatat" and "AT_EMPTY_PATH" in args:
                continue
            if not strs or strs[0] == b"":
                continue
            if any(strs[0].startswith(x.encode()) for x in ignore_abs_prefixes):
                continue
            ty = "dir" if "S_IFDIR" in args else "link" if "S_IFLNK" in args else ("file" if ret == 0 else "")
            ev.append({"e": "Sys", "call": "stat", "p": P(strs[0]), "follow": "AT_SYMLINK_NOFOLLOW" not in args and call != "lstat", "ty": ty, "res": res})
    return ev
