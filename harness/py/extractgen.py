"""Running the command line tool under strace in a fresh directory and turning the run into a
trace for Trace_Extract (C10, C06)."""
import json, os, shutil, stat, subprocess, random
import vcommon as V
import arc, strace2ndjson as S2

UNPRIV = 65534


def loc_of(path):
    """absolute path -> location (list of hex-encoded components)"""
    if isinstance(path, str):
        path = path.encode()
    return [c.hex() for c in path.split(b"/") if c]


def walk_tree(root):
    """final tree below root: list of entries for the FinalTree / Expect events"""
    out = []
    rb = root.encode()
    for dp, dns, fns in os.walk(rb, followlinks=False):
        for n in sorted(dns + fns):
            p = os.path.join(dp, n)
            st = os.lstat(p)
            e = {"loc": loc_of(p), "mode": stat.S_IMODE(st.st_mode), "mtime": [(int(st.st_mtime) >> 16) & 0xFFFF, int(st.st_mtime) & 0xFFFF],
                 "own": [st.st_uid, st.st_gid]}
            if stat.S_ISLNK(st.st_mode):
                t = os.readlink(p)
                e.update(ty="link", t=S2.P(t), traw=t.hex(), size=0, crc=0)
            elif stat.S_ISDIR(st.st_mode):
                e.update(ty="dir", size=0, crc=0)
            else:
                try:
                    data = open(p, "rb").read()
                except OSError:
                    data = b""
                e.update(ty="file", size=len(data), crc=arc.crc16(data))
            out.append(e)
    return out


def run_tool(lha, args, archive, rundir, pre=None, stdin=b"", mode="extract", extra_reset=None, timeout=120, wdir=None, filters=()):
    """runs `lha <args> archive` in rundir/root under strace as an unprivileged user.
    pre: list of (relative path, kind, content/target, mode) created beforehand inside root.
    Returns (events, completed process, root path)."""
    root = os.path.join(rundir, "root")
    outside = os.path.join(rundir, "outside")
    os.makedirs(root)
    os.makedirs(os.path.join(outside, "sub"))
    open(os.path.join(outside, "x"), "w").write("canary x\n")
    open(os.path.join(outside, "sub", "y"), "w").write("canary y\n")
    open(os.path.join(outside, "passwd"), "w").write("canary\n")
    pre_ev = [{"loc": loc_of(outside), "ty": "dir", "mode": 0o755}, {"loc": loc_of(outside) + loc_of("sub"), "ty": "dir", "mode": 0o755},
              {"loc": loc_of(outside) + loc_of("x"), "ty": "file", "mode": 0o644}, {"loc": loc_of(outside) + loc_of("passwd"), "ty": "file", "mode": 0o644},
              {"loc": loc_of(outside) + loc_of("sub") + loc_of("y"), "ty": "file", "mode": 0o644}]
    for (rel, kind, val, md) in (pre or []):
        p = os.path.join(root, rel)
        os.makedirs(os.path.dirname(p), exist_ok=True)
        if kind == "dir":
            os.makedirs(p, exist_ok=True); os.chmod(p, md)
        elif kind == "file":
            open(p, "wb").write(val); os.chmod(p, md)
        else:
            os.symlink(val, p)
        pre_ev.append({"loc": loc_of(p), "ty": kind, "mode": md, "t": S2.P(val if isinstance(val, bytes) else b"") if kind == "link" else {"c": [], "abs": False, "trail": False}})
    amroot = os.geteuid() == 0
    if amroot:
        for dp, dns, fns in os.walk(rundir):
            os.chown(dp, UNPRIV, UNPRIV)
            for n in fns:
                os.lchown(os.path.join(dp, n), UNPRIV, UNPRIV)
    st = os.path.join(rundir, "strace.txt")
    cmd = ["strace", "-f", "-s", "4096", "-o", st, "-e", "trace=%file,fchmod,fchown,write,utime,utimes"]
    if amroot:
        cmd += ["setpriv", "--reuid=%d" % UNPRIV, "--regid=%d" % UNPRIV, "--clear-groups"]
    cmd += [lha] + args + [archive] + [bytes(f) for f in filters]
    env = V.run_env()
    p = V.run_bounded(cmd, capture_output=True, cwd=root, env=env, input=stdin, timeout=timeout)
    ev = [{"e": "Reset", "cwd": loc_of(root), "root": loc_of(os.path.join(root, wdir) if wdir else root), "pre": pre_ev, "mode": mode, "case": os.path.basename(rundir)}]
    if extra_reset:
        ev[0].update(extra_reset)
    ev += S2.convert(st, archive)
    tree = walk_tree(root)          # (root reads everything; an unprivileged harness may miss unreadable directories)
    ev.append({"e": "FinalTree", "tree": tree})
    # make everything removable again for the cleanup
    for dp, dns, fns in os.walk(root):
        try:
            os.chmod(dp, stat.S_IMODE(os.lstat(dp).st_mode) | 0o700)
        except OSError:
            pass
    return ev, p, root, outside, tree


def canary_intact(outside):
    try:
        return (open(os.path.join(outside, "x")).read() == "canary x\n" and open(os.path.join(outside, "sub", "y")).read() == "canary y\n"
                and open(os.path.join(outside, "passwd")).read() == "canary\n" and sorted(os.listdir(outside)) == ["passwd", "sub", "x"]
                and os.listdir(os.path.join(outside, "sub")) == ["y"] and not os.path.islink(os.path.join(outside, "x")))
    except OSError:
        return False
