"""Independent builder of LHA/LZH archives (header levels 0-3) from field assignments.
Only *inputs* are built here; what the library must return for them is decided by the TLA+
specification.  Nothing in this file is derived from lhasa's sources except the on-disk format."""
import struct

POLY = 0xA001


def crc16(data, c=0):
    for b in data:
        c ^= b
        for _ in range(8):
            c = (c >> 1) ^ POLY if c & 1 else c >> 1
    return c


def dos_time(y, mo, d, h, mi, s):
    return ((y - 1980) << 25) | (mo << 21) | (d << 16) | (h << 11) | (mi << 5) | (s >> 1)


# extended header type numbers
X_COMMON, X_FILENAME, X_PATH, X_WINTIME, X_PERM, X_UIDGID, X_GROUP, X_USER, X_UTIME, X_OS9 = \
    0x00, 0x01, 0x02, 0x41, 0x50, 0x51, 0x52, 0x53, 0x54, 0xCC


def x_perm(p): return (X_PERM, struct.pack("<H", p & 0xFFFF))
def x_uidgid(uid, gid): return (X_UIDGID, struct.pack("<HH", gid & 0xFFFF, uid & 0xFFFF))
def x_utime(t): return (X_UTIME, struct.pack("<I", t & 0xFFFFFFFF))
def x_name(n): return (X_FILENAME, bytes(n))
def x_path(p):
    """p: bytes with '/' separators -> 0xFF separators as stored"""
    return (X_PATH, bytes(p).replace(b"/", b"\xff"))
def x_user(u): return (X_USER, bytes(u))
def x_group(g): return (X_GROUP, bytes(g))
def x_wintime(c, m, a): return (X_WINTIME, struct.pack("<QQQ", c, m, a))
def x_os9(perms): return (X_OS9, b"\0" * 7 + struct.pack("<H", perms) + b"\0" * 3)
def x_common(info=b""): return (X_COMMON, b"\0\0" + bytes(info))


def _chain(exts, fs):
    """serialise extended headers (after the first 'next size' field, which the caller writes):
    returns (first_size, bytes)"""
    out = b""
    sizes = [1 + len(b) + fs for (_, b) in exts]
    for i, (t, body) in enumerate(exts):
        nxt = sizes[i + 1] if i + 1 < len(exts) else 0
        out += bytes([t]) + body + (struct.pack("<I", nxt) if fs == 4 else struct.pack("<H", nxt & 0xFFFF))
    return (sizes[0] if exts else 0), out


def header(level, method=b"-lh0-", packed=0, length=0, name=b"", crc=0, time=0, attr=0x20, os=0,
           exts=(), l0ext=b"", fix_common=True, level_byte=None, pad=False, wordsize=4):
    """Returns header bytes.  For levels 1: `packed` is the size of the member data (the stored field
    is packed + size of the extended headers, as the format requires)."""
    method = bytes(method)
    name = bytes(name)
    exts = list(exts)
    lb = level if level_byte is None else level_byte
    if level in (0, 1):
        first, chain = _chain(exts, 2) if level == 1 else (0, b"")
        body = method + struct.pack("<II", (packed + len(chain)) & 0xFFFFFFFF, length & 0xFFFFFFFF) + \
            struct.pack("<I", time & 0xFFFFFFFF) + bytes([attr & 0xFF, lb, len(name) & 0xFF]) + name + \
            struct.pack("<H", crc & 0xFFFF)
        if level == 1:
            body += bytes([os & 0xFF]) + l0ext + struct.pack("<H", first)
        else:
            body += l0ext
        hl = len(body)
        h = bytearray(bytes([hl & 0xFF, sum(body) & 0xFF]) + body + chain)
        if level == 1 and fix_common:
            _fix_common(h, exts, 2 + len(body), 2)
            h[1] = sum(h[2:2 + hl]) & 0xFF
        return bytes(h)
    if level == 2:
        first, chain = _chain(exts, 2)
        body = method + struct.pack("<II", packed & 0xFFFFFFFF, length & 0xFFFFFFFF) + struct.pack("<I", time & 0xFFFFFFFF) + \
            bytes([attr & 0xFF, lb]) + struct.pack("<H", crc & 0xFFFF) + bytes([os & 0xFF]) + struct.pack("<H", first) + chain
        total = 2 + len(body) + (1 if pad else 0)
        h = bytearray(struct.pack("<H", total & 0xFFFF) + body + (b"\0" if pad else b""))
        if fix_common:
            _fix_common(h, exts, 26, 2)
        return bytes(h)
    if level == 3:
        first, chain = _chain(exts, 4)
        body = method + struct.pack("<II", packed & 0xFFFFFFFF, length & 0xFFFFFFFF) + struct.pack("<I", time & 0xFFFFFFFF) + \
            bytes([attr & 0xFF, lb]) + struct.pack("<H", crc & 0xFFFF) + bytes([os & 0xFF])
        total = 2 + len(body) + 4 + 4 + len(chain)
        h = bytearray(struct.pack("<H", wordsize) + body + struct.pack("<II", total, first) + chain)
        if fix_common:
            _fix_common(h, exts, 32, 4)
        return bytes(h)
    raise ValueError(level)


def _fix_common(h, exts, start, fs):
    """fill in the CRC of every common (0x00) header: CRC-16 of the whole header with the field zero"""
    pos = start
    offs = []
    for (t, body) in exts:
        if t == X_COMMON and len(body) >= 2:
            offs.append(pos + 1)
        pos += 1 + len(body) + fs
    if not offs:
        return
    for o in offs:
        h[o] = h[o + 1] = 0
    c = crc16(bytes(h))
    # (with several common headers only the last one read wins; all get the same value)
    for o in offs:
        h[o], h[o + 1] = c & 0xFF, c >> 8


class Member:
    """A member to be written: header fields + payload.  `data` (uncompressed) is used to fill in
    length/crc unless they are given explicitly."""

    def __init__(self, level=1, method=b"-lh0-", name=b"", payload=b"", data=None, length=None, crc=None,
                 time=0, os=0, exts=(), l0ext=b"", attr=0x20, packed=None, **kw):
        self.level, self.method, self.name, self.payload = level, bytes(method), bytes(name), bytes(payload)
        self.data = data if data is not None else (self.payload if method in (b"-lh0-", b"-lz4-", b"-pm0-") else b"")
        self.length = len(self.data) if length is None else length
        self.crc = crc16(self.data) if crc is None else crc
        self.time, self.os, self.exts, self.l0ext, self.attr = time, os, list(exts), l0ext, attr
        self.packed = len(self.payload) if packed is None else packed
        self.kw = kw

    def header(self):
        return header(self.level, self.method, self.packed, self.length, self.name, self.crc, self.time,
                      self.attr, self.os, self.exts, self.l0ext, **self.kw)

    def bytes(self):
        return self.header() + self.payload


def archive(members, end=b"\0"):
    return b"".join(m.bytes() for m in members) + end


# ---- convenience constructors for the common Unix-style shapes -------------------------------

def unix_file(path, data, level=2, method=b"-lh0-", payload=None, perms=0o100644, time=1000000000, uid=None, gid=None, **kw):
    """path: b'dir/sub/name'"""
    d, _, n = bytes(path).rpartition(b"/")
    ex = [x_name(n)]
    if d:
        ex.append(x_path(d + b"/"))
    if perms is not None:
        ex.append(x_perm(perms))
    if uid is not None:
        ex.append(x_uidgid(uid, gid or 0))
    inname = b"" if level >= 2 else n
    t = time
    if level < 2:
        ex.append(x_utime(time))
        t = 0
    return Member(level=level, method=method, name=inname, payload=data if payload is None else payload, data=data,
                  time=t, os=ord("U"), exts=ex, **kw)


def unix_dir(path, level=2, perms=0o40755, time=1000000000, **kw):
    p = bytes(path).rstrip(b"/") + b"/"
    ex = [x_path(p)]
    if perms is not None:
        ex.append(x_perm(perms))
    t = time
    if level < 2:
        ex.append(x_utime(time))
        t = 0
    return Member(level=level, method=b"-lhd-", name=b"", payload=b"", data=b"", time=t, os=ord("U"), exts=ex, **kw)


def unix_symlink(path, target, level=2, time=1000000000, **kw):
    # stored as the single string "path|target", split at its last '/' into the path header
    # (0xFF separators) and the file name header, as Unix LHA does
    d, _, n = (bytes(path) + b"|" + bytes(target)).rpartition(b"/")
    ex = [x_name(n)] if n else []
    if d:
        ex.append(x_path(d + b"/"))
    ex.append(x_perm(0o120777))
    t = time
    if level < 2:
        ex.append(x_utime(time))
        t = 0
    return Member(level=level, method=b"-lhd-", name=b"", payload=b"", data=b"", time=t, os=ord("U"), exts=ex, **kw)
