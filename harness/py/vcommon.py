"""Shared machinery for all checks: building /repo's working tree, running TLC, writing
evidence, reporting violations / known findings.  Stdlib only."""
import hashlib, json, os, re, shutil, subprocess, sys, time, glob, random

ROOT = "/verif"
REPO = os.environ.get("VERIF_REPO", "/repo")
BUILD = os.path.join(ROOT, "build")
SPEC = os.path.join(ROOT, "spec")
HC = os.path.join(ROOT, "harness", "c")
# evidence describes /repo; runs redirected to another tree (seeded changes, mutants) write elsewhere
EVID = os.path.join(ROOT, "evidence") if os.path.realpath(REPO) == "/repo" else os.path.join(BUILD, "evidence_alt")
# (replays of runs redirected to another tree are kept apart as well: two runs of one check may be going on at once)
REPLAYS = "replays" if os.path.realpath(REPO) == "/repo" else "replays_alt"
GUARD = "LHASA_VERIF"
TLA_CP = "/opt/veriftools/tla/tla2tools.jar:/opt/veriftools/tla/CommunityModules-deps.jar"
NCPU = os.cpu_count() or 4

TEMPLATES = {"bit_stream_reader.c", "lh_new_decoder.c", "pma_common.c", "tree_decode.c"}


class HarnessError(Exception):
    """model failure / harness failure: exit 2, never a VIOLATION line"""


def sh(cmd, **kw):
    return subprocess.run(cmd, shell=isinstance(cmd, str), **kw)


def ensure(d):
    os.makedirs(d, exist_ok=True)
    return d


# ---------------------------------------------------------------- build ----

VARIANTS = {
    # library + drivers under ASan + bounds, hooks on
    "san": ["-O1", "-g", "-fno-omit-frame-pointer", "-fsanitize=address,bounds",
            "-fno-sanitize-recover=all", "-D" + GUARD, "-DTEST_BUILD"],
    # no sanitizer (strace / bulk loops)
    "plain": ["-O1", "-g", "-D" + GUARD, "-DTEST_BUILD"],
    # ThreadSanitizer: two readers on two threads; a data race is an event no action of Reader.tla matches (C15)
    "tsan": ["-O1", "-g", "-fno-omit-frame-pointer", "-fsanitize=thread", "-D" + GUARD, "-DTEST_BUILD"],
    # fast, for exhaustive numeric loops
    "fast": ["-O2", "-D" + GUARD, "-DTEST_BUILD"],
}

# coverage survey (tools/coverage.sh): VERIF_COV=<dir> adds source-based coverage to every variant and collects profiles in <dir>;
# never set by a registered check - it is a development aid for finding code that no check reaches
if os.environ.get("VERIF_COV"):
    for _k in VARIANTS:
        VARIANTS[_k] = VARIANTS[_k] + ["-fprofile-instr-generate", "-fcoverage-mapping"]

FALLBACK_CONFIG_H = """#define PACKAGE_NAME "Lhasa"
#define PACKAGE_STRING "Lhasa 0.4.0"
#define PACKAGE_VERSION "0.4.0"
#define PACKAGE_TARNAME "lhasa"
#define PACKAGE_BUGREPORT "fraggle@gmail.com"
#define HAVE_UNISTD_H 1
#define HAVE_SYS_STAT_H 1
#define HAVE_STDINT_H 1
#define HAVE_INTTYPES_H 1
"""


def _tree_hash(paths, extra=""):
    h = hashlib.sha256(extra.encode())
    for p in sorted(paths):
        h.update(p.encode())
        with open(p, "rb") as f:
            h.update(f.read())
    return h.hexdigest()[:16]


def lib_sources():
    return sorted(p for p in glob.glob(os.path.join(REPO, "lib", "*.c"))
                  if os.path.basename(p) not in TEMPLATES)


def all_repo_inputs():
    pats = ["lib/*.c", "lib/*.h", "lib/public/*.h", "src/*.c", "src/*.h", "config.h"]
    out = []
    for p in pats:
        out += glob.glob(os.path.join(REPO, p))
    return out


def _compile_many(jobs):
    """jobs: list of argv; run up to NCPU in parallel; raise on first failure."""
    procs = []
    errs = []

    def reap(p, argv):
        out, _ = p.communicate()
        if p.returncode != 0:
            errs.append((argv, out.decode(errors="replace")))

    pending = list(jobs)
    running = []
    while pending or running:
        while pending and len(running) < NCPU:
            a = pending.pop()
            running.append((subprocess.Popen(a, stdout=subprocess.PIPE, stderr=subprocess.STDOUT), a))
        p, a = running.pop(0)
        reap(p, a)
    if errs:
        raise HarnessError("compile failed: %s\n%s" % (" ".join(errs[0][0]), errs[0][1][:4000]))


def build_lib(variant="san", shim=False):
    """Compile /repo/lib from the current working tree.  The object directory is keyed by the
    content hash of every source/header file, so any edit to /repo forces a rebuild (this *is*
    rebuilding from the working tree; the key only avoids recompiling identical bytes)."""
    flags = list(VARIANTS[variant])
    if shim:
        flags += ["-include", os.path.join(HC, "alloc_shim.h")]
    key = _tree_hash(all_repo_inputs() + glob.glob(os.path.join(HC, "alloc_shim.*")),
                     variant + str(shim) + " ".join(flags))
    od = os.path.join(BUILD, "obj", "%s%s-%s" % (variant, "-shim" if shim else "", key))
    lib = os.path.join(od, "liblhasa.a")
    if os.path.exists(lib):
        return od
    # prune object dirs of the same variant that have not been used for a long time (never the
    # recent ones: several checks / mutant runs may be building concurrently)
    for d in glob.glob(os.path.join(BUILD, "obj", "%s%s-*" % (variant, "-shim" if shim else ""))):
        try:
            if time.time() - os.path.getmtime(d) > 6 * 3600:
                shutil.rmtree(d, ignore_errors=True)
        except OSError:
            pass
    od_final = od
    od = od_final + ".tmp%d_%d" % (os.getpid(), int(time.time() * 1000) % 100000)
    shutil.rmtree(od, ignore_errors=True)
    ensure(od)
    lib = os.path.join(od, "liblhasa.a")
    cfgdir = REPO
    if not os.path.exists(os.path.join(REPO, "config.h")):
        cfgdir = ensure(os.path.join(od, "cfg"))
        with open(os.path.join(cfgdir, "config.h"), "w") as f:
            f.write(FALLBACK_CONFIG_H)
    inc = ["-I" + cfgdir, "-I" + REPO, "-I" + os.path.join(REPO, "lib"),
           "-I" + os.path.join(REPO, "lib", "public"), "-I" + HC]
    jobs = []
    objs = []
    for s in lib_sources():
        o = os.path.join(od, "lib_" + os.path.basename(s)[:-2] + ".o")
        objs.append(o)
        jobs.append(["clang"] + flags + inc + ["-c", s, "-o", o])
    cli_objs = []
    for s in sorted(glob.glob(os.path.join(REPO, "src", "*.c"))):
        o = os.path.join(od, "src_" + os.path.basename(s)[:-2] + ".o")
        cli_objs.append(o)
        # the CLI is never compiled with the alloc shim
        f2 = [x for x in flags]
        if shim:
            i = f2.index("-include")
            del f2[i:i + 2]
        jobs.append(["clang"] + f2 + inc + ["-I" + os.path.join(REPO, "src"), "-c", s, "-o", o])
    _compile_many(jobs)
    tmp = lib + ".tmp"
    if os.path.exists(tmp):
        os.unlink(tmp)
    r = sh(["ar", "rcs", tmp] + objs, capture_output=True)
    if r.returncode != 0:
        raise HarnessError("ar failed: " + r.stderr.decode())
    link = ["clang"] + [f for f in flags if f.startswith("-fsanitize") or f.startswith("-fprofile") or f in ("-g",)]
    extra = []
    if shim:
        so = os.path.join(od, "alloc_shim.o")
        r = sh(["clang", "-O1", "-g", "-c", os.path.join(HC, "alloc_shim.c"), "-o", so] +
               [f for f in flags if f.startswith("-fsanitize")], capture_output=True)
        if r.returncode != 0:
            raise HarnessError("shim compile failed: " + r.stderr.decode())
        extra = [so]
    r = sh(link + cli_objs + extra + [tmp, "-o", os.path.join(od, "lha")], capture_output=True)
    if r.returncode != 0:
        raise HarnessError("link lha failed: " + r.stderr.decode()[:3000])
    os.rename(tmp, lib)
    # publish atomically: build in a private directory, then rename (a concurrent builder of the
    # same tree may win the race; either result is the same)
    try:
        os.rename(od, od_final)
    except OSError:
        shutil.rmtree(od, ignore_errors=True)
    return od_final


WRAP = "-Wl,--wrap=malloc,--wrap=calloc,--wrap=realloc,--wrap=free,--wrap=strdup,--wrap=fopen,--wrap=fdopen,--wrap=fclose"


def build_driver(name, variant="san", shim=False, extra_src=(), extra_flags=(), wrap=False):
    """Compile harness/c/<name>.c against the freshly built library; returns the binary path."""
    od = build_lib(variant, shim)
    srcs = [os.path.join(HC, name + ".c")] + [os.path.join(HC, s) for s in extra_src]
    if wrap:
        srcs.append(os.path.join(HC, "alloc_shim.c"))
        extra_flags = list(extra_flags) + [WRAP]
    key = _tree_hash(srcs + glob.glob(os.path.join(HC, "*.h")), " ".join(extra_flags))
    exe = os.path.join(od, "%s-%s" % (name, key))
    if os.path.exists(exe):
        return exe
    flags = list(VARIANTS[variant]) + list(extra_flags)
    inc = ["-I" + REPO, "-I" + os.path.join(REPO, "lib"), "-I" + os.path.join(REPO, "lib", "public"), "-I" + HC]
    if not os.path.exists(os.path.join(REPO, "config.h")):
        inc.insert(0, "-I" + os.path.join(od, "cfg"))
    objs = [os.path.join(od, "liblhasa.a")]
    if shim:
        objs.insert(0, os.path.join(od, "alloc_shim.o"))
    r = sh(["clang"] + flags + inc + srcs + objs + ["-lpthread", "-o", exe + ".tmp"], capture_output=True)
    if r.returncode != 0:
        raise HarnessError("driver %s failed to build: %s" % (name, r.stderr.decode()[:4000]))
    os.rename(exe + ".tmp", exe)
    return exe


def lha_binary(variant="san"):
    return os.path.join(build_lib(variant), "lha")


SAN_ENV = {"ASAN_OPTIONS": "detect_leaks=0:abort_on_error=0:exitcode=97:allocator_may_return_null=1:max_allocation_size_mb=4096",
           "UBSAN_OPTIONS": "halt_on_error=1:exitcode=98:print_stacktrace=1", "TZ": "UTC"}


def run_env(**kw):
    e = dict(os.environ)
    e.update(SAN_ENV)
    if os.environ.get("VERIF_COV"):
        e["LLVM_PROFILE_FILE"] = os.path.join(os.environ["VERIF_COV"], "cov-%8m.profraw")
    e.update(kw)
    return e


def run_bounded(cmd, capture_output=True, cpu=120, fsize=256 << 20, **kw):
    """subprocess.run for the tool and the drivers with what they write kept on disk and bounded: a command that never returns, or
    that prints for ever (a prompt loop at end of input), ends with SIGXCPU / SIGXFSZ (negative return code) instead of exhausting
    the harness' memory through a pipe.  Same result object as subprocess.run(capture_output=True)."""
    import tempfile
    d = ensure(os.path.join(BUILD, "tmp"))
    fo = tempfile.TemporaryFile(dir=d)
    fe = tempfile.TemporaryFile(dir=d)

    def lim():
        import resource
        resource.setrlimit(resource.RLIMIT_CPU, (cpu, cpu + 5))
        resource.setrlimit(resource.RLIMIT_FSIZE, (fsize, fsize))
    kw.pop("stdout", None)
    kw.pop("stderr", None)
    try:
        p = subprocess.run(cmd, stdout=fo, stderr=fe, preexec_fn=lim, **kw)
        fo.seek(0)
        fe.seek(0)
        p.stdout, p.stderr = fo.read(fsize), fe.read(fsize)
        return p
    finally:
        fo.close()
        fe.close()


# ------------------------------------------------------------------ TLC ----

class TlcResult:
    def __init__(self):
        self.ok = False          # finished, no violation, no error
        self.violation = None    # name of violated invariant/property, or "postcondition"/"deadlock"
        self.error = None        # model failure description
        self.generated = 0
        self.distinct = 0
        self.depth = 0
        self.out = ""
        self.wall = 0.0
        self.coverage = {}

    def __repr__(self):
        return "TlcResult(ok=%s viol=%s err=%s gen=%d dist=%d depth=%d %.1fs)" % (
            self.ok, self.violation, self.error, self.generated, self.distinct, self.depth, self.wall)


_tlc_counter = [0]


class _HeapBudget:
    """cross-process budget for JVM heaps: one lock file per GiB under build/locks; a TLC run holds as many as its -Xmx
    says while it runs, so that checks started side by side (or sixteen shards of one check) cannot exhaust memory"""

    def __init__(self, gib):
        import fcntl
        self.fcntl = fcntl
        self.need = max(1, gib)
        self.held = []

    def __enter__(self):
        d = ensure(os.path.join(BUILD, "locks"))
        try:
            total = max(8, int(os.sysconf("SC_PHYS_PAGES") * os.sysconf("SC_PAGE_SIZE") / (1 << 30) * 0.75))
        except (ValueError, OSError):
            total = 32
        need = min(self.need, total)
        t0 = time.time()
        while True:
            got = []
            for i in range(total):
                f = open(os.path.join(d, "gib_%d" % i), "a")
                try:
                    self.fcntl.flock(f, self.fcntl.LOCK_EX | self.fcntl.LOCK_NB)
                    got.append(f)
                    if len(got) == need:
                        break
                except OSError:
                    f.close()
            if len(got) == need:
                self.held = got
                return self
            for f in got:
                f.close()
            if time.time() - t0 > 3600:
                return self            # never block a check for ever: go ahead without the budget
            time.sleep(0.2 + random.random() * 0.5)

    def __exit__(self, *a):
        for f in self.held:
            f.close()
        self.held = []


def _gib(xmx):
    m = re.match(r"(\d+)([gGmM])", xmx)
    if not m:
        return 4
    return int(m.group(1)) if m.group(2) in "gG" else max(1, int(m.group(1)) // 1024)


def tlc(module, cfg=None, env=None, workers=1, timeout=600, simulate=None, depth=None, xmx="4g",
        xss="64m", dfs=False, coverage=False, extra=(), seed=None, deadlock=None, cwd=None):
    """Run TLC on spec/<module>.tla with spec/<cfg>.cfg.  Distinguishes violation from failure."""
    cwd = cwd or SPEC
    _tlc_counter[0] += 1
    meta = ensure(os.path.join(BUILD, "tlc", "%d-%d-%s" % (os.getpid(), _tlc_counter[0], module)))
    jopts = ["-XX:+UseParallelGC", "-Xmx" + xmx, "-Xss" + xss]
    if dfs:
        jopts.append("-Dtlc2.tool.queue.IStateQueue=StateDeque")
    cmd = ["timeout", "-k", "10", str(timeout), "java"] + jopts + ["-cp", TLA_CP, "tlc2.TLC",
           "-workers", str(workers), "-metadir", meta, "-noGenerateSpecTE"]
    if cfg:
        cmd += ["-config", cfg if cfg.endswith(".cfg") else cfg + ".cfg"]
    if simulate:
        cmd += ["-simulate", "num=%d" % simulate]
    if depth:
        cmd += ["-depth", str(depth)]
    if seed is not None:
        cmd += ["-seed", str(seed)]
    if coverage:
        cmd += ["-coverage", "1"]
    if deadlock is False:
        cmd += ["-deadlock"]
    cmd += list(extra) + [module if module.endswith(".tla") else module + ".tla"]
    e = dict(os.environ)
    e.pop("JAVA_TOOL_OPTIONS", None)
    if env:
        e.update({k: str(v) for k, v in env.items()})
    with _HeapBudget(_gib(xmx)):
        t0 = time.time()
        p = subprocess.run(cmd, cwd=cwd, env=e, stdout=subprocess.PIPE, stderr=subprocess.STDOUT)
    r = TlcResult()
    r.wall = time.time() - t0
    r.out = p.stdout.decode(errors="replace")
    shutil.rmtree(meta, ignore_errors=True)
    m = None
    for m in re.finditer(r"(\d+) states generated, (\d+) distinct states found", r.out):
        pass
    if m:
        r.generated, r.distinct = int(m.group(1)), int(m.group(2))
    m = re.search(r"The depth of the complete state graph search is (\d+)", r.out)
    if m:
        r.depth = int(m.group(1))
    if p.returncode in (124, 137):
        r.error = "timeout after %ds" % timeout
        return r
    m = re.search(r"Invariant (\S+) is violated", r.out)
    if m:
        r.violation = m.group(1)
        return r
    if re.search(r"Temporal propert(y|ies) .*(was|were) violated|Action property .* is violated", r.out):
        m = re.search(r"Action property (\S+)", r.out) or re.search(r"Temporal property (\S+) was violated", r.out)
        r.violation = m.group(1) if m else "temporal"
        return r
    if "Deadlock reached" in r.out:
        r.violation = "deadlock"
        return r
    if re.search(r"[Pp]ost-?condition .* (violated|false)|POSTCONDITION", r.out) and "violated" in r.out.lower() and "ostcondition" in r.out:
        r.violation = "postcondition"
        return r
    if "Model checking completed. No error has been found" in r.out or \
       (simulate and p.returncode == 0) or re.search(r"Finished in ", r.out) and p.returncode == 0:
        r.ok = True
        return r
    m = re.search(r"Error: (?!The behavior)(.*)", r.out)
    r.error = "tlc exit %d: %s ... %s" % (p.returncode, m.group(0)[:600] if m else "", r.out[-800:])
    return r


def tlc_must_pass(*a, **kw):
    r = tlc(*a, **kw)
    if r.error:
        raise HarnessError("model failure in %s: %s" % (a[0], r.error))
    return r


# ------------------------------------------------------------- evidence ----

class Evidence:
    def __init__(self, pid, tier, seed, level):
        self.pid, self.tier, self.seed, self.level = pid, tier, seed, level
        self.t0 = time.time()
        self.cov = {"samples": []}
        self.assumptions = []
        self.violations = 0
        self.classes = set()

    def add(self, key, n=1):
        self.cov[key] = self.cov.get(key, 0) + n

    def set(self, key, v):
        self.cov[key] = v

    def sample(self, s, cap=6):
        if len(self.cov["samples"]) < cap:
            self.cov["samples"].append(s)

    def cls(self, key):
        self.classes.add(key if isinstance(key, (str, int)) else json.dumps(key, sort_keys=True))

    def tlc(self, r):
        self.add("states", r.distinct)
        self.add("transitions", r.generated)

    def write(self):
        ensure(EVID)
        if self.classes:
            self.cov["distinct_nontrivial"] = len(self.classes)
        d = {"property_id": self.pid, "tier": self.tier, "seed": self.seed, "level": self.level,
             "coverage": self.cov, "assumptions": self.assumptions,
             "wall_s": round(time.time() - self.t0, 2), "violations": self.violations}
        tmp = os.path.join(EVID, self.pid + ".json.tmp")
        with open(tmp, "w") as f:
            json.dump(d, f, indent=1, sort_keys=True)
            f.write("\n")
        os.rename(tmp, os.path.join(EVID, self.pid + ".json"))


# ------------------------------------------------- violations / findings ----

def known_findings(pid):
    p = os.path.join(ROOT, "known_findings.json")
    if not os.path.exists(p):
        return []
    with open(p) as f:
        return [e for e in json.load(f).get("findings", []) if e["property"] == pid and e["status"] == "known"]


def replay_dir(pid, tag):
    d = os.path.join(BUILD, REPLAYS, pid, re.sub(r"[^A-Za-z0-9_.-]", "_", str(tag))[:80])
    if os.path.exists(d):
        shutil.rmtree(d)
    return ensure(d)


def violation(pid, path, msg=""):
    if msg:
        print("  detail: " + msg[:2000])
    print("VIOLATION property=%s replay=%s" % (pid, path))
    sys.stdout.flush()


def known_finding_line(pid, what):
    print("KNOWN-FINDING: property=%s %s" % (pid, what))
    sys.stdout.flush()


def seed_from_env():
    try:
        return int(os.environ.get("VERIF_SEED", "1"))
    except ValueError:
        return 1


def scratch(tag):
    """Scratch directory under /verif/build (never /tmp)."""
    d = os.path.join(BUILD, "scratch", "%s-%d" % (tag, os.getpid()))
    if os.path.exists(d):
        shutil.rmtree(d, ignore_errors=True)
    return ensure(d)


def write_ndjson(path, events):
    with open(path, "w") as f:
        for e in events:
            f.write(json.dumps(e, separators=(",", ":")))
            f.write("\n")


# ----------------------------------------------------- trace validation ----

def validate_trace(module, cfg, trace_path, env=None, timeout=600, xmx="4g", dfs=False, var="TRACE"):
    """Run a trace spec over an ndjson trace.  Returns (accepted, rejected_line, TlcResult).
    The trace specs' postcondition prints REJECTED_AT_LINE n (1-based line that no action
    matched).  Model failures raise HarnessError."""
    e = {var: trace_path}
    if env:
        e.update(env)
    r = tlc(module, cfg, env=e, workers=1, timeout=timeout, xmx=xmx, dfs=dfs)
    if r.violation and r.violation not in ("postcondition",):
        # an invariant / action property of the module failed on an observed execution
        return False, -1, r
    m = re.search(r'"REJECTED_AT_LINE", (\d+)', r.out)
    if m:
        return False, int(m.group(1)), r
    if r.error:
        raise HarnessError("trace validation of %s failed to run: %s" % (trace_path, r.error))
    if r.violation == "postcondition":
        return False, 0, r
    return True, None, r


def count_lines(path):
    n = 0
    with open(path, "rb") as f:
        for _ in f:
            n += 1
    return n
