"""Minimal independent LHA container walker (levels 0-3): enough to slice member payloads and
read the values recorded by the original archiver (method, sizes, CRC).  Used to obtain
third-party compressed streams and their recorded CRC/length as grounding oracles."""
import struct, re

SIG = re.compile(rb"-(l[hz][0-9sdx]|lh[0-9a-z]|lz[0-9s]|pm[0-9s])-")


def _find_first(buf):
    # position p such that buf[p+2:p+7] looks like a method id
    for m in re.finditer(rb"-(lh.|lz.|pm.)-", buf):
        p = m.start() - 2
        if p >= 0:
            return p
    return None


def members(buf, start=None):
    """Yields dicts: level, method, packed, length, crc (or None), name(bytes), data_off, hdr_off, hdr_len"""
    p = _find_first(buf) if start is None else start
    out = []
    while p is not None and p + 21 <= len(buf):
        if buf[p] == 0 and buf[p + 20] != 2 and buf[p+20] != 3:
            break
        level = buf[p + 20]
        method = buf[p + 2:p + 7]
        if not re.fullmatch(rb"-...-", method):
            break
        packed, length = struct.unpack_from("<II", buf, p + 7)
        crc = None
        name = b""
        if level == 0:
            hl = buf[p] + 2
            nl = buf[p + 21]
            name = buf[p + 22:p + 22 + nl]
            if 22 + nl + 2 <= hl:
                crc = struct.unpack_from("<H", buf, p + 22 + nl)[0]
            data = p + hl
        elif level == 1:
            hl = buf[p] + 2
            nl = buf[p + 21]
            name = buf[p + 22:p + 22 + nl]
            crc = struct.unpack_from("<H", buf, p + 22 + nl)[0]
            q = p + hl
            ext = struct.unpack_from("<H", buf, q - 2)[0]
            while ext != 0:
                if q + ext > len(buf) or ext < 3:
                    return out
                t = buf[q]
                body = buf[q + 1:q + ext - 2]
                if t == 1:
                    name = body
                packed -= ext
                nxt = struct.unpack_from("<H", buf, q + ext - 2)[0]
                q += ext
                ext = nxt
            data = q
            hl = q - p
        elif level == 2:
            hl = struct.unpack_from("<H", buf, p)[0]
            crc = struct.unpack_from("<H", buf, p + 21)[0]
            q = p + 26
            ext = struct.unpack_from("<H", buf, p + 24)[0]
            while ext != 0 and q + ext <= p + hl + 2:
                t = buf[q]
                body = buf[q + 1:q + ext - 2]
                if t == 1:
                    name = body
                nxt = struct.unpack_from("<H", buf, q + ext - 2)[0]
                q += ext
                ext = nxt
            data = p + hl
        elif level == 3:
            hl = struct.unpack_from("<I", buf, p + 24)[0]
            crc = struct.unpack_from("<H", buf, p + 21)[0]
            q = p + 32
            ext = struct.unpack_from("<I", buf, p + 28)[0]
            while ext != 0 and q + ext <= p + hl:
                t = buf[q]
                body = buf[q + 1:q + ext - 4]
                if t == 1:
                    name = body
                nxt = struct.unpack_from("<I", buf, q + ext - 4)[0]
                q += ext
                ext = nxt
            data = p + hl
        else:
            break
        if data + packed > len(buf):
            break
        out.append(dict(level=level, method=method.decode("latin1"), packed=packed, length=length, crc=crc,
                        name=name, data_off=data, hdr_off=p, hdr_len=data - p))
        p = data + packed
    return out


def payload(buf, m):
    return buf[m["data_off"]:m["data_off"] + m["packed"]]
