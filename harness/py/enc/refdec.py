"""Tiny reference decoders (stream -> command list + structure) used only as a sanity check of the
format understanding behind the encoders: selftest.py parses the real streams of
/repo/test/compressed (and a few archive members) with these, checks that expand(cmds) gives the
known plaintext, and re-encodes the commands - with the extracted structure - expecting the
original bytes back.  They are not hardened: malformed input raises.
"""
try:
    from .common import MTF, canonical_codes
    from . import enc_lh1, enc_lhnew, enc_pm1, enc_pm2
except ImportError:
    from common import MTF, canonical_codes
    import enc_lh1, enc_lhnew, enc_pm1, enc_pm2


class BitReader:
    """MSB-first; past the end it delivers zero bits and counts them in .overrun."""

    def __init__(self, data):
        self.data = data
        self.pos = 0          # bit position
        self.overrun = 0

    def get(self, n):
        v = 0
        for _ in range(n):
            byte = self.pos >> 3
            if byte < len(self.data):
                bit = (self.data[byte] >> (7 - (self.pos & 7))) & 1
            else:
                bit = 0
                self.overrun += 1
            v = (v << 1) | bit
            self.pos += 1
        return v

    def get_sym(self, decode):
        """decode: {(nbits, code): sym}; a table with the key (0, 0) is a zero-bit code."""
        if (0, 0) in decode:
            return decode[(0, 0)]
        code = 0
        n = 0
        while True:
            code = (code << 1) | self.get(1)
            n += 1
            if (n, code) in decode:
                return decode[(n, code)]
            if n > 40:
                raise ValueError("no such code")


def _decode_table(lengths):
    return {(n, c): s for s, (c, n) in canonical_codes(lengths).items()}


# -------------------------------------------------------------- LArc ----

def decode_lzs(data, want):
    br = BitReader(data)
    cmds = []
    out = 0
    while out < want:
        if br.get(1):
            cmds.append(("lit", br.get(8)))
            out += 1
        else:
            p = br.get(11)
            n = br.get(4) + 2
            cmds.append(("copy", p, n))
            out += n
    return cmds, {"bits": br.pos}


def decode_lz5(data, want):
    cmds = []
    out = 0
    i = 0
    while out < want:
        flags = data[i]
        i += 1
        for b in range(8):
            if out >= want:
                break
            if flags & (1 << b):
                cmds.append(("lit", data[i]))
                i += 1
                out += 1
            else:
                p = data[i] | ((data[i + 1] & 0xF0) << 4)
                n = (data[i + 1] & 0x0F) + 3
                i += 2
                cmds.append(("copy", p, n))
                out += n
    return cmds, {"bytes": i}


# --------------------------------------------------------------- lh1 ----

def decode_lh1(data, want):
    br = BitReader(data)
    tree = enc_lh1.AdaptiveHuffman()
    pdec = {(n, c): i for i, (c, n) in enumerate(enc_lh1.position_codes())}
    cmds = []
    out = 0
    T = enc_lh1.T
    while out < want:
        c = tree.son[enc_lh1.R]
        while c < T:
            c = tree.son[c + br.get(1)]
        sym = c - T
        tree.update(sym)
        if sym < 256:
            cmds.append(("lit", sym))
            out += 1
        else:
            up = br.get_sym(pdec)
            d = (up << 6) | br.get(6)
            cmds.append(("copy", d, sym - 256 + 3))
            out += sym - 256 + 3
    return cmds, {"bits": br.pos}


# ------------------------------------------------------------- lhnew ----

def _get_len_value(br):
    l = br.get(3)
    if l == 7:
        while br.get(1):
            l += 1
    return l


def decode_lhnew(data, want, method):
    P = enc_lhnew.PARAMS[method]
    br = BitReader(data)
    cmds = []
    blocks = []
    out = 0
    while out < want:
        size = br.get(16)
        blk = {"size": size}
        # temp table
        n = br.get(5)
        if n == 0:
            tsingle = br.get(5)
            tdec = {(0, 0): tsingle}
            blk["temp"] = None
        else:
            tl = [0] * 40
            i = 0
            while i < n:
                tl[i] = _get_len_value(br)
                if i == 2:
                    i += br.get(2)
                i += 1
            tl = tl[:31]
            blk["temp"] = tl
            tdec = _decode_table(tl)
        # code table
        n = br.get(9)
        if n == 0:
            cdec = {(0, 0): br.get(9)}
            blk["code"] = None
        else:
            cl = [0] * P["ncodes"]
            i = 0
            while i < n:
                t = br.get_sym(tdec)
                if t == 0:
                    k = 1
                elif t == 1:
                    k = br.get(4) + 3
                elif t == 2:
                    k = br.get(9) + 20
                else:
                    cl[i] = t - 2
                    i += 1
                    continue
                i += k
            blk["code"] = cl
            cdec = _decode_table(cl)
        # offset table
        ob = P["off_bits"]
        n = br.get(ob)
        if n == 0:
            odec = {(0, 0): br.get(ob)}
            blk["offset"] = None
        else:
            ol = [_get_len_value(br) for _ in range(n)]
            blk["offset"] = ol
            odec = _decode_table(ol)
        blocks.append(blk)
        for _ in range(size):
            if out >= want:
                blk["cut"] = True
                break
            s = br.get_sym(cdec)
            if s < 256:
                cmds.append(("lit", s))
                out += 1
                continue
            if P["lhark"]:
                if s < 264:
                    ln = s - 256 + 3
                elif s < 288:
                    nlb = (s - 260) // 4
                    ln = ((4 + s % 4) << nlb) + br.get(nlb) + 3
                else:
                    ln = 514
            else:
                ln = s - 256 + 3
            b = br.get_sym(odec)
            if P["lhark"]:
                if b < 4:
                    d = b
                else:
                    nlb = (b - 2) // 2
                    d = ((2 + b % 2) << nlb) + br.get(nlb)
            else:
                d = b if b < 2 else (1 << (b - 1)) + br.get(b - 1)
            cmds.append(("copy", d, ln))
            out += ln
    return cmds, {"bits": br.pos, "blocks": blocks}


# --------------------------------------------------------------- pm2 ----

def decode_pm2(data, want):
    br = BitReader(data)
    mtf = MTF()
    window = bytearray(b"\x20" * enc_pm2.WINDOW)
    cmds = []
    tables = {}
    flags = {}
    st = {"out": 0, "cdec": None, "odec": None, "need": False, "point": 0}

    def read_code_tree(k):
        num = br.get(5)
        mn = br.get(3)
        st["need"] = num >= 10 and not (num == 29 and mn == 0)
        if mn == 0:
            st["cdec"] = {(0, 0): num - 1}
            tables.setdefault(k, {})["code"] = ("single", num - 1)
            tables[k]["hdr"] = (num, 0, None)
            return
        w = br.get(3)
        ls = []
        for _ in range(num):
            v = br.get(w)
            ls.append(0 if v == 0 else mn + v - 1)
        st["cdec"] = _decode_table(ls)
        tables.setdefault(k, {})["code"] = ls
        tables[k]["hdr"] = (num, mn, w)

    def read_offset_tree(k, n):
        if not st["need"]:
            return
        ls = [br.get(3) for _ in range(n)]
        nz = [i for i, l in enumerate(ls) if l]
        if len(nz) == 1:
            st["odec"] = {(0, 0): nz[0]}
            tables.setdefault(k, {})["offset"] = ("single", nz[0])
        else:
            st["odec"] = _decode_table(ls)
            tables.setdefault(k, {})["offset"] = ls
        tables[k]["offset_raw"] = ls

    def rebuild():
        k = st["point"]
        if k == 0:
            read_code_tree(0)
            read_offset_tree(0, 5)
        elif k in (1, 2):
            read_offset_tree(k, 5 + k)
        elif k == 3:
            flags[k] = br.get(1)
            if flags[k]:
                read_code_tree(k)
            read_offset_tree(k, 8)
        else:
            flags[k] = br.get(1)
            if flags[k]:
                read_code_tree(k)
                read_offset_tree(k, 8)
        st["point"] = k + 1

    def emit(b):
        window[st["out"] % enc_pm2.WINDOW] = b
        mtf.touch(b)
        st["out"] += 1
        if st["out"] == enc_pm2.point_position(st["point"]):
            rebuild()

    first = br.get(1)
    rebuild()
    while st["out"] < want:
        s = br.get_sym(st["cdec"])
        if s < 8:
            base, bits = enc_pm2.LIT_CLASSES[s]
            b = mtf.at(base + br.get(bits))
            cmds.append(("lit", b))
            emit(b)
            continue
        c = s - 8
        if c < 15:
            ln = c + 2
        elif c < 20:
            base, bits = enc_pm2.LEN_CLASSES[c - 15]
            ln = base + br.get(bits)
        elif c == 20:
            ln = 256
        else:
            raise ValueError("bad copy class")
        if c == 0:
            d = br.get(6)
        elif c == 20:
            d = 0
        else:
            t = br.get_sym(st["odec"])
            d = br.get(6) if t == 0 else (1 << (t + 5)) + br.get(t + 5)
        cmds.append(("copy", d, ln))
        for _ in range(ln):
            emit(window[(st["out"] - d - 1) % enc_pm2.WINDOW])
    return cmds, {"bits": br.pos, "tables": tables, "flags": flags, "first_bit": first}


# --------------------------------------------------------------- pm1 ----

def decode_pm1(data, want):
    br = BitReader(data)
    tree = br.get(5)
    cdec = {(0, 0): 0} if tree == 31 else {(n, c): k for k, cs in enc_pm1.tree_codes(tree).items() for c, n in cs}
    mtf = MTF()
    out = bytearray()
    cmds = []

    def count_block():
        v = br.get(2)
        if v < 3:
            return v + 1
        v = br.get(3)
        if v < 7:
            return v + 4
        v = br.get(4)
        if v < 14:
            return v + 11
        return br.get(6) + 25 if v == 14 else br.get(7) + 89

    def count_copy():
        v = br.get(2)
        if v < 3:
            return v + 3
        v = br.get(3)
        if v < 5:
            return v + 6
        if v == 5:
            return br.get(2) + 11
        if v == 6:
            return br.get(3) + 15
        v = br.get(6)
        if v < 62:
            return v + 23
        return br.get(5) + 85 if v == 62 else br.get(7) + 117

    def copy():
        P = len(out)
        if br.get(1) == 0:
            if P >= 576 and br.get(1):
                r = 4
            else:
                r = br.get(1) if P >= 64 else 0
        else:
            if P >= 64 and br.get(1) == 0:
                r = 3
            elif P >= 2624 and br.get(1) == 0:
                r = 5
            else:
                r = 2
        ln = 2 if r < 2 else count_copy()
        if r in (0, 2):
            d = br.get(6)
        elif r == 1:
            d = 64 + br.get(8)
        elif r == 3:
            d = 64 + br.get(8 if P < 320 else 9)
        elif r == 4:
            d = 576 + br.get(8 if P < 832 else 9 if P < 1088 else 10 if P < 1600 else 11)
        else:
            d = 2624 + br.get(8 if P < 2880 else 9 if P < 3136 else 10 if P < 3648 else 11 if P < 4672
                              else 12 if P < 6720 else 13)
        if d >= P:
            raise ValueError("distance before start")
        cmds.append(("copy", d, ln))
        for _ in range(ln):
            b = out[len(out) - d - 1]
            out.append(b)
            mtf.touch(b)

    while len(out) < want:
        if br.get(1) == 0:
            copy()
        else:
            n = count_block()
            for _ in range(n):
                k = br.get_sym(cdec)
                base, bits = enc_pm1.LIT_CLASSES[k]
                b = mtf.at(base + br.get(bits))
                cmds.append(("lit", b))
                out.append(b)
                mtf.touch(b)
            if n != enc_pm1.MAX_BLOCK and len(out) < want:
                copy()
    return cmds, {"bits": br.pos, "tree": tree, "overrun": br.overrun}
