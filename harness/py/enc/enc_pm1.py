"""Independent encoder for PMarc -pm1-.

Format (MSB-first bit stream), as understood from lhasa's pm1_decoder.c / pma_common.c
--------------------------------------------------------------------------------------
    5 bits   index (0..31) of one of 32 fixed prefix codes ("byte decode trees") over the six
             literal classes a..f; it stays in force for the whole stream.
    then commands:
        0  copy
        1  literal block: count (1..216), that many literals, and then - unless the count is
           exactly 216 - a copy *without* a leading command bit.
literal block count:  2 bits v<3 -> v+1 (1..3); else 3 bits v<7 -> v+4 (4..10); else 4 bits
    v<14 -> v+11 (11..24); v==14 -> 6 bits + 25 (25..88); v==15 -> 7 bits + 89 (89..216).
literal: class symbol through the chosen tree, then raw bits; class (base, bits) =
    a (0,4) b (16,4) c (32,5) d (64,6) e (128,6) f (192,6); base + raw = rank of the byte in the
    same move-to-front list as -pm2- (rank 0 = last byte output; all output bytes are moved to
    front; initial order 20..7f, 00..1f, a0..df, 80..9f, e0..ff).  Not every tree has every
    class: a literal whose rank falls in a missing class cannot be coded with that tree.
    Tree 31 has no bits at all and always means class a.
copy: a position dependent prefix selects one of six "ranges" (P = bytes output so far):
        bit 0, then [P >= 576: bit; 1 -> range 4], then [P >= 64: bit b -> range b, else range 0]
        bit 1, then [P >= 64: bit; 0 -> range 3], then [P >= 2624: bit; 0 -> range 5], else range 2
    bracketed bits are only present once P has reached the threshold; absent bits take the value
    that leads to ranges 0 / 2.
    ranges 0 and 1 are copies of length 2; the others are followed by the length:
        2 bits v<3 -> v+3 (3..5); else 3 bits: v<5 -> v+6 (6..10); 5 -> 2 bits + 11 (11..14);
        6 -> 3 bits + 15 (15..22); 7 -> 6 bits w: w<62 -> w+23 (23..84); w==62 -> 5 bits + 85
        (85..116); w==63 -> 7 bits + 117 (117..244).
    then the distance, base + raw bits:
        range 0: 0 + 6 bits      range 1: 64 + 8 bits     range 2: 0 + 6 bits
        range 3: 64 + 9 bits  (8 bits while P < 320)
        range 4: 576 + 11 bits (8 bits while P < 832, 9 while P < 1088, 10 while P < 1600)
        range 5: 2624 + 13 bits (8 / 9 / 10 / 11 / 12 bits while P < 2880 / 3136 / 3648 / 4672 / 6720)
    Distance 0 = the byte just written; the distance must be smaller than P (no initial window).
Beyond the end of the compressed data the decoder sees zero bits, so a final literal block
(which must be followed by a copy) may rely on an implicit "copy 2 bytes at distance 0" that the
declared length cuts off.

Commands
--------
("lit", b) | ("copy", distance, length 2..244).  Constraints: distance < bytes written so far;
distance <= 10815; length 2 only with distance < 320.  Literals must be codable with the chosen
tree (see tree_classes()).
"""
import random as _random

try:
    from .common import BitWriter, MTF, expand_distances, check_cmds
except ImportError:
    from common import BitWriter, MTF, expand_distances, check_cmds

METHODS = ("-pm1-",)
WINDOW = 16384
MIN_LEN = 2
MAX_LEN = 244
MAX_DIST = 2624 + (1 << 13) - 1          # 10815
MAX_BLOCK = 216

LIT_CLASSES = [(0, 4), (16, 4), (32, 5), (64, 6), (128, 6), (192, 6)]

# The 32 class codes, written as nested pairs (left = bit 0, right = bit 1).  Tree 17 really is
# like this in PMarc's table: classes a and b are unreachable and d, e have two codes each.
TREES = [
    "((((a b) c) d) (e f))", "(((a b) (c f)) (d e))", "(((a b) c) (d (e f)))",
    "((a (b c)) (d (e f)))", "((a (b d)) (c (e f)))", "((a (b (e f))) (c d))",
    "((a b) ((c d) (e f)))", "((a b) ((c (e f)) d))", "((a b) (c (d (e f))))",
    "(a (((b f) c) (d e)))", "(a (((b (e f)) c) d))", "(a (((b c) d) (e f)))",
    "(a ((b (c f)) (d e)))", "(a ((b c) (d (e f))))", "(a ((b (d (e f))) c))",
    "(a (b ((c d) (e f))))", "(a (b (c (d (e f)))))",
    "(((d e) c) (d e))",
    "((a (b e)) (c d))", "((a b) (c (d e)))", "(a (((b e) c) d))", "(a ((b c) (d e)))",
    "(a ((b (d e)) c))", "(a (b (c (d e))))",
    "(((a b) c) d)", "((a (b d)) c)", "((a b) (c d))", "(a ((b d) c))", "(a (b (c d)))",
    "(a (b c))",
    "(a b)",
    "a",
]


def _parse_tree(text):
    toks = text.replace("(", " ( ").replace(")", " ) ").split()
    pos = [0]

    def node():
        t = toks[pos[0]]
        pos[0] += 1
        if t == "(":
            l = node()
            r = node()
            assert toks[pos[0]] == ")"
            pos[0] += 1
            return (l, r)
        return "abcdef".index(t)

    n = node()
    assert pos[0] == len(toks)
    return n


def tree_codes(index):
    """{class: [(code, nbits), ...]} for tree `index`; more than one code only for tree 17."""
    out = {}

    def walk(n, code, nbits):
        if isinstance(n, tuple):
            walk(n[0], code << 1, nbits + 1)
            walk(n[1], (code << 1) | 1, nbits + 1)
        else:
            out.setdefault(n, []).append((code, nbits))

    walk(_parse_tree(TREES[index]), 0, 0)
    return out


def tree_classes(index):
    """Sorted list of literal classes (0..5) that tree `index` can express."""
    return sorted(tree_codes(index))


def expand(cmds, method="-pm1-"):
    check_cmds(cmds)
    for c in cmds:
        if c[0] == "copy" and not (MIN_LEN <= c[2] <= MAX_LEN and c[1] <= MAX_DIST):
            raise ValueError("copy out of range: %r" % (c,))
    return expand_distances(cmds, WINDOW, 0x00, strict=True)


# ------------------------------------------------------- field coders ----

def _put_block_count(bw, n):
    if n <= 3:
        bw.put(n - 1, 2)
    elif n <= 10:
        bw.put(3, 2)
        bw.put(n - 4, 3)
    elif n <= 24:
        bw.put(3, 2)
        bw.put(7, 3)
        bw.put(n - 11, 4)
    elif n <= 88:
        bw.put(3, 2)
        bw.put(7, 3)
        bw.put(14, 4)
        bw.put(n - 25, 6)
    else:
        bw.put(3, 2)
        bw.put(7, 3)
        bw.put(15, 4)
        bw.put(n - 89, 7)


def _put_copy_count(bw, n):
    if n <= 5:
        bw.put(n - 3, 2)
        return
    bw.put(3, 2)
    if n <= 10:
        bw.put(n - 6, 3)
    elif n <= 14:
        bw.put(5, 3)
        bw.put(n - 11, 2)
    elif n <= 22:
        bw.put(6, 3)
        bw.put(n - 15, 3)
    else:
        bw.put(7, 3)
        if n <= 84:
            bw.put(n - 23, 6)
        elif n <= 116:
            bw.put(62, 6)
            bw.put(n - 85, 5)
        else:
            bw.put(63, 6)
            bw.put(n - 117, 7)


def copy_range(d, n):
    if n == 2:
        if d < 64:
            return 0
        if d < 320:
            return 1
        raise ValueError("length-2 copy needs distance < 320 (got %d)" % d)
    if d < 64:
        return 2
    if d < 576:
        return 3
    if d < 2624:
        return 4
    if d <= MAX_DIST:
        return 5
    raise ValueError("distance %d too large" % d)


def _put_copy(bw, d, n, P):
    if not (MIN_LEN <= n <= MAX_LEN):
        raise ValueError("copy length %d out of range" % n)
    if d < 0 or d >= P:
        raise ValueError("distance %d not below the %d bytes written" % (d, P))
    r = copy_range(d, n)
    # range selector
    if r in (0, 1, 4):
        bw.put(0, 1)
        if P >= 576:
            bw.put(1 if r == 4 else 0, 1)
        if r != 4 and P >= 64:
            bw.put(r, 1)
    else:
        bw.put(1, 1)
        if P >= 64:
            bw.put(0 if r == 3 else 1, 1)
        if r != 3 and P >= 2624:
            bw.put(1 if r == 2 else 0, 1)
    if r >= 2:
        _put_copy_count(bw, n)
    if r in (0, 2):
        bw.put(d, 6)
    elif r == 1:
        bw.put(d - 64, 8)
    elif r == 3:
        bw.put(d - 64, 8 if P < 320 else 9)
    elif r == 4:
        bits = 8 if P < 832 else 9 if P < 1088 else 10 if P < 1600 else 11
        bw.put(d - 576, bits)
    else:
        bits = (8 if P < 2880 else 9 if P < 3136 else 10 if P < 3648 else 11 if P < 4672
                else 12 if P < 6720 else 13)
        bw.put(d - 2624, bits)


def _lit_class(rank):
    for k in range(5, -1, -1):
        if rank >= LIT_CLASSES[k][0]:
            return k, rank - LIT_CLASSES[k][0], LIT_CLASSES[k][1]


def literal_ranks(cmds):
    """Move-to-front rank of every literal in cmds (in order), simulating the output."""
    mtf = MTF()
    out = bytearray()
    ranks = []
    for c in cmds:
        if c[0] == "lit":
            ranks.append(mtf.rank(c[1]))
            mtf.touch(c[1])
            out.append(c[1])
        else:
            _, d, n = c
            for _ in range(n):
                b = out[len(out) - d - 1]
                out.append(b)
                mtf.touch(b)
    return ranks


def usable_trees(cmds):
    """Indices of the trees able to code every literal of cmds."""
    need = set(_lit_class(r)[0] for r in literal_ranks(cmds))
    return [i for i in range(32) if need <= set(tree_classes(i))]


def encode(cmds, method="-pm1-", tree="auto", tail="explicit", alt_codes="first", seed=0,
           pad_bit=0, pad_bytes=0, info=None):
    """Encode a command list.

    Options:
      tree       0..31: start-header tree; "auto": the usable tree giving the fewest bits for the
                 literals of this stream; "first"/"last": first/last usable index.  ValueError if
                 the tree cannot express some literal (see usable_trees()).
      tail       what follows a final literal block shorter than 216 (the format demands a copy):
                 "explicit" = emit a copy of 2 bytes at distance 0 (cut off by the declared
                 length); "implicit" = emit nothing and rely on the decoder reading zero bits
                 past the end of the data, which mean the same thing.
      alt_codes  tree 17 has two codes for classes d and e: "first" | "second" | "random"
      seed       for alt_codes="random"
      info       optional dict receiving statistics
    The command structure is otherwise forced: a run of L literals becomes L // 216 full blocks
    and one block of L % 216, and the copy that follows is attached to that last block.
    """
    check_cmds(cmds)
    rng = _random.Random(seed)
    ranks = literal_ranks(cmds)
    classes = [_lit_class(r) for r in ranks]
    if tree in ("auto", "first", "last"):
        need = set(k for k, _, _ in classes)
        cands = [i for i in range(32) if need <= set(tree_classes(i))]
        if not cands:
            raise ValueError("no tree can code these literals (classes %r)" % sorted(need))
        if tree == "first":
            tree = cands[0]
        elif tree == "last":
            tree = cands[-1]
        else:
            hist = {}
            for k, _, _ in classes:
                hist[k] = hist.get(k, 0) + 1
            tree = min(cands, key=lambda i: (sum(tree_codes(i)[k][0][1] * v for k, v in hist.items()), i))
    if not (0 <= tree <= 31):
        raise ValueError("tree index out of range")
    codes = tree_codes(tree) if tree != 31 else {0: [(0, 0)]}
    bw = BitWriter()
    bw.put(tree, 5)
    P = 0
    li = 0
    i = 0
    n = len(cmds)
    stats = dict(tree=tree, blocks=0, full_blocks=0, copies=0, implicit_tail=False, explicit_tail=False)

    def put_literal(li):
        k, x, xb = classes[li]
        if k not in codes:
            raise ValueError("tree %d cannot code a literal of rank %d (class %s)"
                             % (tree, ranks[li], "abcdef"[k]))
        cs = codes[k]
        if len(cs) == 1 or alt_codes == "first":
            code = cs[0]
        elif alt_codes == "second":
            code = cs[-1]
        else:
            code = rng.choice(cs)
        bw.put_code(code)
        bw.put(x, xb)

    while i < n:
        if cmds[i][0] == "copy":
            bw.put(0, 1)
            _put_copy(bw, cmds[i][1], cmds[i][2], P)
            P += cmds[i][2]
            stats["copies"] += 1
            i += 1
            continue
        j = i
        while j < n and cmds[j][0] == "lit":
            j += 1
        L = j - i
        while L > 0:
            b = min(L, MAX_BLOCK)
            bw.put(1, 1)
            _put_block_count(bw, b)
            for _ in range(b):
                put_literal(li)
                li += 1
            P += b
            L -= b
            stats["blocks"] += 1
            if b == MAX_BLOCK:
                stats["full_blocks"] += 1
                continue
            # a short block: the copy that follows belongs to it
            if j < n:
                _put_copy(bw, cmds[j][1], cmds[j][2], P)
                P += cmds[j][2]
                stats["copies"] += 1
                j += 1
            elif tail == "explicit":
                _put_copy(bw, 0, 2, P)
                stats["explicit_tail"] = True
            elif tail == "implicit":
                stats["implicit_tail"] = True
            else:
                raise ValueError("bad tail %r" % (tail,))
        i = j
    if info is not None:
        info.update(stats)
    return bw.getvalue(pad_bit, pad_bytes)


# ------------------------------------------------------------- random ----

def random_cmds(rng, method="-pm1-", n=100, tree=None, lit_prob=0.5, len_cap=None, run_bias=0.0):
    """n random valid commands.  tree: restrict literals to the classes tree `tree` can express
    (None = all six classes, i.e. only trees with six leaves will do).  Copies pick a range class
    (among those available at the current position) and a length class uniformly.  run_bias:
    probability of emitting a long literal run (to reach the 216 block limit)."""
    allowed = tree_classes(tree) if tree is not None else list(range(6))
    len_classes = [(2, 2), (3, 5), (6, 10), (11, 14), (15, 22), (23, 84), (85, 116), (117, 244)]
    mtf = MTF()
    out = bytearray()
    cmds = []

    def lit():
        base, bits = LIT_CLASSES[rng.choice(allowed)]
        r = base + rng.choice((0, (1 << bits) - 1, rng.randrange(1 << bits)))
        b = mtf.at(r)
        cmds.append(("lit", b))
        mtf.touch(b)
        out.append(b)

    while len(cmds) < n:
        P = len(out)
        if P == 0 or rng.random() < lit_prob:
            if rng.random() < run_bias:
                for _ in range(rng.choice((215, 216, 217, 432, 433, rng.randint(1, 500)))):
                    lit()
            else:
                lit()
            continue
        lo, hi = rng.choice(len_classes)
        ln = rng.choice((lo, hi, rng.randint(lo, hi)))
        if len_cap and ln > len_cap:
            ln = len_cap
        if ln == 2:
            ranges = [(0, 63), (64, 319)]
        else:
            ranges = [(0, 63), (64, 575), (576, 2623), (2624, MAX_DIST)]
        ranges = [(a, min(b, P - 1)) for a, b in ranges if a < P]
        a, b = rng.choice(ranges)
        d = rng.choice((a, b, rng.randint(a, b)))
        cmds.append(("copy", d, ln))
        for _ in range(ln):
            x = out[len(out) - d - 1]
            out.append(x)
            mtf.touch(x)
    return cmds
