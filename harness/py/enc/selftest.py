#!/usr/bin/env python3
"""Self test of the independent encoders against lhasa's real decoders.

For every method: build command lists (structural corner cases + random ones, including outputs
larger than the history window), encode them with every structural option, decode the result with
lhasa (ASan/UBSan build of /verif/harness/c/decoder_drv.c) and require
        decoded bytes == expand(cmds)      (and length / CRC-16 as reported by the front end).
Additionally the real streams in /repo/test/compressed and some members of /repo/test/archives are
parsed with the tiny decoders in refdec.py, checked against the known plaintext / header CRC, and
re-encoded with the extracted structure, expecting the original bits back.

Prints one summary line per method; exit status 0 iff everything agreed.
Usage: selftest.py [--seed N] [--quick] [--only lzs,lz5,stored,lhnew,lh1,pm2,pm1,corpus] [--keep]
"""
import argparse, glob, os, random, re, struct, sys, time

HERE = os.path.dirname(os.path.abspath(__file__))
sys.path.insert(0, HERE)

import enc_lzs, enc_lz5, enc_lh1, enc_lhnew, enc_pm2, enc_pm1, enc_null, refdec      # noqa: E402
from common import greedy_parse                                              # noqa: E402
from lhasa_run import Lhasa                                                  # noqa: E402

REPO = os.environ.get("VERIF_REPO", "/repo")


def crc16(data):
    tab = getattr(crc16, "tab", None)
    if tab is None:
        tab = []
        for i in range(256):
            c = i
            for _ in range(8):
                c = (c >> 1) ^ 0xA001 if c & 1 else c >> 1
            tab.append(c)
        crc16.tab = tab
    c = 0
    for b in data:
        c = (c >> 8) ^ tab[(c ^ b) & 0xFF]
    return c


class Suite:
    def __init__(self, lh, name):
        self.lh = lh
        self.name = name
        self.cases = []          # (label, method, stream, expected)
        self.failures = []
        self.notes = []
        self.count = 0

    def add(self, label, mod, method, cmds, **opts):
        try:
            expected = mod.expand(cmds, method)
            stream = mod.encode(cmds, method, **opts)
        except Exception as e:          # an encoder refusing a case we think is valid is a failure
            self.failures.append("%s %s: encoder raised %s: %s" % (method, label, type(e).__name__, e))
            return None
        self.cases.append((label, method, stream, expected))
        return opts.get("info")

    def add_raw(self, label, method, stream, expected):
        self.cases.append((label, method, stream, expected))

    def expect(self, cond, what):
        if not cond:
            self.failures.append("%s: coverage expectation not met: %s" % (self.name, what))

    def flush(self):
        if not self.cases:
            return
        res = self.lh.decode([(m, s, len(e)) for _, m, s, e in self.cases])
        for (label, method, stream, expected), r in zip(self.cases, res):
            self.count += 1
            if r.data != expected:
                k = next((j for j in range(min(len(r.data), len(expected))) if r.data[j] != expected[j]),
                         min(len(r.data), len(expected)))
                self.failures.append("%s %s: lhasa decoded %d bytes, expected %d, first difference at %d; stream=%s"
                                     % (method, label, len(r.data), len(expected), k,
                                        stream[:64].hex() + ("..." if len(stream) > 64 else "")))
            elif r.length != len(expected) or r.crc != crc16(expected):
                self.failures.append("%s %s: front end reports length %r crc %r" % (method, label, r.length, r.crc))
        self.cases = []

    def summary(self, extra=""):
        self.flush()
        print("%-8s %5d streams  %s%s" % (self.name, self.count, "OK" if not self.failures else
                                          "FAILED (%d)" % len(self.failures), ("  " + extra) if extra else ""))
        for f in self.failures[:20]:
            print("    " + f)
        sys.stdout.flush()
        return not self.failures


def L(b):
    return ("lit", b)


_PLAIN = []


def plaintext():
    if not _PLAIN:
        with open(os.path.join(REPO, "test", "compressed", "lh0.bin"), "rb") as f:
            _PLAIN.append(f.read())
    return _PLAIN[0]


def parse_text(data, min_len, max_len, max_dist, ok=None, to_cmd=None):
    """Greedy LZ77 parse of real text into a command list for one method.  ok(distance, length,
    out_len) filters copies the method cannot express (they become literals); to_cmd converts
    (distance, length, out_len) into the method's copy command."""
    out = []
    pos = 0
    for c in greedy_parse(data, max_dist + 1, min_len, max_len, max_dist):
        if c[0] == "lit":
            out.append(c)
            pos += 1
        else:
            _, d, n = c
            if ok is not None and not ok(d, n, pos):
                out += [("lit", b) for b in data[pos:pos + n]]
            else:
                out.append(to_cmd(d, n, pos) if to_cmd else c)
            pos += n
    return out


def C(d, n):
    return ("copy", d, n)


def seam_overlap_streams(ring, maxlen, maxdist, lengths, ks_of, quick):
    """distance-coded formats: command lists (one per case) that bring the output position to where a copy of length n from distance d
    (d around n: the source runs into the bytes being written) has its source begin k bytes before the end of a ring of `ring`
    bytes.  Filler = runs (distance 1) of the maximum length, cheap to code."""
    out = []
    for n in lengths:
        for d in sorted(set([1, 2, n - 1, n, n + 1]) - set([0, -1])):
            if d > maxdist:
                continue
            for k in ks_of(n):
                pos = (ring - k + d) % ring or ring          # output position at which the copy is issued
                if pos < d:
                    pos += ring
                cm = [L(0x30 + (n + d + k) % 64)]
                cur = 1
                # a few distinct bytes so that a wrong source shows, then runs
                while cur < pos:
                    step = min(maxlen, pos - cur)
                    if step >= 3 and cur % 5:
                        cm.append(C(0, step))
                        cur += step
                    else:
                        cm.append(L((cur * 13 + k) & 0xFF))
                        cur += 1
                cm.append(C(d - 1, n))
                cm += [L(1), L(2)]
                out.append(("n=%d d=%d k=%d" % (n, d, k), cm))
    return out


# ====================================================================== lzs / lz5

def test_larc(lh, rng, quick, mod, method):
    s = Suite(lh, method)
    ring, start, lo, hi = mod.RING, mod.START, mod.MIN_LEN, mod.MAX_LEN
    s.add("empty", mod, method, [])
    s.add("one literal", mod, method, [L(0x41)])
    s.add("all byte values", mod, method, [L(b) for b in range(256)])
    s.add("one copy from the initial ring", mod, method, [C(0, hi)])
    s.add("copy at the write position", mod, method, [L(1), L(2), C(start + 2, hi)])
    s.add("copy overlapping its own output", mod, method, [L(7), L(8), C(start, hi), C(start + 1, hi)])
    s.add("copy wrapping the ring end", mod, method, [L(9)] * 30 + [C(ring - 3, hi), C(ring - 1, lo)])
    s.add("every length", mod, method, [L(b) for b in b"abcdefghijklmnopqrstuvwxyz"] +
          [C((start + i) % ring, n) for i, n in enumerate(range(lo, hi + 1))])
    s.add("every ring position once", mod, method, [C(p, lo + p % (hi - lo + 1)) for p in range(ring)])
    s.add("only copies of the region just written", mod, method,
          [L(b) for b in range(64)] + [C((start + i * 3) % ring, hi) for i in range(500)])
    # overlap x ring seam: copies whose source lies d bytes behind the write position (d around the copy length, so that the source
    # runs into the bytes being written by 0, 1, 2 ... bytes) and begins k bytes before the end of the ring, for every k: the two
    # features each have their own code path (wrap-around of the source, byte-by-byte semantics of overlapping copies)
    for n in sorted(set([lo, lo + 1, (lo + hi) // 2, hi - 1, hi])):
        cm = []
        w = start
        for d in sorted(set([1, 2, n - 1, n, n + 1]) - set([0, -1])):
            for k in range(0, n + 2):
                src = (ring - k) % ring
                target = (src + d) % ring
                gap = (target - w) % ring
                while gap >= hi:
                    cm.append(C((w - 1) % ring, hi))
                    w = (w + hi) % ring
                    gap -= hi
                for _ in range(gap):
                    cm.append(L((w * 7 + k) & 0xFF))
                    w = (w + 1) % ring
                cm.append(C(src, n))
                w = (w + n) % ring
                cm.append(L((k * 31 + d) & 0xFF))
                w = (w + 1) % ring
        s.add("overlap x ring seam, length %d" % n, mod, method, cm)
    for n in range(1, 18):
        cm = mod.random_cmds(rng, method, n)
        s.add("tail group of %d" % n, mod, method, cm)
        if method == "-lz5-":
            s.add("tail group of %d, flag padding 1" % n, mod, method, cm, pad_flags=1)
        else:
            s.add("tail of %d, pad bit 1" % n, mod, method, cm, pad_bit=1)
    for i in range(40 if quick else 150):
        s.add("random %d" % i, mod, method, mod.random_cmds(rng, method, rng.randint(1, 4000),
                                                            lit_prob=rng.choice((0.1, 0.5, 0.9))))
    text = parse_text(plaintext(), lo, hi, ring - hi - 1, to_cmd=lambda d, n, pos: C(mod.ring_pos_for_distance(pos, d), n))
    s.expect(mod.expand(text, method) == plaintext(), "parsed text expands to itself")
    s.add("real text, greedy parse", mod, method, text)
    big = mod.random_cmds(rng, method, 12000, lit_prob=0.3)
    s.expect(len(mod.expand(big, method)) > 65536, "big output > 64 KiB")
    s.add("big", mod, method, big)
    return s.summary()


# ====================================================================== stored

def test_null(lh, rng):
    s = Suite(lh, "stored")
    for method in enc_null.METHODS:
        for n in (0, 1, 1023, 1024, 1025, 5000):
            s.add("%d bytes" % n, enc_null, method, enc_null.random_cmds(rng, method, n))
        cm = enc_null.random_cmds(rng, method, 100)
        s.add_raw("trailing bytes cut by the declared length", method, enc_null.encode(cm, method, trailing=b"xyz"),
                  enc_null.expand(cm, method))
    return s.summary()


# ====================================================================== lh1

def test_lh1(lh, rng, quick):
    E = enc_lh1
    m = "-lh1-"
    s = Suite(lh, m)
    s.add("empty", E, m, [])
    s.add("one literal", E, m, [L(0)])
    s.add("one copy of initial spaces", E, m, [C(4095, 60)])
    s.add("every symbol once", E, m, [L(b) for b in range(256)] + [C(n, n) for n in range(3, 61)])
    s.add("every symbol once, reversed", E, m, [C(n, n) for n in range(60, 2, -1)] + [L(b) for b in range(255, -1, -1)])
    s.add("every upper-distance value", E, m, [L(b) for b in range(256)] * 2 +
          [C((u << 6) | (u % 64), 3 + u % 58) for u in range(64)] + [C((u << 6) | 63, 3) for u in range(64)] +
          [C(u << 6, 60) for u in range(64)])
    s.add("overlapping copies", E, m, [L(1), C(0, 60), L(2), L(3), C(1, 59), C(0, 3)])
    for label, cm in seam_overlap_streams(4096, 60, 4096, (3, 60) if quick else (3, 4, 31, 59, 60),
                                          (lambda n: sorted(set([0, 1, n - 1, n]))) if quick else (lambda n: range(0, n + 2)), quick):
        s.add("overlap x ring seam " + label, E, m, cm)
    for i in range(30 if quick else 100):
        s.add("random %d" % i, E, m, E.random_cmds(rng, m, rng.randint(1, 5000), lit_prob=rng.choice((0.2, 0.5, 0.9))))
    rebuilds = 0
    deepest = 0
    for label, cm in (("70000 x same literal", [L(0x55)] * 70000),
                      ("90000 random", E.random_cmds(rng, m, 90000)),
                      ("120000 skewed literals", E.random_cmds(rng, m, 120000, lit_prob=0.92, skew=True)),
                      ("50000 over three symbols", E.random_cmds(rng, m, 50000, lit_prob=0.97, alphabet=[0, 1, 255])),
                      ("45000 copies only", E.random_cmds(rng, m, 45000, lit_prob=0.0))):
        info = {}
        s.add(label, E, m, cm, info=info)
        s.expect(info.get("rebuilds", 0) >= 1, "%s: tree rebuilt" % label)
        rebuilds += info.get("rebuilds", 0)
        deepest = max(deepest, info.get("max_code_len", 0))
    # the longest codes the scheme can produce: a few symbols whose counts grow like Fibonacci numbers above the ~300 never-used symbols
    # (each weight at least the sum of everything below it), then the rare symbols, whose codes sit at the bottom of that chain
    def fibs(k):
        a, b2, out = 1, 1, []
        for _ in range(k):
            out.append(a)
            a, b2 = b2, a + b2
        return out
    rare = [L(200), C(5, 3), L(201), C(100, 60), L(0), L(202), C(4000, 17), L(250)]
    for k, mlt, shuffled in ((9, 340, False), (8, 340, False), (9, 360, False), (9, 340, True)):
        pool = [L(i) for i, c in enumerate(fibs(k)) for _ in range(c * mlt)]
        if shuffled:
            rng.shuffle(pool)
        info = {}
        s.add("Fibonacci-weighted literals (%d symbols x %d%s), then rare symbols" % (k, mlt, ", shuffled" if shuffled else ""), E, m, pool + rare * 3, info=info)
        deepest = max(deepest, info.get("max_code_len", 0))
    s.expect(deepest >= 18, "codes of 18 bits (got %d)" % deepest)
    s.add("pad bit 1", E, m, E.random_cmds(rng, m, 100), pad_bit=1)
    text = parse_text(plaintext(), 3, 60, 4095)
    s.expect(E.expand(text, m) == plaintext(), "parsed text expands to itself")
    s.add("real text, greedy parse", E, m, text)
    s.expect(deepest >= 14, "deep adaptive codes (got %d)" % deepest)
    return s.summary("tree rebuilds exercised: %d, longest code %d bits" % (rebuilds, deepest))


# ====================================================================== lhnew

def _fit_blocks(rng, n, sizes):
    out = []
    tot = 0
    for b in sizes:
        if tot + b <= n:
            out.append(b)
            tot += b
    return out


def test_lhnew(lh, rng, quick, method):
    E = enc_lhnew
    P = E.PARAMS[method]
    W = E.window(method)
    ML = E.max_len(method)
    s = Suite(lh, method)
    agg = dict(zero_tokens=[0, 0, 0], skip=[0, 0, 0, 0], temp_single=0, code_single=0, offset_single=0,
               empty_blocks=0, unary_ext=0, skip_past_n=0, max_code_len_used=0, max_offset_len_used=0,
               max_temp_len=0, code_syms=set(), offset_syms=set(), blocks=0)

    def add(label, cmds, **o):
        info = {}
        r = s.add(label, E, method, cmds, info=info, **o)
        if r is not None:
            for k in ("temp_single", "code_single", "offset_single", "empty_blocks", "unary_ext", "skip_past_n", "blocks"):
                agg[k] += info[k]
            for k in ("max_code_len_used", "max_offset_len_used", "max_temp_len"):
                agg[k] = max(agg[k], info[k])
            for k in ("zero_tokens", "skip"):
                agg[k] = [a + b for a, b in zip(agg[k], info[k])]
            agg["code_syms"] |= info["code_syms"]
            agg["offset_syms"] |= info["offset_syms"]
        return info

    add("empty", [])
    add("one literal", [L(0x41)])
    add("one copy from the initial window", [C(W - 1, ML)])
    add("run of spaces at distance 0", [C(0, ML), C(0, 3)])
    add("empty blocks before, between and after", [L(1), L(2), C(0, 5)], block_sizes=[0, 0, 1, 0, 2, 0])
    add("every literal once", [L(b) for b in range(256)])
    add("every literal once, flat: temp table in n=0 form", [L(b) for b in range(256)], strategy="flat")
    all_lens = list(range(3, ML + 1))
    add("every length once", [L(5)] + [C(i % 7, n) for i, n in enumerate(all_lens)])
    dcl = E.distance_classes(method)
    add("every offset symbol, both ends", [L(3)] + [C(d, 3 + i % 5) for i, (lo, hi) in enumerate(dcl) for d in (lo, hi)])
    allsyms = [L(b) for b in range(256)] + [C(dcl[i % len(dcl)][1], n) for i, n in enumerate(all_lens)]
    rng.shuffle(allsyms)
    add("whole alphabet, huffman", allsyms)
    add("whole alphabet, full table", allsyms, strategy="full", offset_strategy="full", temp_strategy="full")
    add("whole alphabet, one command per block", allsyms[:300], block_sizes=[1] * 300)
    if P["lhark"]:
        add("length 514 via symbol 288", [L(1), C(0, 514), C(3, 514)], lk7_514="288")
        add("length 514 via symbol 287", [L(1), C(0, 514), C(3, 514)], lk7_514="287")
        edges = [L(9)]
        for lo, hi in E.length_classes(method):
            edges += [C(1, lo), C(2, hi)]
        add("every length symbol, both ends", edges)
    # strategy matrix
    strategies = ("huffman", "flat", "full", "maxlen")
    i = 0
    for st in strategies:
        for z in ("long", "short", "mixed"):
            for sk in ("auto", "never", "partial", "random"):
                i += 1
                cm = E.random_cmds(rng, method, rng.randint(1, 500), len_bias=rng.choice((8, 40, None)),
                                   alphabet=list(range(rng.choice((1, 2, 5, 40, 256)))))
                bs = _fit_blocks(rng, len(cm), [rng.randint(0, 120) for _ in range(6)])
                add("matrix %s/%s/%s" % (st, z, sk), cm, strategy=st, zero_run_style=z, skip_field=sk,
                    block_sizes=bs, seed=i, temp_strategy=rng.choice(strategies),
                    offset_strategy=rng.choice(strategies), code_n=rng.choice(("min", "max")),
                    temp_n=rng.choice(("min", "std", "max")), offset_n=rng.choice(("min", "max")),
                    overrun=rng.random() < 0.5, pad_bit=rng.randint(0, 1))
    # per-block option lists
    cm = E.random_cmds(rng, method, 900, len_bias=20)
    add("per-block strategies", cm, block_sizes=[100] * 9, strategy=["huffman", "flat", "maxlen", "full"],
        zero_run_style=["long", "short", "mixed"], skip_field=["auto", "never"], temp_n=["min", "max"])
    # single-symbol forms
    cm = E.random_cmds(rng, method, 400, len_bias=30, alphabet=[0x20, 0x41])
    info = add("n=0 forms everywhere", cm, strategy="single", block_sizes=E.run_block_sizes(cm, method))
    s.expect(info.get("code_single", 0) == info.get("blocks", -1), "all blocks single-symbol")
    add("one-bit code for a single symbol", cm, strategy="len1", block_sizes=E.run_block_sizes(cm, method))
    add("n=0 code table with an idle temp table whose skip field runs past n", cm, strategy="single",
        block_sizes=E.run_block_sizes(cm, method), idle_temp=["skip3", "n0"])
    add("65535 x one literal in a zero-bit block", [L(0xAA)] * 65535)
    add("65536 x one literal (second block of one)", [L(0xAB)] * 65536)
    add("single offset symbol, many copies", [L(1)] + [C(40 + i % 20, 3 + i % 9) for i in range(300)])
    if method in ("-lh5-", "-lh4-") and (method == "-lh5-" or not quick):
        for label, cm in seam_overlap_streams(16384, ML, W, (3, ML) if quick else (3, 4, 128, ML - 1, ML),
                                              (lambda n: sorted(set([0, 1, n - 1]))) if quick else (lambda n: sorted(set([0, 1, 2, n - 1, n, n + 1]))), quick):
            add("overlap x ring seam " + label, cm)
    # the 16-bit code really used
    cm = [L(b % 200) for b in range(3000)] + [L(250)]
    info = add("maxlen: rarest symbol gets 16 bits", cm, strategy="maxlen")
    s.expect(info.get("max_code_len_used") == 16, "16-bit code used (got %r)" % info.get("max_code_len_used"))
    info = add("maxlen with few symbols (dummies take the short codes)", [L(1), L(2), L(1), C(0, 3)], strategy="maxlen",
               offset_strategy="maxlen", temp_strategy="maxlen")
    s.expect(info.get("max_code_len_used") == 16, "16-bit code used with dummies")
    add("lhasa-tolerated 28-bit code", [L(b % 40) for b in range(500)], strategy="maxlen", max_code_len=28, temp_n="max")
    # explicit lengths: all 256 literals with 8 bits + nothing else -> temp single; kraft-incomplete table
    add("explicit lengths (dict)", [L(1), L(2), L(3), L(1)], lengths={1: 1, 2: 2, 3: 3, 280: 3})
    add("explicit incomplete code", [L(1), L(2), L(3), L(1)], lengths={1: 2, 2: 2, 3: 3})
    add("explicit offset/temp lengths", [L(1), C(0, 3), C(3, 4), L(2)],
        offset_lengths=[2, 2, 2, 2], temp_lengths=lambda b, f: [3] * 8 + [0] * 23 if max(f) < 8 else None)
    if P["off_bits"] == 5:
        add("aliasing distances", [L(1), L(2), C(W, 5), C(W + 1, 5), C(3 * W + 1, 9)], allow_alias=True)
        top = min(25, (1 << P["off_bits"]) - 2)
        add("largest aliasing distance", [L(1), L(2), C((1 << top) + 1, 9)], allow_alias=True)
    for k in range(20 if quick else 60):
        cm = E.random_cmds(rng, method, rng.randint(1, 3000), lit_prob=rng.choice((0.1, 0.5, 0.95)),
                           len_bias=rng.choice((None, 12, 60)))
        add("random %d" % k, cm, zero_run_style="mixed", skip_field="random", seed=k,
            block_sizes=_fit_blocks(rng, len(cm), [rng.randint(0, 1500) for _ in range(4)]))
    text = parse_text(plaintext(), 3, ML, W - 1)
    s.expect(E.expand(text, method) == plaintext(), "parsed text expands to itself")
    for st in ("huffman", "flat", "maxlen"):
        add("real text, greedy parse, %s" % st, text, strategy=st, block_sizes=[1000, 2000])
    # output larger than the window (ring wrap) with far copies
    need = W + W // 4 + 70000
    cm = []
    tot = 0
    far = [d for d in (W - 1, W - 2, W // 2, W // 2 - 1, 0, 1, 255, 256)]
    while tot < need:
        if rng.random() < 0.3:
            cm.append(L(rng.randrange(256)))
            tot += 1
        else:
            n = rng.choice((ML, ML, ML - 1, rng.randint(3, ML)))
            cm.append(C(rng.choice(far + [rng.randrange(W)]), n))
            tot += n
    add("output %d bytes > window" % tot, cm, block_sizes=[len(cm) // 3])
    ok_syms = len(agg["code_syms"]) == P["ncodes"]
    s.expect(ok_syms, "all %d code symbols used (got %d)" % (P["ncodes"], len(agg["code_syms"])))
    s.expect(len(agg["offset_syms"]) >= len(dcl), "all in-window offset symbols used")
    s.expect(all(agg["zero_tokens"]), "all three zero-run tokens used %r" % (agg["zero_tokens"],))
    s.expect(all(agg["skip"]), "all skip-field values used %r" % (agg["skip"],))
    s.expect(agg["temp_single"] > 0 and agg["code_single"] > 0 and agg["offset_single"] > 0, "n=0 forms of all tables")
    s.expect(agg["empty_blocks"] > 0 and agg["unary_ext"] > 0 and agg["skip_past_n"] > 0, "empty blocks/unary/skip past n")
    return s.summary("blocks %d, zero-run tokens %r, skip values %r, temp n=0 %d, longest code/offset/temp %d/%d/%d"
                     % (agg["blocks"], agg["zero_tokens"], agg["skip"], agg["temp_single"], agg["max_code_len_used"],
                        agg["max_offset_len_used"], agg["max_temp_len"]))


# ====================================================================== pm2

def test_pm2(lh, rng, quick):
    E = enc_pm2
    m = "-pm2-"
    s = Suite(lh, m)
    agg = dict(code_defs=0, offset_defs=0, single_code=0, single_offset=0, max_code_len=0, max_offset_len=0,
               flags0=0, flags1=0, points=0)

    def add(label, cmds, **o):
        info = {}
        r = s.add(label, E, m, cmds, info=info, **o)
        if r is not None:
            for k in ("code_defs", "offset_defs", "single_code", "single_offset"):
                agg[k] += info[k]
            for k in ("max_code_len", "max_offset_len", "points"):
                agg[k] = max(agg[k], info[k])
            agg["flags1"] += sum(1 for f in info["flags"] if f)
            agg["flags0"] += sum(1 for f in info["flags"] if not f)
        return info

    order = enc_pm2.MTF().order
    add("empty", [])
    add("one literal of rank 0", [L(order[0])])
    for k, (base, bits) in enumerate(E.LIT_CLASSES):
        add("literal class %d, both ends" % k, [L(order[base]), L(order[base + (1 << bits) - 1])])
    add("ranks 255 down", [L(order[255 - i]) for i in range(256)])
    add("same byte repeated: single code symbol 0", [L(0x20)] * 50, strategy="single")
    add("copy 256 at distance 0 only: (29,0) header", [C(0, 256)] * 5, strategy="single")
    add("length-2 copies only: 9 codes, no offset tree", [C(i % 64, 2) for i in range(40)], strategy="single")
    add("one copy class, one offset class: both trees single", [C(70 + i, 4) for i in range(30)], strategy="single")
    add("same with explicit one-bit codes", [C(70 + i, 4) for i in range(30)], strategy="len1", offset_strategy="single")
    add("every copy length", [L(65)] + [C(0 if n % 2 else (200 if n > 2 else 5), n) for n in range(2, 257)], len256="19")
    add("length 256 both ways", [L(1), C(0, 256), C(5, 256)], len256="auto")
    add("length 256 at distance 0 via class 19", [L(1), C(0, 256)], len256="19")
    add("every offset class before 1 KiB", [L(1)] + [C(d, 3) for t in range(5) for d in ((0, 63) if t == 0 else ((1 << (t + 5)), (2 << (t + 5)) - 1))])
    # reach each rebuild point exactly / by a literal / in the middle of a copy
    for pt, pos in ((1, 1024), (2, 2048), (3, 4096), (4, 8192), (5, 12288)):
        for style in ("literal", "copy-end", "copy-mid"):
            pre = []
            tot = 0
            target = pos - (1 if style == "literal" else 40 if style == "copy-end" else 20)
            while tot < target:
                n = min(200, target - tot)
                if n < 2:
                    pre.append(L(0x30 + tot % 10))
                    tot += 1
                else:
                    pre.append(C(rng.randrange(64), n))
                    tot += n
            cross = [L(0x7A)] if style == "literal" else [C(3, 40)]
            after = [L(0x41), C(E.max_distance(pos), 9), L(0x42)]
            for rb in ("always", "never"):
                add("point %d reached by %s, rebuild %s" % (pt, style, rb), pre + cross + after, rebuild=rb)
            if style != "copy-mid":
                add("data ends exactly at point %d (%s)" % (pt, style), pre + cross)
                add("data ends exactly at point %d (%s), definitions omitted" % (pt, style), pre + cross, final_rebuild=False)
    # the command that reaches the point, varied: a copy at distance 0 (a run of the last byte), 1, 63 and further back, of length 2, 40 and
    # 256, ending exactly on the point, one byte before it, or crossing it
    for pt, pos in ((1, 1024), (2, 2048), (3, 4096), (4, 8192)):
        for dist in (0, 1, 63, 700):
            for clen in (2, 40, 256):
                for over in (0, -1, 1, clen // 2):
                    if quick and (pt + dist + clen + over) % 3 and not (dist == 0 and over == 0):
                        continue
                    target = pos - clen + over
                    pre = []
                    tot = 0
                    while tot < target:
                        n = min(200, target - tot)
                        if n < 2:
                            pre.append(L(0x30 + tot % 10))
                            tot += 1
                        else:
                            pre.append(C(rng.randrange(64), n))
                            tot += n
                    add("point %d reached by a copy of %d at distance %d, %+d past the point" % (pt, clen, dist, over),
                        pre + [C(dist, clen), L(0x41), C(E.max_distance(pos + over), 9), L(0x42)], rebuild="always")
    # every offset class in every segment
    cm = [L(1)]
    tot = 1
    while tot < 14000:
        avail = E.num_offsets(E.segment_of(tot))
        for t in range(avail):
            d = rng.randrange(64) if t == 0 else (1 << (t + 5)) + rng.choice((0, (1 << (t + 5)) - 1))
            cm.append(C(d, 30))
            tot += 30
        cm.append(L(rng.randrange(256)))
        tot += 1
    for rb in ("always", "never", "alternate"):
        add("all offset classes in all segments, rebuild %s" % rb, cm, rebuild=rb)
    # strategy matrix on data long enough to pass several points
    i = 0
    sts = ("huffman", "flat", "full", "maxlen")
    for st in sts:
        for rb in ("always", "never", "alternate", "random", [4, 6]):
            for hs in ("tight", "loose", "random"):
                i += 1
                cm = E.random_cmds(rng, m, n=rng.randint(500, 6000), len_cap=rng.choice((8, 30, 256)),
                                   lit_prob=rng.choice((0.3, 0.7)))
                add("matrix %s/%s/%s" % (st, rb, hs), cm, strategy=st, rebuild=rb, header_style=hs,
                    offset_strategy=rng.choice(sts), num_codes=rng.choice(("min", "all", "max")), seed=i,
                    first_bit=rng.randint(0, 1), pad_bit=rng.randint(0, 1))
    add("per-point strategies", E.random_cmds(rng, m, n=9000, len_cap=40), strategy=["huffman", "flat", "maxlen", "full"],
        offset_strategy=["maxlen", "huffman", "flat"])
    add("lhasa-tolerated 28-bit chain", E.random_cmds(rng, m, n=3000, len_cap=20), strategy="maxlen", max_code_len=28,
        num_codes="all")
    # literals only, then switch to a tree with copies at 4 KiB; and the reverse
    lits = E.random_cmds(rng, m, n=4096, lit_prob=1.0)
    mix = E.random_cmds(rng, m, n=800, len_cap=20)
    info = add("no offset tree until the 4 KiB code tree", lits + mix)
    add("few codes but num_codes padded (dummy offset trees)", lits[:3000], num_codes="all")
    # explicit tables
    flat29 = [5] * 26 + [4] * 3
    add("explicit tables at points 0 and 3", E.random_cmds(rng, m, n=4000, len_cap=16),
        tables={0: {"code": flat29, "offset": [2, 2, 2, 3, 3]}, 3: {"code": flat29}}, rebuild="never")
    for k in range(20 if quick else 60):
        add("random %d" % k, E.random_cmds(rng, m, n=rng.randint(1, 5000), len_cap=rng.choice((None, 12, 60))),
            rebuild="random", header_style="random", seed=k)
    text = parse_text(plaintext(), 2, 256, 8191, ok=lambda d, n, pos: d <= E.max_distance(pos) and (n > 2 or d < 64))
    s.expect(E.expand(text, m) == plaintext(), "parsed text expands to itself")
    for rb in ("always", "never"):
        add("real text, greedy parse, rebuild %s" % rb, text, rebuild=rb)
    for rb in ("always", "never", "random"):
        cm = E.random_cmds(rng, m, n=9000, lit_prob=0.4)
        s.expect(len(E.expand(cm, m)) > 70000, "big pm2 output > 64 KiB")
        add("big, rebuild %s" % rb, cm, rebuild=rb, seed=7)
    s.expect(agg["flags0"] > 0 and agg["flags1"] > 0, "optional rebuild bit both ways")
    s.expect(agg["single_code"] > 0 and agg["single_offset"] > 0, "single forms")
    s.expect(agg["max_offset_len"] == 7, "7-bit offset code")
    return s.summary("rebuild points up to %d, optional bit 0/1: %d/%d, code/offset definitions %d/%d, longest code %d"
                     % (agg["points"], agg["flags0"], agg["flags1"], agg["code_defs"], agg["offset_defs"], agg["max_code_len"]))


# ====================================================================== pm1

def test_pm1(lh, rng, quick):
    E = enc_pm1
    m = "-pm1-"
    s = Suite(lh, m)
    order = enc_pm1.MTF().order
    trees_used = set()

    def add(label, cmds, **o):
        info = {}
        r = s.add(label, E, m, cmds, info=info, **o)
        if r is not None:
            trees_used.add(info["tree"])
        return info

    add("empty", [])
    for t in range(32):
        cls = E.tree_classes(t)
        edge = []
        for k in cls:
            base, bits = E.LIT_CLASSES[k]
            # choose bytes by rank at the time they are coded
            edge.append((base, (1 << bits) - 1))
        cm = []
        mtf = enc_pm1.MTF()
        for base, span in edge:
            for r in (base, base + span):
                b = mtf.at(r)
                cm.append(L(b))
                mtf.touch(b)
        for tail in ("explicit", "implicit"):
            for alt in (("first", "second", "random") if t == 17 else ("first",)):
                add("tree %d, every class edge, tail %s/%s" % (t, tail, alt), cm, tree=t, tail=tail, alt_codes=alt)
        add("tree %d random" % t, E.random_cmds(rng, m, n=rng.randint(50, 1200), tree=t, len_cap=rng.choice((10, 60, 244)),
                                                run_bias=0.02), tree=t, alt_codes="random", seed=t)
        add("tree %d mostly literals" % t, E.random_cmds(rng, m, n=300, tree=t, lit_prob=0.95), tree=t, tail="implicit")
    # the stream's last literal is the first of its class (its extra bits are all zero) and nothing follows it: with 0..7 literals in
    # front the code ends at every bit position of the last byte, so that dropping the zero bytes at the end of the stream cuts inside the code
    for t in range(31):
        cls = E.tree_classes(t)
        for k in cls:
            base, bits = E.LIT_CLASSES[k]
            for npre in range(8):
                mtf = enc_pm1.MTF()
                cm = []
                for q in range(npre):
                    b0 = mtf.at(E.LIT_CLASSES[cls[q % len(cls)]][0] + (q % 3))
                    cm.append(L(b0))
                    mtf.touch(b0)
                cm.append(L(mtf.at(base)))
                add("tree %d: last literal first of class %d, %d before, nothing after" % (t, k, npre), cm, tree=t, tail="implicit")
    add("tree auto on text", [L(b) for b in b"the quick brown fox jumps over the lazy dog"] + [C(3, 9)])
    add("tree first / last", [L(0x20), L(0x21)], tree="first")
    add("tree last", [L(0x20), L(0x21)], tree="last")
    # literal block length edges
    fill = [L(0x20), L(0x21), L(0x22)]
    for n in (1, 2, 3, 4, 10, 11, 24, 25, 88, 89, 215, 216, 217, 431, 432, 433, 648):
        run = [fill[i % 3] for i in range(n)]
        add("block of %d then copy" % n, run + [C(0, 3)])
        add("block of %d at the end (explicit tail)" % n, [L(0x23), C(0, 2)] + run, tail="explicit")
        add("block of %d at the end (implicit tail)" % n, [L(0x23), C(0, 2)] + run, tail="implicit")
    # copy length edges
    for n in (2, 3, 5, 6, 10, 11, 14, 15, 22, 23, 84, 85, 116, 117, 243, 244):
        add("copy length %d" % n, [L(0x20), C(0, n), L(0x21), L(0x22), C(2, n)])
    # position thresholds
    ths = (1, 2, 63, 64, 65, 66, 319, 320, 321, 575, 576, 577, 578, 831, 832, 833, 1087, 1088, 1089, 1599, 1600, 1601,
           2623, 2624, 2625, 2626, 2879, 2880, 2881, 3135, 3136, 3137, 3647, 3648, 3649, 4671, 4672, 4673,
           6719, 6720, 6721, 10815, 10816, 10817, 12000)
    bounds = ((0, 63), (64, 319), (64, 575), (576, 2623), (2624, 10815))
    for P in ths:
        pre = []
        tot = 0
        k = 0
        while tot < P:
            if tot == 0 or P - tot < 2 or k % 5 == 0:
                pre.append(L(0x20 + (k % 3)))
                tot += 1
            else:
                n = min(rng.choice((2, 3, 50, 244)), P - tot)
                pre.append(C(rng.randrange(min(tot, 64)), n))
                tot += n
            k += 1
        cps = []
        for lo, hi in bounds:
            if lo < P:
                for d in {lo, min(hi, P - 1)}:
                    if d < 320:
                        cps.append(C(d, 2))
                    cps.append(C(d, 3))
        for cp in cps:
            add("P=%d copy d=%d len %d" % (P, cp[1], cp[2]), pre + [cp, L(0x41)])
        # same but the copy attached to a literal block (no command bit)
        if P >= 2:
            pre2 = pre[:]
            # make the prefix end with a literal without changing its length
            if pre2[-1][0] == "copy":
                c = pre2.pop()
                if c[2] > 2:
                    pre2 += [C(c[1], c[2] - 1), L(0x27)]
                else:
                    pre2 += [L(0x27), L(0x28)]
            for cp in cps[:6]:
                add("P=%d copy d=%d len %d after block" % (P, cp[1], cp[2]), pre2 + [cp])
    for k in range(20 if quick else 60):
        add("random %d" % k, E.random_cmds(rng, m, n=rng.randint(1, 4000), run_bias=0.01, len_cap=rng.choice((None, 12, 60))))
    text = parse_text(plaintext(), 2, 244, E.MAX_DIST, ok=lambda d, n, pos: n > 2 or d < 320)
    s.expect(E.expand(text, m) == plaintext(), "parsed text expands to itself")
    for t in E.usable_trees(text):
        add("real text, greedy parse, tree %d" % t, text, tree=t)
    add("real text, greedy parse, tree auto", text)
    cm = E.random_cmds(rng, m, n=6000, lit_prob=0.3)
    s.expect(len(E.expand(cm, m)) > 70000, "big pm1 output > 64 KiB")
    add("big", cm)
    s.expect(trees_used == set(range(32)), "all 32 trees used")
    return s.summary("all 32 start-header trees, all position thresholds")


# ====================================================================== corpus

def members(buf):
    """Minimal LHA/PMA container walk (header levels 0-2): yields (method, packed, length, crc, data)."""
    for mt in re.finditer(rb"-(lh[0-9a-z]|lz[0-9s]|pm[0-9s])-", buf):
        p = mt.start() - 2
        if p < 0 or p + 24 > len(buf):
            continue
        level = buf[p + 20]
        packed, length = struct.unpack_from("<II", buf, p + 7)
        method = mt.group(0).decode()
        try:
            if level == 0:
                hl = buf[p] + 2
                nl = buf[p + 21]
                crc = struct.unpack_from("<H", buf, p + 22 + nl)[0]
                data = p + hl
            elif level == 1:
                hl = buf[p] + 2
                nl = buf[p + 21]
                crc = struct.unpack_from("<H", buf, p + 22 + nl)[0]
                q = p + hl
                ext = struct.unpack_from("<H", buf, q - 2)[0]
                while ext:
                    packed -= ext
                    q += ext
                    ext = struct.unpack_from("<H", buf, q - 2)[0]
                data = q
                if method == "-lh7-" and buf[p + 22 + nl + 2:p + 22 + nl + 3] == b" ":
                    method = "-lk7-"       # LHARK writes its own method under the name -lh7-
            elif level == 2:
                hl = struct.unpack_from("<H", buf, p)[0]
                crc = struct.unpack_from("<H", buf, p + 21)[0]
                data = p + hl
            else:
                continue
        except struct.error:
            continue
        if data + packed > len(buf) or hl < 21 or sum(buf[p + 2:p + hl]) & 0xFF != buf[p + 1] and level < 2:
            continue
        yield method, packed, length, crc, buf[data:data + packed]


def _same_bits(a, b, nbits):
    nb = nbits >> 3
    if a[:nb] != b[:nb]:
        return False
    r = nbits & 7
    if r == 0:
        return True
    if len(a) <= nb or len(b) <= nb:
        return False
    mask = (0xFF << (8 - r)) & 0xFF
    return (a[nb] & mask) == (b[nb] & mask)


def _reencode(method, stream, want):
    """Parse with refdec, re-encode with the extracted structure -> (cmds, expansion, same_bits)."""
    if method == "-lzs-":
        cm, meta = refdec.decode_lzs(stream, want)
        return cm, enc_lzs.expand(cm), _same_bits(stream, enc_lzs.encode(cm), meta["bits"]), enc_lzs, {}
    if method == "-lz5-":
        cm, meta = refdec.decode_lz5(stream, want)
        return cm, enc_lz5.expand(cm), stream[:meta["bytes"]] == enc_lz5.encode(cm), enc_lz5, {}
    if method == "-lh1-":
        cm, meta = refdec.decode_lh1(stream, want)
        return cm, enc_lh1.expand(cm), _same_bits(stream, enc_lh1.encode(cm), meta["bits"]), enc_lh1, {}
    if method in enc_lhnew.PARAMS:
        cm, meta = refdec.decode_lhnew(stream, want, method)
        B = meta["blocks"]
        sizes = [b["size"] for b in B]
        cut = sum(sizes) - len(cm)          # commands of the last block that lie beyond the declared length
        if cut:
            return cm, enc_lhnew.expand(cm, method), None, enc_lhnew, {}
        opts = dict(block_sizes=sizes, lengths=lambda i, f: B[i]["code"], offset_lengths=lambda i, f: B[i]["offset"],
                    temp_lengths=lambda i, f: B[i]["temp"])
        mine = enc_lhnew.encode(cm, method, **opts)
        return cm, enc_lhnew.expand(cm, method), _same_bits(stream, mine, meta["bits"]), enc_lhnew, {}
    if method == "-pm2-":
        cm, meta = refdec.decode_pm2(stream, want)
        T = {}
        for k, v in meta["tables"].items():
            T[k] = {}
            if "code" in v:
                T[k]["code"] = v["code"]
            if "offset_raw" in v:
                T[k]["offset"] = v["offset_raw"]
        o = dict(tables=T, rebuild=[k for k, f in meta["flags"].items() if f], first_bit=meta["first_bit"])
        mine = enc_pm2.encode(cm, **o)
        return cm, enc_pm2.expand(cm), _same_bits(stream, mine, meta["bits"]), enc_pm2, {}
    if method == "-pm1-":
        cm, meta = refdec.decode_pm1(stream, want)
        mine = enc_pm1.encode(cm, tree=meta["tree"], tail="implicit")
        nbits = min(meta["bits"], len(stream) * 8)
        return cm, enc_pm1.expand(cm), _same_bits(stream + b"\0", mine + b"\0" * 8, nbits), enc_pm1, {"tree": meta["tree"]}
    raise ValueError(method)


def test_corpus(lh, quick):
    s = Suite(lh, "corpus")
    D = os.path.join(REPO, "test", "compressed")
    plain = open(os.path.join(D, "lh0.bin"), "rb").read()
    exact = 0
    total = 0
    jobs = []
    for name in ("lzs", "lz5", "lh1", "lh5", "lh6", "lh7", "pm2"):
        jobs.append(("compressed/%s.bin" % name, "-%s-" % name, open(os.path.join(D, name + ".bin"), "rb").read(),
                     len(plain), crc16(plain)))
    limit = 300000 if quick else 1 << 22
    seen = set()
    for path in sorted(glob.glob(os.path.join(REPO, "test", "archives", "*", "*"))):
        if not os.path.isfile(path):
            continue
        rel = os.path.relpath(path, os.path.join(REPO, "test", "archives"))
        buf = open(path, "rb").read()
        for method, packed, length, crc, data in members(buf):
            if method not in ("-lh4-", "-lhx-", "-lk7-", "-pm1-", "-pm2-", "-lh1-", "-lh5-", "-lz5-", "-lh6-", "-lh7-"):
                continue
            if length == 0 or length > limit:
                continue
            key = (method, bytes(data[:64]), packed)
            if key in seen:
                continue
            # keep the run short: at most a few members per common method
            n_same = sum(1 for k in seen if k[0] == method)
            if n_same >= (3 if method in ("-lh5-", "-lh1-", "-lz5-", "-lh6-", "-lh7-") else 10):
                continue
            seen.add(key)
            jobs.append(("%s[%s]" % (rel, method), method, bytes(data), length, crc))
    methods_seen = set()
    for label, method, stream, length, crc in jobs:
        total += 1
        methods_seen.add(method)
        try:
            cm, exp, same, mod, extra = _reencode(method, stream, length)
        except Exception as e:
            s.failures.append("%s: reference decoder failed: %s: %s" % (label, type(e).__name__, e))
            continue
        if crc16(exp[:length]) != crc:
            s.failures.append("%s: expansion of the parsed commands has the wrong CRC" % label)
            continue
        if same is False:
            s.failures.append("%s: re-encoding with the extracted structure differs from the original bits" % label)
        elif same:
            exact += 1
        # lhasa on the original, and on a fresh encoding with our own choices
        s.add_raw(label + " original", method, stream, exp[:length])
        if len(exp) == length:
            mine = mod.encode(cm, method, **({"tree": extra["tree"]} if extra else {}))
            s.add_raw(label + " re-encoded", method, mine, exp)
        s.flush()
    s.expect({"-lh4-", "-lhx-", "-lk7-", "-pm1-"} <= methods_seen, "archive members of lh4/lhx/lk7/pm1 found (%r)" % sorted(methods_seen))
    return s.summary("%d real streams parsed, %d re-encoded bit-identically" % (total, exact))


# ====================================================================== main

def main():
    ap = argparse.ArgumentParser()
    ap.add_argument("--seed", type=int, default=20261001)
    ap.add_argument("--quick", action="store_true")
    ap.add_argument("--only", default="")
    ap.add_argument("--keep", action="store_true", help="keep the work directory")
    a = ap.parse_args()
    only = set(x for x in a.only.split(",") if x)
    t0 = time.time()
    lh = Lhasa()
    ok = True

    def want(name):
        return not only or name in only

    try:
        if want("lzs"):
            ok &= test_larc(lh, random.Random(a.seed + 1), a.quick, enc_lzs, "-lzs-")
        if want("lz5"):
            ok &= test_larc(lh, random.Random(a.seed + 2), a.quick, enc_lz5, "-lz5-")
        if want("stored"):
            ok &= test_null(lh, random.Random(a.seed))
        if want("lhnew"):
            for i, method in enumerate(enc_lhnew.METHODS):
                ok &= test_lhnew(lh, random.Random(a.seed + 10 + i), a.quick, method)
        if want("lh1"):
            ok &= test_lh1(lh, random.Random(a.seed + 3), a.quick)
        if want("pm2"):
            ok &= test_pm2(lh, random.Random(a.seed + 4), a.quick)
        if want("pm1"):
            ok &= test_pm1(lh, random.Random(a.seed + 5), a.quick)
        if want("corpus"):
            ok &= test_corpus(lh, a.quick)
    finally:
        if a.keep:
            print("work directory kept: " + lh.workdir)
        else:
            lh.close()
    print("selftest %s in %.0f s (seed %d)" % ("PASSED" if ok else "FAILED", time.time() - t0, a.seed))
    return 0 if ok else 1


if __name__ == "__main__":
    sys.exit(main())
