"""Independent encoder for -lh1- (LHarc 1.x: LZSS + adaptive Huffman, i.e. Okumura/Yoshizaki LZHUF).

Format (MSB-first bit stream)
-----------------------------
Each command is one symbol of a 314-symbol alphabet (0..255 literal, 256+k = copy of length 3+k,
so lengths 3..60), coded with an adaptive Huffman tree that encoder and decoder update identically
after every symbol.  A copy symbol is followed by the 12-bit distance: its upper 6 bits use a
fixed prefix code (1 code of 3 bits, 3 of 4, 8 of 5, 12 of 6, 24 of 7, 16 of 8 bits, assigned
canonically in increasing order), then the lower 6 bits raw.  Distance 0 = the byte just written;
the 4 KiB window starts filled with spaces.

The adaptive tree is the classic LZHUF one, implemented here exactly as in LZHUF.C (arrays
freq/prnt/son, T = 627 nodes, root R = 626, sentinel freq[T] = 0xffff):
  * StartHuff: all 314 leaves have frequency 1, internal nodes pair up neighbours in order;
  * update(c): walk from the leaf to the root; increment the node's frequency; if that breaks the
    ordering, exchange the node with the last node of the run of equal frequencies;
  * reconst(): when the root frequency reaches MAX_FREQ = 0x8000, halve all leaf frequencies
    ((f+1)/2), and rebuild the internal nodes by repeated insertion.
The code of a symbol is read off while walking up: a node with an odd index is a 1 bit; the bits
are emitted root first.

Commands
--------
("lit", b) | ("copy", distance 0..4095, length 3..60)
"""
try:
    from .common import BitWriter, expand_distances, check_cmds
except ImportError:
    from common import BitWriter, expand_distances, check_cmds

METHODS = ("-lh1-",)
WINDOW = 4096
MIN_LEN = 3
MAX_LEN = 60
N_CHAR = 256 - MIN_LEN + MAX_LEN + 1     # 314
T = N_CHAR * 2 - 1                       # 627
R = T - 1                                # 626
MAX_FREQ = 0x8000


def expand(cmds, method="-lh1-"):
    check_cmds(cmds)
    for c in cmds:
        if c[0] == "copy" and not (MIN_LEN <= c[2] <= MAX_LEN and 0 <= c[1] < WINDOW):
            raise ValueError("copy out of range: %r" % (c,))
    return expand_distances(cmds, WINDOW, 0x20)


def position_codes():
    """Fixed code for the upper six bits of the distance -> list of 64 (code, nbits)."""
    out = []
    code = 0
    prev = 3
    for nbits, count in ((3, 1), (4, 3), (5, 8), (6, 12), (7, 24), (8, 16)):
        code <<= (nbits - prev)
        prev = nbits
        for _ in range(count):
            out.append((code, nbits))
            code += 1
    assert len(out) == 64 and code == 256
    return out


class AdaptiveHuffman:
    """LZHUF.C's tree, array for array."""

    def __init__(self):
        self.freq = [0] * (T + 1)
        self.prnt = [0] * (T + N_CHAR)
        self.son = [0] * T
        self.rebuilds = 0
        freq, prnt, son = self.freq, self.prnt, self.son
        for i in range(N_CHAR):
            freq[i] = 1
            son[i] = i + T
            prnt[i + T] = i
        i = 0
        j = N_CHAR
        while j <= R:
            freq[j] = freq[i] + freq[i + 1]
            son[j] = i
            prnt[i] = prnt[i + 1] = j
            i += 2
            j += 1
        freq[T] = 0xFFFF
        prnt[R] = 0

    def reconst(self):
        freq, prnt, son = self.freq, self.prnt, self.son
        self.rebuilds += 1
        # collect leaves in the first half, halving their frequencies
        j = 0
        for i in range(T):
            if son[i] >= T:
                freq[j] = (freq[i] + 1) // 2
                son[j] = son[i]
                j += 1
        # build internal nodes by insertion
        i = 0
        j = N_CHAR
        while j < T:
            f = freq[i] + freq[i + 1]
            freq[j] = f
            k = j - 1
            while f < freq[k]:
                k -= 1
            k += 1
            # shift [k, j) up by one and insert at k
            freq[k + 1:j + 1] = freq[k:j]
            freq[k] = f
            son[k + 1:j + 1] = son[k:j]
            son[k] = i
            i += 2
            j += 1
        # reconnect parents
        for i in range(T):
            k = son[i]
            if k >= T:
                prnt[k] = i
            else:
                prnt[k] = prnt[k + 1] = i

    def code_of(self, c):
        """(code, nbits) for symbol c in the current tree."""
        prnt = self.prnt
        code = 0
        n = 0
        k = prnt[c + T]
        while True:
            if k & 1:
                code |= 1 << n
            n += 1
            k = prnt[k]
            if k == R:
                break
        return code, n

    def update(self, c):
        freq, prnt, son = self.freq, self.prnt, self.son
        if freq[R] == MAX_FREQ:
            self.reconst()
        c = prnt[c + T]
        while True:
            freq[c] += 1
            k = freq[c]
            l = c + 1
            if k > freq[l]:
                while k > freq[l + 1]:
                    l += 1
                freq[c] = freq[l]
                freq[l] = k
                i = son[c]
                prnt[i] = l
                if i < T:
                    prnt[i + 1] = l
                j = son[l]
                son[l] = i
                prnt[j] = c
                if j < T:
                    prnt[j + 1] = c
                son[c] = j
                c = l
            c = prnt[c]
            if c == 0:
                break


def encode(cmds, method="-lh1-", pad_bit=0, pad_bytes=0, info=None):
    """Options: pad_bit / pad_bytes (trailing padding only; the format has no other freedom).
    info: optional dict, receives {"rebuilds": number of tree reconstructions, "max_code_len"}."""
    check_cmds(cmds)
    tree = AdaptiveHuffman()
    pcodes = position_codes()
    bw = BitWriter()
    maxlen = 0
    for c in cmds:
        if c[0] == "lit":
            sym = c[1]
        else:
            _, d, n = c
            if not (0 <= d < WINDOW):
                raise ValueError("distance out of range: %r" % (c,))
            if not (MIN_LEN <= n <= MAX_LEN):
                raise ValueError("length out of range: %r" % (c,))
            sym = 256 + n - MIN_LEN
        code = tree.code_of(sym)
        if code[1] > maxlen:
            maxlen = code[1]
        # codes can exceed 32 bits in principle; BitWriter has no width limit
        bw.put_code(code)
        tree.update(sym)
        if c[0] == "copy":
            bw.put_code(pcodes[d >> 6])
            bw.put(d & 0x3F, 6)
    if info is not None:
        info["rebuilds"] = tree.rebuilds
        info["max_code_len"] = maxlen
    return bw.getvalue(pad_bit, pad_bytes)


def random_cmds(rng, method="-lh1-", n=100, lit_prob=0.5, alphabet=None, skew=False):
    """n random commands; copies take every length 3..60 and a distance class per position-code
    length (upper-six-bit groups 0, 1..3, 4..11, 12..23, 24..47, 48..63).  skew=True draws
    literals from a geometric distribution so the adaptive tree becomes deep."""
    groups = [(0, 0), (1, 3), (4, 11), (12, 23), (24, 47), (48, 63)]
    cmds = []
    for _ in range(n):
        if rng.random() < lit_prob:
            if skew:
                b = 0
                while b < 255 and rng.random() < 0.5:
                    b += 1
            elif alphabet:
                b = rng.choice(alphabet)
            else:
                b = rng.randrange(256)
            cmds.append(("lit", b))
        else:
            ln = rng.choice((MIN_LEN, MAX_LEN, rng.randint(MIN_LEN, MAX_LEN)))
            lo, hi = rng.choice(groups)
            up = rng.choice((lo, hi, rng.randint(lo, hi)))
            low = rng.choice((0, 63, rng.randrange(64)))
            cmds.append(("copy", (up << 6) | low, ln))
    return cmds
