"""Independent encoder for the "new" LHA static-Huffman methods -lh4- -lh5- -lh6- -lh7- -lhx- and
LHARK's -lk7-.

Format (all fields MSB first)
-----------------------------
The stream is a sequence of blocks:
    16 bits   number of commands in the block (0 is legal: the next block follows immediately)
    temp table, code table, offset table
    that many commands
temp table ("PT" table used to code the code table):
    5 bits n.  n == 0: 5 more bits name the only temp symbol (zero-length code).
    else n length values; a length value is 3 bits, and if those are 7, a unary extension
    (each further 1 bit adds one, a 0 bit ends it).  Immediately after the third length value
    (index 2) comes a 2-bit field s: the next s entries (indices 3..) are zero and not stored.
code table (literal/length alphabet: 0..255 literals, 256+k = copy of length 3+k):
    9 bits n.  n == 0: 9 more bits name the only symbol.
    else temp-coded tokens until n lengths are known:
        temp symbol 0      one zero length
        temp symbol 1      4 more bits v: 3+v zero lengths   (3..18)
        temp symbol 2      9 more bits v: 20+v zero lengths  (20..531)
        temp symbol t>2    length t-2
    a zero run that reaches past n is cut at n.
offset table: OFFSET_BITS bits n; n == 0: OFFSET_BITS more bits name the only symbol; else n
    length values (3 bits + unary extension, no skip field).
All three tables are canonical prefix codes (shorter codes first, then by symbol number).
A command is a code-table symbol; a copy is followed by an offset-table symbol b and then
    b == 0 -> distance 0;  b == 1 -> distance 1;  else b-1 raw bits x -> distance 2^(b-1) + x.
Distance 0 means "the byte just written".  The window initially holds spaces.

-lk7- (LHARK) differs:  289 code symbols, 6 offset bits, and
    length symbols  256..263 -> 3..10;  264..287: nlb = (sym-260)//4 raw bits x follow,
                    length = ((4 + sym%4) << nlb) + x + 3  (11..514);  288 -> 514
    offset symbols  0..3 -> distance 0..3;  s >= 4: nlb = (s-2)//2 raw bits x follow,
                    distance = ((2 + s%2) << nlb) + x

Per-method parameters (window = ring size lhasa uses, which is what bounds a distance before it
aliases; "nominal" is the dictionary size the original archivers use):
    -lh4- 16 KiB (nominal 4 KiB)   4 offset bits     -lh5- 16 KiB (nominal 8 KiB)   4 offset bits
    -lh6- 64 KiB (nominal 32 KiB)  5 offset bits     -lh7- 128 KiB (nominal 64 KiB) 5 offset bits
    -lhx- 1 MiB                    5 offset bits     -lk7- 64 KiB                   6 offset bits

Commands
--------
("lit", b) | ("copy", distance, length): distance 0 = previous byte; length 3..256 (lk7: 3..514).
"""
import random as _random

try:
    from .common import (BitWriter, canonical_codes, huffman_lengths, flat_lengths, chain_lengths,
                         tree_fits, expand_distances, check_cmds)
except ImportError:
    from common import (BitWriter, canonical_codes, huffman_lengths, flat_lengths, chain_lengths,
                        tree_fits, expand_distances, check_cmds)

PARAMS = {
    "-lh4-": dict(hist_bits=14, off_bits=4, ncodes=510, nominal=1 << 12, lhark=False),
    "-lh5-": dict(hist_bits=14, off_bits=4, ncodes=510, nominal=1 << 13, lhark=False),
    "-lh6-": dict(hist_bits=16, off_bits=5, ncodes=510, nominal=1 << 15, lhark=False),
    "-lh7-": dict(hist_bits=17, off_bits=5, ncodes=510, nominal=1 << 16, lhark=False),
    "-lhx-": dict(hist_bits=20, off_bits=5, ncodes=510, nominal=1 << 20, lhark=False),
    "-lk7-": dict(hist_bits=16, off_bits=6, ncodes=289, nominal=1 << 16, lhark=True),
}
METHODS = tuple(PARAMS)

TEMP_STD = 19          # temp alphabet of the original format: zero runs + lengths 1..16
TEMP_MAX = 31          # what a 5-bit count can announce
MAX_RAW_BITS = 25      # most raw bits a 32-bit MSB-first accumulator refilled bytewise can always deliver
MIN_LEN = 3

STRATEGIES = ("huffman", "flat", "full", "single", "len1", "maxlen")


def window(method):
    return 1 << PARAMS[method]["hist_bits"]


def max_len(method):
    return 514 if PARAMS[method]["lhark"] else 256


def expand(cmds, method):
    """Plain LZ77 expansion: window of spaces, distance modulo the window size."""
    check_cmds(cmds)
    for c in cmds:
        if c[0] == "copy" and not (MIN_LEN <= c[2] <= max_len(method)):
            raise ValueError("copy length out of range: %r" % (c,))
    return expand_distances(cmds, window(method), 0x20)


# ---------------------------------------------------------- symbolizing ----

def _length_symbol(P, n, lk7_514):
    """-> (symbol, extra value, extra bits)"""
    if not P["lhark"]:
        if not (3 <= n <= 256):
            raise ValueError("copy length %d out of range" % n)
        return 256 + n - 3, 0, 0
    if not (3 <= n <= 514):
        raise ValueError("copy length %d out of range" % n)
    if n <= 10:
        return 256 + n - 3, 0, 0
    if n == 514 and lk7_514 != "287":
        return 288, 0, 0
    v = n - 3
    nlb = v.bit_length() - 3
    top = v >> nlb                      # 4..7
    return 260 + 4 * nlb + (top - 4), v & ((1 << nlb) - 1), nlb


def _offset_symbol(P, d, allow_alias):
    limit = 1 << P["hist_bits"]
    if d < 0:
        raise ValueError("negative distance")
    if d >= limit and not allow_alias:
        raise ValueError("distance %d outside the %d byte window (allow_alias=True to permit)" % (d, limit))
    nsym_max = (1 << P["off_bits"]) - 1
    if not P["lhark"]:
        if d < 2:
            return d, 0, 0
        b = d.bit_length()
        if b >= nsym_max or b - 1 > MAX_RAW_BITS:
            raise ValueError("distance %d not encodable" % d)
        return b, d - (1 << (b - 1)), b - 1
    if d < 4:
        return d, 0, 0
    nlb = d.bit_length() - 2
    top = d >> nlb                      # 2 or 3
    s = 2 + 2 * nlb + (top - 2)
    if s >= nsym_max or nlb > MAX_RAW_BITS:
        raise ValueError("distance %d not encodable" % d)
    return s, d & ((1 << nlb) - 1), nlb


def symbolize(cmds, method, allow_alias=False, lk7_514="288"):
    """cmds -> list of (code symbol, extra, extra bits, offset symbol or -1, extra, extra bits)."""
    P = PARAMS[method]
    out = []
    for c in cmds:
        if c[0] == "lit":
            out.append((c[1], 0, 0, -1, 0, 0))
        else:
            ls, lx, lb = _length_symbol(P, c[2], lk7_514)
            os_, ox, ob = _offset_symbol(P, c[1], allow_alias)
            out.append((ls, lx, lb, os_, ox, ob))
    return out


def run_block_sizes(cmds, method, also_offsets=True):
    """Block sizes that cut the command list wherever the code symbol (and, if also_offsets, the
    offset symbol) changes, so that every block can use the single-symbol n=0 table forms."""
    syms = symbolize(cmds, method, allow_alias=True)
    sizes = []
    cur = None
    for s in syms:
        key = (s[0], s[3] if also_offsets else None)
        if cur is None or key != cur or sizes[-1] >= 65535:
            sizes.append(0)
            cur = key
        sizes[-1] += 1
    return sizes


# ------------------------------------------------------- table choice ----

def _pick(opt, i):
    if isinstance(opt, (list, tuple)):
        return opt[i % len(opt)]
    return opt


def _explicit(spec, block, freq, total):
    """explicit lengths: list | dict | callable(block_index, freq) -> list of `total` lengths"""
    if callable(spec):
        spec = spec(block, dict(freq))
        if spec is None:
            return None
    if isinstance(spec, dict):
        ls = [0] * total
        for k, v in spec.items():
            ls[k] = v
    else:
        ls = list(spec) + [0] * (total - len(spec))
    if len(ls) > total:
        raise ValueError("too many lengths")
    return ls


def choose_table(freq, total, strategy, maxlen, tree_len, domain=None):
    """Decide a table for the symbols in freq ({sym: count}).
    Returns ("single", sym) or ("table", [length]*total).  `domain` is the number of symbols that
    may be given dummy codes (defaults to total)."""
    if domain is None:
        domain = total
    used = sorted(freq, key=lambda s: (-freq[s], s))
    if strategy not in STRATEGIES:
        raise ValueError("unknown strategy %r" % (strategy,))
    if not used:
        return ("single", 0)

    def dummies(k):
        out = []
        s = 0
        while len(out) < k:
            if s >= domain:
                raise ValueError("not enough symbols for padding")
            if s not in freq:
                out.append(s)
            s += 1
        return out

    if strategy == "single":
        if len(used) != 1:
            raise ValueError("strategy 'single' needs blocks with one distinct symbol (got %d); "
                             "see run_block_sizes()" % len(used))
        return ("single", used[0])
    if strategy == "len1":
        if len(used) != 1:
            raise ValueError("strategy 'len1' needs blocks with one distinct symbol")
        ls = [0] * total
        ls[used[0]] = 1
        return ("table", ls)
    if strategy == "huffman":
        if len(used) == 1:
            return ("single", used[0])
        m = huffman_lengths(freq, maxlen)
    elif strategy == "flat":
        syms = used if len(used) >= 2 else used + dummies(1)
        m = flat_lengths(syms)
    elif strategy == "full":
        m = flat_lengths(used + [s for s in range(domain) if s not in freq])
    else:  # maxlen
        target = min(maxlen, domain - 1)
        need = target + 1
        syms = (dummies(need - len(used)) if len(used) < need else []) + used
        m = chain_lengths(syms, target)
    ls = [0] * total
    for s, l in m.items():
        ls[s] = l
    if not tree_fits(ls, tree_len):
        raise ValueError("table does not fit the decoder's tree")
    return ("table", ls)


# ------------------------------------------------------- serialization ----

def _put_len_value(bw, l, st=None):
    if st is not None and l >= 7:
        st["unary_ext"] += 1
    if l < 7:
        bw.put(l, 3)
    else:
        bw.put(7, 3)
        for _ in range(l - 7):
            bw.put(1, 1)
        bw.put(0, 1)


def zero_run_tokens(count, style, rng):
    """Split a run of `count` zero lengths into tokens (temp symbol, extra, extra bits)."""
    out = []
    while count > 0:
        if style == "short":
            k = 1
        elif style == "long":          # what LHA itself does
            if count <= 2:
                k = 1
            elif count <= 18:
                k = count
            elif count == 19:
                k = 1
            else:
                k = min(count, 531)
        elif style == "mixed":
            opts = [1]
            if count >= 3:
                opts.append(rng.randint(3, min(18, count)))
            if count >= 20:
                opts.append(rng.randint(20, min(531, count)))
            k = rng.choice(opts)
        else:
            raise ValueError("unknown zero_run_style %r" % (style,))
        if k == 1:
            out.append((0, 0, 0))
        elif k <= 18:
            out.append((1, k - 3, 4))
        else:
            out.append((2, k - 20, 9))
        count -= k
    return out


def code_length_tokens(lengths, n, style, rng, overrun=False):
    toks = []
    i = 0
    while i < n:
        if lengths[i] == 0:
            j = i
            while j < n and lengths[j] == 0:
                j += 1
            run = zero_run_tokens(j - i, style, rng)
            if overrun and j == n:
                # the last run may announce more zeros than there are entries left
                last = run[-1]
                have = 1 if last[0] == 0 else (last[1] + 3 if last[0] == 1 else last[1] + 20)
                if last[0] == 2 or have >= 18:
                    run[-1] = (2, rng.randint(max(0, have + 1 - 20), 511), 9)
                else:
                    run[-1] = (1, rng.randint(max(0, have + 1 - 3), 15), 4)
            toks += run
            i = j
        else:
            toks.append((lengths[i] + 2, 0, 0))
            i += 1
    return toks


def _write_temp_table(bw, kind, val, n_style, skip_field, rng, st):
    if kind == "single":
        bw.put(0, 5)
        bw.put(val, 5)
        st["temp_single"] += 1
        return
    st["temp_table"] += 1
    st["max_temp_len"] = max(st["max_temp_len"], max(val))
    ls = val
    last = max(i for i, l in enumerate(ls) if l) + 1
    if n_style == "min":
        n = last
    elif n_style == "std":
        n = max(last, TEMP_STD)
    elif n_style == "max":
        n = TEMP_MAX
    else:
        raise ValueError("bad temp_n")
    ls = list(ls) + [0] * (TEMP_MAX + 8 - len(ls))
    bw.put(n, 5)
    i = 0
    while i < n:
        _put_len_value(bw, ls[i], st)
        if i == 2:
            z = 0
            while z < 3 and ls[3 + z] == 0:
                z += 1
            # entries past n are not part of the table, so skipping over them is harmless
            if skip_field == "auto":          # LHA: as many as possible
                s = z
            elif skip_field == "never":
                s = 0
            elif skip_field == "partial":
                s = max(0, z - 1)
            elif skip_field == "random":
                s = rng.randint(0, z)
            else:
                raise ValueError("bad skip_field %r" % (skip_field,))
            bw.put(s, 2)
            st["skip"][s] += 1
            if 3 + s > n:
                st["skip_past_n"] += 1
            i += s
        i += 1


def _write_block_tables(bw, P, blk, code_tab, off_tab, o):
    """o: option dict for this block"""
    rng = o["rng"]
    st = o["stats"]
    ncodes = P["ncodes"]
    # ---- code table and the temp table that codes it
    if code_tab[0] == "single":
        # the temp table is still parsed, although nothing is coded with it
        if o["idle_temp"] == "n0":
            bw.put(0, 5)
            bw.put(0, 5)
        elif o["idle_temp"] == "skip3":
            bw.put(3, 5)              # three lengths 1,2,2; the skip field then runs past n
            bw.put(1, 3)
            bw.put(2, 3)
            bw.put(2, 3)
            bw.put(3, 2)
            st["skip"][3] += 1
            st["skip_past_n"] += 1
        else:
            raise ValueError("bad idle_temp %r" % (o["idle_temp"],))
        bw.put(0, 9)
        bw.put(code_tab[1], 9)
        st["code_single"] += 1
    else:
        st["code_table"] += 1
        ls = code_tab[1]
        last = max(i for i, l in enumerate(ls) if l) + 1
        n = last if o["code_n"] == "min" else ncodes
        toks = code_length_tokens(ls, n, o["zero_run_style"], rng, o["overrun"])
        tfreq = {}
        for t in toks:
            tfreq[t[0]] = tfreq.get(t[0], 0) + 1
            if t[0] <= 2:
                st["zero_tokens"][t[0]] += 1
        ttotal = TEMP_MAX
        tdomain = TEMP_MAX if o["temp_n"] == "max" else max(TEMP_STD, max(tfreq) + 1)
        texp = o["temp_lengths"]
        ttab = None
        if texp is not None:
            e = _explicit(texp, blk, tfreq, ttotal)
            if e is not None:
                ttab = ("table", e)
        if ttab is None:
            ttab = choose_table(tfreq, ttotal, o["temp_strategy"], o["max_temp_len"],
                                TEMP_MAX * 2, domain=tdomain)
        if ttab[0] == "table":
            for s in tfreq:
                if not ttab[1][s]:
                    raise ValueError("temp symbol %d has no code" % s)
            if not tree_fits(ttab[1], TEMP_MAX * 2):
                raise ValueError("temp table does not fit")
            tcodes = canonical_codes(ttab[1])
        else:
            if set(tfreq) != {ttab[1]}:
                raise ValueError("single temp symbol does not cover the tokens")
            tcodes = {ttab[1]: (0, 0)}
        _write_temp_table(bw, ttab[0], ttab[1], o["temp_n"], o["skip_field"], rng, st)
        bw.put(n, 9)
        for sym, x, xb in toks:
            bw.put_code(tcodes[sym])
            bw.put(x, xb)
    # ---- offset table
    ob = P["off_bits"]
    if off_tab[0] == "single":
        bw.put(0, ob)
        bw.put(off_tab[1], ob)
        st["offset_single"] += 1
    else:
        st["offset_table"] += 1
        ls = off_tab[1]
        last = max(i for i, l in enumerate(ls) if l) + 1
        n = last if o["offset_n"] == "min" else (1 << ob) - 1
        bw.put(n, ob)
        for i in range(n):
            _put_len_value(bw, ls[i], st)


def encode(cmds, method, block_sizes=None, strategy="huffman", offset_strategy=None,
           temp_strategy="huffman", lengths=None, offset_lengths=None, temp_lengths=None,
           zero_run_style="long", skip_field="auto", code_n="min", temp_n="min", offset_n="min",
           overrun=False, max_code_len=16, max_temp_len=16, max_offset_len=None,
           allow_alias=False, lk7_514="288", idle_temp="n0", seed=0, pad_bit=0, pad_bytes=0, info=None):
    """Encode a command list.

    Structure options (each of strategy / offset_strategy / temp_strategy / zero_run_style /
    skip_field / code_n / temp_n / offset_n may also be a list of strings: entry i % len is used
    for block i):

      block_sizes      list of ints, commands per block in order (0 allowed = empty block, max
                       65535).  Commands left over go into further blocks of 65535 (or the whole
                       list if block_sizes is None).  run_block_sizes() computes sizes that make
                       every block single-symbol.
      strategy         how code-table lengths are chosen for the symbols a block uses:
                         "huffman"  optimal lengths limited to max_code_len (n=0 form if the
                                    block uses one symbol only)
                         "flat"     complete code over the used symbols, lengths differ by <= 1
                                    (one dummy symbol is added if only one is used)
                         "full"     flat code over ALL symbols of the alphabet (no zero lengths)
                         "single"   the n=0 single-symbol form; error if the block uses more
                         "len1"     one used symbol given an explicit 1-bit code (an incomplete
                                    code: each command costs one 0 bit)
                         "maxlen"   degenerate chain 1,2,3,.. plus a flat tail so the longest
                                    code is exactly max_code_len bits; dummy symbols are added in
                                    front when fewer than max_code_len+1 symbols are used, so
                                    the rarest used symbol gets the longest code
      offset_strategy  same choices for the offset table (default: same as strategy, except
                       "maxlen" reaches min(max_offset_len, #symbols-1))
      temp_strategy    same choices for the temp table (default "huffman")
      lengths / offset_lengths / temp_lengths
                       explicit code lengths overriding the strategy: a list, a {sym: len} dict,
                       or a callable (block_index, {sym: count}) -> list/dict/None.  They must
                       give every used symbol a code, must not over-subscribe, and must fit the
                       decoder's tree array (complete codes always do).
      zero_run_style   "long" (LHA's own: 1,1 | 3..18 | 1+18 | 20..), "short" (one zero per
                       token), "mixed" (random legal split, driven by seed)
      overrun          True: a zero run that ends the table announces more zeros than remain
                       (legal: the run is cut at n).  Only matters with code_n="max".
      skip_field       the 2-bit field after the third temp length: "auto" (LHA: skip as many of
                       entries 3..5 as are zero), "never" (always 0; zeros written explicitly),
                       "partial" (one less than possible), "random"
      code_n           "min": n = last used symbol + 1;  "max": n = alphabet size (trailing zeros
                       written as runs)
      temp_n           "min" | "std" (at least 19) | "max" (31; dummy symbols may use 19..30)
      idle_temp        what to write as temp table when the code table uses the n=0 form (the
                       temp table is parsed but unused): "n0" (n=0 form) | "skip3" (n=3 with a
                       skip field of 3, i.e. the skip runs past n)
      offset_n         "min" | "max" (2^OFFSET_BITS - 1)
      max_code_len     16 (LHA's limit); lhasa accepts up to 28
      allow_alias      permit distances >= window size (they alias modulo the window) as long as
                       the offset symbol exists and needs at most 25 raw bits
      lk7_514          "288" | "287": which of the two encodings of length 514 to use (-lk7-)
      seed             seed for the random choices above
      pad_bit, pad_bytes  trailing padding
      info             optional dict; receives statistics about what was emitted (number of
                       blocks / empty blocks, single vs. table forms, longest code actually used
                       by a command, zero-run token kinds, skip-field values, ...)
    """
    if method not in PARAMS:
        raise ValueError("unknown method %r" % (method,))
    P = PARAMS[method]
    check_cmds(cmds)
    rng = _random.Random(seed)
    syms = symbolize(cmds, method, allow_alias, lk7_514)
    # ---- blocks
    blocks = []
    pos = 0
    for bs in (block_sizes or []):
        if not (0 <= bs <= 65535):
            raise ValueError("block size out of range")
        if pos + bs > len(syms):
            raise ValueError("block_sizes exceed the number of commands")
        blocks.append(syms[pos:pos + bs])
        pos += bs
    while pos < len(syms):
        blocks.append(syms[pos:pos + 65535])
        pos += 65535
    nos = (1 << P["off_bits"]) - 1
    if offset_strategy is None:
        offset_strategy = strategy
    if max_offset_len is None:
        max_offset_len = 16
    bw = BitWriter()
    stats = dict(blocks=len(blocks), empty_blocks=sum(1 for b in blocks if not b), code_single=0,
                 code_table=0, temp_single=0, temp_table=0, offset_single=0, offset_table=0,
                 max_code_len_used=0, max_offset_len_used=0, max_temp_len=0, unary_ext=0,
                 zero_tokens=[0, 0, 0], skip=[0, 0, 0, 0], skip_past_n=0,
                 code_syms=set(), offset_syms=set())
    for bi, blk in enumerate(blocks):
        cfreq = {}
        ofreq = {}
        for s in blk:
            cfreq[s[0]] = cfreq.get(s[0], 0) + 1
            if s[3] >= 0:
                ofreq[s[3]] = ofreq.get(s[3], 0) + 1
        # code table
        ctab = None
        if lengths is not None:
            e = _explicit(lengths, bi, cfreq, P["ncodes"])
            if e is not None:
                ctab = ("table", e)
        if ctab is None:
            ctab = choose_table(cfreq, P["ncodes"], _pick(strategy, bi), max_code_len, P["ncodes"] * 2)
        otab = None
        if offset_lengths is not None:
            e = _explicit(offset_lengths, bi, ofreq, nos)
            if e is not None:
                otab = ("table", e)
        if otab is None:
            otab = choose_table(ofreq, nos, _pick(offset_strategy, bi), max_offset_len, nos * 2)
        codes = {}
        for name, tab, freq, tl in (("code", ctab, cfreq, P["ncodes"] * 2), ("offset", otab, ofreq, nos * 2)):
            if tab[0] == "single":
                if freq and set(freq) != {tab[1]}:
                    raise ValueError("%s table: single symbol does not cover the block" % name)
                codes[name] = None
            else:
                for s in freq:
                    if not tab[1][s]:
                        raise ValueError("%s symbol %d used but has no code" % (name, s))
                if max(tab[1]) > 28 and name == "code":
                    raise ValueError("code lengths above 28 cannot be expressed")
                if not tree_fits(tab[1], tl):
                    raise ValueError("%s table does not fit the decoder's tree array" % name)
                codes[name] = canonical_codes(tab[1])
        o = dict(rng=rng, zero_run_style=_pick(zero_run_style, bi), skip_field=_pick(skip_field, bi),
                 code_n=_pick(code_n, bi), temp_n=_pick(temp_n, bi), offset_n=_pick(offset_n, bi),
                 overrun=overrun, temp_strategy=_pick(temp_strategy, bi), temp_lengths=temp_lengths,
                 max_temp_len=max_temp_len, stats=stats, idle_temp=_pick(idle_temp, bi))
        bw.put(len(blk), 16)
        _write_block_tables(bw, P, bi, ctab, otab, o)
        cc = codes["code"]
        oc = codes["offset"]
        stats["code_syms"].update(cfreq)
        stats["offset_syms"].update(ofreq)
        if cc is not None and cfreq:
            stats["max_code_len_used"] = max(stats["max_code_len_used"], max(cc[s][1] for s in cfreq))
        if oc is not None and ofreq:
            stats["max_offset_len_used"] = max(stats["max_offset_len_used"], max(oc[s][1] for s in ofreq))
        for cs, cx, cb, os_, ox, ob in blk:
            if cc is not None:
                bw.put_code(cc[cs])
            bw.put(cx, cb)
            if os_ >= 0:
                if oc is not None:
                    bw.put_code(oc[os_])
                bw.put(ox, ob)
    if info is not None:
        info.update(stats)
    return bw.getvalue(pad_bit, pad_bytes)


# ------------------------------------------------------------- random ----

def length_classes(method):
    if PARAMS[method]["lhark"]:
        cl = [(n, n) for n in range(3, 11)]
        for sym in range(264, 288):
            nlb = (sym - 260) // 4
            lo = ((4 + sym % 4) << nlb) + 3
            cl.append((lo, lo + (1 << nlb) - 1))
        cl.append((514, 514))
        return cl
    return [(3, 3), (4, 4), (5, 8), (9, 32), (33, 128), (129, 255), (256, 256)]


def distance_classes(method, max_distance=None):
    """One (lo, hi) range per offset symbol, cut at max_distance (default window - 1)."""
    P = PARAMS[method]
    if max_distance is None:
        max_distance = (1 << P["hist_bits"]) - 1
    out = []
    if P["lhark"]:
        cl = [(d, d) for d in range(4)]
        s = 4
        while True:
            nlb = (s - 2) // 2
            lo = (2 + s % 2) << nlb
            cl.append((lo, lo + (1 << nlb) - 1))
            if lo > max_distance:
                break
            s += 1
    else:
        cl = [(0, 0), (1, 1)]
        b = 2
        while (1 << (b - 1)) <= max_distance:
            cl.append((1 << (b - 1), (1 << b) - 1))
            b += 1
    for lo, hi in cl:
        if lo <= max_distance:
            out.append((lo, min(hi, max_distance)))
    return out


def random_cmds(rng, method, n=100, lit_prob=0.5, max_distance=None, alphabet=None,
                len_bias=None):
    """n random valid commands.  Copies pick a length class and a distance class (one per offset
    symbol) uniformly, then a value inside the class, favouring the class edges; this reaches
    every symbol of both alphabets.  alphabet: optional list of byte values for literals.
    len_bias: optional cap on copy length (to keep outputs small)."""
    lc = length_classes(method)
    if len_bias:
        lc = [(lo, min(hi, len_bias)) for lo, hi in lc if lo <= len_bias]
    dc = distance_classes(method, max_distance)
    cmds = []
    for _ in range(n):
        if rng.random() < lit_prob:
            cmds.append(("lit", rng.choice(alphabet) if alphabet else rng.randrange(256)))
        else:
            lo, hi = rng.choice(lc)
            ln = rng.choice((lo, hi, rng.randint(lo, hi)))
            lo, hi = rng.choice(dc)
            d = rng.choice((lo, hi, rng.randint(lo, hi)))
            cmds.append(("copy", d, ln))
    return cmds
