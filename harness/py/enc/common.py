"""Shared helpers for the independent LHA/LArc/PMarc stream encoders (stdlib only).

Nothing in this package is derived from running lhasa: the encoders are written from the format
descriptions (and, for PMarc, from a careful reading of what each bit means); lhasa is only used
by selftest.py as the thing under test.

Command lists
-------------
A command list is a list of tuples
    ("lit", byte)                       one literal byte
    ("copy", where, length)             an LZ77 copy
`where` is format specific (see the docstring of each enc_*.py):
  * -lzs-, -lz5-        absolute position in the ring buffer (0 .. ring-1)
  * -lh*-, -lk7-, -pm*- distance back, 0 = the byte written most recently

Two generic LZ77 expanders (ring-position based and distance based) live here; they are
deliberately simple and share no code with the bit-level encoders.
"""
import heapq


# ----------------------------------------------------------------- bits ----

class BitWriter:
    """MSB-first bit sink (all bit-oriented LHA family formats are MSB first)."""

    def __init__(self):
        self.out = bytearray()
        self.acc = 0
        self.n = 0
        self.total = 0

    def put(self, value, nbits):
        if nbits == 0:
            if value != 0:
                raise ValueError("non-zero value in a 0-bit field")
            return
        if value < 0 or value >> nbits:
            raise ValueError("value %r does not fit in %d bits" % (value, nbits))
        self.acc = (self.acc << nbits) | value
        self.n += nbits
        self.total += nbits
        while self.n >= 8:
            self.n -= 8
            self.out.append((self.acc >> self.n) & 0xFF)
        self.acc &= (1 << self.n) - 1

    def put_code(self, code):
        """code = (value, nbits)"""
        self.put(code[0], code[1])

    def getvalue(self, pad_bit=0, pad_bytes=0):
        """Flush to a byte boundary with pad_bit (0/1) and append pad_bytes bytes of that bit."""
        out = bytearray(self.out)
        if self.n:
            k = 8 - self.n
            fill = (1 << k) - 1 if pad_bit else 0
            out.append(((self.acc << k) | fill) & 0xFF)
        out += bytes([0xFF if pad_bit else 0]) * pad_bytes
        return bytes(out)


# ------------------------------------------------------- prefix codes ----

def kraft(lengths):
    """Sum of 2^-len over non-zero lengths, as a fraction num/2^maxlen -> (num, maxlen)."""
    ls = [l for l in lengths if l]
    if not ls:
        return 0, 0
    m = max(ls)
    return sum(1 << (m - l) for l in ls), m


def tree_fits(lengths, tree_len):
    """Would a decoder that allocates its code tree level by level (every still-open slot at
    depth d gets two children at depth d+1, until the longest code) stay within tree_len
    elements?  Complete codes need 2n-1 elements; incomplete ones can need far more."""
    ls = [l for l in lengths if l]
    if not ls:
        return False
    cnt = {}
    for l in ls:
        cnt[l] = cnt.get(l, 0) + 1
    allocated = 1
    open_slots = 1
    for depth in range(1, max(ls) + 1):
        new = open_slots * 2
        if allocated + new > tree_len:
            return False
        allocated += new
        open_slots = new
        c = cnt.get(depth, 0)
        if c > open_slots:
            return False
        open_slots -= c
    return True


def canonical_codes(lengths):
    """lengths[sym] (0 = unused) -> {sym: (code, nbits)}.

    Canonical assignment as used by every LHA-family static table: codes are handed out in order
    of increasing length, and within one length in order of increasing symbol number, counting
    upwards from all-zeros.  Raises if the lengths over-subscribe the code space."""
    num, m = kraft(lengths)
    if m == 0:
        raise ValueError("no symbol has a code")
    if num > (1 << m):
        raise ValueError("over-subscribed code lengths")
    codes = {}
    code = 0
    prev = 0
    order = sorted((l, s) for s, l in enumerate(lengths) if l)
    for l, s in order:
        code <<= (l - prev)
        prev = l
        codes[s] = (code, l)
        code += 1
    return codes


def huffman_lengths(freq, maxlen):
    """Optimal length-limited prefix code (package-merge).  freq: {sym: weight>0}, at least two
    symbols.  Returns {sym: length}.  Ties are broken by symbol number so the result is
    deterministic."""
    syms = sorted(freq, key=lambda s: (freq[s], s))
    n = len(syms)
    if n < 2:
        raise ValueError("need at least two symbols")
    if (1 << maxlen) < n:
        raise ValueError("%d symbols cannot fit in %d-bit codes" % (n, maxlen))
    # each item: (weight, tiebreak, {sym: count})
    leaves = [(freq[s], i, {s: 1}) for i, s in enumerate(syms)]
    packages = list(leaves)
    tb = n
    for _ in range(maxlen - 1):
        paired = []
        for i in range(0, len(packages) - 1, 2):
            a, b = packages[i], packages[i + 1]
            d = dict(a[2])
            for k, v in b[2].items():
                d[k] = d.get(k, 0) + v
            paired.append((a[0] + b[0], tb, d))
            tb += 1
        packages = sorted(leaves + paired, key=lambda t: (t[0], t[1]))
    out = {s: 0 for s in syms}
    for w, _, d in packages[:2 * n - 2]:
        for k, v in d.items():
            out[k] += v
    return out


def flat_lengths(syms):
    """Complete code over syms (>= 2) whose lengths differ by at most one; the first symbols in
    the given order get the shorter codes."""
    n = len(syms)
    if n < 2:
        raise ValueError("need at least two symbols")
    k = n.bit_length() - 1            # floor(log2 n)
    if (1 << k) == n:
        return {s: k for s in syms}
    short = (1 << (k + 1)) - n        # how many get k bits
    return {s: (k if i < short else k + 1) for i, s in enumerate(syms)}


def chain_lengths(syms, target):
    """Complete code over syms (in priority order) whose longest code is exactly `target` bits:
    a degenerate chain 1,2,3,..,k followed by a flat subtree.  Needs len(syms) >= 2 and a
    solution (len(syms) >= target + 1 guarantees one)."""
    n = len(syms)
    for k in range(min(n - 2, target - 1), -1, -1):
        r = n - k
        sub = flat_lengths(list(range(r)))
        if k + max(sub.values()) == target:
            out = {}
            for i in range(k):
                out[syms[i]] = i + 1
            for i in range(r):
                out[syms[k + i]] = k + sub[i]
            return out
    raise ValueError("cannot reach length %d with %d symbols" % (target, n))


# ------------------------------------------------- move-to-front list ----

def pma_initial_order():
    """PMarc's initial byte ranking: printable ASCII first, then controls, then the upper halves."""
    return (list(range(0x20, 0x80)) + list(range(0x00, 0x20)) + list(range(0xA0, 0xE0))
            + list(range(0x80, 0xA0)) + list(range(0xE0, 0x100)))


class MTF:
    """Move-to-front list over byte values; rank 0 is the most recently output byte."""

    def __init__(self):
        self.order = pma_initial_order()

    def rank(self, b):
        return self.order.index(b)

    def at(self, r):
        return self.order[r]

    def touch(self, b):
        o = self.order
        if o[0] != b:
            o.remove(b)
            o.insert(0, b)


# -------------------------------------------------------- LZ77 expand ----

def check_cmds(cmds):
    for c in cmds:
        if c[0] == "lit":
            if len(c) != 2 or not (0 <= c[1] <= 255):
                raise ValueError("bad literal %r" % (c,))
        elif c[0] == "copy":
            if len(c) != 3 or c[1] < 0 or c[2] < 0:
                raise ValueError("bad copy %r" % (c,))
        else:
            raise ValueError("bad command %r" % (c,))


def expand_positions(cmds, ring_init, start):
    """Ring-position LZ77 (LArc): copies name an absolute ring index; every output byte is also
    stored at the moving write position, so a copy can overlap what it is writing."""
    ring = bytearray(ring_init)
    size = len(ring)
    pos = start % size
    out = bytearray()
    for c in cmds:
        if c[0] == "lit":
            out.append(c[1])
            ring[pos] = c[1]
            pos = (pos + 1) % size
        else:
            src, n = c[1], c[2]
            for i in range(n):
                b = ring[(src + i) % size]
                out.append(b)
                ring[pos] = b
                pos = (pos + 1) % size
    return bytes(out)


def expand_distances(cmds, window, fill=0x20, strict=False):
    """Distance LZ77: distance 0 = the byte just written.  The window initially holds `fill`;
    distances are taken modulo the window size (so a distance >= window aliases).  With
    strict=True a distance reaching before the start of the output is an error (PMarc -pm1-)."""
    ring = bytearray([fill]) * window
    pos = 0
    out = bytearray()
    for c in cmds:
        if c[0] == "lit":
            out.append(c[1])
            ring[pos] = c[1]
            pos = (pos + 1) % window
        else:
            d, n = c[1], c[2]
            if strict and d >= len(out):
                raise ValueError("copy distance %d reaches before start of output (%d written)"
                                 % (d, len(out)))
            src = (pos - d - 1) % window
            for i in range(n):
                b = ring[(src + i) % window]
                out.append(b)
                ring[pos] = b
                pos = (pos + 1) % window
    return bytes(out)


def greedy_parse(data, window, min_len, max_len, max_dist=None, prefill=None, hash_len=3):
    """Very small greedy LZ77 parser used to turn real plaintext into command lists (distance
    form).  Only matches inside already-produced output are used.  Returns commands with
    distance back (0 = previous byte)."""
    if max_dist is None:
        max_dist = window - 1
    cmds = []
    table = {}
    i = 0
    n = len(data)
    hl = max(hash_len, min_len) if min_len > 2 else 2
    while i < n:
        best_len = 0
        best_d = 0
        if i + hl <= n:
            key = bytes(data[i:i + hl])
            cands = table.get(key, ())
            for j in reversed(cands[-16:] if len(cands) > 16 else cands):
                d = i - j - 1
                if d > max_dist:
                    break
                k = 0
                while k < max_len and i + k < n and data[j + k] == data[i + k]:
                    k += 1
                if k > best_len:
                    best_len, best_d = k, d
        if best_len >= min_len:
            cmds.append(("copy", best_d, best_len))
            step = best_len
        else:
            cmds.append(("lit", data[i]))
            step = 1
        for t in range(i, i + step):
            if t + hl <= n:
                table.setdefault(bytes(data[t:t + hl]), []).append(t)
        i += step
    return cmds
