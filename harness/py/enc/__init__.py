"""Independent encoders for the compressed-stream formats lhasa decodes (see common.py)."""
