"""Independent encoder for LArc -lz5-.

Format
------
Byte oriented.  Commands come in groups of eight, each group preceded by a flag byte whose bits
are consumed LSB first: bit = 1 -> one literal byte follows; bit = 0 -> two bytes b1 b2 follow:
    ring position = b1 | ((b2 & 0xF0) << 4)     (12 bits, absolute index into the ring)
    length        = (b2 & 0x0F) + 3             (3 .. 18)
The ring buffer has 4096 bytes; output is written starting at index 4096 - 18 = 4078.  Its initial
contents are LArc's fixed pattern: 13 copies of each byte value 0..255 (3328 bytes), then 0..255
ascending, then 255..0 descending, then 128 zero bytes, 110 spaces and 18 zero bytes.

Commands
--------
("lit", b) | ("copy", ring_position 0..4095, length 3..18)
"""
try:
    from .common import expand_positions, check_cmds
except ImportError:          # run as a plain script / with enc/ on sys.path
    from common import expand_positions, check_cmds

METHODS = ("-lz5-",)
RING = 4096
START = RING - 18
MIN_LEN = 3
MAX_LEN = 18


def initial_ring():
    r = bytearray()
    for v in range(256):
        r += bytes([v]) * 13
    r += bytes(range(256))
    r += bytes(range(255, -1, -1))
    r += b"\x00" * 128
    r += b"\x20" * 110
    r += b"\x00" * 18
    assert len(r) == RING
    return bytes(r)


def expand(cmds, method="-lz5-"):
    check_cmds(cmds)
    return expand_positions(cmds, initial_ring(), START)


def encode(cmds, method="-lz5-", pad_flags=0):
    """Options:
      pad_flags  value (0 or 1) of the unused flag bits when the last group has fewer than eight
                 commands.  The stream simply ends after the last command's bytes."""
    check_cmds(cmds)
    out = bytearray()
    for g in range(0, len(cmds), 8):
        group = cmds[g:g + 8]
        flags = 0
        body = bytearray()
        for i, c in enumerate(group):
            if c[0] == "lit":
                flags |= 1 << i
                body.append(c[1])
            else:
                _, p, n = c
                if not (0 <= p < RING):
                    raise ValueError("ring position out of range: %r" % (c,))
                if not (MIN_LEN <= n <= MAX_LEN):
                    raise ValueError("copy length out of range: %r" % (c,))
                body.append(p & 0xFF)
                body.append(((p >> 4) & 0xF0) | (n - MIN_LEN))
        if pad_flags:
            for i in range(len(group), 8):
                flags |= 1 << i
        out.append(flags)
        out += body
    return bytes(out)


def ring_pos_for_distance(out_len, distance):
    return (START + out_len - distance - 1) % RING


def random_cmds(rng, method="-lz5-", n=100, lit_prob=0.4):
    """n random commands: all lengths 3..18; ring positions inside every region of the initial
    pattern, near the write pointer (overlap), and wrapping around the ring end."""
    regions = [(0, 3328), (3328, 3584), (3584, 3840), (3840, 3968), (3968, 4078), (4078, 4096)]
    cmds = []
    out_len = 0
    for _ in range(n):
        if rng.random() < lit_prob:
            cmds.append(("lit", rng.randrange(256)))
            out_len += 1
        else:
            ln = rng.choice((MIN_LEN, MAX_LEN, rng.randint(MIN_LEN, MAX_LEN)))
            k = rng.randrange(5)
            if k == 0:
                lo, hi = rng.choice(regions)
                p = rng.randrange(lo, hi)
            elif k == 1:
                p = ring_pos_for_distance(out_len, rng.randrange(0, 4))
            elif k == 2:
                p = (START + out_len + rng.randrange(0, 3)) % RING
            elif k == 3:
                p = RING - rng.randint(1, 18)
            else:
                p = ring_pos_for_distance(out_len, rng.randrange(0, max(1, min(out_len, RING))))
            cmds.append(("copy", p, ln))
            out_len += ln
    return cmds
