"""Trivial "encoder" for the stored methods -lh0-, -lz4- and -pm0-: the stream is the data itself.

Commands: only ("lit", b).
"""
try:
    from .common import check_cmds
except ImportError:
    from common import check_cmds

METHODS = ("-lh0-", "-lz4-", "-pm0-")


def expand(cmds, method="-lh0-"):
    check_cmds(cmds)
    if any(c[0] != "lit" for c in cmds):
        raise ValueError("stored methods have no copies")
    return bytes(c[1] for c in cmds)


def encode(cmds, method="-lh0-", trailing=b""):
    """Options: trailing = extra bytes appended after the data (the declared length must cut them)."""
    return expand(cmds, method) + bytes(trailing)


def random_cmds(rng, method="-lh0-", n=100):
    return [("lit", rng.randrange(256)) for _ in range(n)]
