"""Independent encoder for LArc -lzs-.

Format
------
One MSB-first bit stream of commands:
    1 bbbbbbbb                 literal byte
    0 ppppppppppp llll         copy (llll + 2) bytes starting at ring index p (11 bits)
The ring buffer has 2048 bytes, initially all spaces (0x20); output is written into the ring
starting at index 2048 - 17 = 2031, so ring index p refers to *absolute* ring positions, not to a
distance.  A copy reads and writes byte by byte and may therefore overlap the region it writes.

Commands
--------
("lit", b) | ("copy", ring_position 0..2047, length 2..17)
"""
try:
    from .common import BitWriter, expand_positions, check_cmds
except ImportError:          # run as a plain script / with enc/ on sys.path
    from common import BitWriter, expand_positions, check_cmds

METHODS = ("-lzs-",)
RING = 2048
START = RING - 17
MIN_LEN = 2
MAX_LEN = 17


def expand(cmds, method="-lzs-"):
    check_cmds(cmds)
    return expand_positions(cmds, b"\x20" * RING, START)


def encode(cmds, method="-lzs-", pad_bit=0, pad_bytes=0):
    """Options:
      pad_bit    value of the bits used to fill the last byte (0 or 1).  Either way the remainder
                 is too short to form another command.
      pad_bytes  extra whole bytes of pad_bit appended (the caller's declared length must then cut
                 the output: the padding decodes as more commands)."""
    check_cmds(cmds)
    bw = BitWriter()
    for c in cmds:
        if c[0] == "lit":
            bw.put(1, 1)
            bw.put(c[1], 8)
        else:
            _, p, n = c
            if not (0 <= p < RING):
                raise ValueError("ring position out of range: %r" % (c,))
            if not (MIN_LEN <= n <= MAX_LEN):
                raise ValueError("copy length out of range: %r" % (c,))
            bw.put(0, 1)
            bw.put(p, 11)
            bw.put(n - MIN_LEN, 4)
    return bw.getvalue(pad_bit, pad_bytes)


def ring_pos_for_distance(out_len, distance):
    """Ring index of the byte `distance` back from the write position after out_len bytes."""
    return (START + out_len - distance - 1) % RING


def random_cmds(rng, method="-lzs-", n=100, lit_prob=0.4):
    """n random commands: every length 2..17 and ring positions spread over the whole ring,
    including positions near/at the write pointer (overlapping copies) and in the untouched
    space-filled area."""
    cmds = []
    out_len = 0
    for _ in range(n):
        if rng.random() < lit_prob:
            cmds.append(("lit", rng.choice((rng.randrange(256), rng.randrange(0x20, 0x7F)))))
            out_len += 1
        else:
            ln = rng.choice((MIN_LEN, MAX_LEN, rng.randint(MIN_LEN, MAX_LEN)))
            k = rng.randrange(5)
            if k == 0:
                p = rng.randrange(RING)
            elif k == 1:                      # just behind the write pointer: overlapping copy
                p = ring_pos_for_distance(out_len, rng.randrange(0, 4))
            elif k == 2:                      # at / just after the write pointer
                p = (START + out_len + rng.randrange(0, 3)) % RING
            elif k == 3:                      # wraps around the end of the ring
                p = RING - rng.randint(1, 17)
            else:
                p = ring_pos_for_distance(out_len, rng.randrange(0, max(1, min(out_len, RING))))
            cmds.append(("copy", p, ln))
            out_len += ln
    return cmds
