"""Independent encoder for PMarc -pm2-.

Format (MSB-first bit stream), as understood from lhasa's pm2_decoder.c / pma_common.c
--------------------------------------------------------------------------------------
    1 bit      ignored
    code-tree definition, offset-tree definition (5 entries)      <- "rebuild point" 0
    commands ...
Further table definitions are read the moment the 1024th, 2048th, 4096th, 8192nd, 12288th, ...
output byte has been produced (even in the middle of a copy; the bits of the command that
produced that byte have all been consumed by then, so the definition sits between two commands):
    point 1 (1 KiB)   offset tree with 6 entries
    point 2 (2 KiB)   offset tree with 7 entries
    point 3 (4 KiB)   1 bit: if 1 a code-tree definition follows; then offset tree with 8 entries
    point k>=4 (8 KiB, then every 4 KiB)   1 bit: if 1, code tree and offset tree (8 entries)
An offset tree is only present in the stream while the current code tree "needs" one, i.e. its
num_codes field is >= 10, except for the pair (num_codes 29, min 0).

code-tree definition:   5 bits num_codes, 3 bits min.
    min == 0: the tree is the single symbol num_codes-1 (zero bits per command).
    else 3 bits w, then num_codes fields of w bits: 0 = symbol unused, v>0 = length min+v-1.
offset-tree definition: one 3-bit length per entry (0 = unused).  Exactly one non-zero entry
    means "always this symbol, zero bits".
Both are canonical prefix codes (shorter first, then by symbol number).

Commands: a code-tree symbol s, then
    s in 0..7    literal: class s selects (base, bits) from
                 (0,3) (8,3) (16,4) (32,5) (64,5) (96,5) (128,6) (192,6); base + raw bits is the
                 rank of the byte in a move-to-front list of all 256 byte values (rank 0 = the last
                 byte output; *every* output byte, copied ones too, is moved to the front).  The
                 list starts as 20..7f, 00..1f, a0..df, 80..9f, e0..ff.
    s in 8..28   copy; c = s-8:  c 0..14 -> length c+2;  15 -> 17+3 bits; 16 -> 25+3 bits;
                 17 -> 33+5 bits; 18 -> 65+6 bits; 19 -> 129+7 bits; 20 -> 256.
                 Then the distance: c == 0: 6 raw bits;  c == 20: distance 0, no bits;  else an
                 offset-tree symbol t: t == 0 -> 6 raw bits;  t > 0 -> t+5 raw bits plus 2^(t+5).
                 With n offset entries the largest distance is 64 * 2^(n-1) - 1.
Distance 0 = the byte just written; the 8 KiB window starts filled with spaces.

Commands
--------
("lit", b) | ("copy", distance, length 2..256); length 2 needs distance < 64; the distance must be
below 1024 / 2048 / 4096 / 8192 depending on how many bytes were output when the command starts
(< 1 KiB / < 2 KiB / < 4 KiB / later).
"""
import random as _random

try:
    from .common import (BitWriter, MTF, canonical_codes, huffman_lengths, flat_lengths,
                         chain_lengths, tree_fits, expand_distances, check_cmds)
except ImportError:
    from common import (BitWriter, MTF, canonical_codes, huffman_lengths, flat_lengths,
                        chain_lengths, tree_fits, expand_distances, check_cmds)

METHODS = ("-pm2-",)
WINDOW = 8192
MIN_LEN = 2
MAX_LEN = 256
NUM_CODE_SYMS = 29                 # 8 literal classes + 21 copy classes
CODE_TREE_LEN = 65
OFFSET_TREE_LEN = 17

LIT_CLASSES = [(0, 3), (8, 3), (16, 4), (32, 5), (64, 5), (96, 5), (128, 6), (192, 6)]
LEN_CLASSES = [(17, 3), (25, 3), (33, 5), (65, 6), (129, 7)]      # copy classes 15..19

STRATEGIES = ("huffman", "flat", "full", "single", "len1", "maxlen")


def point_position(k):
    """Output position at which rebuild point k (>= 1) is read."""
    return (1024, 2048, 4096)[k - 1] if k <= 3 else 8192 + 4096 * (k - 4)


def segment_of(out_len):
    """Index of the last rebuild point at or before out_len output bytes."""
    if out_len < 1024:
        return 0
    if out_len < 2048:
        return 1
    if out_len < 4096:
        return 2
    if out_len < 8192:
        return 3
    return 4 + (out_len - 8192) // 4096


def num_offsets(segment):
    return min(5 + segment, 8)


def max_distance(out_len):
    """Largest distance a copy starting after out_len output bytes can express."""
    return (64 << (num_offsets(segment_of(out_len)) - 1)) - 1


def expand(cmds, method="-pm2-"):
    check_cmds(cmds)
    for c in cmds:
        if c[0] == "copy" and not (MIN_LEN <= c[2] <= MAX_LEN and c[1] < WINDOW):
            raise ValueError("copy out of range: %r" % (c,))
    return expand_distances(cmds, WINDOW, 0x20)


# ---------------------------------------------------------- symbolizing ----

def _lit_class(rank):
    for k in range(7, -1, -1):
        if rank >= LIT_CLASSES[k][0]:
            return k, rank - LIT_CLASSES[k][0], LIT_CLASSES[k][1]


def _copy_class(n, d, len256):
    if n <= 16:
        return n - 2, 0, 0
    if n == 256 and d == 0 and len256 == "auto":
        return 20, 0, 0
    for i in range(4, -1, -1):
        base, bits = LEN_CLASSES[i]
        if n >= base:
            return 15 + i, n - base, bits


def _offset_class(d):
    if d < 64:
        return 0, d, 6
    b = d.bit_length()                  # 7..13
    return b - 6, d - (1 << (b - 1)), b - 1


def symbolize(cmds, len256="auto"):
    """-> list of segments; a segment is a list of
    (code sym, extra, bits, offset sym or -1, raw distance value, raw bits)."""
    mtf = MTF()
    window = bytearray(b"\x20" * WINDOW)
    out_len = 0
    segs = [[]]
    for c in cmds:
        seg = segment_of(out_len)
        while len(segs) <= seg:
            segs.append([])
        if c[0] == "lit":
            k, x, xb = _lit_class(mtf.rank(c[1]))
            segs[seg].append((k, x, xb, -1, 0, 0))
            mtf.touch(c[1])
            window[out_len % WINDOW] = c[1]
            out_len += 1
        else:
            _, d, n = c
            if not (MIN_LEN <= n <= MAX_LEN):
                raise ValueError("copy length out of range: %r" % (c,))
            if d < 0 or d > max_distance(out_len):
                raise ValueError("distance %d not expressible after %d output bytes (max %d)"
                                 % (d, out_len, max_distance(out_len)))
            cc, cx, cb = _copy_class(n, d, len256)
            if cc == 0:
                if d >= 64:
                    raise ValueError("a length-2 copy needs a distance below 64: %r" % (c,))
                segs[seg].append((8, 0, 0, -1, d, 6))
            elif cc == 20:
                segs[seg].append((28, 0, 0, -1, 0, 0))
            else:
                t, ox, ob = _offset_class(d)
                segs[seg].append((8 + cc, cx, cb, t, ox, ob))
            for _ in range(n):
                b = window[(out_len - d - 1) % WINDOW]
                window[out_len % WINDOW] = b
                mtf.touch(b)
                out_len += 1
    # a rebuild point reached exactly at the end of the data still exists for the decoder
    while len(segs) <= segment_of(out_len):
        segs.append([])
    return segs, out_len


# ------------------------------------------------------- table choice ----

def _choose(freq, domain, strategy, maxlen, tree_len):
    """-> ("single", sym) | ("table", lengths[domain])"""
    if strategy not in STRATEGIES:
        raise ValueError("unknown strategy %r" % (strategy,))
    used = sorted(freq, key=lambda s: (-freq[s], s))
    if not used:
        return ("single", 0)
    unused = [s for s in range(domain) if s not in freq]
    if strategy == "single":
        if len(used) != 1:
            raise ValueError("strategy 'single' needs a span with one distinct symbol, got %r" % (used,))
        return ("single", used[0])
    if strategy == "len1":
        if len(used) != 1:
            raise ValueError("strategy 'len1' needs a span with one distinct symbol")
        ls = [0] * domain
        ls[used[0]] = 1
        return ("table", ls)
    if strategy == "huffman":
        if len(used) == 1:
            return ("single", used[0])
        m = huffman_lengths(freq, maxlen)
    elif strategy == "flat":
        m = flat_lengths(used if len(used) >= 2 else used + unused[:1])
    elif strategy == "full":
        m = flat_lengths(used + unused)
    else:
        target = min(maxlen, domain - 1)
        need = target + 1
        syms = (unused[:need - len(used)] if len(used) < need else []) + used
        m = chain_lengths(syms, target)
    ls = [0] * domain
    for s, l in m.items():
        ls[s] = l
    if not tree_fits(ls, tree_len):
        raise ValueError("table does not fit the decoder's tree")
    return ("table", ls)


def _norm_table(spec, domain):
    if spec is None:
        return None
    if isinstance(spec, tuple) and len(spec) == 2 and spec[0] == "single":
        return ("single", spec[1])
    if isinstance(spec, dict):
        ls = [0] * domain
        for k, v in spec.items():
            ls[k] = v
        return ("table", ls)
    ls = list(spec)
    return ("table", ls)


# ------------------------------------------------------- serialization ----

def _write_code_tree(bw, tab, style, num_codes_style, rng):
    """Returns (codes or None, need_offset_tree)."""
    if tab[0] == "single":
        num_codes = tab[1] + 1
        bw.put(num_codes, 5)
        bw.put(0, 3)
        return None, (num_codes >= 10 and num_codes != 29)
    ls = list(tab[1])
    last = max(i for i, l in enumerate(ls) if l) + 1
    if num_codes_style == "min":
        num_codes = last
    elif num_codes_style == "all":
        num_codes = max(last, NUM_CODE_SYMS)
    elif num_codes_style == "max":
        num_codes = 31
    else:
        raise ValueError("bad num_codes style %r" % (num_codes_style,))
    ls += [0] * (31 - len(ls))
    nz = [l for l in ls if l]
    lo, hi = min(nz), max(nz)
    if style == "tight":
        mn = min(lo, 7)
    elif style == "loose":
        mn = 1
    elif style == "random":
        mn = rng.randint(1, min(lo, 7))
    else:
        raise ValueError("bad header_style %r" % (style,))
    need = (hi - mn + 1).bit_length()
    if need > 7:
        raise ValueError("code lengths span too wide")
    w = need if style == "tight" else (7 if style == "loose" else rng.randint(need, 7))
    bw.put(num_codes, 5)
    bw.put(mn, 3)
    bw.put(w, 3)
    for i in range(num_codes):
        bw.put(0 if ls[i] == 0 else ls[i] - mn + 1, w)
    return canonical_codes(ls), num_codes >= 10


def _write_offset_tree(bw, tab, n, rng, style, single_len=None):
    """Returns codes or None (single)."""
    if tab[0] == "single":
        l = single_len or (1 if style != "random" else rng.randint(1, 7))
        for i in range(n):
            bw.put(l if i == tab[1] else 0, 3)
        return None
    ls = list(tab[1]) + [0] * (8 - len(tab[1]))
    if any(ls[n:]):
        raise ValueError("offset symbol beyond the %d entries available here" % n)
    if sum(1 for l in ls if l) < 2:
        raise ValueError("an offset table with one code is the single form")
    if max(ls) > 7:
        raise ValueError("offset code lengths are 3-bit fields")
    for i in range(n):
        bw.put(ls[i], 3)
    return canonical_codes(ls)


def _rebuild_wanted(rebuild, k, rng):
    if callable(rebuild):
        return bool(rebuild(k))
    if rebuild == "always":
        return True
    if rebuild == "never":
        return False
    if rebuild == "alternate":
        return k % 2 == 1
    if rebuild == "random":
        return rng.random() < 0.5
    return k in rebuild


def encode(cmds, method="-pm2-", strategy="huffman", offset_strategy=None, rebuild="always",
           tables=None, header_style="tight", num_codes="min", max_code_len=13, len256="auto",
           first_bit=0, final_rebuild=True, seed=0, pad_bit=0, pad_bytes=0, info=None):
    """Encode a command list.

    Options:
      strategy         how code-tree lengths are chosen for the symbols used while a tree is in
                       force: "huffman" (optimal, limited to max_code_len; single form when only
                       one symbol is used), "flat" (used symbols, lengths differ by <= 1), "full"
                       (all 29 symbols), "single" (min=0 form, error if more than one symbol is
                       used), "len1" (one symbol with an explicit 1-bit code), "maxlen" (chain so
                       the longest code is exactly max_code_len bits, the rarest used symbol
                       getting it).  May be a list: entry k % len applies to the tree defined at
                       rebuild point k.
      offset_strategy  same for the offset tree (lengths are 3-bit fields, so at most 7);
                       default = strategy.  "single" is what the format uses when one length is
                       non-zero.
      rebuild          where the *optional* redefinitions happen (point 3 = 4 KiB: code tree is
                       optional; points >= 4 = 8 KiB + 4 KiB*i: both trees optional):
                       "always" | "never" | "alternate" (odd points) | "random" | a collection
                       of point numbers | callable(point) -> bool.  A tree that is not redefined
                       stays in force, so its lengths are computed from all commands up to the
                       next redefinition.
      tables           {point: {"code": lengths | ("single", sym), "offset": lengths |
                       ("single", sym)}} explicit tables (lists indexed by symbol, or {sym: len}
                       dicts).  An offset list with exactly one non-zero length is the single
                       form (zero bits per symbol) and that length value is written as given.  An explicit "code" entry at an optional point forces the
                       redefinition there.
      header_style     "tight": min = smallest length (at most 7), field width as small as
                       possible; "loose": min = 1, width 7; "random"
      num_codes        "min": last used symbol + 1; "all": 29; "max": 31 (symbols 29/30 exist in
                       the table with length 0).  NB this field decides whether offset trees
                       are present at all (>= 10).
      max_code_len     limit for "huffman"/"maxlen" code trees (13 keeps min<=7 and a 3-bit
                       field; the decoder accepts up to 28 for a 29-symbol chain)
      len256           "auto": length 256 at distance 0 uses the dedicated symbol 28;
                       "19": always class 19 + 127
      first_bit        value of the ignored leading bit
      final_rebuild    emit the table definitions of a rebuild point that is reached by the very
                       last output byte (the decoder reads them before returning that byte)
      seed             seed for "random" choices
      info             optional dict receiving statistics (points, rebuild flags, max lengths)
    """
    check_cmds(cmds)
    rng = _random.Random(seed)
    if offset_strategy is None:
        offset_strategy = strategy
    tables = dict(tables or {})
    segs, out_len = symbolize(cmds, len256)
    if not final_rebuild and len(segs) > 1 and not segs[-1]:
        segs.pop()
    nseg = len(segs)

    def pick(opt, k):
        return opt[k % len(opt)] if isinstance(opt, (list, tuple)) else opt

    # ---- where is each tree (re)defined?
    code_def = [False] * nseg
    code_def[0] = True
    flag = [None] * nseg            # the optional-rebuild bit at points >= 3
    for k in range(3, nseg):
        forced = k in tables and tables[k].get("code") is not None
        flag[k] = True if forced else _rebuild_wanted(rebuild, k, rng)
        code_def[k] = flag[k]

    def span_freq(start, defs, which):
        f = {}
        k = start
        while k < nseg and (k == start or not defs[k]):
            for it in segs[k]:
                s = it[0] if which == "code" else it[3]
                if s >= 0:
                    f[s] = f.get(s, 0) + 1
            k += 1
        return f

    bw = BitWriter()
    bw.put(first_bit, 1)
    codes = None
    ocodes = None
    need_off = False
    stats = dict(points=nseg - 1, flags=[], max_code_len=0, max_offset_len=0, code_defs=0,
                 offset_defs=0, single_code=0, single_offset=0)
    for k in range(nseg):
        # ---------- table definitions at point k
        define_code = code_def[k]
        if k >= 3:
            bw.put(1 if flag[k] else 0, 1)
            stats["flags"].append(bool(flag[k]))
        if define_code:
            tab = _norm_table(tables.get(k, {}).get("code"), 31)
            freq = span_freq(k, code_def, "code")
            if tab is None:
                tab = _choose(freq, NUM_CODE_SYMS, pick(strategy, k), max_code_len, CODE_TREE_LEN)
            if tab[0] == "single":
                if freq and set(freq) != {tab[1]}:
                    raise ValueError("point %d: single code symbol does not cover %r" % (k, sorted(freq)))
                stats["single_code"] += 1
            else:
                for s in freq:
                    if s >= len(tab[1]) or not tab[1][s]:
                        raise ValueError("point %d: code symbol %d has no code" % (k, s))
                if not tree_fits(tab[1], CODE_TREE_LEN):
                    raise ValueError("point %d: code tree does not fit" % k)
                stats["max_code_len"] = max(stats["max_code_len"], max(tab[1]))
            codes, need_off = _write_code_tree(bw, tab, pick(header_style, k), pick(num_codes, k), rng)
            stats["code_defs"] += 1
        # offset tree: points 0..3 always (while needed); later only together with the code tree
        define_off = need_off and (k <= 3 or flag[k])
        if define_off:
            # in force until the next point where an offset tree can be read (points 1..3, and
            # later points whose flag is set).  If the code tree defined there needs no offset
            # tree, none is read, but then no command can use one until the next definition.
            odefs = [False] * nseg
            for j in range(k + 1, nseg):
                if j <= 3 or flag[j]:
                    odefs[j] = True
                    break
            n_here = num_offsets(k)
            tab = _norm_table(tables.get(k, {}).get("offset"), 8)
            single_len = None
            if tab is not None and tab[0] == "table" and sum(1 for l in tab[1] if l) == 1:
                # explicit list with one non-zero entry: that *is* the single form; keep its value
                sym = next(i for i, l in enumerate(tab[1]) if l)
                single_len = tab[1][sym]
                tab = ("single", sym)
            freq = span_freq(k, odefs, "offset")
            if tab is None:
                tab = _choose(freq, n_here, pick(offset_strategy, k), 7, OFFSET_TREE_LEN)
            if tab[0] == "single":
                if freq and set(freq) != {tab[1]}:
                    raise ValueError("point %d: single offset symbol does not cover %r" % (k, sorted(freq)))
                if tab[1] >= n_here:
                    raise ValueError("point %d: offset symbol %d not available" % (k, tab[1]))
                stats["single_offset"] += 1
            else:
                for s in freq:
                    if s >= len(tab[1]) or not tab[1][s]:
                        raise ValueError("point %d: offset symbol %d has no code" % (k, s))
                if not tree_fits(tab[1], OFFSET_TREE_LEN):
                    raise ValueError("point %d: offset tree does not fit" % k)
                stats["max_offset_len"] = max(stats["max_offset_len"], max(tab[1]))
            ocodes = _write_offset_tree(bw, tab, n_here, rng, pick(header_style, k), single_len)
            cur_off_tab = tab
            stats["offset_defs"] += 1
        # ---------- commands of this segment
        for cs, cx, cb, t, ox, ob in segs[k]:
            if codes is not None:
                if cs not in codes:
                    raise ValueError("segment %d: code symbol %d has no code in the tree in force" % (k, cs))
                bw.put_code(codes[cs])
            if t >= 0:
                if not need_off:
                    raise ValueError("segment %d: copy needs an offset tree but none is in force" % k)
                bw.put(cx, cb)
                if ocodes is not None:
                    if t not in ocodes:
                        raise ValueError("segment %d: offset symbol %d has no code" % (k, t))
                    bw.put_code(ocodes[t])
                elif cur_off_tab[1] != t:
                    raise ValueError("segment %d: offset symbol %d but single tree is %d" % (k, t, cur_off_tab[1]))
                bw.put(ox, ob)
            else:
                bw.put(cx, cb)
                bw.put(ox, ob)
    if info is not None:
        info.update(stats)
    return bw.getvalue(pad_bit, pad_bytes)


# ------------------------------------------------------------- random ----

def random_cmds(rng, method="-pm2-", n=100, lit_prob=0.5, len_cap=None, lit_classes=None,
                copy_classes=None, offset_classes=None):
    """n random valid commands.  Literals pick a move-to-front class (0..7) uniformly and then a
    rank inside it; copies pick a length class (0..20) and a distance class (0..7, limited by the
    current position) uniformly.  *_classes restrict the choice (lists of class numbers); len_cap
    limits copy lengths."""
    mtf = MTF()
    window = bytearray(b"\x20" * WINDOW)
    out_len = 0
    cmds = []
    lcs = list(lit_classes) if lit_classes is not None else list(range(8))
    ccs = list(copy_classes) if copy_classes is not None else list(range(21))
    for _ in range(n):
        if rng.random() < lit_prob or not ccs:
            base, bits = LIT_CLASSES[rng.choice(lcs)]
            r = base + rng.choice((0, (1 << bits) - 1, rng.randrange(1 << bits)))
            b = mtf.at(r)
            cmds.append(("lit", b))
            mtf.touch(b)
            window[out_len % WINDOW] = b
            out_len += 1
            continue
        cc = rng.choice(ccs)
        if cc <= 14:
            ln = cc + 2
        elif cc == 20:
            ln = 256
        else:
            base, bits = LEN_CLASSES[cc - 15]
            ln = base + rng.choice((0, (1 << bits) - 1, rng.randrange(1 << bits)))
        if len_cap and ln > len_cap and cc != 20:
            ln = len_cap
        if cc == 20:
            d = 0
        elif ln == 2:
            d = rng.choice((0, 63, rng.randrange(64)))
        else:
            navail = num_offsets(segment_of(out_len))
            ocs = [t for t in (offset_classes if offset_classes is not None else range(8)) if t < navail]
            t = rng.choice(ocs) if ocs else 0
            if t == 0:
                d = rng.choice((0, 63, rng.randrange(64)))
            else:
                lo = 1 << (t + 5)
                d = lo + rng.choice((0, lo - 1, rng.randrange(lo)))
        cmds.append(("copy", d, ln))
        for _ in range(ln):
            b = window[(out_len - d - 1) % WINDOW]
            window[out_len % WINDOW] = b
            mtf.touch(b)
            out_len += 1
    return cmds
