"""Run lhasa's real decoders (through /verif/harness/c/decoder_drv.c, ASan+UBSan build) on
streams produced by the encoders in this directory.  Used by selftest.py; also handy on its own:

    from lhasa_run import Lhasa
    lh = Lhasa()
    outs = lh.decode([("-lh5-", stream_bytes, declared_len), ...])   # -> list of Result
"""
import json, os, shutil, subprocess, sys, tempfile, time

HERE = os.path.dirname(os.path.abspath(__file__))
PYDIR = os.path.dirname(HERE)

READ_CHUNK = 1 << 18      # the driver records at most 2^20 decoder calls per Read op


class Result:
    def __init__(self):
        self.data = b""
        self.length = None
        self.crc = None
        self.complete = None
        self.inner_calls = 0


class Lhasa:
    def __init__(self, variant="san", workdir=None):
        if PYDIR not in sys.path:
            sys.path.insert(0, PYDIR)
        import vcommon as V
        self.env = V.run_env()
        self.own = workdir is None
        self.workdir = workdir or tempfile.mkdtemp(prefix="encsel-")
        os.makedirs(self.workdir, exist_ok=True)
        # The build cache under /verif/build is shared with other checks and may be pruned while
        # we run, so keep a private copy of the driver binary.
        cwd = os.getcwd()
        last = None
        for _ in range(5):
            try:
                os.chdir(V.ROOT)
                exe = V.build_driver("decoder_drv", variant)
                self.exe = os.path.join(self.workdir, "decoder_drv")
                shutil.copy2(exe, self.exe)
                last = None
                break
            except (OSError, V.HarnessError) as e:
                last = e
                time.sleep(3)
            finally:
                os.chdir(cwd)
        if last is not None:
            raise last
        self.seq = 0

    def close(self):
        if self.own:
            shutil.rmtree(self.workdir, ignore_errors=True)

    def decode(self, items, extra=9):
        """items: [(method, stream bytes, declared length)].  Every stream is decoded in one
        driver run; the Read ops ask for declared+extra bytes in total (the decoder front end
        must stop at the declared length)."""
        if not items:
            return []
        self.seq += 1
        d = os.path.join(self.workdir, "b%d" % self.seq)
        os.makedirs(d, exist_ok=True)
        jobs = []
        for i, (method, stream, declared) in enumerate(items, 1):
            p = os.path.join(d, "s%d.bin" % i)
            with open(p, "wb") as f:
                f.write(stream)
            ops = []
            left = declared + extra
            while left > READ_CHUNK:
                ops.append("R%d" % READ_CHUNK)
                left -= READ_CHUNK
            ops.append("R%d" % left)
            ops += ["L", "C"]
            jobs.append("real %d 1 %d %s %s %s\n" % (i, declared, method, p, ",".join(ops)))
        jf = os.path.join(d, "jobs.txt")
        with open(jf, "w") as f:
            f.writelines(jobs)
        r = subprocess.run([self.exe, jf], stdout=subprocess.PIPE, stderr=subprocess.PIPE, env=self.env)
        if r.returncode != 0:
            raise RuntimeError("decoder_drv exit %d (sanitizer report or driver error):\n%s"
                               % (r.returncode, r.stderr.decode(errors="replace")[-6000:]))
        results = []
        cur = None
        for line in r.stdout.splitlines():
            if not line:
                continue
            ev = json.loads(line)
            e = ev["e"]
            if e == "Reset":
                cur = Result()
                cur._chunks = []
                results.append(cur)
            elif e == "Read":
                cur._chunks.append(bytes(ev["bytes"]))
                cur.inner_calls += len(ev["inner"])
            elif e == "Len":
                cur.length = ev["v"]
            elif e == "Crc":
                cur.crc = ev["v"]
            elif e == "End":
                cur.complete = ev["complete"]
        for res in results:
            res.data = b"".join(res._chunks)
        if len(results) != len(items):
            raise RuntimeError("driver produced %d traces for %d jobs" % (len(results), len(items)))
        shutil.rmtree(d, ignore_errors=True)
        return results
