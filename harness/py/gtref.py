"""Ground truth for Reader-level trace validation derived from a *reference run* (sequential
listing + full read of every member + check of every member, seekable file stream).  Used where
the property is relative - "the same members whatever the stream kind / prefix / history" - and no
generator knows the archive's content (corpus archives, mutated archives)."""
import json, os, subprocess
import vcommon as V
import corpus

NREF = 400   # more next calls than any test archive has members


def _dangerous(t):
    return t.startswith(b"/") or b".." in t.split(b"/")


def ref_jobs(archives, sc, tag="ref"):
    """two executions per archive: read everything, check everything"""
    jobs = []
    for a in archives:
        jobs.append("exec - %s path default - 0 bh %s" % (a, ",".join(["N,A4096"] * NREF)))
        jobs.append("exec - %s path default - 0 h %s" % (a, ",".join(["N,C"] * NREF)))
    return jobs


def truth_from_traces(read_lines, check_lines):
    """read_lines / check_lines: event dicts of the two reference executions of one archive"""
    arc = []
    cur = None
    for e in read_lines:
        if e["e"] == "Next":
            if e["id"] == "":
                break
            path = bytes.fromhex(e["path"]) if e.get("path") not in (None, "~") else b""
            tgt = bytes.fromhex(e["target"]) if e.get("target") not in (None, "~") else None
            meth = bytes.fromhex(e["method"]).decode("latin1")
            if e["isdir"]:
                kind = "dir" if tgt is None else ("dlink" if _dangerous(tgt) else "slink")
            else:
                kind = "file"
            comps = [c.decode("latin1") for c in path.strip(b"/").split(b"/")] if path.strip(b"/") else []
            cur = {"id": e["id"], "kind": kind, "dirp": comps, "plen": e["plen"], "packed": e["packed"], "avail": e["packed"],
                   "sup": kind == "file" and meth in corpus.METHODS, "data": [], "good": False, "trunc": False, "macfail": False}
            arc.append(cur)
        elif e["e"] == "Read" and cur is not None:
            cur["data"] += e.get("bytes", [])
            if cur["sup"] and not e["proj"]["dec"] and not cur["data"]:
                cur["macfail"] = True   # the decoder could not be opened although the method is supported (MacBinary pass-through)
            if e["proj"]["beof"]:
                cur["trunc"] = True     # the input ended inside this member's data
    i = -1
    for e in check_lines:
        if e["e"] == "Next":
            if e["id"] == "":
                break
            i += 1
        elif e["e"] == "Check" and 0 <= i < len(arc):
            arc[i]["good"] = bool(e["res"]) and arc[i]["kind"] == "file"
    return arc


def split_executions(path):
    """list of executions (each a list of event dicts) in a trace file"""
    out = []
    for ln in open(path):
        try:
            e = json.loads(ln)
        except ValueError:
            break             # the process was stopped in the middle of a line (CPU limit, crash): what follows is not an execution
        if e["e"] == "Reset":
            out.append([])
        elif out:
            out[-1].append(e)
    return out


def _run_limited(cmd, out, cpu=40):
    """a reference run that does not return (a decoder that never stops, a skip that spins) must not hang the check: CPU limit, reported
    like a crash (SIGXCPU / SIGKILL: negative return code)"""
    def lim():
        import resource
        resource.setrlimit(resource.RLIMIT_CPU, (cpu, cpu + 5))
        resource.setrlimit(resource.RLIMIT_FSIZE, (4 << 30, 4 << 30))
    try:
        return subprocess.run(cmd, stdout=out, stderr=subprocess.PIPE, env=V.run_env(), preexec_fn=lim, timeout=20 * cpu)
    except subprocess.TimeoutExpired:
        return subprocess.CompletedProcess(cmd, -9, b"", b"TIMEOUT")


def reference_truths(drv, archives, sc, tag="ref"):
    """runs the reference executions; returns {archive: arc list} (archives whose reference run
    crashed are omitted and reported in the second result)"""
    import tracerun as TR
    jobs = ref_jobs(archives, sc, tag)
    # keep both executions of an archive in the same shard: shard by archive
    pairs = [jobs[i:i + 2] for i in range(0, len(jobs), 2)]
    n = max(1, min(V.NCPU, len(pairs)))
    res_all = {}
    bad = []
    import concurrent.futures as cf

    def one(k):
        sub = [j for p in pairs[k::n] for j in p]
        subarch = archives[k::n]
        jf = os.path.join(sc, "%s_jobs_%d.txt" % (tag, k))
        tr = os.path.join(sc, "%s_trace_%d.ndjson" % (tag, k))
        open(jf, "w").write("\n".join(sub) + "\n")
        with open(tr, "w") as out:
            p = _run_limited([drv, jf], out)
        return k, subarch, tr, p
    with cf.ThreadPoolExecutor(max_workers=V.NCPU) as ex:
        for k, subarch, tr, p in ex.map(one, range(n)):
            ex_ = split_executions(tr)
            redo = []
            for i, a in enumerate(subarch):
                if 2 * i + 1 < len(ex_) and (p.returncode == 0 or 2 * i + 2 < len(ex_)):
                    res_all[a] = truth_from_traces(ex_[2 * i], ex_[2 * i + 1])
                else:
                    redo.append(a)
            # the process died in one of these: run each alone to find which, and to keep the others
            for a in redo:
                jf = os.path.join(sc, "%s_redo.txt" % tag)
                tr = os.path.join(sc, "%s_redo.ndjson" % tag)
                open(jf, "w").write("\n".join(ref_jobs([a], sc)) + "\n")
                with open(tr, "w") as out:
                    q = _run_limited([drv, jf], out)
                e2 = split_executions(tr)
                if q.returncode == 0 and len(e2) >= 2:
                    res_all[a] = truth_from_traces(e2[0], e2[1])
                else:
                    bad.append((a, q))
    return res_all, bad
