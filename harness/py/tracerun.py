"""Run a driver on sharded job lists and validate the resulting traces with a trace spec."""
import os, shutil, subprocess, concurrent.futures as cf
import vcommon as V


def run_sharded(drv, jobs, sc, tag, nshards=None, env=None, timeout=1200, cpu_limit=300):
    """jobs: list of job lines (one execution each).  Returns list of (jobfile, tracefile, proc)."""
    nshards = nshards or V.NCPU
    nshards = max(1, min(nshards, len(jobs)))
    shards = [jobs[i::nshards] for i in range(nshards)]
    items = []
    for i, sh in enumerate(shards):
        jf = os.path.join(sc, "%s_jobs_%d.txt" % (tag, i))
        open(jf, "w").write("\n".join(sh) + "\n")
        items.append((jf, os.path.join(sc, "%s_trace_%d.ndjson" % (tag, i)), len(sh)))

    def one(it):
        jf, tr, n = it
        with open(tr, "w") as out:
            try:
                # a CPU limit far above the normal cost (a shard needs seconds) turns a call that never
                # returns into a prompt SIGXCPU instead of a long wall-clock timeout
                def lim():
                    import resource
                    resource.setrlimit(resource.RLIMIT_CPU, (cpu_limit, cpu_limit + 5))
                p = subprocess.run([drv, jf], stdout=out, stderr=subprocess.PIPE, env=env or V.run_env(), timeout=timeout, preexec_fn=lim)
            except subprocess.TimeoutExpired as e:
                class P: pass
                p = P(); p.returncode = -999; p.stderr = b"TIMEOUT after %ds" % timeout
        return jf, tr, n, p
    with cf.ThreadPoolExecutor(max_workers=V.NCPU) as ex:
        return list(ex.map(one, items))


def validate_all(module, cfg, results, ev, pid, keep=(), xmx="3g", timeout=1500, env=None):
    """results from run_sharded.  Returns (violations, n_accepted_executions)."""
    viols = []
    good = 0
    todo = []
    for jf, tr, n, p in results:
        if p.returncode in (2, 3):
            raise V.HarnessError("driver failed on %s: %s" % (jf, p.stderr.decode(errors="replace")[-800:]))
        if p.returncode != 0:
            d = V.replay_dir(pid, "run-" + os.path.basename(jf))
            shutil.copy(jf, os.path.join(d, "jobs.txt"))
            open(os.path.join(d, "stderr.txt"), "wb").write(p.stderr or b"")
            msg = "driver exited %s on %s: %s" % (p.returncode, os.path.basename(jf), (p.stderr or b"").decode(errors="replace")[-1200:])
            open(os.path.join(d, "why.txt"), "w").write(msg)
            viols.append({"replay": d, "msg": msg, "kind": "crash"})
        else:
            todo.append((jf, tr, n))
    with cf.ThreadPoolExecutor(max_workers=V.NCPU) as ex:
        futs = {ex.submit(V.validate_trace, module, cfg, tr, env, timeout, xmx): (jf, tr, n) for jf, tr, n in todo}
        for fu, (jf, tr, n) in futs.items():
            ok, line, r = fu.result()
            ev.tlc(r)
            import re as _re0
            nk = len(_re0.findall(r'<<"ESCAPE-KNOWN"', r.out))
            if nk:
                ev.add("escape_known_lines", nk)
            for m in _re0.finditer(r'<<"STATS", (\d+), (\d+), <<(\d+), (\d+), (\d+), (\d+)>>', r.out):
                ev.add("cases_definition_accepts", int(m.group(1)))
                ev.add("cases_definition_rejects", int(m.group(2)))
                for i in range(4):
                    ev.add("accepted_level_%d" % i, int(m.group(3 + i)))
            if ok:
                good += n
                continue
            d = V.replay_dir(pid, "trace-" + os.path.basename(tr))
            shutil.copy(jf, os.path.join(d, "jobs.txt"))
            shutil.copy(tr, os.path.join(d, "trace.ndjson"))
            if line and line > 0:
                lines = open(tr).read().splitlines()
                # find the execution (Reset) the rejected line belongs to
                start = max([i for i in range(line) if i < len(lines) and lines[i].startswith('{"e":"Reset"')] or [max(line - 1, 0)])
                ctx = "rejected at line %d (execution starting at line %d): %s" % (
                    line, start + 1, lines[line - 1][:700] if line <= len(lines) else "<end of trace>")
                open(os.path.join(d, "rejected_execution.ndjson"), "w").write("\n".join(lines[start:line]) + "\n")
            else:
                import re as _re
                ls = _re.findall(r"/\\ l = (\d+)", r.out)
                at = int(ls[-1]) - 1 if ls else 0
                lines = open(tr).read().splitlines()
                ctx = "invariant/property %s of the specification violated after trace line %d: %s" % (
                    r.violation, at, lines[at - 1][:500] if 0 < at <= len(lines) else "")
            import re as _re2
            mm = _re2.findall(r'<<"MISMATCH", "([^"]*)"', r.out)
            mw = _re2.search(r'<<\s*"WANT",\s*<<([0-9,\s]*)>>', r.out)
            if mw and line and line > 0:
                want = bytes(int(x) for x in mw.group(1).split(",") if x.strip())
                open(os.path.join(d, "want.txt"), "wb").write(want)
                try:
                    import json as _j
                    got = bytes(_j.loads(open(tr).read().splitlines()[line - 1])["out"])
                    open(os.path.join(d, "got.txt"), "wb").write(got)
                except Exception:
                    pass
            if mm:
                ctx = "[observation that differed: %s] " % ", ".join(sorted(set(mm))) + ctx
            open(os.path.join(d, "why.txt"), "w").write(ctx + "\n")
            viols.append({"replay": d, "msg": ctx, "kind": "rejected", "line": line, "trace": os.path.join(d, "trace.ndjson")})
    return viols, good
