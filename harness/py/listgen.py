"""Generation of archives for the list/print commands (C19, C18) and collection of what the tool
printed.  The only "expected value" computed here is the digits of the ratio column (IEEE single
precision emulation); everything else is decided by ListOutput.tla."""
import json, os, random, struct, subprocess
import vcommon as V
import arc


def f32(x):
    return struct.unpack("f", struct.pack("f", x))[0]


def ratio_text(packed, length):
    """printf("%5.1f%%", ((float) packed * 100.0f) / (float) length), 100.0f when length == 0"""
    if length > 0:
        q = f32(f32(f32(float(packed)) * 100.0) / f32(float(length)))
    else:
        q = 100.0
    return ("%5.1f%%" % q).encode()


_DELICATE = None


def delicate_pairs():
    """(packed, original) pairs whose ratio lies on, or within float rounding of, a boundary of the printed precision (x.x5 %): an
    exact tie, or a pair for which a re-association of the single-precision arithmetic changes the digit printed"""
    global _DELICATE
    if _DELICATE is None:
        out = []
        for u in list(range(1, 260)) + [400, 800, 1000, 1600, 2000, 3000]:
            for c in range(1, 2 * u + 2):
                if c > 3100:
                    break
                tie = (2000 * c) % u == 0 and ((2000 * c) // u) % 2 == 1
                a = "%5.1f" % f32(f32(f32(float(c)) * 100.0) / f32(float(u)))
                b = "%5.1f" % f32(f32(f32(float(c)) / f32(float(u))) * 100.0)
                if tie or a != b:
                    out.append((c, u))
        _DELICATE = out
    return _DELICATE


def glob_match(g, s):
    if not g:
        return not s
    if g[0:1] == b"*":
        return any(glob_match(g[1:], s[k:]) for k in range(len(s) + 1))
    return bool(s) and (g[0:1] == b"?" or g[0] == s[0]) and glob_match(g[1:], s[1:])


def w32(v):
    return [(v >> 16) & 0xFFFF, v & 0xFFFF]


def val(w):
    return w[0] * 65536 + w[1]


NOW = 1335830400
HOSTILE = [0x01, 0x07, 0x08, 0x09, 0x0a, 0x0d, 0x1b, 0x1f, 0x7f, 0x80, 0x9b, 0xa0, 0xff]


def rand_member(r, hostile=False, last=False):
    lvl = r.choice([0, 1, 2, 3])
    kind = r.choice(["file"] * 5 + ["dir", "link"])
    # every OS type byte the tool has a name for, and some it has none for
    os_ = r.choice([0, ord("U"), ord("U")] + [ord(c) for c in "MwW2CmJFRT9K3HaA "] + [0x7e, 0xff, ord("x"), ord("u"), 1])
    sizes = [0, 1, 5, 1000, 9999999, 10000000, 0x7FFFFFFF, 0x80000000, 0xFFFFFFFF]
    stamps = [0, 1, NOW - 15552000 - 1, NOW - 15552000, NOW - 15552000 + 1, NOW, NOW + 1, 0x7FFFFFFF, 0x80000000, 0xFFFFFFFF, r.getrandbits(32)]

    def nm(n):
        alpha = b"abcXYZ_-.09 " if not hostile else bytes(HOSTILE) + b"ab"
        return bytes(r.choice(alpha) for _ in range(n)) or b"x"
    name = nm(r.choice([1, 3, 8, 12, 13, 14, 20, 21, 60, 255 if lvl >= 2 else 40]))
    path = b"/".join(nm(r.choice([1, 4])) for _ in range(r.choice([0, 0, 1, 2])))
    exts = []
    stamp = r.choice(stamps)
    perms = r.choice([None, 0o100644, 0o100755, 0o104755, 0o40755, 0o120777, r.getrandbits(16), 1 << r.randrange(16)])
    method = r.choice([b"-lh0-", b"-lh5-", b"-lh1-", b"-lzs-", b"-pm2-", b"-lh7-"])
    if hostile and r.random() < 0.5:
        method = b"-l" + bytes([r.choice(HOSTILE + [0x68]), r.choice(HOSTILE + [0x35])]) + b"-"
    inname = b""
    if kind == "dir":
        method = b"-lhd-"
    if lvl >= 1:
        if kind == "link":
            method = b"-lhd-"
            tgt = nm(r.choice([1, 5, 30]))
            if r.random() < 0.3:
                tgt = tgt[:1] + b"|" + tgt[1:]        # (the name ends at the first '|'; the target may contain more of them)
            if not hostile and r.random() < 0.4:
                # a link entry under an OS type whose all-capitals names are folded to lower case: the fold is about the name (and path),
                # never about the target, and is decided by the name alone
                name = r.choice([b"LINK", b"README", b"UP_1", b"X", b"Mixed", b"UP.TXT"])
                tgt = r.choice([b"TARGET", b"docs/Readme.txt", b"UP/low", b"T", b"lower", b"A|B"])
                path = r.choice([b"", b"", b"DIR", b"Dir"])
                os_ = r.choice([0, ord("M"), ord("2"), ord("a"), ord(" "), ord("U"), ord("w")])
            full = (path + b"/" if path else b"") + name.replace(b"|", b"_") + b"|" + tgt
            d, _, n = full.rpartition(b"/")
            exts += ([arc.x_name(n)] if n else []) + ([arc.x_path(d + b"/")] if d else [])
            perms = 0o120777
        elif kind == "dir":
            exts.append(arc.x_path((path + b"/" if path else b"") + name + b"/"))
        else:
            exts.append(arc.x_name(name.replace(b"/", b"_")))
            if path:
                exts.append(arc.x_path(path + b"/"))
        if perms is not None:
            exts.append(arc.x_perm(perms))
        if r.random() < 0.5:
            exts.append(arc.x_uidgid(r.choice([0, 1, 99999 & 0xFFFF, 65535, 1000]), r.choice([0, 5, 65535, 12345])))
        if r.random() < 0.2:
            exts.append(arc.x_os9(r.getrandbits(16)))
        if (hostile and r.random() < 0.4) or (not hostile and r.random() < 0.25):
            exts.append(arc.x_user(nm(5)))
            exts.append(arc.x_group(nm(5)))
        if r.random() < 0.15:
            exts.append(arc.x_wintime(r.getrandbits(64), r.getrandbits(64), r.getrandbits(64)))
        if r.random() < 0.5:
            r.shuffle(exts)          # (the order of extended headers is free; where two of them speak about the same thing the later one wins)
        if lvl == 1:
            if r.random() < 0.5:
                exts.append(arc.x_utime(stamp))
                stamp_field = 0
            else:
                stamp_field = r.choice([0, arc.dos_time(2012, 3, 4, 5, 6, 8), arc.dos_time(1990, 12, 31, 23, 59, 58), arc.dos_time(2012, 1, 1, 0, 0, 0)])
            inname = r.choice([b"", name[:20].replace(b"/", b"_")])
        else:
            stamp_field = stamp
    else:
        inname = ((path + b"\\" if path else b"") + name)[:200]
        if kind == "dir":
            method = b"-lhd-"
            inname = inname[:199] + b"\\"
        elif kind == "link":
            kind = "file"
        stamp_field = r.choice([0, arc.dos_time(2012, 3, 4, 5, 6, 8), arc.dos_time(1985, 6, 7, 8, 9, 10), arc.dos_time(2012, 4, 30, 23, 59, 58)])
    l0ext = b""
    if lvl == 0 and r.random() < 0.4:
        l0ext = b"U\0" + struct.pack("<I", stamp) + struct.pack("<HHH", r.choice([0o100644, 0o40755, r.getrandbits(16)]), r.getrandbits(16), r.getrandbits(16))
    length = r.choice(sizes)
    payload = b"" if method == b"-lhd-" else b"data"
    packed = None
    q = r.random()
    if method != b"-lhd-" and q < 0.35:
        # a ratio on the edge of the printed precision (the data is really there: the archive stays walkable)
        c, length = r.choice(delicate_pairs())
        payload = b"d" * c
    elif method != b"-lhd-" and q < 0.6:
        payload = b"p" * r.choice([0, 1, 2, 9, 10, 99, 100, 999, 1000, 2999])
    elif last and q < 0.85:
        # only the last member can announce more data than there is
        packed = r.choice(sizes)
    m = arc.Member(level=lvl, method=method, name=inname, payload=payload, length=length, crc=r.getrandbits(16), time=stamp_field,
                   os=os_, exts=exts, l0ext=l0ext, packed=packed)
    raw = bytearray(m.bytes())
    return bytes(raw), m


RAW_MEMBERS = {}          # archive path -> the bytes of each member as generated (header + data), for Trace_List!RecordIsParse


def make_archive(r, sc, tag, hostile=False, nmax=6):
    """an archive whose declared packed sizes are extreme but whose stored data is tiny: the list
    commands never read member data, but must step over it - so the sizes that are *listed* are
    patched in a way that keeps the archive walkable: the last member carries the extreme packed size"""
    n = r.randint(0 if not hostile else 1, nmax)
    parts = []
    for i in range(n):
        raw, m = rand_member(r, hostile, last=(i == n - 1))
        parts.append(raw)
    data = b"".join(parts) + b"\0"
    path = os.path.join(sc, tag + ".lzh")
    open(path, "wb").write(data)
    RAW_MEMBERS[path] = parts
    return path


def collect_members(hdrdrv, archives, sc, tag):
    """header records of every archive, as the library returns them (header_drv `arch`)"""
    cf = os.path.join(sc, tag + "_arch.txt")
    with open(cf, "w") as f:
        for a in archives:
            f.write("arch %s\n" % a)
    p = subprocess.run([hdrdrv, cf], capture_output=True, env=V.run_env())
    if p.returncode != 0:
        return None, p
    out = []
    for ln in p.stdout.decode().splitlines():
        if ln.startswith('{"e":"Arch"'):
            out.append(json.loads(ln)["members"])
    return out, p


def list_event(lha, archive, members, mode, quiet, filters, now, mtime):
    """runs the tool; returns the trace event"""
    os.utime(archive, (mtime, mtime))
    cmd = mode + ("q%d" % quiet if quiet else "")
    env = V.run_env(TEST_NOW_TIME=str(now))
    p = V.run_bounded([lha.encode(), cmd.encode(), archive.encode()] + [bytes(f) for f in filters], capture_output=True, env=env, stdin=subprocess.DEVNULL, timeout=120)
    ms = []
    sel_p = sel_l = 0
    import re as _re
    raws = RAW_MEMBERS.get(_re.sub(r"\.s\d+$", "", archive))
    for mi, m in enumerate(members):
        mm = dict(m)
        if raws is not None and len(raws) == len(members) and len(raws[mi]) < 3000:
            mm["rawhdr"] = list(raws[mi] + b"\0" * 8)
        mm["ratio"] = list(ratio_text(val(m["packed"]), val(m["length"])))
        ms.append(mm)
        full = bytes(x for x in m["path"] if x >= 0) + bytes(x for x in m["filename"] if x >= 0)
        if not filters or any(glob_match(f, full) for f in filters):
            sel_p = (sel_p + val(m["packed"])) & 0xFFFFFFFF
            sel_l = (sel_l + val(m["length"])) & 0xFFFFFFFF
    ev = {"e": "List", "mode": mode, "quiet": quiet, "now": w32(now), "mtime": w32(mtime & 0xFFFFFFFF), "filters": [list(f) for f in filters],
          "totalratio": list(ratio_text(sel_p, sel_l)), "members": ms, "out": list(p.stdout)}
    return ev, p
