"""Case generation for header-level checks (C05, C11, C12) and running header_drv."""
import os, struct, subprocess, random, itertools
import vcommon as V
import arc, corpus, lhaparse

DUMMY = arc.Member(level=0, method=b"-lh0-", name=b"dummy", payload=b"", data=b"").bytes()


def write_cases(path, cases):
    with open(path, "w") as f:
        f.write("dummy %s\n" % DUMMY.hex())
        for c in cases:
            f.write("case %s\n" % bytes(c).hex())


def corpus_cases(maxlen=70000):
    """every member header of the corpus, with the rest of its archive behind it"""
    out = []
    import glob
    for fpath in sorted(glob.glob(os.path.join(V.REPO, "test", "archives", "*", "*"))):
        if not os.path.isfile(fpath) or fpath.endswith("README"):
            continue
        b = open(fpath, "rb").read()
        try:
            ms = lhaparse.members(b)
        except Exception:
            continue
        for m in ms:
            out.append(b[m["hdr_off"]:m["hdr_off"] + maxlen])
    return out


# Windows FILETIME values around the points where a conversion to Unix time changes character
_E = 116444736000000000
WINTIMES = [0, 1, _E - 10000000, _E - 1, _E, _E + 1, _E + 9999999, _E + 10000000, _E + (2 ** 31 - 1) * 10000000, _E + 2 ** 31 * 10000000,
            _E + (2 ** 32 - 1) * 10000000, _E + 2 ** 32 * 10000000, 2 ** 63 - 1, 2 ** 63, 2 ** 64 - 1]

EXT_BUILDERS = {
    0x00: lambda r: arc.x_common(bytes(r.randrange(256) for _ in range(r.choice([0, 0, 1, 3])))),
    0x01: lambda r: arc.x_name(rand_name(r)),
    0x02: lambda r: arc.x_path(rand_path(r)),
    0x41: lambda r: arc.x_wintime(*[r.choice(WINTIMES + [r.getrandbits(64)]) for _ in range(3)]),
    0x50: lambda r: arc.x_perm(r.choice([0o100644, 0o40755, 0o120777, 0, 0xFFFF, r.getrandbits(16)])),
    0x51: lambda r: arc.x_uidgid(r.choice([0, 1, 1000, 65535]), r.choice([0, 100, 65535])),
    0x52: lambda r: arc.x_group(rand_name(r)),
    0x53: lambda r: arc.x_user(rand_name(r)),
    0x54: lambda r: arc.x_utime(r.choice([0, 1, 0x7FFFFFFF, 0x80000000, 0xFFFFFFFF, r.getrandbits(32)])),
    0xCC: lambda r: arc.x_os9(r.getrandbits(16)),
    0x99: lambda r: (0x99, bytes(r.randrange(256) for _ in range(r.choice([0, 1, 7])))),   # unknown type
    0x3f: lambda r: (0x3f, b"a comment"),
}


def rand_name(r):
    if r.random() < 0.08:
        # names a decoder might be tempted to treat specially
        return r.choice([b".", b"..", b"...", b"a|", b"|b", b"/", b"\\", b"..\\x", b"a/..", b" ", b"x|../y"])
    n = r.choice([1, 1, 2, 3, 8, 12, 40])
    alpha = r.choice([b"abcXYZ09._-", b"ABCDEF0123", b"aB|/\\\xff. \x01\x80\xfe", b"abc"])
    return bytes(r.choice(alpha) for _ in range(n))


def rand_path(r):
    parts = [rand_name(r).replace(b"/", b"x").replace(b"|", b"y") for _ in range(r.choice([1, 1, 2, 3]))]
    if r.random() < 0.3:
        parts.insert(r.randrange(len(parts) + 1), r.choice([b"..", b".", b""]))
    p = b"/".join(parts)
    return p + (b"/" if r.random() < 0.8 else b"")


SIZES = [0, 1, 2, 255, 256, 65535, 65536, 0x7FFFFFFF, 0x80000000, 0xFFFFFFFF]
OSES = [0, ord("M"), ord("U"), ord("A"), ord("a"), ord(" "), ord("2"), ord("K"), ord("9"), ord("m"), ord("w"), 0xFF]
METHODS = [b"-lh0-", b"-lh5-", b"-lhd-", b"-lz4-", b"-pm0-", b"-lh7-", b"-lzs-", b"-pm2-", b"-lh1-"]


def dos_times(r):
    base = arc.dos_time(1999, 12, 31, 23, 59, 58)
    ext = [0, 1, base, 0xFFFFFFFF, 0x80000000,
           arc.dos_time(1980, 1, 1, 0, 0, 0), arc.dos_time(2107, 12, 31, 23, 59, 58),
           (20 << 25) | (0 << 21) | (1 << 16),       # month 0
           (20 << 25) | (13 << 21) | (1 << 16),      # month 13
           (20 << 25) | (15 << 21) | (31 << 16),     # month 15, day 31
           (20 << 25) | (2 << 21) | (31 << 16),      # 31 February
           (20 << 25) | (6 << 21) | (0 << 16),       # day 0
           (20 << 25) | (6 << 21) | (15 << 16) | (31 << 11) | (63 << 5) | 31]  # hour 31, minute 63, 62 s
    return r.choice(ext + [r.getrandbits(32)])


def wellformed_header(r, level=None, data=b"DATA0123"):
    """a random well-formed header (plus stored data behind it) with fields at range ends"""
    level = r.choice([0, 1, 2, 3]) if level is None else level
    method = r.choice(METHODS)
    os_ = r.choice(OSES)
    exts = []
    name = b""
    l0ext = b""
    isdir = method == b"-lhd-"
    if level >= 1:
        types = [r.choice(sorted(EXT_BUILDERS)) for _ in range(r.choice([0, 1, 2, 3, 4, 5]))]
        if level >= 2 or r.random() < 0.5:
            types.append(0x02 if isdir else 0x01)
        r.shuffle(types)
        exts = [EXT_BUILDERS[t](r) for t in types]
    if level <= 1:
        name = rand_name(r).replace(b"\x00", b"a")
        if isdir and level == 0:
            name = name.replace(b"/", b"_") + r.choice([b"/", b"\\"])
    if level == 0 and r.random() < 0.5:
        if r.random() < 0.6:
            l0ext = bytes([r.choice([ord("U"), ord("K")]), 0]) + struct.pack("<I", r.getrandbits(32)) + \
                (struct.pack("<I", r.getrandbits(32)) if r.random() < 0.3 else b"") + struct.pack("<HHH", r.getrandbits(16), r.getrandbits(16), r.getrandbits(16))
        elif r.random() < 0.5:
            pw = struct.pack("<H", r.getrandbits(16))
            l0ext = b"9" + pw + bytes(6) + b"\xcc" + bytes(7) + pw + bytes(3)
        else:
            l0ext = bytes(r.randrange(256) for _ in range(r.choice([1, 5, 12, 22, 30])))
    if level == 1 and r.random() < 0.2:
        l0ext = bytes(r.randrange(256) for _ in range(r.choice([1, 3])))
    packed = len(data) if level == 1 or r.random() < 0.7 else r.choice(SIZES)
    length = r.choice(SIZES + [len(data)])
    time = dos_times(r) if level <= 1 else r.choice([0, 1, 0x7FFFFFFF, 0xFFFFFFFF, r.getrandbits(32)])
    m = arc.Member(level=level, method=method, name=name, payload=data, length=length, crc=r.getrandbits(16), time=time, os=os_,
                   exts=exts, l0ext=l0ext, packed=packed, attr=r.choice([0x20, 0x10, 0]))
    try:
        h = m.header()
    except (struct.error, ValueError):
        return wellformed_header(r, level, data)
    if level in (0, 1) and len(h) > 257 + (0 if level == 0 else 100000):
        return wellformed_header(r, level, data)
    if level <= 1 and h[0] + 2 > 257:
        return wellformed_header(r, level, data)
    return h + data + bytes(r.randrange(256) for _ in range(r.choice([0, 3, 40])))


def mutations(h, r, full=True, positions=None):
    """C12: all 255 substitutions at every byte position of the header region, every truncation,
    and length-field perturbations"""
    out = []
    n = len(h)
    pos = range(n) if positions is None else positions
    for i in pos:
        if full:
            for v in range(256):
                if v != h[i]:
                    out.append(h[:i] + bytes([v]) + h[i + 1:])
        else:
            for v in {(h[i] + 1) & 255, (h[i] - 1) & 255, h[i] ^ 0x80, 0, 255, r.randrange(256)} - {h[i]}:
                out.append(h[:i] + bytes([v]) + h[i + 1:])
    for t in range(0, n):
        out.append(h[:t])
    return out


def run_cases(drv, cases, sc, tag, nshards=None):
    """returns list of (casefile, tracefile, n, proc)"""
    import concurrent.futures as cf
    nshards = max(1, min(nshards or V.NCPU, len(cases)))
    items = []
    for k in range(nshards):
        sub = cases[k::nshards]
        cfp = os.path.join(sc, "%s_cases_%d.txt" % (tag, k))
        write_cases(cfp, sub)
        items.append((cfp, os.path.join(sc, "%s_trace_%d.ndjson" % (tag, k)), len(sub)))

    def one(it):
        cfp, tr, n = it

        def lim():
            # a header that makes the parser spin must not hang the check: CPU limit far above the normal cost of a shard (seconds)
            import resource
            resource.setrlimit(resource.RLIMIT_CPU, (150, 155))
        with open(tr, "w") as out:
            try:
                p = subprocess.run([drv, cfp], stdout=out, stderr=subprocess.PIPE, env=V.run_env(), preexec_fn=lim, timeout=1800)
            except subprocess.TimeoutExpired:
                p = subprocess.CompletedProcess([drv, cfp], -9, b"", b"TIMEOUT: header_drv did not finish")
        return cfp, tr, n, p
    with cf.ThreadPoolExecutor(max_workers=V.NCPU) as ex:
        return list(ex.map(one, items))


def level0_area_lengths():
    """level-0 headers whose extended area (the bytes between the CRC field and the end of the header) has every length 0..26, for each
    kind of area the library knows (Unix 'U', OS-9/68K 'K', OS-9 '9' with its marker byte and repeated permission field in place, and an
    unknown kind): the area decoders index fixed offsets, so each length is a boundary for one of them.  The header ends exactly where the
    area ends and nothing but the member's data follows."""
    out = []
    pw = b"\xa4\x01"
    full = {ord("U"): b"U\0" + struct.pack("<I", 1000000000) + struct.pack("<HHH", 0o100644, 1000, 100) + bytes(14),
            ord("K"): b"K\0" + struct.pack("<I", 1000000000) + struct.pack("<HHH", 0o100644, 1000, 100) + bytes(14),
            ord("9"): b"9" + pw + bytes(6) + b"\xcc" + bytes(7) + pw + bytes(3) + bytes(4),
            ord("x"): b"x" + bytes(range(1, 26))}
    for mk, tmpl in full.items():
        for n in range(0, 27):
            for meth in (b"-lh0-", b"-lz4-", b"-pm0-"):
                if meth != b"-lh0-" and n not in (0, 12, 18, 22):
                    continue
                m = arc.Member(level=0, method=meth, name=b"AREA.TXT", payload=b"data", time=arc.dos_time(2012, 3, 4, 5, 6, 8), l0ext=tmpl[:n])
                out.append(m.bytes())
    return out


def identity_cross_product():
    """what an entry is and what it is called, combined: OS type x method x recorded length x file name header present x path header
    present x kind of permissions x level.  The rules about entries without a name or a path, the Amiga directory quirk (-lh0-, length 0,
    no name), symbolic links and the Mac pass-through each look at several of these at once."""
    import itertools
    out = []
    k = 0
    for osb, meth, ln, nm, pth, perm in itertools.product([ord("A"), ord("U"), ord("M"), ord("m"), 0], [b"-lh0-", b"-lhd-", b"-lh5-", b"-lzs-"], [0, 1],
                                                         [None, b"n"], [None, b"p\xff", b""], [None, 0o120777, 0o40755, 0o100644]):
        for lvl in (1, 2, 3):
            k += 1
            if lvl != 1 + k % 3 and (perm is not None or pth == b""):
                continue               # (every combination at one level at least; the plainer ones at all three)
            exts = ([arc.x_name(nm)] if nm is not None else []) + ([(arc.X_PATH, pth)] if pth is not None else []) + ([arc.x_perm(perm)] if perm is not None else [])
            payload = b"" if (meth == b"-lhd-" or ln == 0) else b"x"
            m = arc.Member(level=lvl, method=meth, name=b"", payload=payload, length=ln, crc=0 if not payload else arc.crc16(payload), time=1000000000 if lvl >= 2 else 0,
                           os=osb, exts=exts)
            out.append(m.bytes() + b"tail")
    return out
