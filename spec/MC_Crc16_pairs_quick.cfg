SPECIFICATION Spec
CONSTANTS
  CSET = {0}
  BSET = {0}
  ALPHA = {0}
  MAXLEN = 0
  MODE = "pairs"
INVARIANTS StepEqTStep InRange LinearOnPair TabLinear ZeroStepInjective
CHECK_DEADLOCK FALSE
