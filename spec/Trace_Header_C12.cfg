SPECIFICATION TSpec
CONSTANTS MODE = {"C12"}
INVARIANT Stats
VIEW TView
POSTCONDITION Accepted
CHECK_DEADLOCK FALSE
