--------------------------------- MODULE Codec_Pm2 ----------------------------------
(* lib/pm2_decoder.c: PMarc 2 (-pm2-).  8 KiB window (initially spaces), a move-to-front list for
   literals (Codec_Pma), and two prefix codes that are re-read from the stream after 1, 2, 4, 8,
   12, 16 .. KiB of OUTPUT - in the middle of whatever command crosses that boundary.

   FORMAT.  One discarded bit, then the first tables, then commands.
     code table    5-bit n, 3-bit minimum length m (0: one symbol n-1), 3-bit field width w,
                   n fields of w bits: 0 = unused, v = length m + v - 1          (31 symbols max)
     offset table  k = 5,6,7,8 (growing with the output position) 3-bit lengths; exactly one
                   non-zero length: that symbol alone; only present if n >= 10 and not (n=29,m=0)
     command       code symbol c: c < 8 literal: history_decode[c] = <<base, bits>> selects the
                   (base + bits)-th entry of the move-to-front list
                   c >= 8 copy, c' = c - 8: count c'+2 (c' < 15) or copy_decode[c'-15] (c' <= 20);
                   distance: c' = 0: 6 bits; c' < 20: offset symbol v: v = 0: 6 bits, else
                   2^(v+5) + (v+5) bits; c' >= 20: 0
   Tables are length vectors (Codec_Huff): canonical code when complete, else tree_decode.c's
   array semantics with 8-bit elements (code_tree[65], offset_tree[17]).

   STATE (projection of LHAPM2Decoder): input, pos, ts (tree_state 0..4), rem
   (tree_rebuild_remaining), code, offs (tables), need (need_offset_tree), hist
   (history_list), win (ringbuf; ringbuf_pos = WPos(win, Pm2W, 0)).

   ERROR HANDLING is where this decoder is peculiar, and all of it is kept:
     - rebuild_tree ignores the results of read_code_tree / read_offset_tree and of the read_bit
       that decides whether new tables follow; a table that hits the end of the input simply is
       not built (tree and, for the code table, need_offset_tree as far as assigned), and
       decoding goes on with the old array;
     - read_code_tree reads n AND m before testing either;
     - copy_from_history reads the count AND the distance before testing either;
     - n = 0, m = 0 makes set_tree_single(code_tree, -1): leaf 127, which decodes to copy code 119
       - out of range, no output (since fix 86b743a also codes 21, 22);
     - a command that produces no bytes makes the call return 0. *)
EXTENDS Naturals, Sequences, SequencesExt, Codec_Bits, Codec_Huff, Codec_Window, Codec_Pma

Pm2W == 8192
Pm2Leaf == 128                 \* TREE_NODE_LEAF for uint8_t elements
CodeTreeLen == 65
OffsetTreeLen == 17

HistoryDecode == << <<0,3>>, <<8,3>>, <<16,4>>, <<32,5>>, <<64,5>>, <<96,5>>, <<128,6>>, <<192,6>> >>
CopyDecode == << <<17,3>>, <<25,3>>, <<33,5>>, <<65,6>>, <<129,7>>, <<256,0>> >>

Pm2Init(input) ==
  [input |-> input, pos |-> 0, ts |-> 0, rem |-> 0,
   code |-> TableInit(CodeTreeLen, Pm2Leaf), offs |-> TableInit(OffsetTreeLen, Pm2Leaf), need |-> FALSE,
   hist |-> PmaInitHist, win |-> EmptyWin]

Zeros31 == [i \in 1..31 |-> 0]

(* read_code_tree: the new state (success or not does not matter to the caller) *)
ReadCodeTree(d) ==
  LET inp == d.input
      n == RdBits(inp, d.pos, 5)
      m == RdBits(inp, n.pos, 3)            \* read even if n failed
  IN IF ~n.ok \/ ~m.ok THEN [d EXCEPT !.pos = m.pos]
     ELSE LET d1 == [d EXCEPT !.pos = m.pos, !.need = n.v >= 10 /\ ~(n.v = 29 /\ m.v = 0)] IN
          IF m.v = 0 THEN [d1 EXCEPT !.code = TableSingle(d.code, n.v + 255, Pm2Leaf)]      \* (uint8_t)(n - 1)
          ELSE LET w == RdBits(inp, d1.pos, 3) IN
               IF ~w.ok THEN d1
               ELSE LET step(a, i) == IF ~a.ok THEN a
                                      ELSE LET v == RdBits(inp, a.pos, w.v) IN
                                           IF ~v.ok THEN [a EXCEPT !.ok = FALSE]
                                           ELSE [a EXCEPT !.pos = v.pos, !.lens[i] = IF v.v = 0 THEN 0 ELSE m.v + v.v - 1]
                        r == FoldLeft(step, [pos |-> w.pos, lens |-> Zeros31, ok |-> TRUE], IdxTo(n.v))
                    IN IF ~r.ok THEN [d1 EXCEPT !.pos = r.pos]
                       ELSE [d1 EXCEPT !.pos = r.pos, !.code = TableBuild(d.code, CodeTreeLen, r.lens, n.v, Pm2Leaf)]

(* read_offset_tree(num_offsets = k) *)
ReadOffsetTree(d, k) ==
  IF ~d.need THEN d
  ELSE LET inp == d.input
           step(a, i) == IF ~a.ok THEN a
                         ELSE LET v == RdBits(inp, a.pos, 3) IN
                              IF ~v.ok THEN [a EXCEPT !.ok = FALSE]
                              ELSE [a EXCEPT !.pos = v.pos, !.lens[i] = v.v,
                                             !.cnt = IF v.v # 0 THEN @ + 1 ELSE @, !.single = IF v.v # 0 THEN i - 1 ELSE @]
           r == FoldLeft(step, [pos |-> d.pos, lens |-> [i \in 1..8 |-> 0], cnt |-> 0, single |-> 0, ok |-> TRUE], IdxTo(k))
       IN IF ~r.ok THEN [d EXCEPT !.pos = r.pos]
          ELSE IF r.cnt = 1 THEN [d EXCEPT !.pos = r.pos, !.offs = TableSingle(d.offs, r.single, Pm2Leaf)]
          ELSE [d EXCEPT !.pos = r.pos, !.offs = TableBuild(d.offs, OffsetTreeLen, r.lens, k, Pm2Leaf)]

\* read_bit whose failure is not looked at: [v, pos]; v = 2 stands for C's -1 (only "== 1" is ever tested)
BitOrFail(inp, pos) == LET r == RdBits(inp, pos, 1) IN [v |-> IF r.ok THEN r.v ELSE 2, pos |-> r.pos]

RebuildTree(d) ==
  CASE d.ts = 0 -> [ReadOffsetTree(ReadCodeTree(d), 5) EXCEPT !.ts = 1, !.rem = 1024]
    [] d.ts = 1 -> [ReadOffsetTree(d, 6) EXCEPT !.ts = 2, !.rem = 1024]
    [] d.ts = 2 -> [ReadOffsetTree(d, 7) EXCEPT !.ts = 3, !.rem = 2048]
    [] d.ts = 3 -> LET b == BitOrFail(d.input, d.pos)
                       d1 == [d EXCEPT !.pos = b.pos]
                       d2 == IF b.v = 1 THEN ReadCodeTree(d1) ELSE d1
                   IN [ReadOffsetTree(d2, 8) EXCEPT !.ts = 4, !.rem = 4096]
    [] d.ts = 4 -> LET b == BitOrFail(d.input, d.pos)
                       d1 == [d EXCEPT !.pos = b.pos]
                       d2 == IF b.v = 1 THEN ReadOffsetTree(ReadCodeTree(d1), 8) ELSE d1
                   IN [d2 EXCEPT !.rem = 4096]

(* output_byte for a run of bytes of one command (at most 256, so at most one rebuild falls into
   it): window, move-to-front list, countdown; the rebuild reads from the current bit position
   when the rem-th byte has been output *)
OutBytes(d, out) ==
  LET n == Len(out)
      d1 == [d EXCEPT !.win = WPush(d.win, out, Pm2W), !.hist = MtfAll(d.hist, out)]
  IN IF n < d.rem THEN [d1 EXCEPT !.rem = @ - n]
     ELSE LET d2 == RebuildTree(d1) IN [d2 EXCEPT !.rem = @ - (n - d.rem)]

\* history_get_count: [ok, v, pos]
CopyCountOf(inp, c, pos) ==
  IF c < 15 THEN [ok |-> TRUE, v |-> c + 2, pos |-> pos]
  ELSE IF c - 15 < Len(CopyDecode) THEN VarLen(inp, CopyDecode[c - 15 + 1], pos)
  ELSE [ok |-> FALSE, v |-> 0, pos |-> pos]

\* history_get_offset: [ok, v, pos]
CopyOffsetOf(d, c, pos) ==
  LET inp == d.input IN
  IF c = 0 THEN RdBits(inp, pos, 6)
  ELSE IF c < 20
  THEN LET t == HuffDecode(inp, d.offs, pos, Pm2Leaf) IN
       IF ~t.ok THEN [ok |-> FALSE, v |-> 0, pos |-> t.pos]
       ELSE IF t.v = 0 THEN RdBits(inp, t.pos, 6)
       ELSE LET r == RdBits(inp, t.pos, t.v + 5) IN [ok |-> r.ok, v |-> Pow2T[t.v + 5] + r.v, pos |-> r.pos]
  ELSE [ok |-> TRUE, v |-> 0, pos |-> pos]

Pm2Read(st) ==
  LET d0 == IF st.ts = 0 THEN RebuildTree([st EXCEPT !.pos = BitOrFail(st.input, st.pos).pos]) ELSE st
      inp == d0.input
      c == HuffDecode(inp, d0.code, d0.pos, Pm2Leaf)
  IN IF ~c.ok THEN [st |-> d0, out |-> <<>>]
     ELSE IF c.v < 8
     THEN LET o == VarLen(inp, HistoryDecode[c.v + 1], c.pos) IN
          IF ~o.ok THEN [st |-> [d0 EXCEPT !.pos = o.pos], out |-> <<>>]
          ELSE LET b == d0.hist[o.v + 1]
               IN [st |-> OutBytes([d0 EXCEPT !.pos = o.pos], <<b>>), out |-> <<b>>]
     ELSE LET cc == c.v - 8
              n == CopyCountOf(inp, cc, c.pos)
              o == CopyOffsetOf(d0, cc, n.pos)          \* read even if the count failed
          IN IF ~n.ok \/ ~o.ok THEN [st |-> [d0 EXCEPT !.pos = o.pos], out |-> <<>>]
             ELSE LET out == WCopy(d0.win, o.v % Pm2W, n.v, Pm2W, 0, Spaces)
                  IN [st |-> OutBytes([d0 EXCEPT !.pos = o.pos], out), out |-> out]
=====================================================================================
