------------------------------- MODULE MC_PathCollapse -------------------------------
(* For every string over {'.', '/', 'a'} up to length N: the C state machine yields the declarative
   normal form, the result is clean (C11), never longer than the input, and idempotent. *)
EXTENDS PathCollapse, TLC
CONSTANT N
VARIABLE s
Init == s = <<>>
Next == \E c \in {46, 47, 97} : Len(s) < N /\ s' = Append(s, c)
Spec == Init /\ [][Next]_s
Equiv == CollapseC(s) = Collapse(s)
IsClean == CleanPath(CollapseC(s))
NoLonger == Len(CollapseC(s)) <= Len(s)
Idempotent == Collapse(Collapse(s)) = Collapse(s)
=====================================================================================
