SPECIFICATION TSpec
VIEW TView
POSTCONDITION Accepted
CHECK_DEADLOCK FALSE
