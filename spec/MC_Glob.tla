----------------------------------- MODULE MC_Glob ------------------------------------
EXTENDS Glob, TLC
CONSTANT N
VARIABLES g, s
Init == g = <<>> /\ s = <<>>
Next == \/ \E c \in {97, 98, 42, 63} : Len(g) < N /\ g' = Append(g, c) /\ UNCHANGED s
        \/ \E c \in {97, 98} : Len(s) < N /\ s' = Append(s, c) /\ UNCHANGED g
Spec == Init /\ [][Next]_<<g, s>>
Equiv == Match(g, s) = MatchC(g, s, 1, 1)
========================================================================================
