--------------------------------- MODULE Codec_Lz5 ----------------------------------
(* lib/lz5_decoder.c: LArc -lz5-.  Byte oriented: a flag byte, then eight commands, least
   significant flag bit first:
       flag 1:  one literal byte
       flag 0:  two bytes c0 c1: copy (c1 & 15) + 3 bytes from ring position ((c1 & 0xf0) << 4) | c0
   4 KiB ring with LArc's initial contents, write position starts at 4096 - 18.
   One read() call = one flag byte and its (up to) eight commands.

   State [input, ipos, win]: ipos = bytes consumed from the callback.

   The initial window by region (fill_initial):
       0    .. 3327   byte value i repeated 13 times, i = 0..255
       3328 .. 3583   0, 1, .. 255
       3584 .. 3839   255, 254, .. 0
       3840 .. 3967   128 zeros
       3968 .. 4077   110 spaces
       4078 .. 4095   18 zeros

   End of input.  No flag byte: return 0.  A command that finds no input ends the run (break);
   what was decoded so far is returned (possibly nothing -> 0).

   UNDETERMINED.  A copy command with exactly ONE byte left: callback(cmd, 2) returns 1, the C
   code tests only for zero and goes on to use cmd[1], which was never written (stack garbage).
   The bytes produced then depend on uninitialised memory: Lz5Read reports undetermined |-> TRUE
   (out = what is determined: the bytes of the commands before it). *)
EXTENDS Naturals, Sequences, SequencesExt, Codec_Bits, Codec_Window

Lz5W == 4096
Lz5Start == Lz5W - 18
Lz5Threshold == 3

Lz5InitAt(i) ==
  IF i < 3328 THEN i \div 13
  ELSE IF i < 3584 THEN i - 3328
  ELSE IF i < 3840 THEN 255 - (i - 3584)
  ELSE IF i < 3968 THEN 0
  ELSE IF i < 4078 THEN 32
  ELSE 0

Lz5Init(input) == [input |-> input, ipos |-> 0, win |-> EmptyWin]

(* one command; a = [ipos, win, out, stop, undet] *)
Lz5Cmd(inp, bitmap, a, bit) ==
    IF a.stop THEN a
    ELSE LET left == Len(inp) - a.ipos IN
         IF (bitmap \div Pow2T[bit]) % 2 = 1
         THEN IF left = 0 THEN [a EXCEPT !.stop = TRUE]
              ELSE LET b == inp[a.ipos + 1] IN
                   [a EXCEPT !.ipos = @ + 1, !.win = WPush(a.win, <<b>>, Lz5W), !.out = Append(@, b)]
         ELSE IF left = 0 THEN [a EXCEPT !.stop = TRUE]
              ELSE IF left = 1 THEN [a EXCEPT !.ipos = @ + 1, !.stop = TRUE, !.undet = TRUE]
              ELSE LET c0 == inp[a.ipos + 1]
                       c1 == inp[a.ipos + 2]
                       p == (c1 \div 16) * 256 + c0
                       o == RingCopy(a.win, p, (c1 % 16) + Lz5Threshold, Lz5W, Lz5Start, Lz5InitAt)
                   IN [a EXCEPT !.ipos = @ + 2, !.win = WPush(a.win, o, Lz5W), !.out = @ \o o]

Lz5Read(st) ==
  IF st.ipos >= Len(st.input) THEN [st |-> st, out |-> <<>>]
  ELSE LET bitmap == st.input[st.ipos + 1]
           r == FoldLeft(LAMBDA a, k : Lz5Cmd(st.input, bitmap, a, k),
                         [ipos |-> st.ipos + 1, win |-> st.win, out |-> <<>>, stop |-> FALSE, undet |-> FALSE],
                         [k \in 1..8 |-> k - 1])
           st2 == [st EXCEPT !.ipos = r.ipos, !.win = r.win]
       IN IF r.undet THEN [st |-> st2, out |-> r.out, undetermined |-> TRUE]
          ELSE [st |-> st2, out |-> r.out]
=====================================================================================
