--------------------------------- MODULE Codec_Bits ---------------------------------
(* The MSB-first bit stream of lib/bit_stream_reader.c, as pure functions of the compressed
   byte sequence `inp` (a sequence of 0..255) and a bit position `pos` (number of bits already
   consumed).  Shared by every Codec_* module; no variables.

   NAMED DEVIATION BitCache.  The C reader keeps a 32-bit cache (bit_buffer, bits) that it refills
   with (32 - bits) / 8 bytes whenever fewer than n bits are cached.  The cache never changes
   WHICH bits are delivered; it only decides when a request fails:
     peek_bits(n) refills greedily while bits < n; because pos + bits is always a multiple of 8,
     the largest value bits can reach is min(32 - pos mod 8, 8*|inp| - pos).  Hence
        read_bits(n) succeeds  <=>  n <= 8*|inp| - pos   (enough input)
                                /\  n <= 32 - pos mod 8  (the request fits the cache)
   The second conjunct only matters for n > 25 (offsets of 26..30 bits in -lh6-/-lh7-/-lhx-
   streams that use offset codes > 26, which no encoder emits): there the C code asks the
   callback for 0 bytes, gets 0 and reports end of input although input is left.  The model
   reproduces that (BitsOk); the cache itself is not part of the model state. *)
EXTENDS Naturals, Sequences, SequencesExt

Pow2T == [i \in 0..30 |-> 2^i]
Min2c(a, b) == IF a < b THEN a ELSE b
Max2c(a, b) == IF a > b THEN a ELSE b

\* index sequences for bounded folds (constant: evaluated once)
Idx32  == [k \in 1..32 |-> k]
Idx256 == [k \in 1..256 |-> k]
IdxTo(n) == [k \in 1..n |-> k]

NBitsOf(inp) == 8 * Len(inp)

\* byte i (0-based) of the input, 0 beyond its end
ByteAt(inp, i) == IF i < Len(inp) THEN inp[i + 1] ELSE 0

\* bit i (0-based, most significant bit of byte 0 first), 0 beyond the end
BitAt(inp, i) == (ByteAt(inp, i \div 8) \div Pow2T[7 - (i % 8)]) % 2

\* the n bits starting at bit position pos as a number, zero-extended beyond the end; n <= 30
Bits16(inp, pos, n) ==        \* n <= 16
  LET b == pos \div 8
      o == pos % 8
      t == ByteAt(inp, b) * 65536 + ByteAt(inp, b + 1) * 256 + ByteAt(inp, b + 2)
  IN (t \div Pow2T[24 - o - n]) % Pow2T[n]
BitsAt(inp, pos, n) ==
  IF n = 0 THEN 0
  ELSE IF n <= 16 THEN Bits16(inp, pos, n)
  ELSE Bits16(inp, pos, n - 16) * 65536 + Bits16(inp, pos + n - 16, 16)

\* read_bits(n) >= 0 ?   (see BitCache above)
BitsOk(inp, pos, n) == n <= NBitsOf(inp) - pos /\ n <= 32 - (pos % 8)

(* read_bits: [ok, v, pos].  On failure nothing is consumed (the C code leaves the cache filled,
   which the model does not see). *)
RdBits(inp, pos, n) ==
  IF BitsOk(inp, pos, n) THEN [ok |-> TRUE, v |-> BitsAt(inp, pos, n), pos |-> pos + n]
  ELSE [ok |-> FALSE, v |-> 0, pos |-> pos]

(* Number of consecutive 1 bits starting at pos, not looking beyond the end of the input.
   Fast path: the run ends within the next 16 bits.  Slow path (crafted input only): a bounded
   fold over the remaining bytes. *)
LeadOnes16(v) ==     \* leading ones of a 16-bit value
  LET f(a, k) == IF a[2] THEN a ELSE IF (v \div Pow2T[16 - k]) % 2 = 1 THEN <<a[1] + 1, FALSE>> ELSE <<a[1], TRUE>>
  IN FoldLeft(f, <<0, FALSE>>, [k \in 1..16 |-> k])[1]
OnesRun(inp, pos) ==
  LET avail == NBitsOf(inp) - pos
      v == BitsAt(inp, pos, 16)
  IN IF v # 65535
     THEN Min2c(LeadOnes16(v), avail)
     ELSE LET f(a, k) == IF a[2] THEN a
                         ELSE LET w == BitsAt(inp, pos + 16 * k, 16)
                              IN IF w = 65535 /\ 16 * (k + 1) < avail THEN <<a[1] + 16, FALSE>>
                                 ELSE <<a[1] + LeadOnes16(w), TRUE>>
              r == FoldLeft(f, <<16, FALSE>>, IdxTo((avail \div 16) + 1))
          IN Min2c(r[1], avail)
=====================================================================================
