--------------------------------- MODULE Trace_Header --------------------------------
(* Trace validation of header parsing (header_drv.c) against Header.tla.  One line per case:
   the bytes of the input from the start of the header, and what lha_reader_next_file returned.
     C12:  Parse(in) rejects  =>  nothing was returned, and nothing after it either
     C05:  Parse(in) accepts  =>  a header was returned and every field equals the definition's
     C11:  whatever was returned has a clean path and file name
   MODE selects which of these are part of acceptance (all by default). *)
EXTENDS Header, TLC, Json, IOUtils
CONSTANT MODE      \* subset of {"C05", "C11", "C12"}
Trc == ndJsonDeserialize(IOEnv.TRACE)
VARIABLES l, st      \* st: [ok, rej] = how many cases the definition accepted / rejected (evidence)
Ev == Trc[l]
Chk(what, cond) == IF cond THEN TRUE ELSE PrintT(<<"MISMATCH", what, "line", l>>) /\ FALSE

TInit == l = 1 /\ st = [ok |-> 0, rej |-> 0, lv |-> <<0, 0, 0, 0>>]
Fields(p) ==
  /\ Chk("level", p.level = Ev.level) /\ Chk("method", p.method = Ev.method) /\ Chk("os", p.os = Ev.os) /\ Chk("crc", p.crc = Ev.crc)
  /\ Chk("packed", p.packed = Ev.packed) /\ Chk("length", p.length = Ev.length) /\ Chk("time", p.time = Ev.time)
  /\ Chk("path", p.path = Ev.path) /\ Chk("filename", p.filename = Ev.filename) /\ Chk("target", p.target = Ev.target)
  /\ Chk("user", p.user = Ev.user) /\ Chk("group", p.group = Ev.group)
  /\ Chk("flags", <<p.hasperms, p.hasids, p.hasccrc, p.haswin, p.hasos9>> = <<Ev.hasperms, Ev.hasids, Ev.hasccrc, Ev.haswin, Ev.hasos9>>)
  /\ Chk("perms", p.perms = Ev.perms) /\ Chk("uid/gid", p.uid = Ev.uid /\ p.gid = Ev.gid)
  /\ Chk("os9", p.os9 = Ev.os9) /\ Chk("ccrc", p.ccrc = Ev.ccrc)
  /\ Chk("win", p.win = Ev.win) /\ Chk("rawlen", Len(p.raw) = Ev.rawlen)

THdr == /\ l <= Len(Trc) /\ Ev.e = "Hdr" /\ l' = l + 1
        /\ LET p == Parse(Ev.in) IN
           /\ st' = IF p.ok THEN [st EXCEPT !.ok = @ + 1, !.lv[p.level + 1] = @ + 1] ELSE [st EXCEPT !.rej = @ + 1]
           /\ ("C12" \in MODE) => Chk("C12: returned although the integrity rule fails", ~p.ok => (~Ev.ok /\ ~Ev.more))
           /\ ("C05" \in MODE) => Chk("C05: well-formed header not returned", p.ok => Ev.ok)
           /\ ("C05" \in MODE /\ p.ok /\ Ev.ok) => Fields(p)
           /\ ("C11" \in MODE /\ Ev.ok) => Chk("C11: path or name not clean", Clean(Ev.path, Ev.filename))
TSpec == TInit /\ [][THdr]_<<l, st>>
TView == l
\* prints the tallies once, in the last state
Stats == (l = Len(Trc) + 1) => PrintT(<<"STATS", st.ok, st.rej, st.lv>>)
Accepted == LET dd == TLCGet("stats").diameter - 1
            IN IF dd = Len(Trc) THEN TRUE ELSE PrintT(<<"REJECTED_AT_LINE", dd + 1>>) /\ FALSE
=====================================================================================
