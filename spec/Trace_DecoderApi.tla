------------------------------ MODULE Trace_DecoderApi ------------------------------
(* Trace validation of the decoder front end.  One line per public call of lha_decoder_*; a Read
   line carries what the call was asked (k), what it returned (n, bytes), the chunks the inner
   algorithm produced during the call (seen by a wrapper LHADecoderType, with their bytes) and
   the progress callbacks made during the call.  The spec recomputes the call with DecoderApi's
   atomic grain and requires every observation to be the model's.

   Executions are grouped by input: Reset{input, ref}.  The first execution of an input is one
   maximal read (ref = TRUE); its bytes become refs[input], and every other execution of the same
   input must hand out, at every Read, exactly the corresponding slice of refs[input] - i.e.
   the concatenation is the same for every way of splitting the reads. *)
EXTENDS DecoderApi, TLC, Json, IOUtils
Trc == ndJsonDeserialize(IOEnv.TRACE)
VARIABLES l, refs, cur, isRef, acc
tvars == <<d, script, call, g, l, refs, cur, isRef, acc>>
Ev == Trc[l]
IsEvent(e) == l <= Len(Trc) /\ Ev.e = e /\ l' = l + 1

TInit == /\ DInit(0, 1, 1, <<>>) /\ l = 1 /\ refs = <<>> /\ cur = 0 /\ isRef = FALSE /\ acc = <<>>

\* inputs are numbered 1, 2, 3 ... by the driver; refs is a sequence indexed by input number
TReset == /\ IsEvent("Reset")
          /\ refs' = IF isRef THEN Append(refs, acc) ELSE refs
          /\ cur' = Ev.input /\ isRef' = Ev.ref /\ acc' = <<>>
          /\ (Ev.ref => Ev.input = Len(refs') + 1)
          /\ (~Ev.ref => Ev.input <= Len(refs'))
          /\ UNCHANGED <<d, script, call, g>>

TNew == /\ IsEvent("New")
        /\ d' = NewDecoder(Ev.declared, Ev.block, Ev.maxread) /\ script' = <<>> /\ g' = NewGhost
        /\ UNCHANGED <<call, refs, cur, isRef, acc>>

TRead == /\ IsEvent("Read")
         /\ LET f == AtomicResult(Ev.inner, Ev.k)
            IN /\ f.ret = Ev.n                              \* same return value
               /\ f.out = Ev.bytes                          \* same bytes, in order, none lost or repeated
               /\ f.newcbs = Ev.cbs                         \* same progress callbacks
               /\ f.sc = <<>>                               \* every logged inner call was needed ...
               /\ f.gg.innerCalls - g.innerCalls = Len(Ev.inner)   \* ... and no further one
               /\ \A i \in 1..Len(Ev.inner) : Len(Ev.inner[i]) <= d.maxread
               /\ Ev.n <= Ev.k
               /\ IF isRef THEN TRUE ELSE Ev.bytes = SubSeq(refs[cur], d.spos + 1, d.spos + Ev.n)
         /\ ReadAtomic(Ev.inner, Ev.k)
         /\ acc' = IF isRef THEN acc \o Ev.bytes ELSE acc
         /\ UNCHANGED <<refs, cur, isRef>>

TMonitor == /\ IsEvent("Monitor")
            /\ Monitor
            /\ Ev.cbs = Progress(d.lastBlock, d.spos).cbs
            /\ Ev.total = CeilDiv(d.slen, d.block)
            /\ UNCHANGED <<refs, cur, isRef, acc>>

TLen == IsEvent("Len") /\ Ev.v = GetLength /\ UNCHANGED <<d, script, call, g, refs, cur, isRef, acc>>
TCrc == IsEvent("Crc") /\ Ev.v = GetCrc /\ UNCHANGED <<d, script, call, g, refs, cur, isRef, acc>>
\* End{complete}: the driver states that the last read asked for at least everything that was left
TEnd == /\ IsEvent("End")
        /\ IF Ev.complete /\ ~isRef THEN d.spos = Len(refs[cur]) ELSE TRUE
        /\ UNCHANGED <<d, script, call, g, refs, cur, isRef, acc>>

TNext == TReset \/ TNew \/ TRead \/ TMonitor \/ TLen \/ TCrc \/ TEnd
\* reference outputs are determined by the consumed prefix of the trace: keep them out of the fingerprint
TView == <<d, script, call, g, l, cur, isRef>>
TSpec == TInit /\ [][TNext]_tvars
Accepted == LET dd == TLCGet("stats").diameter - 1
            IN IF dd = Len(Trc) THEN TRUE ELSE PrintT(<<"REJECTED_AT_LINE", dd + 1>>) /\ FALSE
=====================================================================================
