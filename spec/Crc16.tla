---------------------------------- MODULE Crc16 ----------------------------------
(* CRC-16/ARC as lhasa uses it (lib/crc16.c): reflected polynomial 0xA001, initial value 0,
   no final inversion.  BitStep/Step is the bitwise *definition*; Tab/TStep is the byte-table
   form the C code implements.  The feeding discipline (a register updated piece by piece) is module Crc16Feed. *)
EXTENDS Naturals, Sequences, Bitwise, SequencesExt

POLY == 40961                        \* 0xA001

BitStep(c) == IF c % 2 = 1 THEN (c \div 2) ^^ POLY ELSE c \div 2

\* one input byte, bit by bit
Step(c, b) == LET x == c ^^ b
              IN BitStep(BitStep(BitStep(BitStep(BitStep(BitStep(BitStep(BitStep(x))))))))

\* the 256-entry table is *derived* from the definition, never copied from the C source
Tab == [i \in 0..255 |-> Step(0, i)]

TStepWith(tab, c, b) == (c \div 256) ^^ tab[(c ^^ b) % 256]
TStep(c, b) == TStepWith(Tab, c, b)

CrcFrom(c, bytes) == FoldLeft(Step, c, bytes)
Crc(bytes) == CrcFrom(0, bytes)

\* fast form for long buffers in trace validation (justified by StepEqTStep, checked exhaustively)
CrcFromT(tab, c, bytes) == FoldLeft(LAMBDA a, b : TStepWith(tab, a, b), c, bytes)

====================================================================================
