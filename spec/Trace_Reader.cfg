SPECIFICATION TSpec
CONSTANTS
  FIXED = TRUE
  CHECK_LEAKS = FALSE
INVARIANTS RefsAreOwners HeadersAtBoundaries NormalIsBasic DeferredOrdered DeferOnlyAtEnd DecoderOnlyForNormal
PROPERTIES EofStickyT
POSTCONDITION Accepted
CHECK_DEADLOCK FALSE
