SPECIFICATION TSpec
CONSTANTS
  FIXED = FALSE
  CHECK_LEAKS = FALSE
INVARIANTS HeadersAtBoundaries NormalIsBasic DeferredOrdered DeferOnlyAtEnd DecoderOnlyForNormal
PROPERTIES EofStickyT
POSTCONDITION Accepted
CHECK_DEADLOCK FALSE
