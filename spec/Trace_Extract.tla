--------------------------------- MODULE Trace_Extract --------------------------------
(* C10 / C06: every file-system call the command line tool makes (observed with strace, converted
   syntactically) is replayed on FsModel.  For each call the model's outcome must be the kernel's
   (this binds FsModel to the real file system), and after each call - i.e. for every prefix of the
   operation sequence - the confinement invariants are evaluated on the model state:
     Confined               every mutating call acts on a location inside the extraction directory
     NoEarlyDanger          once a symbolic link with an absolute or '..' target exists, only
                            unlink/symlink calls (the remaining deferred links) follow
     PlaceholderNotFollowed files are created with O_CREAT|O_EXCL only (an existing link at the final
                            component is never followed)
     ReadOnly               list/test/print/dry-run commands make no mutating call at all
   Reset{cwd, root, pre, mode, expect}: the process's working directory, the extraction directory,
   the pre-existing tree, the command class ("extract" | "readonly") and the expected final tree.
   An escape that matches the signature of the recorded known finding (a call that leaves the
   extraction directory by resolving through a symbolic link, made after the first dangerous link
   was created, i.e. in the deferred-symlink phase) is reported as ESCAPE-KNOWN and accepted; any
   other escape rejects the trace. *)
EXTENDS FsModel, TLC, Json, IOUtils
TM == INSTANCE TreeModel
Trc == ndJsonDeserialize(IOEnv.TRACE)
VARIABLES l, fs, cwd, root, fds, danger, mode, known
tvars == <<l, fs, cwd, root, fds, danger, mode, known>>
Ev == Trc[l]
IsEvent(e) == l <= Len(Trc) /\ Ev.e = e /\ l' = l + 1
Chk(what, cond) == IF cond THEN TRUE ELSE PrintT(<<"MISMATCH", what, "line", l>>) /\ FALSE

TInit == l = 1 /\ fs = << >> /\ cwd = <<>> /\ root = <<>> /\ fds = << >> /\ danger = FALSE /\ mode = "extract" /\ known = 0

Ancestors(loc) == {SubSeq(loc, 1, k) : k \in 1..Len(loc)}
TReset == /\ IsEvent("Reset")
          /\ cwd' = Ev.cwd /\ root' = Ev.root /\ mode' = Ev.mode /\ danger' = FALSE /\ fds' = << >> /\ known' = 0
          /\ LET pre  == {Ev.pre[i].loc : i \in 1..Len(Ev.pre)}
                 anc  == Ancestors(Ev.cwd) \cup UNION {Ancestors(q) : q \in pre}
                 Pre(loc) == LET i == CHOOSE i \in 1..Len(Ev.pre) : Ev.pre[i].loc = loc IN
                             IF Ev.pre[i].ty = "dir" THEN DirNode(Ev.pre[i].mode)
                             ELSE IF Ev.pre[i].ty = "link" THEN LinkNode(Ev.pre[i].t.c, Ev.pre[i].t.abs)
                             ELSE FileNode(Ev.pre[i].mode)
             IN fs' = [loc \in anc |-> IF loc \in pre THEN Pre(loc) ELSE DirNode(493)]

\* the process's umask (022) applies to mkdir and open(O_CREAT)
Masked(m) == m - ((m \div 16) % 2) * 16 - ((m \div 2) % 2) * 2
Dangerous(t) == t.abs \/ \E i \in 1..Len(t.c) : t.c[i] = ".."
Inside(loc) == Below(root, loc)
\* did resolving this path pass through a symbolic link?  (it did iff resolving it differs from
\* resolving it textually)
Textual(p) == LET step(a, c) == IF c = "." THEN a ELSE IF c = ".." THEN Parent(a) ELSE Append(a, c)
              IN FoldLeft(step, IF p.abs THEN <<>> ELSE cwd, p.c)

\* a mutating call on location loc: confinement, with the known-finding escape hatch
\* (creating the extraction directory given with w= and its missing parents is setting the stage,
\*  not an escape)
SetsUpRoot(loc) == Ev.call = "mkdir" /\ Len(loc) <= Len(root) /\ SubSeq(root, 1, Len(loc)) = loc /\ Below(cwd, loc)
ConfinedOrKnown(loc, p) ==
  IF Inside(loc) \/ SetsUpRoot(loc) THEN known' = known
  ELSE IF danger /\ Textual(p) # loc /\ Inside(Textual(p))
       THEN PrintT(<<"ESCAPE-KNOWN", "line", l, Ev.call>>) /\ known' = known + 1
       ELSE Chk("C10 Confined: mutating call outside the extraction directory", FALSE) /\ known' = known

MutatingAllowed == /\ Chk("C10 ReadOnly: mutating call made by a read-only command", mode = "extract")
                   /\ Chk("C10 NoEarlyDanger: non-link operation after a dangerous symbolic link was created",
                          danger => Ev.call \in {"unlink", "symlink"})

TSys ==
  /\ IsEvent("Sys")
  /\ LET c == Ev.call IN
     CASE c = "stat" ->
            LET o == Stat(fs, cwd, Ev.p, Ev.follow) IN
            /\ Chk("stat outcome", o.res = Ev.res) /\ Chk("stat type", Ev.res = "ok" => o.ty = Ev.ty)
            /\ UNCHANGED <<fs, fds, danger, known>>
       [] c = "openr" -> UNCHANGED <<fs, fds, danger, known>>
       [] c = "mkdir" ->
            LET o == Mkdir(fs, cwd, Ev.p, Masked(Ev.mode)) IN
            /\ MutatingAllowed /\ Chk("mkdir outcome", o.res = Ev.res)
            /\ fs' = o.f /\ (IF o.res = "ok" THEN ConfinedOrKnown(o.loc, Ev.p) ELSE known' = known)
            /\ UNCHANGED <<fds, danger>>
       [] c = "unlink" ->
            LET o == Unlink(fs, cwd, Ev.p) IN
            /\ MutatingAllowed /\ Chk("unlink outcome", o.res = Ev.res)
            /\ fs' = o.f /\ (IF o.res = "ok" THEN ConfinedOrKnown(o.loc, Ev.p) ELSE known' = known)
            /\ UNCHANGED <<fds, danger>>
       [] c = "creat" ->
            LET o == OpenExcl(fs, cwd, Ev.p, Masked(Ev.mode)) IN
            /\ MutatingAllowed
            /\ Chk("C10 PlaceholderNotFollowed: file opened for writing without O_CREAT|O_EXCL", Ev.excl /\ Ev.creatflag)
            /\ Chk("open outcome", o.res = Ev.res)
            /\ fs' = o.f /\ (IF o.res = "ok" THEN ConfinedOrKnown(o.loc, Ev.p) ELSE known' = known)
            /\ fds' = IF o.res = "ok" THEN [x \in DOMAIN fds \cup {Ev.fd} |-> IF x = Ev.fd THEN o.loc ELSE fds[x]] ELSE fds
            /\ UNCHANGED danger
       [] c = "symlink" ->
            LET o == Symlink(fs, cwd, Ev.p, Ev.t.c, Ev.t.abs) IN
            /\ MutatingAllowed /\ Chk("symlink outcome", o.res = Ev.res)
            /\ fs' = o.f /\ (IF o.res = "ok" THEN ConfinedOrKnown(o.loc, Ev.p) ELSE known' = known)
            /\ danger' = (danger \/ (o.res = "ok" /\ Dangerous(Ev.t)))
            /\ UNCHANGED fds
       [] c = "chmod" ->
            LET o == Chmod(fs, cwd, Ev.p, Ev.mode) IN
            /\ MutatingAllowed /\ Chk("chmod outcome", o.res = Ev.res)
            /\ fs' = o.f /\ (IF o.res = "ok" THEN ConfinedOrKnown(o.loc, Ev.p) ELSE known' = known)
            /\ UNCHANGED <<fds, danger>>
       [] c \in {"utime", "chown"} ->
            LET o == Touch(fs, cwd, Ev.p) IN
            /\ MutatingAllowed
            /\ Chk("utime/chown outcome", (c = "chown" /\ Ev.res = "EPERM") \/ o.res = Ev.res)
            /\ (IF o.res = "ok" THEN ConfinedOrKnown(o.loc, Ev.p) ELSE known' = known)
            /\ UNCHANGED <<fs, fds, danger>>
       [] c \in {"fchmod", "fchown", "write"} ->
            /\ MutatingAllowed
            /\ Chk("descriptor was opened by this run", Ev.fd \in DOMAIN fds)
            /\ Chk("C10 Confined: descriptor refers outside the extraction directory", Inside(fds[Ev.fd]) \/ danger)
            /\ fs' = IF c = "fchmod" /\ Ev.res = "ok" THEN Put(fs, fds[Ev.fd], [Node(fs, fds[Ev.fd]) EXCEPT !.mode = Ev.mode % 4096]) ELSE fs
            /\ UNCHANGED <<fds, danger, known>>
       [] OTHER -> Chk("C10: unexpected file-system call " \o c, FALSE) /\ UNCHANGED <<fs, fds, danger, known>>
  /\ UNCHANGED <<cwd, root, mode>>

\* the tree found in the extraction directory afterwards (C06): every entry is in the model with
\* the same type / mode / link target, and equals what the generator expects
NodeOK(x) == LET nd == Node(fs, x.loc) IN
   /\ nd.ty = x.ty
   /\ (x.ty = "link" => (nd.t = x.t.c /\ nd.tabs = x.t.abs))
   /\ (x.ty \in {"file", "dir"} => nd.mode = x.mode)
TFinal == /\ IsEvent("FinalTree")
          /\ Chk("final tree = model tree", \A i \in 1..Len(Ev.tree) : NodeOK(Ev.tree[i]))
          /\ Chk("model tree = final tree", \A loc \in DOMAIN fs : (Inside(loc) /\ loc # root /\ fs[loc].ty # "none") => \E i \in 1..Len(Ev.tree) : Ev.tree[i].loc = loc)
          /\ UNCHANGED <<fs, cwd, root, fds, danger, mode, known>>
\* what the generator expects to find (C06): Expect{items: [loc, ty, size, crc, mtime (or -1), mode (or -1), t]}
\* (ty = "unsafe": a link with an absolute or '..' target - outside the guarantee: the link or its placeholder)
ExpOK(x, tree) == \E i \in 1..Len(tree) :
   /\ tree[i].loc = x.loc /\ (IF x.ty = "unsafe" THEN tree[i].ty \in {"file", "link"} ELSE tree[i].ty = x.ty)
   /\ (x.ty = "file" => (tree[i].size = x.size /\ tree[i].crc = x.crc))
   /\ (x.mtime # <<-1>> => tree[i].mtime = x.mtime)
   /\ (x.mode # -1 => tree[i].mode = x.mode)
   /\ (x.ty = "link" => tree[i].traw = x.traw)
TExpect == /\ IsEvent("Expect")
           /\ Chk("C06: expected entry missing or different", \A i \in 1..Len(Ev.items) : ExpOK(Ev.items[i], Ev.tree))
           /\ Chk("C06: unexpected entry", Len(Ev.tree) = Len(Ev.items))
           /\ UNCHANGED <<fs, cwd, root, fds, danger, mode, known>>
\* ExpectModel{items, opts, filters, pre, answers, tree}: the final tree must be TreeModel!ModelTree (C06 with
\* wildcards, pre-existing files, overwrite policy and prompt answers)
TExpectModel ==
  /\ IsEvent("ExpectModel")
  /\ LET want == TM!ModelTree(cwd, Ev.items, Ev.opts, Ev.filters, Ev.pre, Ev.answers).tree
         got  == Ev.tree
     IN /\ Chk("exit status 255 iff the input ended at the overwrite prompt",
               ("code" \in DOMAIN Ev) => ((Ev.code = 255) = (TM!ModelTree(cwd, Ev.items, Ev.opts, Ev.filters, Ev.pre, Ev.answers).policy = "eof")))
        /\ Chk("C06: entry missing from the extracted tree", \A loc \in DOMAIN want : \E i \in 1..Len(got) : got[i].loc = loc)
        /\ Chk("C06: unexpected entry in the extracted tree", \A i \in 1..Len(got) : got[i].loc \in DOMAIN want)
        /\ Chk("C06: entry differs from the model tree", \A i \in 1..Len(got) : got[i].loc \in DOMAIN want => TM!NodeMatches(want[got[i].loc], got[i]))
  /\ UNCHANGED <<fs, cwd, root, fds, danger, mode, known>>
\* End{predict}: for archives generated by the bounded model (MC_Extract) the model's own prediction of
\* whether the extraction escapes must agree with what the real tool did
TEnd == /\ IsEvent("End")
        /\ Chk("model prediction of the known escape = behaviour of the tool", Ev.predict = "none" \/ ((known > 0) = (Ev.predict = "escape")))
        /\ UNCHANGED <<fs, cwd, root, fds, danger, mode, known>>
TOther == /\ l <= Len(Trc) /\ Ev.e \in {"Exit"} /\ l' = l + 1 /\ UNCHANGED <<fs, cwd, root, fds, danger, mode, known>>

TStep == TReset \/ TSys \/ TFinal \/ TExpect \/ TExpectModel \/ TEnd \/ TOther
TSpec == TInit /\ [][TStep]_tvars
Accepted == LET dd == TLCGet("stats").diameter - 1
            IN IF dd = Len(Trc) THEN TRUE ELSE PrintT(<<"REJECTED_AT_LINE", dd + 1>>) /\ FALSE
=====================================================================================
