---------------------------------- MODULE MC_Extract ----------------------------------
(* All archives of at most N entries over an alphabet of files, directories and symbolic links at
   paths {s, r, dddd, s/x, r/x} with targets {., r, dddd, /O, ../O}: after every call of every
   extraction, nothing outside the extraction directory R has been created, removed or replaced.
   The sibling directory O (with a file O/x) is the canary.
   ConfinedBeforeDeferred is the property with the recorded known finding masked: the deferred
   symbolic links, created longest path first, can be created *through* one another once a safe
   link has been re-pointed at a deferred one (KnownEscape shows that TLC finds exactly this). *)
EXTENDS Extract, TLC, Json
CONSTANT N

R == <<"R">>
O == <<"O">>
Names == {"s", "r", "dddd", "x"}
NameLen(n) == IF n = "dddd" THEN 4 ELSE 1
Paths == {<<"s">>, <<"r">>, <<"dddd">>, <<"s", "x">>, <<"r", "x">>}
PLen(p) == IF Len(p) = 1 THEN NameLen(p[1]) ELSE NameLen(p[1]) + 1 + NameLen(p[2])
T(c, a) == [c |-> c, abs |-> a, trail |-> FALSE]
Targets == {T(<<".">>, FALSE), T(<<"r">>, FALSE), T(<<"dddd">>, FALSE), T(<<"O">>, TRUE), T(<<"..", "O">>, FALSE)}
Entries == [k : {"dir", "file"}, p : Paths, t : {T(<<>>, FALSE)}] \cup [k : {"link"}, p : Paths, t : Targets]
WithLen(e) == [k |-> e.k, p |-> e.p, t |-> e.t, plen |-> PLen(e.p)]

VARIABLES fs, deferred, n, escaped, phase, hist      \* hist: the archive so far (generator output; hidden by VIEW)
vars == <<fs, deferred, n, escaped, phase, hist>>
MCView == <<fs, deferred, n, escaped, phase>>

Init == /\ fs = (R :> DirNode(493)) @@ (O :> DirNode(493)) @@ (<<"O", "x">> :> FileNode(420))
        /\ deferred = <<>> /\ n = 0 /\ escaped = FALSE /\ phase = "entries" /\ hist = <<>>
Entry == /\ phase = "entries" /\ n < N
         /\ \E e \in Entries : LET r == DoEntry(fs, R, R, deferred, WithLen(e)) IN
                                 fs' = r.f /\ deferred' = r.deferred /\ escaped' = (escaped \/ r.esc) /\ hist' = Append(hist, e)
         /\ n' = n + 1 /\ UNCHANGED phase
EndArchive == /\ phase = "entries" /\ phase' = "deferred" /\ UNCHANGED <<fs, deferred, n, escaped, hist>>
Deferred == /\ phase = "deferred" /\ Len(deferred) > 0
            /\ LET r == DoDeferred(fs, R, R, Head(deferred)) IN fs' = r.f /\ escaped' = (escaped \/ r.esc)
            /\ deferred' = Tail(deferred) /\ UNCHANGED <<n, phase, hist>>
Next == Entry \/ EndArchive \/ Deferred
Spec == Init /\ [][Next]_vars

\* generator: every simulated archive is printed when its extraction is complete
Emit == (phase = "deferred" /\ deferred = <<>>) => PrintT(<<"ARCHIVE", ToJson(hist), escaped>>)
Confined == ~escaped
ConfinedBeforeDeferred == (phase = "entries") => ~escaped
CanaryIntact == (phase = "entries") => (Node(fs, <<"O", "x">>).ty = "file" /\ \A loc \in DOMAIN fs : (Len(loc) > 0 /\ loc[1] = "O") => loc \in {O, <<"O", "x">>})
DeferredOrdered == \A i \in 1..(Len(deferred) - 1) : deferred[i].plen >= deferred[i + 1].plen
\* no dangerous link exists while archive entries are still being written
NoEarlyDanger == (phase = "entries") => \A loc \in DOMAIN fs : (fs[loc].ty = "link" /\ Below(R, loc)) => ~DangerousTarget([c |-> fs[loc].t, abs |-> fs[loc].tabs])
=======================================================================================
