SPECIFICATION Spec
CONSTANTS
  FIXED = FALSE
  MAXN = 3
  FAULTS = 0
INVARIANTS NormalInOrder RefsAreOwners NothingLiveAfterFree HeadersAtBoundaries NormalIsBasic DeferredOrdered DeferOnlyAtEnd DecoderOnlyForNormal FakeWasExtracted DeferWasExtracted FakeAtRightPlace FakeOnlyAtEndUnderEOF NeverFakeUnderPlain EofMeansAllDone
PROPERTIES EofSticky
VIEW MCView
CHECK_DEADLOCK FALSE
