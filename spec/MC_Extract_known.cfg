SPECIFICATION Spec
CONSTANT N = 4
INVARIANTS Confined
VIEW MCView
CHECK_DEADLOCK FALSE
