----------------------------------- MODULE FsModel -----------------------------------
(* A POSIX file-system tree with symbolic links, as far as the extraction code of lhasa can
   observe it (lib/lha_arch_unix.c, src/extract.c): path resolution with '.', '..', symbolic links
   (relative and absolute, bounded depth), and the calls stat, lstat, mkdir, unlink, open(O_CREAT
   [|O_EXCL]), symlink, chmod, chown, utime with their outcome classes.

   A file system is a function from locations to nodes.  A location is the sequence of names from
   the root: <<>> is "/", <<"tmp", "x">> is "/tmp/x".  Absent locations are "none".
   A path is a record [c |-> components, abs |-> starts with '/', trail |-> ends with '/'].
   The calling process is an unprivileged owner of everything below its scratch area, so only the
   owner permission bits matter: creating or removing an entry needs w+x on the parent directory,
   walking through a directory needs x. *)
EXTENDS Naturals, Sequences, SequencesExt, FiniteSets

NoNode == [ty |-> "none", t |-> <<>>, tabs |-> FALSE, mode |-> 0]
DirNode(m)  == [ty |-> "dir",  t |-> <<>>, tabs |-> FALSE, mode |-> m]
FileNode(m) == [ty |-> "file", t |-> <<>>, tabs |-> FALSE, mode |-> m]
LinkNode(t, a) == [ty |-> "link", t |-> t, tabs |-> a, mode |-> 511]

Parent(loc) == IF Len(loc) = 0 THEN loc ELSE SubSeq(loc, 1, Len(loc) - 1)
Node(f, loc) == IF Len(loc) = 0 THEN DirNode(493) ELSE IF loc \in DOMAIN f THEN f[loc] ELSE NoNode
Put(f, loc, nd) == [x \in DOMAIN f \cup {loc} |-> IF x = loc THEN nd ELSE f[x]]

OwnerX(nd) == (nd.mode \div 64) % 2 = 1
OwnerW(nd) == (nd.mode \div 128) % 2 = 1

(* resolve `comps` starting in directory `cur`; followLast: follow a symbolic link in the last
   component.  Result: [ok, loc, err]; with ok, loc is the location the path names (which may not
   exist: then its parent exists and is a searchable directory). *)
RECURSIVE Res(_, _, _, _, _)
Res(f, cur, comps, followLast, depth) ==
  IF depth > 40 THEN [ok |-> FALSE, loc |-> cur, err |-> "ELOOP"]
  ELSE IF Len(comps) = 0 THEN [ok |-> TRUE, loc |-> cur, err |-> ""]
  ELSE LET c == Head(comps)  rest == Tail(comps)  last == Len(rest) = 0  here == Node(f, cur) IN
    IF here.ty # "dir" THEN [ok |-> FALSE, loc |-> cur, err |-> IF here.ty = "none" THEN "ENOENT" ELSE "ENOTDIR"]
    ELSE IF ~OwnerX(here) THEN [ok |-> FALSE, loc |-> cur, err |-> "EACCES"]
    ELSE IF c = "." THEN Res(f, cur, rest, followLast, depth)
    ELSE IF c = ".." THEN Res(f, Parent(cur), rest, followLast, depth)
    ELSE LET child == Append(cur, c)  nd == Node(f, child) IN
      IF nd.ty = "link" /\ (~last \/ followLast)
      THEN Res(f, IF nd.tabs THEN <<>> ELSE cur, nd.t \o rest, followLast, depth + 1)
      ELSE IF last THEN [ok |-> TRUE, loc |-> child, err |-> ""]
      ELSE Res(f, child, rest, followLast, depth)

\* a trailing '/' makes the last component be followed and requires a directory
Resolve(f, cwd, p, follow) ==
  IF p.c = <<>> /\ ~p.abs THEN [ok |-> FALSE, loc |-> cwd, err |-> "ENOENT"]     \* the empty path names nothing
  ELSE
  LET r == Res(f, IF p.abs THEN <<>> ELSE cwd, p.c, follow \/ p.trail, 0)
  IN IF r.ok /\ p.trail /\ Node(f, r.loc).ty \in {"file"} THEN [ok |-> FALSE, loc |-> r.loc, err |-> "ENOTDIR"] ELSE r

-------------------------------------------------------------------------------------
(* each call returns [f |-> new file system, res |-> "ok" or an errno name, loc |-> the location
   acted upon (for confinement), ty |-> node type seen (stat)] *)
Out(f, res, loc) == [f |-> f, res |-> res, loc |-> loc, ty |-> Node(f, loc).ty]

Stat(f, cwd, p, follow) ==
  LET r == Resolve(f, cwd, p, follow) IN
  IF ~r.ok THEN Out(f, r.err, r.loc)
  ELSE IF Node(f, r.loc).ty = "none" THEN Out(f, "ENOENT", r.loc) ELSE Out(f, "ok", r.loc)

CanModifyDir(f, dloc) == LET d == Node(f, dloc) IN d.ty = "dir" /\ OwnerW(d) /\ OwnerX(d)

Create(f, cwd, p, node, followLast) ==       \* mkdir / symlink / open(O_CREAT|O_EXCL): the name must be free
  LET r == Resolve(f, cwd, [p EXCEPT !.trail = FALSE], followLast) IN
  IF ~r.ok THEN Out(f, r.err, r.loc)
  ELSE IF Len(r.loc) = 0 THEN Out(f, "EEXIST", r.loc)
  ELSE IF Node(f, r.loc).ty # "none" THEN Out(f, "EEXIST", r.loc)
  ELSE IF Node(f, Parent(r.loc)).ty # "dir" THEN Out(f, "ENOENT", r.loc)
  ELSE IF ~CanModifyDir(f, Parent(r.loc)) THEN Out(f, "EACCES", r.loc)
  ELSE Out(Put(f, r.loc, node), "ok", r.loc)

Mkdir(f, cwd, p, mode) == Create(f, cwd, p, DirNode(mode), FALSE)
\* (a trailing '/' asks for a directory of that name: where there is none the kernel says ENOENT and creates nothing - unlike mkdir,
\*  which accepts the trailing '/')
Symlink(f, cwd, p, tcomps, tabs) ==
  LET o == Create(f, cwd, p, LinkNode(tcomps, tabs), FALSE) IN
  IF p.trail /\ o.res = "ok" THEN Out(f, "ENOENT", o.loc) ELSE o
\* open(path, O_CREAT|O_WRONLY|O_EXCL, mode): never follows a link in the last component
OpenExcl(f, cwd, p, mode) == Create(f, cwd, p, FileNode(mode), FALSE)

Unlink(f, cwd, p) ==
  LET r == Resolve(f, cwd, p, FALSE)  nd == Node(f, r.loc) IN
  IF ~r.ok THEN Out(f, r.err, r.loc)
  ELSE IF nd.ty = "none" THEN Out(f, "ENOENT", r.loc)
  ELSE IF nd.ty = "dir" THEN Out(f, "EISDIR", r.loc)
  ELSE IF ~CanModifyDir(f, Parent(r.loc)) THEN Out(f, "EACCES", r.loc)
  ELSE Out(Put(f, r.loc, NoNode), "ok", r.loc)

\* chmod / utime / chown by path: follow links; the node must exist
Chmod(f, cwd, p, mode) ==
  LET s == Stat(f, cwd, p, TRUE) IN
  IF s.res # "ok" THEN s ELSE Out(Put(f, s.loc, [Node(f, s.loc) EXCEPT !.mode = mode % 4096]), "ok", s.loc)
Touch(f, cwd, p) == Stat(f, cwd, p, TRUE)        \* utime, chown: no modelled state changes

\* all locations below `root` (inclusive)
Below(root, loc) == Len(loc) >= Len(root) /\ SubSeq(loc, 1, Len(root)) = root
=====================================================================================
