---------------------------------- MODULE MC_Reader ----------------------------------
(* Bounded model of Reader: all archives of at most MAXN members over an alphabet of entry
   shapes, all three directory policies, all call sequences in which each member gets at most
   one decode operation (reads in pieces | check | extract) and each presentation at most one
   extract; the reader may be freed at any point (abandoning the archive) and at most one
   allocation failure may be injected anywhere. *)
EXTENDS Reader, TLC, Json
CONSTANTS MAXN, FAULTS

VARIABLES faults, nn, hist        \* hist: the calls made so far (generator output; hidden by VIEW)
vars == <<arc, policy, b, r, dirStack, deferred, refs, done, live, mis, faults, nn, hist>>
MCView == <<arc, policy, b, r, dirStack, deferred, refs, done, live, mis, faults, nn>>

F(id, kind, dirp, plen, packed, avail, sup, data, good) ==
  [id |-> id, kind |-> kind, dirp |-> dirp, plen |-> plen, packed |-> packed, avail |-> avail,
   sup |-> sup, data |-> data, good |-> good]
Shapes == {
  F("f",    "file",  <<>>,          1, 2, 2, TRUE,  <<1, 2>>, TRUE),
  F("fa",   "file",  <<"a">>,       3, 2, 2, TRUE,  <<3, 4>>, TRUE),
  F("fab",  "file",  <<"a", "b">>,  5, 1, 1, TRUE,  <<5>>,    TRUE),
  F("fbad", "file",  <<>>,          1, 2, 2, TRUE,  <<6>>,    FALSE),
  F("funs", "file",  <<>>,          1, 1, 1, FALSE, <<>>,     FALSE),
  F("ftr",  "file",  <<"a">>,       3, 3, 1, TRUE,  <<7>>,    FALSE),
  F("da",   "dir",   <<"a">>,       2, 0, 0, FALSE, <<>>,     FALSE),
  F("dab",  "dir",   <<"a", "b">>,  4, 0, 0, FALSE, <<>>,     FALSE),
  F("dc",   "dir",   <<"c">>,       2, 0, 0, FALSE, <<>>,     FALSE),
  F("sl",   "slink", <<>>,          1, 0, 0, FALSE, <<>>,     FALSE),
  F("dl1",  "dlink", <<>>,          1, 0, 0, FALSE, <<>>,     FALSE),
  F("dl4",  "dlink", <<"a">>,       4, 0, 0, FALSE, <<>>,     FALSE) }

Arcs == UNION {[1..n -> Shapes] : n \in 0..MAXN}

Init == /\ \E a \in Arcs, p \in Policies :
             /\ \A i \in 1..Len(a) : (a[i].avail < a[i].packed) => i = Len(a)
             /\ RInit(a, p)
        /\ faults = 0 /\ nn = 0 /\ hist = <<>>

OkSet == IF faults < FAULTS THEN {TRUE, FALSE} ELSE {TRUE}
Fault(ok) == faults' = IF ok THEN faults ELSE faults + 1

\* the caller's discipline (the property's precondition)
\* (IF-THEN-ELSE, not disjunction: inside an action TLC explores both sides of a disjunction)
MayRead == IF r.ctype = "NORMAL" THEN done[r.cur] \in {"none", "read"} ELSE TRUE
MayCheck == IF r.ctype = "NORMAL" THEN done[r.cur] = "none" ELSE TRUE
MayExtract == IF r.ctype = "NORMAL" THEN done[r.cur] = "none"
              ELSE IF r.ctype \in {"FAKE", "DEFER"} THEN done[r.cur] # "re-extracted" ELSE TRUE
IsDirEntry == IF r.ctype = "NORMAL" THEN arc[r.cur].kind = "dir" ELSE FALSE
Es == IF b.idx # 0 THEN (IF Truncated(b.idx) THEN {TRUE, FALSE} ELSE {FALSE}) ELSE {FALSE}
Cs == IF b.idx # 0 THEN {0, b.rem} \cup (IF b.rem > 1 THEN {1} ELSE {}) ELSE {0}

Next ==
  \/ \E ok \in OkSet : NextFileWith(ok) /\ Fault(IF r.ctype \in {"START", "NORMAL"} THEN ok ELSE TRUE)
        /\ nn' = (IF r'.ctype = "NORMAL" THEN nn + 1 ELSE nn)
        /\ hist' = Append(hist, "N")
  \/ \E k \in {1, 8}, c \in Cs, ok \in OkSet, e \in Es :
        MayRead /\ ReadWith(k, c, ok, e) /\ Fault(IF Decodable /\ ~r.dec THEN ok ELSE TRUE) /\ UNCHANGED nn
        /\ hist' = Append(hist, (IF k = 1 THEN "R1" ELSE "R8"))
  \/ \E c \in Cs, ok \in OkSet, e \in Es :
        MayCheck /\ CheckWith(c, ok, e) /\ Fault(IF Decodable THEN ok ELSE TRUE) /\ UNCHANGED nn /\ hist' = Append(hist, "C")
  \/ \E fs \in {"ok", "fail", "made", "exists"}, c \in Cs, ok \in OkSet, e \in Es :
        /\ MayExtract
        /\ IsDirEntry = (fs \in {"made", "exists"})
        /\ ExtractWith(fs, c, ok, e) /\ Fault(IF r.ctype \in {"START", "EOF", "FAKE"} \/ IsDirEntry THEN TRUE ELSE ok)
        /\ UNCHANGED nn /\ hist' = Append(hist, "X")
  \/ Free /\ UNCHANGED <<faults, nn>> /\ hist' = Append(hist, "Q")

Spec == Init /\ [][Next]_vars
\* generator: when the reader is freed, print the archive (shape ids), the policy and the calls
Emit == ("reader" \notin live) => PrintT(<<"SCRIPT", ToJson([arc |-> [i \in 1..Len(arc) |-> arc[i].id], policy |-> policy, ops |-> hist])>>)

\* --- C15: the sequence of real headers is the archive's, whatever else was done -------------
\* the NORMAL entries are handed out in archive order without gaps (until eof is latched by a
\* fault or a truncated member)
NormalInOrder == (r.ctype = "NORMAL") => r.cur = nn
\* a re-presented directory is one that was extracted (created) earlier and comes back once
FakeWasExtracted == (r.ctype = "FAKE") => (arc[r.cur].kind = "dir" /\ done[r.cur] \in {"extracted", "re-extracted"})
DeferWasExtracted == (r.ctype = "DEFER") => (arc[r.cur].kind = "dlink" /\ done[r.cur] \in {"extracted", "re-extracted"})
\* under END_OF_DIR a directory is re-presented exactly when the input has left it
FakeAtRightPlace == (r.ctype = "FAKE" /\ policy = "EOD" /\ b.idx # 0) =>
                       ~IsPrefix(arc[r.cur].dirp, arc[b.idx].dirp) \/ (arc[b.idx].kind # "dir" /\ arc[b.idx].dirp = <<>>)
FakeOnlyAtEndUnderEOF == (r.ctype = "FAKE" /\ policy = "EOF") => b.idx = 0
NeverFakeUnderPlain == (policy = "PLAIN") => r.ctype # "FAKE"
\* at end of archive nothing remains pending
EofMeansAllDone == (r.ctype = "EOF") => (dirStack = <<>> /\ deferred = <<>> /\ b.idx = 0)
=====================================================================================
