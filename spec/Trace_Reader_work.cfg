SPECIFICATION TSpec
CONSTANTS
  FIXED = TRUE
  CHECK_WORK = TRUE
  CHECK_LEAKS = FALSE
INVARIANTS RefsAreOwners HeadersAtBoundaries NormalIsBasic DeferredOrdered DeferOnlyAtEnd DecoderOnlyForNormal
PROPERTIES EofStickyT
VIEW TView
POSTCONDITION Accepted
CHECK_DEADLOCK FALSE
