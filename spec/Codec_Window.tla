-------------------------------- MODULE Codec_Window --------------------------------
(* LZ77 history, shared by the Codec_* modules.

   The C decoders keep the last W output bytes in a ring buffer (ringbuf[W], ringbuf_pos) that is
   pre-filled at init time, and copy byte by byte out of the ring while writing into it.
   Declaratively: let V be the *virtual history* = the initial ring contents (in ring order,
   ending just before the initial ringbuf_pos) followed by every byte output so far.  Then
       ringbuf[(ringbuf_pos - 1 - d) mod W]  =  V[|V| - d]          for 0 <= d < W
   and a copy of `cnt` bytes from distance d is the plain LZ77 expansion
       out[j] = V'[|V| - d + (j-1)]   where V' = V \o out            (source may overlap the output)
             = V[|V| - d + ((j-1) mod (d+1))]
   (MC_Codec_Lzs / MC_Codec_Lz5 check ring transcription = this definition on small windows.)

   NAMED DEVIATION TwoLevelHistory.  A window record is w = [old, rec, total]: the output bytes
   in two pieces (old \o rec = the last >= min(total, W) output bytes).  Appending goes to `rec`;
   when rec exceeds MergeAt bytes it is merged into `old`, which is cut to W bytes.  This is only
   an evaluation device (an EXCEPT on a 2^20 element function for every byte is not practical in
   TLC); RingOf(w, ..) gives the C array back. *)
EXTENDS Naturals, Sequences, SequencesExt

MergeAt == 512

EmptyWin == [old |-> <<>>, rec |-> <<>>, total |-> 0]

\* ringbuf_pos, given its initial value
WPos(w, W, start) == (start + w.total) % W

(* byte at distance d behind the write position (d = 0: the byte output last), 0 <= d < W.
   InitAt(i) = initial content of ring index i. *)
WBack(w, d, W, start, InitAt(_)) ==
  LET nr == Len(w.rec) IN
  IF d < nr THEN w.rec[nr - d]
  ELSE LET e == d - nr
           no == Len(w.old)
       IN IF e < no THEN w.old[no - e]
          ELSE InitAt((WPos(w, W, start) + 2 * W - 1 - d) % W)

\* LZ77 expansion: cnt bytes from distance d (see above)
WCopy(w, d, cnt, W, start, InitAt(_)) ==
  [j \in 1..cnt |-> WBack(w, d - ((j - 1) % (d + 1)), W, start, InitAt)]

(* LArc's copy commands (-lzs-, -lz5-) name an ABSOLUTE ring position p (the C code reduces
   start + i modulo W, so any p is allowed): that is distance (ringbuf_pos - 1 - p) mod W.
   p = ringbuf_pos itself is distance W-1: the byte written W bytes ago, and on from there. *)
RingDistance(w, p, W, start) == (WPos(w, W, start) + 2 * W - 1 - (p % W)) % W
RingCopy(w, p, cnt, W, start, InitAt(_)) == WCopy(w, RingDistance(w, p, W, start), cnt, W, start, InitAt)

\* append output bytes
LastN(s, n) == IF Len(s) <= n THEN s ELSE SubSeq(s, Len(s) - n + 1, Len(s))
WPush(w, out, W) ==
  LET r == w.rec \o out IN
  IF Len(r) >= MergeAt
  THEN [old |-> LastN(w.old \o r, W), rec |-> <<>>, total |-> w.total + Len(out)]
  ELSE [old |-> w.old, rec |-> r, total |-> w.total + Len(out)]

\* the C array: ring index i -> byte
RingOf(w, W, start, InitAt(_)) ==
  [i \in 0..(W - 1) |-> WBack(w, (WPos(w, W, start) + W - 1 - i) % W, W, start, InitAt)]

Spaces(i) == 32
Zeros(i) == 0
=====================================================================================
