SPECIFICATION Spec
CONSTANTS
  CSET <- AllC
  BSET <- Basis8
  ALPHA = {0}
  MAXLEN = 0
  MODE = "pairs"
INVARIANTS StepEqTStep InRange ZeroStepInjective
CHECK_DEADLOCK FALSE
