SPECIFICATION Spec
CONSTANTS
  CSET <- OddPatterns
  BSET <- ShardOff
  ALPHA = {0}
  MAXLEN = 0
  MODE = "burst"
INVARIANTS BurstDetected XorLinear3
CHECK_DEADLOCK FALSE
