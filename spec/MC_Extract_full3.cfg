SPECIFICATION Spec
CONSTANT N = 3
INVARIANTS ConfinedBeforeDeferred CanaryIntact DeferredOrdered NoEarlyDanger Confined
VIEW MCView
CHECK_DEADLOCK FALSE
