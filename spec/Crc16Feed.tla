-------------------------------- MODULE Crc16Feed ---------------------------------
(* Feeding state machine of lha_crc16_buf: a 16-bit register updated piece by piece. *)
EXTENDS Crc16
VARIABLES reg,      \* the caller's uint16_t *crc
          fed       \* history: every byte fed so far (ghost)
cvars == <<reg, fed>>

CInit == reg = 0 /\ fed = <<>>
Feed(piece) == /\ reg' = CrcFrom(reg, piece)
               /\ fed' = fed \o piece
PiecewiseEqWhole == reg = Crc(fed)
====================================================================================
