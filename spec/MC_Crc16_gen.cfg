SPECIFICATION GenSpec
CONSTANTS
  CSET = {0}
  BSET = {0}
  ALPHA = {0}
  MAXLEN = 0
  MODE = "gen"
INVARIANTS FeedInv GenEmit
CHECK_DEADLOCK FALSE
