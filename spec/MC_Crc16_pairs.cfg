SPECIFICATION Spec
CONSTANTS
  CSET <- ShardC
  BSET <- AllB
  ALPHA = {0}
  MAXLEN = 0
  MODE = "pairs"
INVARIANTS StepEqTStep InRange ZeroStepInjective
CHECK_DEADLOCK FALSE
