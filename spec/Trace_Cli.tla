----------------------------------- MODULE Trace_Cli -----------------------------------
(* Trace validation of `lha t | x | e | p` (with options q0..q2, i, n, w=, v and wildcard arguments):
   one line per invocation: the command word, the members (header records as the library returns
   them plus the generator's knowledge of each member: produced length, verdict, data), the bytes
   written to stdout and the exit status.  stdout must equal Cli!Output byte for byte (which also
   makes every byte printable except file data dumped by `p`), the command word must parse to the
   options the run was made with, and the exit status must be non-zero iff a selected member failed. *)
EXTENDS Cli, TLC, Json, IOUtils
Trc == ndJsonDeserialize(IOEnv.TRACE)
VARIABLE l
Ev == Trc[l]
Chk(what, cond) == IF cond THEN TRUE ELSE PrintT(<<"MISMATCH", what, "line", l>>) /\ FALSE
FirstDiff(a, b) == IF \E i \in 1..Len(a) : i > Len(b) \/ a[i] # b[i]
                   THEN CHOOSE i \in 1..Len(a) : (i > Len(b) \/ a[i] # b[i]) /\ \A j \in 1..(i - 1) : j <= Len(b) /\ a[j] = b[j]
                   ELSE Len(a) + 1
TInit == l = 1
TRun == /\ l <= Len(Trc) /\ Ev.e = "Run" /\ l' = l + 1
        /\ LET o == ParseCommand(Ev.cmd)
               want == Output(Ev.members, o, Ev.filters)
           IN /\ Chk("command word accepted", o.ok)
              /\ IF want = Ev.out THEN TRUE
                 ELSE PrintT(<<"MISMATCH", "stdout differs at byte", FirstDiff(want, Ev.out), "line", l>>) /\ PrintT(<<"WANT", want>>) /\ FALSE
              /\ Chk("a byte that is neither printable ASCII nor \\n \\r \\t reaches the terminal",
                     (o.mode = "print" /\ ~o.dry) \/ \A i \in 1..Len(Ev.out) : Printable(Ev.out[i]))
              /\ Chk("exit status", (Ev.code # 0) = Fails(Ev.members, o, Ev.filters))
(* Parse{cmd, help, members, out, code}: an arbitrary command word (letters, digits, '=', '-').  The tool prints
   its usage page (and exits with status 255) exactly when ParseCommand rejects the word; an accepted word in a
   test / extract / print mode must produce Cli!Output for the options ParseCommand derived from it *)
TParse == /\ l <= Len(Trc) /\ Ev.e = "Parse" /\ l' = l + 1
          /\ LET o == ParseCommand(Ev.cmd)
             IN /\ Chk("usage page iff the command word is rejected", Ev.help = ~o.ok)
                \* ("xw" and "xw=" name the root directory as the place to extract into: the harness runs unprivileged, every
                \*  entry fails for lack of permission, and what is printed then is not Cli!Output's business)
                /\ IF o.ok /\ o.mode \in {"test", "extract", "print"} /\ ~(o.mode = "extract" /\ ~o.dry /\ o.wdir = <<>>)
                   THEN LET want == Output(Ev.members, o, <<>>)
                        IN /\ (IF want = Ev.out THEN TRUE
                               ELSE PrintT(<<"MISMATCH", "stdout differs at byte", FirstDiff(want, Ev.out), "line", l>>) /\ PrintT(<<"WANT", want>>) /\ FALSE)
                           /\ Chk("exit status", (Ev.code # 0) = Fails(Ev.members, o, <<>>))
                   ELSE TRUE
(* Invoke{args, src, there, why, help, members, now, mtime, totalratio, out, err, code}: one whole invocation of the tool as
   main() sees it.  args = everything after the program name; src says what the archive was read through ("path", or for
   the name "-": "redirect" = standard input is the archive file itself, "pipe" = a pipe fed with its bytes, "null" = nothing);
   there = a file of that name exists; the members are those the archive yields when read from a seekable file - so an
   accepted line with src # "path" is the statement of C16 at the level of the tool. *)
TInvoke == /\ l <= Len(Trc) /\ Ev.e = "Invoke" /\ l' = l + 1
           /\ LET inv == Main(Ev.args) IN
              IF inv.kind = "usage"
              THEN /\ Chk("usage page expected", Ev.help /\ HasSub(Ev.out, S_USAGE \o Ev.prog))
                   /\ Chk("usage: exit status 255", Ev.code = 255)
              ELSE IF ~Opens(inv, Ev.there)
              THEN /\ Chk("open failure: nothing on stdout", Ev.out = <<>> /\ ~Ev.help)
                   /\ Chk("open failure: message on stderr", Ev.err = OpenError(inv, Ev.why))
                   /\ Chk("open failure: exit status 255", Ev.code = 255)
              ELSE LET want == MainOutput(inv, Ev.members, [now |-> Ev.now, mtime |-> Ev.mtime, totalratio |-> Ev.totalratio])
                   IN /\ Chk("no usage page", ~Ev.help)
                      /\ (IF want = Ev.out THEN TRUE
                          ELSE PrintT(<<"MISMATCH", "stdout differs at byte", FirstDiff(want, Ev.out), "line", l, "src", Ev.src>>) /\ PrintT(<<"WANT", want>>) /\ FALSE)
                      /\ Chk("exit status", Ev.code = MainStatus(inv, Ev.members))
TSpec == TInit /\ [][TRun \/ TParse \/ TInvoke]_l
Accepted == LET dd == TLCGet("stats").diameter - 1
            IN IF dd = Len(Trc) THEN TRUE ELSE PrintT(<<"REJECTED_AT_LINE", dd + 1>>) /\ FALSE
========================================================================================
