\* depth-bounded lock-step: every symbol sequence up to inst.depth, nine small instances, deeper bounds (thorough tier)
SPECIFICATION Spec
CONSTANT Instances <- Deep
VIEW ViewBounded
CONSTRAINT DepthBound
INVARIANTS
  LockStep DecodeAgrees StructLock
  RSorted RParentSon REvenSons RRootSum RLoopEnds
  GNoFault GSorted GGroups GLeader GLeafNodes GParents GAllocator GRootSum
CHECK_DEADLOCK FALSE
