SPECIFICATION Spec
CONSTANTS
  CSET = {0}
  BSET = {0}
  ALPHA <- AlphaQ
  MAXLEN = 5
  MODE = "feed"
INVARIANTS FeedInv
CHECK_DEADLOCK FALSE
