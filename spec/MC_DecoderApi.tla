-------------------------------- MODULE MC_DecoderApi --------------------------------
(* Bounded model of DecoderApi: every script of inner chunk sizes (including an inner decoder
   that returns 0 and would produce more if wrongly called again), every declared length, every
   schedule of read sizes with the monitor attached at any point. *)
EXTENDS DecoderApi, TLC, FiniteSets
CONSTANTS BLOCK, MAXREAD, MAXTOTAL, MAXCHUNKS, MAXLEN, MAXCALLS, ChunkSizes, ReadSizes, BIG

VARIABLES all, calls
vars == <<d, script, call, g, all, calls>>

FirstZero(sc) == IF \E i \in 1..Len(sc) : sc[i] = <<>>
                 THEN CHOOSE i \in 1..Len(sc) : sc[i] = <<>> /\ \A j \in 1..(i-1) : sc[j] # <<>>
                 ELSE Len(sc) + 1

Sum(sq) == FoldLeft(LAMBDA a, x : a + x, 0, sq)
SizeSeqs == UNION {[1..n -> ChunkSizes] : n \in 0..MAXCHUNKS}
\* bytes are numbered consecutively so that order, loss and duplication are all visible
MkScript(sizes) ==
  [i \in 1..Len(sizes) |-> [j \in 1..sizes[i] |-> (Sum(SubSeq(sizes, 1, i - 1)) + j) % 256]]

Init == \E sizes \in SizeSeqs, declared \in 0..MAXLEN :
           /\ Sum(sizes) <= MAXTOTAL
           /\ DInit(declared, BLOCK, MAXREAD, MkScript(sizes))
           /\ all = LET sc == MkScript(sizes) IN Flatten(SubSeq(sc, 1, FirstZero(sc) - 1))
           /\ calls = 0

Next == \/ /\ calls < MAXCALLS /\ calls' = calls + 1 /\ UNCHANGED all
           /\ \E k \in ReadSizes : ReadBegin(k)
        \/ /\ LoopStep /\ UNCHANGED <<all, calls>>
        \/ /\ ReadEnd /\ UNCHANGED <<all, calls>>
        \/ /\ ~d.monitored /\ Monitor /\ UNCHANGED <<all, calls>>

Spec == Init /\ [][Next]_vars
FairSpec == Spec /\ WF_vars(LoopStep /\ UNCHANGED <<all, calls>>) /\ WF_vars(ReadEnd /\ UNCHANGED <<all, calls>>)

\* what a single maximal read can obtain: the source's bytes up to its first 0-byte return, cut at
\* the declared length
Obtainable == all   \* `all` is initialised below to the bytes before the first zero-length chunk
Cut == Min2(Len(Obtainable), d.slen)

DeliveredPrefix == g.delivered = SubSeq(Obtainable, 1, Len(g.delivered)) /\ Len(g.delivered) <= Cut
\* a request at least as large as what remains always reaches the cut: no premature stop, and
\* (with DeliveredPrefix) the concatenation is the same for every way of splitting the reads
Reaches == AtIdle((calls > 0 /\ g.lastReq >= BIG) => Len(g.delivered) = Cut)
\* both grains of the transition relation agree
AtomicMatches == [][ReadEnd => /\ d' = g.expect.dd /\ script' = g.expect.sc
                               /\ g'.delivered = g.expect.gg.delivered /\ g'.cbs = g.expect.gg.cbs
                               /\ g'.lastRet = g.expect.ret]_vars
ReadTerminates == (call.pc = "loop") ~> (call.pc = "idle")
=====================================================================================
