-------------------------------- MODULE Codec_LhNew ---------------------------------
(* lib/lh_new_decoder.c, the template behind -lh4- -lh5- (lh5_decoder.c), -lh6-, -lh7-, -lhx-
   and LHARK's -lh7- (lk7_decoder.c, "-lk7-").  Instantiate with the template's #defines:

        method          HistoryBits  OffsetBits  NumCodes  Lhark
        -lh4- / -lh5-       14           4         510     FALSE     (the two differ in block_size only)
        -lh6-               16           5         510     FALSE
        -lh7-               17           5         510     FALSE
        -lhx-               20           5         510     FALSE
        -lk7-               16           6         289     TRUE

   FORMAT.  A sequence of blocks.  Block = 16-bit command count, three prefix-code tables, then
   that many commands.  Tables are vectors of code lengths (Codec_Huff):
     temp table    5-bit count n (0: one 5-bit symbol, code length 0), n lengths, each 3 bits with
                   7 extended in unary; after the third length a 2-bit count of zero lengths
     code table    9-bit count n (0: one 9-bit symbol); lengths coded WITH the temp code:
                   0 = one zero length, 1 = 3 + 4-bit zero lengths, 2 = 20 + 9-bit zero lengths,
                   c > 2 = length c - 2
     offset table  OffsetBits-bit count n (0: one symbol); n lengths like the temp table's
   Command = code-table symbol c: c < 256 literal; else copy of c - 256 + 3 bytes (LHARK: extra
   bits for c >= 264) from distance given by an offset-table symbol b: b <= 1: b; else
   2^(b-1) + (b-1) further bits (LHARK: b < 4: b; else (2 + b mod 2) * 2^k + k bits, k = (b-2)/2).
   Copies are LZ77 expansions over a window of 2^HistoryBits bytes, initially spaces (Codec_Window).

   STATE (projection of LHANewDecoder): input, pos (bit position, deviation BitCache), blockRem
   (block_remaining), temp / code / offs (temp_tree, code_tree, offset_tree as Codec_Huff table
   records: the C array plus, for complete prefix codes, the canonical code used for decoding),
   win (ringbuf, deviation TwoLevelHistory; ringbuf_pos = WPos(win, W, 0)).

   One LhNewRead = one call of lha_lh_new_read = at most one command.  Every failure path of the
   C code is kept: any read beyond the end of the input makes the call return 0 (out = <<>>) -
   after having started a block, decremented block_remaining, etc.  The trees are NOT reset
   between blocks: a damaged length vector decodes through whatever the previous block left in
   the array (Codec_Huff (B)).

   UNDETERMINED (LHARK only): offset symbols 62 and 63 (possible only through the n = 0 form or a
   63-symbol table; LHARK itself stops at 2^16) make lhark_read_offset_code compute (2|3) << 30 in
   a signed int: undefined behaviour.  With wrap-around the result is negative and the call
   returns 0; LhNewRead reports out = <<>>, undetermined |-> TRUE. *)
EXTENDS Naturals, Sequences, SequencesExt, Codec_Bits, Codec_Huff, Codec_Window

CONSTANTS HistoryBits, OffsetBits, NumCodes, Lhark

LhW == Pow2T[HistoryBits]          \* RING_BUFFER_SIZE
LhLeaf == 32768                    \* TREE_NODE_LEAF for uint16_t elements
MaxTempCodes == 31                 \* (1 << TEMP_CODE_BITS) - 1
MaxOffsetCodes == Pow2T[OffsetBits] - 1
CopyThreshold == 3

LhNewInit(input) ==
  [input |-> input, pos |-> 0, blockRem |-> 0,
   temp |-> TableInit(MaxTempCodes * 2, LhLeaf),
   code |-> TableInit(NumCodes * 2, LhLeaf),
   offs |-> TableInit(MaxOffsetCodes * 2, LhLeaf),
   win |-> EmptyWin]

\* read_length_value: 3 bits; 7 is extended by the number of 1 bits that follow, up to a 0 bit
ReadLengthValue(inp, pos) ==
  LET r == RdBits(inp, pos, 3) IN
  IF ~r.ok \/ r.v # 7 THEN r
  ELSE LET ones == OnesRun(inp, r.pos) IN
       IF r.pos + ones >= NBitsOf(inp) THEN [ok |-> FALSE, v |-> 0, pos |-> r.pos + ones]     \* input ends inside the run
       ELSE [ok |-> TRUE, v |-> 7 + ones, pos |-> r.pos + ones + 1]

Zeros8(n) == [i \in 1..n |-> 0]

(* read_temp_table: [ok, tab, pos] *)
ReadTempTable(inp, tab, pos0) ==
  LET n == RdBits(inp, pos0, 5) IN
  IF ~n.ok THEN [ok |-> FALSE, tab |-> tab, pos |-> pos0]
  ELSE IF n.v = 0
  THEN LET c == RdBits(inp, n.pos, 5) IN
       IF ~c.ok THEN [ok |-> FALSE, tab |-> tab, pos |-> n.pos]
       ELSE [ok |-> TRUE, tab |-> TableSingle(tab, c.v, LhLeaf), pos |-> c.pos]
  ELSE LET step(a, k) ==           \* a = [i, pos, lens, ok]; one iteration of the for loop
             IF ~a.ok \/ a.i >= n.v THEN a
             ELSE LET r == ReadLengthValue(inp, a.pos) IN
                  IF ~r.ok THEN [a EXCEPT !.ok = FALSE]
                  ELSE LET l1 == [a.lens EXCEPT ![a.i + 1] = r.v % 256] IN        \* uint8_t code_lengths[]
                       IF a.i = 2
                       THEN LET sk == RdBits(inp, r.pos, 2) IN
                            IF ~sk.ok THEN [a EXCEPT !.ok = FALSE]
                            ELSE [a EXCEPT !.i = a.i + sk.v + 1, !.pos = sk.pos, !.lens = l1]   \* skipped ones stay 0
                       ELSE [a EXCEPT !.i = a.i + 1, !.pos = r.pos, !.lens = l1]
           res == FoldLeft(step, [i |-> 0, pos |-> n.pos, lens |-> Zeros8(MaxTempCodes + 4), ok |-> TRUE],
                           IdxTo(MaxTempCodes))
       IN IF ~res.ok THEN [ok |-> FALSE, tab |-> tab, pos |-> res.pos]
          ELSE [ok |-> TRUE, tab |-> TableBuild(tab, MaxTempCodes * 2, res.lens, n.v, LhLeaf), pos |-> res.pos]

(* read_code_table, lengths coded with the temp table: [ok, tab, pos] *)
ReadCodeTable(inp, temp, tab, pos0) ==
  LET n0 == RdBits(inp, pos0, 9) IN
  IF ~n0.ok THEN [ok |-> FALSE, tab |-> tab, pos |-> pos0]
  ELSE IF n0.v = 0
  THEN LET c == RdBits(inp, n0.pos, 9) IN
       IF ~c.ok THEN [ok |-> FALSE, tab |-> tab, pos |-> n0.pos]
       ELSE [ok |-> TRUE, tab |-> TableSingle(tab, c.v, LhLeaf), pos |-> c.pos]
  ELSE LET n == Min2c(n0.v, NumCodes)
           step(a, k) ==           \* one iteration of while (i < n)
             IF ~a.ok \/ a.i >= n THEN a
             ELSE LET d == HuffDecode(inp, temp, a.pos, LhLeaf) IN
                  IF ~d.ok THEN [a EXCEPT !.ok = FALSE]
                  ELSE IF d.v = 0 THEN [a EXCEPT !.i = a.i + 1, !.pos = d.pos]
                  ELSE IF d.v = 1 THEN LET s == RdBits(inp, d.pos, 4) IN
                                       IF ~s.ok THEN [a EXCEPT !.ok = FALSE]
                                       ELSE [a EXCEPT !.i = Min2c(n, a.i + s.v + 3), !.pos = s.pos]
                  ELSE IF d.v = 2 THEN LET s == RdBits(inp, d.pos, 9) IN
                                       IF ~s.ok THEN [a EXCEPT !.ok = FALSE]
                                       ELSE [a EXCEPT !.i = Min2c(n, a.i + s.v + 20), !.pos = s.pos]
                  ELSE [a EXCEPT !.i = a.i + 1, !.pos = d.pos, !.lens[a.i + 1] = d.v - 2]
           res == FoldLeft(step, [i |-> 0, pos |-> n0.pos, lens |-> Zeros8(NumCodes), ok |-> TRUE], IdxTo(n))
       IN IF ~res.ok THEN [ok |-> FALSE, tab |-> tab, pos |-> res.pos]
          ELSE [ok |-> TRUE, tab |-> TableBuild(tab, NumCodes * 2, res.lens, n, LhLeaf), pos |-> res.pos]

(* read_offset_table: [ok, tab, pos] *)
ReadOffsetTable(inp, tab, pos0) ==
  LET n == RdBits(inp, pos0, OffsetBits) IN
  IF ~n.ok THEN [ok |-> FALSE, tab |-> tab, pos |-> pos0]
  ELSE IF n.v = 0
  THEN LET c == RdBits(inp, n.pos, OffsetBits) IN
       IF ~c.ok THEN [ok |-> FALSE, tab |-> tab, pos |-> n.pos]
       ELSE [ok |-> TRUE, tab |-> TableSingle(tab, c.v, LhLeaf), pos |-> c.pos]
  ELSE LET step(a, k) ==
             IF ~a.ok THEN a
             ELSE LET r == ReadLengthValue(inp, a.pos) IN
                  IF ~r.ok THEN [a EXCEPT !.ok = FALSE]
                  ELSE [a EXCEPT !.pos = r.pos, !.lens[k] = r.v % 256]
           res == FoldLeft(step, [pos |-> n.pos, lens |-> Zeros8(MaxOffsetCodes), ok |-> TRUE], IdxTo(n.v))
       IN IF ~res.ok THEN [ok |-> FALSE, tab |-> tab, pos |-> res.pos]
          ELSE [ok |-> TRUE, tab |-> TableBuild(tab, MaxOffsetCodes * 2, res.lens, n.v, LhLeaf), pos |-> res.pos]

(* start_new_block: [ok, st].  On failure the tables read so far stay built (as in C). *)
StartNewBlock(st) ==
  LET inp == st.input
      len == RdBits(inp, st.pos, 16)
  IN IF ~len.ok THEN [ok |-> FALSE, st |-> st]
     ELSE LET s0 == [st EXCEPT !.blockRem = len.v, !.pos = len.pos]
              t == ReadTempTable(inp, s0.temp, s0.pos)
              s1 == [s0 EXCEPT !.temp = t.tab, !.pos = t.pos]
          IN IF ~t.ok THEN [ok |-> FALSE, st |-> s1]
             ELSE LET c == ReadCodeTable(inp, s1.temp, s1.code, s1.pos)
                      s2 == [s1 EXCEPT !.code = c.tab, !.pos = c.pos]
                  IN IF ~c.ok THEN [ok |-> FALSE, st |-> s2]
                     ELSE LET o == ReadOffsetTable(inp, s2.offs, s2.pos)
                          IN [ok |-> o.ok, st |-> [s2 EXCEPT !.offs = o.tab, !.pos = o.pos]]

(* while (block_remaining == 0) start_new_block: blocks of zero commands are skipped.  A block
   header takes more than 32 bits, which bounds the loop. *)
StartBlocks(st) ==
  LET first == StartNewBlock(st) IN
  IF ~first.ok \/ first.st.blockRem # 0 THEN first
  ELSE LET step(a, k) == IF ~a.ok \/ a.st.blockRem # 0 THEN a ELSE StartNewBlock(a.st)
       IN FoldLeft(step, first, IdxTo(NBitsOf(st.input) \div 32 + 1))

\* number of bytes a copy code stands for: [ok, v, pos]
CopyCount(inp, code, pos) ==
  IF ~Lhark THEN [ok |-> TRUE, v |-> code - 256 + CopyThreshold, pos |-> pos]
  ELSE IF code < 264 THEN [ok |-> TRUE, v |-> code - 256 + CopyThreshold, pos |-> pos]
  ELSE IF code < 288
       THEN LET k == (code - 260) \div 4
                low == RdBits(inp, pos, k)
            IN [ok |-> low.ok, v |-> (4 + (code % 4)) * Pow2T[k] + low.v + 3, pos |-> low.pos]
  ELSE [ok |-> TRUE, v |-> 514, pos |-> pos]

\* read_offset_code: [ok, v, pos, ub]
ReadOffsetCode(inp, offs, pos) ==
  LET b == HuffDecode(inp, offs, pos, LhLeaf) IN
  IF ~b.ok THEN [ok |-> FALSE, v |-> 0, pos |-> b.pos, ub |-> FALSE]
  ELSE IF b.v <= 1 THEN [ok |-> TRUE, v |-> b.v, pos |-> b.pos, ub |-> FALSE]
  ELSE IF ~Lhark
       THEN LET r == RdBits(inp, b.pos, b.v - 1) IN
            [ok |-> r.ok, v |-> IF r.ok THEN r.v + Pow2T[b.v - 1] ELSE 0, pos |-> r.pos, ub |-> FALSE]
  ELSE IF b.v < 4 THEN [ok |-> TRUE, v |-> b.v, pos |-> b.pos, ub |-> FALSE]
  ELSE LET k == (b.v - 2) \div 2
           r == RdBits(inp, b.pos, k)
       IN IF ~r.ok THEN [ok |-> FALSE, v |-> 0, pos |-> r.pos, ub |-> FALSE]
          ELSE IF k >= 30 THEN [ok |-> FALSE, v |-> 0, pos |-> r.pos, ub |-> TRUE]     \* (2|3) << 30 in an int
          ELSE [ok |-> TRUE, v |-> (2 + (b.v % 2)) * Pow2T[k] + r.v, pos |-> r.pos, ub |-> FALSE]

LhNewRead(st) ==
  LET inp == st.input
      s1 == IF st.blockRem = 0 THEN StartBlocks(st) ELSE [ok |-> TRUE, st |-> st]
  IN IF ~s1.ok THEN [st |-> s1.st, out |-> <<>>]
     ELSE LET s == [s1.st EXCEPT !.blockRem = @ - 1]
              c == HuffDecode(inp, s.code, s.pos, LhLeaf)
          IN IF ~c.ok THEN [st |-> s, out |-> <<>>]
             ELSE IF c.v < 256
             THEN [st |-> [s EXCEPT !.pos = c.pos, !.win = WPush(s.win, <<c.v>>, LhW)], out |-> <<c.v>>]
             ELSE LET cc == CopyCount(inp, c.v, c.pos) IN
                  IF ~cc.ok THEN [st |-> [s EXCEPT !.pos = cc.pos], out |-> <<>>]
                  ELSE LET o == ReadOffsetCode(inp, s.offs, cc.pos) IN
                       IF o.ub THEN [st |-> [s EXCEPT !.pos = o.pos], out |-> <<>>, undetermined |-> TRUE]
                       ELSE IF ~o.ok THEN [st |-> [s EXCEPT !.pos = o.pos], out |-> <<>>]
                       ELSE LET out == WCopy(s.win, o.v % LhW, cc.v, LhW, 0, Spaces)
                            IN [st |-> [s EXCEPT !.pos = o.pos, !.win = WPush(s.win, out, LhW)], out |-> out]
=====================================================================================
