SPECIFICATION FairSpec
CONSTANTS
  MAXSFX = 262144
  LB = 24
  FIXED_SKIP = FALSE
  MODE = "skip"
  MAXP = 0
  SHORTREADS = TRUE
  MAXSKIP = 70
  DATALEN = 40
INVARIANTS SkipExact SkipWork
PROPERTIES SkipTerminates
CHECK_DEADLOCK FALSE
