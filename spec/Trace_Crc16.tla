--------------------------------- MODULE Trace_Crc16 --------------------------------
(* Trace validation of lha_crc16_buf: every recorded call must be a Feed step of Crc16 whose
   resulting register equals the value the C code left in *crc.  Reset{init} starts a new
   execution from an arbitrary 16-bit register (the routine is a pure register update). *)
EXTENDS Crc16Feed, TLC, Json, IOUtils
Trc == ndJsonDeserialize(IOEnv.TRACE)
VARIABLE l
tvars == <<reg, fed, l>>
Ev == Trc[l]
IsEvent(e) == l <= Len(Trc) /\ Ev.e = e /\ l' = l + 1
TInit == CInit /\ l = 1
TReset == IsEvent("Reset") /\ reg' = Ev.init /\ fed' = <<>>
TFeed == /\ IsEvent("Feed")
         /\ Feed(Ev.bytes)
         /\ reg' = Ev.reg                     \* logged result binds the implementation
\* whole-buffer claim recorded by the driver: CRC of everything fed since Reset, in one go
TWhole == /\ IsEvent("Whole") /\ Ev.reg = reg /\ UNCHANGED <<reg, fed>>
TNext == TReset \/ TFeed \/ TWhole
TSpec == TInit /\ [][TNext]_tvars
Accepted == LET d == TLCGet("stats").diameter - 1
            IN IF d = Len(Trc) THEN TRUE ELSE PrintT(<<"REJECTED_AT_LINE", d + 1>>) /\ FALSE
\* after a Reset the ghost history restarts, so compare from the logged initial register
=====================================================================================
