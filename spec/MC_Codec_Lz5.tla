-------------------------------- MODULE MC_Codec_Lz5 --------------------------------
(* Bounded check of Codec_Lz5 on a scaled-down ring, like MC_Codec_Lzs: for ALL command lists of
   length <= MAXCMDS (literals Lits; copies (p, n), p any ring position < W or one of a few >= W,
   n a 4-bit length in Lens), encoded as one run (flag byte + commands; the unused flag bits are
   0 = copy commands, which find no input and end the run),

       output of Lz5Read on the encoded bytes  =  output of a transcription of lz5_decoder.c's
       output_byte / output_block over an explicit ring  =  plain LZ77 over the virtual history

   with an INJECTIVE initial ring (InitAt(i) = 100 + i instead of LArc's pattern, so that a wrong
   index into the initial contents cannot hide), one Lz5Read call producing the whole run, the next
   call returning 0, and RingOf(win) = the transcription's array.
   The cfg overrides Lz5W <- W, Lz5Start <- Start, Lz5InitAt <- McInitAt, MergeAt <- SmallMerge. *)
EXTENDS Codec_Lz5, TLC
CONSTANTS W, MAXCMDS, Lits, Lens, SmallMerge
Start == W - 2
McInitAt(i) == 100 + i
Positions == (0..(W - 1)) \cup {W, W + 1, 4095}
Cmds == {<<"L", b, 0>> : b \in Lits} \cup {<<"C", p, n>> : p \in Positions, n \in Lens}
VARIABLE cmds
Init == cmds \in UNION {[1..k -> Cmds] : k \in 0..MAXCMDS}
Next == UNCHANGED cmds
Spec == Init /\ [][Next]_cmds

\* ---- encoder: flag byte (bit i set: command i is a literal), then b | c0 c1
FlagByte == FoldLeft(LAMBDA a, i : IF cmds[i][1] = "L" THEN a + 2^(i - 1) ELSE a, 0, IdxTo(Len(cmds)))
CmdBytes(c) == IF c[1] = "L" THEN <<c[2]>> ELSE << c[2] % 256, (c[2] \div 256) * 16 + c[3] >>
Encoded == IF cmds = <<>> THEN <<>> ELSE <<FlagByte>> \o FoldLeft(LAMBDA a, c : a \o CmdBytes(c), <<>>, cmds)

\* ---- transcription of the C ring buffer code
InitRing == [i \in 0..(W - 1) |-> McInitAt(i)]
OutputByte(r, b) == [ring |-> [r.ring EXCEPT ![r.pos] = b], pos |-> (r.pos + 1) % W, out |-> Append(r.out, b)]
OutputBlock(r, start, len) == FoldLeft(LAMBDA a, i : OutputByte(a, a.ring[(start + i - 1) % W]), r, IdxTo(len))
RingRun == FoldLeft(LAMBDA r, c : IF c[1] = "L" THEN OutputByte(r, c[2]) ELSE OutputBlock(r, c[2], c[3] + Lz5Threshold),
                    [ring |-> InitRing, pos |-> Start, out |-> <<>>], cmds)

\* ---- plain LZ77 over the virtual history: initial ring in ring order (oldest = ring[Start]), then the output
V0 == [k \in 1..W |-> McInitAt((Start + k - 1) % W)]
PlainCopy(v, d, cnt) == FoldLeft(LAMBDA a, i : Append(a, a[Len(a) - d]), v, IdxTo(cnt))
PlainRun == FoldLeft(LAMBDA v, c : IF c[1] = "L" THEN Append(v, c[2])
                                   ELSE PlainCopy(v, ((Start + Len(v) - W) + 2 * W - 1 - (c[2] % W)) % W, c[3] + Lz5Threshold),
                     V0, cmds)

Agree ==
  LET r1 == Lz5Read(Lz5Init(Encoded))
      r2 == Lz5Read(r1.st)
      r == RingRun
      p == PlainRun
  IN /\ r1.out = r.out
     /\ r.out = SubSeq(p, W + 1, Len(p))
     /\ r2.out = <<>> /\ r2.st = r1.st
     /\ ~("undetermined" \in DOMAIN r1) /\ ~("undetermined" \in DOMAIN r2)
     /\ RingOf(r1.st.win, W, Start, McInitAt) = r.ring
     /\ WPos(r1.st.win, W, Start) = r.pos
=====================================================================================
