\* unbounded lock-step: the full reachable set of (reference, lhasa) state pairs per instance
SPECIFICATION Spec
CONSTANT Instances <- Thorough
VIEW ViewUnbounded
INVARIANTS
  LockStep DecodeAgrees StructLock
  RSorted RParentSon REvenSons RRootSum RLoopEnds
  GNoFault GSorted GGroups GLeader GLeafNodes GParents GAllocator GRootSum
CHECK_DEADLOCK FALSE
