SPECIFICATION FairSpec
CONSTANTS
  KeepHistory = TRUE
  BLOCK = 2
  MAXREAD = 3
  MAXTOTAL = 4
  MAXCHUNKS = 3
  MAXLEN = 7
  MAXCALLS = 2
  ChunkSizes = {0, 1, 2, 3}
  ReadSizes = {0, 1, 2, 3, 8}
  BIG = 8
INVARIANTS BufBound RetLeReq NeverExceeds NoInnerAfterZero LengthFaithful CrcFaithful CbsRising CbsCurrent CbsComplete DeliveredPrefix Reaches
PROPERTIES AtomicMatches ReadTerminates
CHECK_DEADLOCK FALSE
