SPECIFICATION Spec
CONSTANT N = 4
INVARIANTS ConfinedBeforeDeferred CanaryIntact DeferredOrdered NoEarlyDanger
VIEW MCView
CHECK_DEADLOCK FALSE
