SPECIFICATION Spec
CONSTANTS
  CSET = {0}
  BSET = {0}
  ALPHA = {0}
  MAXLEN = 0
  MODE = "export"
POSTCONDITION ExportPost
CHECK_DEADLOCK FALSE
