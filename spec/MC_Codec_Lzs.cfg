SPECIFICATION Spec
CONSTANTS
  W = 8
  MAXCMDS = 3
  Lits = {1, 2}
  Lens = {0, 1, 3, 5, 6, 7, 15}
  SmallMerge = 3
  LzsW <- W
  LzsStart <- Start
  MergeAt <- SmallMerge
INVARIANTS Agree
CHECK_DEADLOCK FALSE
