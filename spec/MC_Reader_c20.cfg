SPECIFICATION Spec
CONSTANTS
  FIXED = TRUE
  MAXN = 3
  FAULTS = 1
INVARIANTS NormalInOrder RefsAreOwners NothingLiveAfterFree HeadersAtBoundaries NormalIsBasic DeferredOrdered DeferOnlyAtEnd DecoderOnlyForNormal FakeWasExtracted DeferWasExtracted FakeAtRightPlace FakeOnlyAtEndUnderEOF NeverFakeUnderPlain EofMeansAllDone
PROPERTIES EofSticky
VIEW MCView
CHECK_DEADLOCK FALSE
