----------------------------------- MODULE Trace_Mac -----------------------------------
(* one line per single-member MacLHA archive: the member's file name, length and stamp as the library
   returns them, the bytes its stored stream contains, what `lha pq2` wrote (exactly the bytes handed to the
   caller), the exit status of `lha tq2` (0 iff the member checks good) and the size of the file `lha x`
   created.  All three must be what MacBinary!Outer says; the verdict is about the whole inner stream
   (Crc16 of it = recorded CRC), not about the part handed out. *)
EXTENDS MacBinary, Crc16, TLC, Json, IOUtils
Trc == ndJsonDeserialize(IOEnv.TRACE)
VARIABLE l
Ev == Trc[l]
Chk(what, cond) == IF cond THEN TRUE ELSE PrintT(<<"MISMATCH", what, "line", l>>) /\ FALSE
CTab == Tab
TInit == l = 1
TMac == /\ l <= Len(Trc) /\ Ev.e = "Mac" /\ l' = l + 1
        /\ LET o == Outer(Ev.inner, Ev.fname, Ev.hlen, Ev.ts)
               innergood == Ev.hlen = W(Len(Ev.inner)) /\ CrcFromT(CTab, 0, Ev.inner) = Ev.crc
           IN /\ Chk("envelope recognised as the generator intended", Ev.intent = "any" \/ (Ev.intent = "env") = o.env)
              /\ Chk("bytes handed out (lha p)", Ev.printed = o.out)
              /\ Chk("verdict (lha t)", (Ev.tcode = 0) = (o.ok /\ innergood))
              /\ Chk("extracted size (lha x)", IF o.ok THEN Ev.xsize = Len(o.out) ELSE Ev.xsize \in {-1, 0})
TSpec == TInit /\ [][TMac]_l
Accepted == LET dd == TLCGet("stats").diameter - 1
            IN IF dd = Len(Trc) THEN TRUE ELSE PrintT(<<"REJECTED_AT_LINE", dd + 1>>) /\ FALSE
========================================================================================
