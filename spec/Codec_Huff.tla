--------------------------------- MODULE Codec_Huff ---------------------------------
(* Prefix codes given by a vector of code lengths, as used by -lh4/5/6/7/x-, -lk7- and -pm2-.

   Two definitions live here side by side.

   (A) DECLARATIVE: the canonical prefix code.  Symbols with length 0 are unused; the others are
       ordered by (length, symbol index) and numbered consecutively, a code of length L being the
       next L-bit number after shifting (CanonOf).  This is what the formats mean by a length
       vector whenever that vector is a *complete* prefix code (Kraft sum = 1, >= 2 symbols).

   (B) TRANSCRIPTION of lib/tree_decode.c (build_tree / read_from_tree).  The C code builds the
       code tree breadth first inside a fixed array.  For vectors that are NOT complete prefix
       codes (over-subscribed, incomplete, one symbol with a positive length, or too deep for the
       array) the outcome is defined by nothing but that algorithm - and by what the array held
       BEFORE (build_tree does not clear it, init_tree runs once at decoder creation): queue
       slots that no code claims keep their old contents, an over-subscribed level overwrites
       slot 0, and expand_queue silently stops growing the tree when the array is full.  Since
       Trace_Codec compares the model with the C decoders on damaged streams too, the tree arrays
       are part of the codec states and (B) is what XRead uses for such vectors.

   MC_Codec_Huff checks (B) against (A) for all small vectors: never an index outside the array,
   termination, and tree = canonical code for complete vectors.  A table record carries both:
       [tree  |-> the C array (sequence; C slot i is tree[i+1]; leaf c is LeafBit + c, an inner
                  node is the index of its 0-child, the 1-child follows it),
        canon |-> CanonOf(lens) if the vector is a complete prefix code (use |-> TRUE), else NoCanon]
   and HuffDecode uses (A) when canon.use and (B) otherwise. *)
EXTENDS Naturals, Sequences, SequencesExt, FiniteSets, Codec_Bits

\* ------------------------------------------------------------------ (A) canonical code
MaxCanonLen == 16     \* vectors with longer codes are never treated as canonical (always sound: (B) is exact)

NoCanon == [use |-> FALSE, maxl |-> 0, cnt |-> <<>>, first |-> <<>>, off |-> <<>>, syms |-> <<>>]

\* lens: sequence; lens[i+1] is the code length of symbol i, for i < n
LenMax(lens, n) == FoldLeft(LAMBDA a, i : IF lens[i] > a THEN lens[i] ELSE a, 0, IdxTo(n))
UsedCount(lens, n) == FoldLeft(LAMBDA a, i : IF lens[i] > 0 THEN a + 1 ELSE a, 0, IdxTo(n))

(* cnt[L] = number of symbols of length L; first[L] = the first (smallest) code of length L;
   off[L] = number of symbols shorter than L; syms = symbols ordered by (length, index) *)
CanonOf(lens, n) ==
  LET maxl == LenMax(lens, n)
      cnt == FoldLeft(LAMBDA c, i : IF lens[i] > 0 THEN [c EXCEPT ![lens[i]] = @ + 1] ELSE c,
                      [L \in 1..maxl |-> 0], IdxTo(n))
      fo == FoldLeft(LAMBDA a, L : << Append(a[1], IF L = 1 THEN 0 ELSE (a[1][L-1] + cnt[L-1]) * 2),
                                      Append(a[2], IF L = 1 THEN 0 ELSE a[2][L-1] + cnt[L-1]) >>,
                     << <<>>, <<>> >>, IdxTo(maxl))
      syms == FoldLeft(LAMBDA a, L : a \o SelectSeq([i \in 1..n |-> i - 1], LAMBDA s : lens[s + 1] = L),
                       <<>>, IdxTo(maxl))
  IN [use |-> TRUE, maxl |-> maxl, cnt |-> cnt, first |-> fo[1], off |-> fo[2], syms |-> syms]

(* complete prefix code: at least two symbols, Kraft sum exactly 1.  Computed level by level so
   that no number exceeds 2^maxl: the codes of length L occupy first[L] .. first[L]+cnt[L]-1,
   which must stay below 2^L, and the last level must end exactly at 2^maxl. *)
IsCompleteCanon(c) ==
  /\ c.maxl >= 1 /\ c.maxl <= MaxCanonLen
  /\ Len(c.syms) >= 2
  /\ \A L \in 1..c.maxl : c.first[L] + c.cnt[L] <= Pow2T[L]
  /\ c.first[c.maxl] + c.cnt[c.maxl] = Pow2T[c.maxl]

CanonIfComplete(lens, n) ==
  IF n = 0 \/ LenMax(lens, n) = 0 \/ LenMax(lens, n) > MaxCanonLen THEN NoCanon
  ELSE LET c == CanonOf(lens, n) IN IF IsCompleteCanon(c) THEN c ELSE NoCanon

\* codeword of symbol s (a used symbol) as <<value, length>>
CanonCodeword(c, lens, s) ==
  LET L == lens[s + 1]
      rank == CHOOSE k \in 1..Len(c.syms) : c.syms[k] = s
  IN << c.first[L] + (rank - 1 - c.off[L]), L >>

(* decode one symbol at bit position pos: [ok, v, pos].  Fails (like read_bit) when the input
   ends before a codeword is complete.  peek = next maxl bits, zero extended. *)
RECURSIVE CanonDec(_,_,_,_,_)
CanonDec(c, peek, avail, pos, L) ==
  IF L > avail THEN [ok |-> FALSE, v |-> 0, pos |-> pos]
  ELSE LET code == peek \div Pow2T[c.maxl - L] IN
       IF code >= c.first[L] /\ code - c.first[L] < c.cnt[L]
       THEN [ok |-> TRUE, v |-> c.syms[c.off[L] + (code - c.first[L]) + 1], pos |-> pos + L]
       ELSE CanonDec(c, peek, avail, pos, L + 1)     \* depth <= maxl <= 16; a complete code always resolves
CanonDecode(inp, c, pos) ==
  CanonDec(c, BitsAt(inp, pos, c.maxl), NBitsOf(inp) - pos, pos, 1)

\* ------------------------------------------------------------------ (B) tree_decode.c
(* init_tree: every slot is TREE_NODE_LEAF (= leaf 0) *)
InitTree(tl, leafBit) == [i \in 1..tl |-> leafBit]
\* set_tree_single: only slot 0 is written; code is truncated to the element type first
SetTreeSingle(tree, code, leafBit) ==
  LET c == code % (2 * leafBit) IN [tree EXCEPT ![1] = IF c >= leafBit THEN c ELSE c + leafBit]

(* build state b = [tree, alloc (tree_allocated), next (next_entry), oob (an index outside the
   array was used: never, see MC_Codec_Huff)] *)
ExpandQueue(b, tl) ==
  LET newn == (b.alloc - b.next) * 2 IN
  IF b.alloc + newn > tl THEN b
  ELSE LET q == b.alloc - b.next
           step(a, j) == [a EXCEPT !.tree[b.next + j] = b.alloc + 2 * (j - 1),     \* slot next+j-1 := alloc + 2(j-1)
                                   !.oob = a.oob \/ b.next + j > tl]
           r == FoldLeft(step, b, IdxTo(q))
       IN [r EXCEPT !.alloc = b.alloc + newn, !.next = b.alloc]

(* add_codes_with_length: every symbol i < n with lens = L takes the next queue entry - or slot 0
   when the queue is empty (read_next_entry's "sanity check") *)
AddCodes(b, lens, n, L, tl, leafBit) ==
  LET step(a, i) ==
        IF lens[i] = L
        THEN LET empty == a.next >= a.alloc
                 node == IF empty THEN 0 ELSE a.next
             IN [a EXCEPT !.tree[node + 1] = leafBit + (i - 1),
                          !.next = IF empty THEN @ ELSE @ + 1,
                          !.oob = a.oob \/ node >= tl]
        ELSE a
  IN FoldLeft(step, b, IdxTo(n))

(* build_tree: do { expand_queue; ++code_len } while (add_codes_with_length(code_len)), i.e. for
   code_len = 1 .. max(1, longest length).  Lengths are uint8_t in C. *)
BuildTreeB(tree0, tl, lens, n, leafBit) ==
  LET maxl == Max2c(1, LenMax(lens, n))
      step(b, L) == AddCodes(ExpandQueue(b, tl), lens, n, L, tl, leafBit)
  IN FoldLeft(step, [tree |-> tree0, alloc |-> 1, next |-> 0, oob |-> FALSE], IdxTo(maxl))
BuildTree(tree0, tl, lens, n, leafBit) == BuildTreeB(tree0, tl, lens, n, leafBit).tree

(* read_from_tree: [ok, v, pos].  Child pointers always point to higher slots (also stale ones:
   every pointer ever written at slot i was > i), so at most tl/2 steps are needed. *)
TreeWalkN(inp, tree, pos0, leafBit, idx) ==
  LET nb == NBitsOf(inp)
      step(a, k) ==        \* a = <<code, pos, state>>, state 0 = walking, 1 = leaf reached, 2 = end of input
        IF a[3] # 0 THEN a
        ELSE IF a[1] >= leafBit THEN <<a[1], a[2], 1>>
        ELSE IF a[2] >= nb THEN <<a[1], a[2], 2>>
        ELSE << tree[a[1] + BitAt(inp, a[2]) + 1], a[2] + 1, 0 >>
  IN FoldLeft(step, <<tree[1], pos0, 0>>, idx)
TreeWalk(inp, tree, pos, leafBit) ==
  LET r1 == TreeWalkN(inp, tree, pos, leafBit, Idx32)
      r == IF r1[3] # 0 THEN r1 ELSE TreeWalkN(inp, tree, pos, leafBit, IdxTo(Len(tree) + 1))
  IN [ok |-> r[3] = 1, v |-> IF r[3] = 1 THEN r[1] - leafBit ELSE 0, pos |-> r[2]]

\* ------------------------------------------------------------------ tables
TableInit(tl, leafBit) == [tree |-> InitTree(tl, leafBit), canon |-> NoCanon]
TableSingle(tab, code, leafBit) == [tree |-> SetTreeSingle(tab.tree, code, leafBit), canon |-> NoCanon]
TableBuild(tab, tl, lens, n, leafBit) ==
  [tree |-> BuildTree(tab.tree, tl, lens, n, leafBit), canon |-> CanonIfComplete(lens, n)]
HuffDecode(inp, tab, pos, leafBit) ==
  IF tab.canon.use THEN CanonDecode(inp, tab.canon, pos) ELSE TreeWalk(inp, tab.tree, pos, leafBit)
=====================================================================================
