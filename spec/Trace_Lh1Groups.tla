------------------------------- MODULE Trace_Lh1Groups ------------------------------
(* Trace validation of lib/lh1_decoder.c's code tree against Codec_Lh1Groups: the binding of
   part G (the transcription that MC_Codec_Lh1Lock proves to be in lock-step with LZHUF) to the
   compiled code.  The trace is written by harness/c/lh1groups_drv.c, which #includes the real
   source (for small alphabets: a copy with the two #defines replaced) - see checks/c02_groups.py.

   Events (one per line):
     Init{nc, limit}    calloc + lha_lh1_init.  Starts a new execution: g = GInit, r = RInit (and,
                        at nc = 314 / limit = 32768, t = Codec_Lh1!StartHuff, the reference that
                        real streams are validated against).  Several runs may be concatenated.
     Sym{s, bits}       one read_code call that returned s after consuming bits.  Checked BEFORE
                        the update: GReadCode(g, bits) and RDecode(r, bits) both yield s using all
                        the bits, and RCode(r, s) = bits.  Then g' = GUpdate(g, s), r' = RUpdate(r, s)
                        (the reference's do-while must have ended), t' = Codec_Lh1!Update(t, s).
     Syms{s, bits}      up to N consecutive read_code calls in one line (arrays of equal length), the
                        same checks and updates one after the other (the driver's batch= option: a
                        state per symbol is what makes long full-size runs slow).
     Dump{...}          the C struct: field-for-field equality with g - nodes[].leaf / child_index /
                        parent / freq / group, leaf_nodes[], groups[], num_groups, group_leader[],
                        stale entries included - then FullLock(r, g, all symbols), no fault, and
                        r = t where t is carried.
     End{..}            informational, skipped.

   State: l (next line), g, r, t.  Before the first Init all three are << >>.
   A line that no action accepts ends the behaviour: Accepted prints REJECTED_AT_LINE. *)
EXTENDS Codec_Lh1Groups, Json, IOUtils
Trc == ndJsonDeserialize(IOEnv.TRACE)
L1 == INSTANCE Codec_Lh1
VARIABLES l, g, r, t
tvars == << l, g, r, t >>
Ev == Trc[l]
Chk(what, cond) == IF cond THEN TRUE ELSE PrintT(<< "MISMATCH", what, "line", l >>) /\ FALSE
IsEvent(e) == IF l <= Len(Trc) THEN Ev.e = e /\ l' = l + 1 ELSE FALSE
Started == g # << >>
FullSize == IF Started THEN g.nc = L1!NChar /\ g.limit = L1!MaxFreq ELSE FALSE

TInit == l = 1 /\ g = << >> /\ r = << >> /\ t = << >>

TStart ==
  /\ IsEvent("Init")
  /\ Chk("parameters", 2 <= Ev.nc /\ Ev.nc < Ev.limit /\ Ev.limit <= 32768)
  /\ g' = GInit(Ev.nc, Ev.limit)
  /\ r' = RInit(Ev.nc, Ev.limit)
  /\ t' = IF Ev.nc = L1!NChar /\ Ev.limit = L1!MaxFreq THEN L1!StartHuff ELSE << >>

SameArr(name, f, seq, n) ==          \* 0-based function f, 1-based JSON array seq
  /\ Chk(<< name, "length" >>, Len(seq) = n)
  /\ \A i \in 0..(n - 1) : Chk(<< name, i, "model", f[i], "C", seq[i + 1] >>, f[i] = seq[i + 1])

\* one read_code call.  a = [ok, g, r, t, i] (i = position inside a Syms batch, for the message)
SymStep(a, s, bits) ==
  IF ~a.ok THEN a
  ELSE IF ~Chk(<< "symbol range", a.i, s >>, s \in 0..(a.g.nc - 1)) THEN [a EXCEPT !.ok = FALSE]
  ELSE LET dg == GReadCode(a.g, bits)
           dr == RDecode(a.r, bits)
           x == RUpdateX(a.r, s)
           good == /\ Chk(<< "read_code walk", a.i, dg >>, dg.ok /\ dg.sym = s /\ dg.used = Len(bits))
                   /\ Chk(<< "DecodeChar walk", a.i, dr >>, dr.ok /\ dr.sym = s /\ dr.used = Len(bits))
                   /\ Chk(<< "RCode", a.i, RCode(a.r, s) >>, RCode(a.r, s) = bits)
                   /\ Chk(<< "update loop of the reference ended", a.i >>, x[2])
       IN IF good
          THEN [ok |-> TRUE, g |-> TLCEval(GUpdate(a.g, s)), r |-> TLCEval(x[1]),
                t |-> IF a.t = << >> THEN a.t ELSE TLCEval(L1!Update(a.t, s)), i |-> a.i + 1]
          ELSE [a EXCEPT !.ok = FALSE]
Here == [ok |-> TRUE, g |-> g, r |-> r, t |-> t, i |-> 1]
Becomes(z) == z.ok /\ g' = z.g /\ r' = z.r /\ t' = z.t

TSym ==
  /\ IsEvent("Sym")
  /\ Chk("Sym before Init", Started)
  /\ Becomes(SymStep(Here, Ev.s, Ev.bits))

TSyms ==
  /\ IsEvent("Syms")
  /\ Chk("Syms before Init", Started)
  /\ Chk("Syms: one bit string per symbol", Len(Ev.s) = Len(Ev.bits))
  /\ LET step(a, k) == SymStep(a, Ev.s[k], Ev.bits[k])
     IN Becomes(FoldLeft(step, Here, Ix(Len(Ev.s))))

TDump ==
  /\ IsEvent("Dump")
  /\ Chk("Dump before Init", Started)
  /\ LET nt == GNT(g.nc) IN
     /\ Chk("fault (the C code indexed outside an array)", ~g.fault)
     /\ Chk(<< "num_groups", "model", g.num_groups, "C", Ev.num_groups >>, g.num_groups = Ev.num_groups)
     /\ SameArr("leaf", [i \in 0..(nt - 1) |-> IF g.nodes[i].leaf THEN 1 ELSE 0], Ev.leaf, nt)
     /\ SameArr("child_index", [i \in 0..(nt - 1) |-> g.nodes[i].child_index], Ev.child_index, nt)
     /\ SameArr("parent", [i \in 0..(nt - 1) |-> g.nodes[i].parent], Ev.parent, nt)
     /\ SameArr("freq", [i \in 0..(nt - 1) |-> g.nodes[i].freq], Ev.freq, nt)
     /\ SameArr("group", [i \in 0..(nt - 1) |-> g.nodes[i].group], Ev.group, nt)
     /\ SameArr("leaf_nodes", g.leaf_nodes, Ev.leaf_nodes, g.nc)
     /\ SameArr("groups", g.groups, Ev.groups, nt)
     /\ SameArr("group_leader", g.group_leader, Ev.group_leader, nt)
  /\ Chk("FullLock (lhasa's node i = the reference's node R - i, equal codes)", FullLock(r, g, 0..(g.nc - 1)))
  /\ Chk("Codec_Lh1 (hard-wired reference) = R", IF t = << >> THEN TRUE
                                                  ELSE r.freq = t.freq /\ r.son = t.son /\ r.prnt = t.prnt)
  /\ UNCHANGED << g, r, t >>

TEnd == IsEvent("End") /\ UNCHANGED << g, r, t >>

TNext == TStart \/ TSym \/ TSyms \/ TDump \/ TEnd
TSpec == TInit /\ [][TNext]_tvars
Accepted == LET d == TLCGet("stats").diameter - 1
            IN IF d = Len(Trc) THEN TRUE ELSE PrintT(<< "REJECTED_AT_LINE", d + 1 >>) /\ FALSE
=====================================================================================
