--------------------------------- MODULE InputStream ---------------------------------
(* lib/lha_input_stream.c: the lead-in scan that skips self-extractor stubs (skip_sfx), reads
   that replay the lead-in buffer before the source, and the four variants of skipping
   (seekable FILE, non-seekable FILE fallback, callback skip, read loop).

   The source is a byte sequence `data` with a position; every call the stream makes on its
   source is an element of a list of observed results (`rs`), so that the same definitions
   serve the bounded model (results chosen by TLC: full or short reads) and trace validation
   (results logged by the driver's callbacks; for FILE streams, whose reads are not observable,
   the source is taken to deliver whatever is there: det = TRUE).

   Pure functions give the effect of one loop iteration (ScanIter, SkipIter) and of whole
   calls (ReadCall, SkipCall); MC_InputStream turns the iteration functions into actions to
   check termination, Trace_InputStream uses the whole-call functions. *)
EXTENDS Naturals, Sequences, SequencesExt

CONSTANTS MAXSFX,       \* MAX_SFX_HEADER_LEN  (262144)
          LB,           \* LEADIN_BUFFER_LEN   (24)
          FIXED_SKIP    \* TRUE: the read-loop skip gives up when the source returns 0 (repaired);
                        \* FALSE: only on a negative result (as found: endless at end of input)

Min2(a, b) == IF a < b THEN a ELSE b
Asc(str) == str   \* strings are given as tuples of byte values by the users of this module

\* '-'=45 'l'=108 'h'=104 'z'=122 'p'=112 'm'=109 's'=115 '4'=52 '5'=53
HdrMatch(buf, i) ==      \* file_header_match(buf + i), i 0-based
  /\ buf[i + 3] = 45 /\ buf[i + 7] = 45
  /\ \/ (buf[i + 4] = 108 /\ buf[i + 5] = 104)
     \/ (buf[i + 4] = 108 /\ buf[i + 5] = 122 /\ buf[i + 6] \in {52, 53, 115})
     \/ (buf[i + 4] = 112 /\ buf[i + 5] = 109 /\ buf[i + 6] # 115)

MarkerDECLHA == <<76, 72, 65, 45, 83, 70, 88>>                                  \* "LHA-SFX"
MarkerAmiga  == <<76, 104, 65, 83, 70, 88, 32, 86, 49, 46, 50, 44>>             \* "LhASFX V1.2,"
IsMarker(buf, i, mk) == \A k \in 1..Len(mk) : buf[i + k] = mk[k]

-------------------------------------------------------------------------------------
(* the for-loop of skip_sfx over the lead-in buffer: returns [found, at, skip, iend] *)
Examine(leadin, skip0) ==
  LET n == Len(leadin)
      step(a, i) ==
        IF a.found \/ ~(i + 12 < n) THEN a
        ELSE LET a1 == IF HdrMatch(leadin, i)
                       THEN (IF a.skip = 0 THEN [a EXCEPT !.found = TRUE, !.at = i]
                             ELSE [a EXCEPT !.skip = a.skip - 1])
                       ELSE a
             IN IF a1.found THEN a1
                ELSE IF IsMarker(leadin, i, MarkerDECLHA) \/ IsMarker(leadin, i, MarkerAmiga)
                     THEN [a1 EXCEPT !.skip = 1] ELSE a1
  IN FoldLeft(step, [found |-> FALSE, at |-> 0, skip |-> skip0], [k \in 1..LB |-> k - 1])

(* one iteration of the while loop of skip_sfx.  z = [leadin, pos, filepos, skip, st, reqs]
   st: "scan" (keep going) | "found" | "fail";  r = what the source returned for the read;
   reqs records the request sizes made (to be compared with the observed ones) *)
ScanIter(data, z, r) ==
  LET req == LB - Len(z.leadin)
      z0  == [z EXCEPT !.reqs = Append(@, req)]
  IN IF r <= 0 THEN [z0 EXCEPT !.st = "fail"]
     ELSE LET lead == z.leadin \o SubSeq(data, z.pos + 1, z.pos + r)
              e    == Examine(lead, z.skip)
              n    == Len(lead)
              iend == IF n > 12 THEN n - 12 ELSE 0
          IN IF e.found
             THEN [z0 EXCEPT !.leadin = SubSeq(lead, e.at + 1, n), !.pos = @ + r, !.skip = e.skip, !.st = "found"]
             ELSE LET fp == z.filepos + iend
                  IN [z0 EXCEPT !.leadin = SubSeq(lead, iend + 1, n), !.pos = @ + r, !.skip = e.skip,
                                !.filepos = fp, !.st = IF fp < MAXSFX THEN "scan" ELSE "fail"]

(* a source that always delivers what is there (FILE streams; full-read callbacks) *)
Avail(data, pos) == IF pos < Len(data) THEN Len(data) - pos ELSE 0
FullRead(data, pos, req) == Min2(req, Avail(data, pos))
\* enough iterations for any scan of `data`: every iteration but the first consumes 12 new bytes
ScanBound(data) == Len(data) \div 12 + 3

(* whole scan.  det = FALSE: the source results are the observed ones, rs, consumed in order;
   det = TRUE: the source is FullRead and rs only bounds the number of iterations *)
ScanAll(data, pos0, rs, det) ==
  FoldLeft(LAMBDA z, r : IF z.st = "scan"
                         THEN [ScanIter(data, z, IF det THEN FullRead(data, z.pos, LB - Len(z.leadin)) ELSE r)
                                 EXCEPT !.used = z.used + 1]
                         ELSE z,
           [leadin |-> <<>>, pos |-> pos0, filepos |-> 0, skip |-> 0, st |-> IF 0 < MAXSFX THEN "scan" ELSE "fail",
            reqs |-> <<>>, used |-> 0], rs)

-------------------------------------------------------------------------------------
(* lha_input_stream_read(n) as a whole call.  s = [state, leadin, pos]; rs = results of the
   source reads made during the call (in order).  Returns the new stream, the bytes put into
   the caller's buffer, the verdict, the request sizes made, and how many results were used. *)
ReadCall(data, s, n, rs, det) ==
  LET sc  == IF s.state = "INIT" THEN ScanAll(data, s.pos, rs, det)
             ELSE [leadin |-> s.leadin, pos |-> s.pos, st |-> IF s.state = "READING" THEN "found" ELSE "fail",
                   reqs |-> <<>>, used |-> 0]
      \* a scan that ran out of observed results while still scanning is a mismatch (st = "scan")
      st1 == IF sc.st = "found" THEN "READING" ELSE IF sc.st = "fail" THEN "FAIL" ELSE "STARVED"
  IN IF st1 # "READING"
     THEN [s |-> [state |-> st1, leadin |-> sc.leadin, pos |-> sc.pos], ok |-> FALSE, bytes |-> <<>>,
           reqs |-> sc.reqs, used |-> sc.used]
     ELSE LET k     == Min2(n, Len(sc.leadin))
              part1 == SubSeq(sc.leadin, 1, k)
              lead2 == SubSeq(sc.leadin, k + 1, Len(sc.leadin))
              need  == n - k
          IN IF need = 0
             THEN [s |-> [state |-> "READING", leadin |-> lead2, pos |-> sc.pos], ok |-> TRUE, bytes |-> part1,
                   reqs |-> sc.reqs, used |-> sc.used]
             ELSE IF ~det /\ sc.used + 1 > Len(rs)
             THEN [s |-> [state |-> "STARVED", leadin |-> lead2, pos |-> sc.pos], ok |-> FALSE, bytes |-> part1,
                   reqs |-> Append(sc.reqs, need), used |-> sc.used]
             ELSE LET r  == IF det THEN FullRead(data, sc.pos, need) ELSE rs[sc.used + 1]
                      rr == IF r > 0 THEN r ELSE 0
                  IN [s |-> [state |-> "READING", leadin |-> lead2, pos |-> sc.pos + rr],
                      ok |-> (k + rr = n), bytes |-> part1 \o SubSeq(data, sc.pos + 1, sc.pos + rr),
                      reqs |-> Append(sc.reqs, need), used |-> sc.used + 1]

-------------------------------------------------------------------------------------
(* skipping.  One iteration of the read-loop variant: z = [left, pos, st, reqs] *)
SkipIter(z, r) ==
  LET len == Min2(32, z.left)
      z0  == [z EXCEPT !.reqs = Append(@, len)]
  IN IF r < 0 \/ (FIXED_SKIP /\ r = 0) THEN [z0 EXCEPT !.st = "fail"]
     ELSE LET left == z.left - r
          IN [z0 EXCEPT !.left = left, !.pos = @ + r, !.st = IF left > 0 THEN "loop" ELSE "ok"]

SkipLoopAll(pos0, n, rs) ==
  FoldLeft(LAMBDA z, r : IF z.st = "loop" THEN [SkipIter(z, r) EXCEPT !.used = z.used + 1] ELSE z,
           [left |-> n, pos |-> pos0, st |-> IF n > 0 THEN "loop" ELSE "ok", reqs |-> <<>>, used |-> 0], rs)

(* lha_input_stream_skip(n) as a whole call, by kind of stream:
     "cbskip"  - the caller's skip callback decides (its verdict is rs[1])
     "cbread"  - read loop in 32-byte pieces through the read callback
     "seek"    - FILE, seekable: fseek (succeeds also beyond the end)
     "pipe"    - FILE, not seekable: fread loop, fails on a short read *)
SkipCall(data, s, kind, n, rs) ==
  CASE kind = "cbskip" ->
         LET ok == Len(rs) >= 1 /\ rs[1] = 1
         IN [s |-> [s EXCEPT !.pos = IF ok THEN @ + n ELSE Len(data)], ok |-> ok, reqs |-> <<n>>, used |-> 1]
    [] kind = "cbread" ->
         LET z == SkipLoopAll(s.pos, n, rs)
         IN [s |-> [s EXCEPT !.pos = z.pos], ok |-> z.st = "ok", reqs |-> z.reqs, used |-> z.used, st |-> z.st]
    [] kind = "seek" ->
         [s |-> [s EXCEPT !.pos = @ + n], ok |-> TRUE, reqs |-> <<>>, used |-> 0]
    [] kind = "pipe" ->
         LET ok == s.pos + n <= Len(data)
         IN [s |-> [s EXCEPT !.pos = IF ok THEN @ + n ELSE Len(data)], ok |-> ok, reqs |-> <<>>, used |-> 0]
=====================================================================================
