-------------------------------- MODULE MC_Codec_Huff -------------------------------
(* Bounded check of Codec_Huff: the transcription of tree_decode.c (B) against the canonical
   prefix code (A), for ALL length vectors of NSYM symbols with lengths 0..MAXL (shorter vectors
   are the ones with trailing zeros: build_tree only loops to num_code_lengths), for the array
   sizes the decoders use relative to the number of symbols (lh_new: 2n; pm2: 2n+1 and 2n+3), and
   starting from a fresh array as well as from the array a previous build left behind
   (prev \in PrevVectors: build_tree does not clear the array).

   One state per (prev, lens, tl); no transitions.  Invariants:
     InBounds         no index outside the array is read or written by build_tree
                      (also not slot `node` when the queue is empty), and afterwards every inner
                      node's two children are inside the array
     PointersForward  every child pointer points to a higher slot - the induction that makes
                      read_from_tree terminate on ANY array contents reachable by builds
     WalkTerminates   from the root every bit sequence reaches a leaf within tl/2 steps
     CanonicalWhenComplete   if lens is a complete prefix code: following the canonical codeword
                      of every used symbol from the root ends exactly in that symbol's leaf
     DecodersAgree    ... and CanonDecode = TreeWalk on every input (all 2^MAXL bit prefixes,
                      also truncated ones)
     SingleSymbol     a vector with ONE used symbol of length L: the tree decodes L zero bits to it,
                      provided the full levels 1..L fit the array (2^(L+1) - 1 <= tl).  (Without
                      the proviso it is FALSE: expand_queue stops growing and the leaf lands on a
                      shallower level - see SingleSymbolUnconditional, which TLC refutes.) *)
EXTENDS Codec_Huff, TLC
CONSTANTS NSYM, MAXL, TLOffsets
\* arrays left behind by an earlier build (NSYM = 5): fresh, a complete code, incomplete, over-subscribed, single
PrevVectors == { <<0,0,0,0,0>>, <<1,2,3,4,4>>, <<4,4,0,0,0>>, <<1,1,1,1,1>>, <<3,0,0,0,0>> }
LeafBit == 128
VARIABLES prev, lens, tl
vars == <<prev, lens, tl>>

Init == /\ lens \in [1..NSYM -> 0..MAXL]
        /\ tl \in {2 * NSYM + k : k \in TLOffsets}
        /\ prev \in PrevVectors
Next == UNCHANGED vars
Spec == Init /\ [][Next]_vars

Stale == BuildTree(InitTree(tl, LeafBit), tl, prev, NSYM, LeafBit)
Built == BuildTreeB(Stale, tl, lens, NSYM, LeafBit)
IsLeaf(e) == e >= LeafBit

InBounds == /\ ~Built.oob
            /\ Len(Built.tree) = tl
            /\ \A i \in 1..tl : ~IsLeaf(Built.tree[i]) => Built.tree[i] + 1 < tl
PointersForward == \A i \in 1..tl : ~IsLeaf(Built.tree[i]) => Built.tree[i] > i - 1

RECURSIVE Reach(_,_,_)
Reach(t, code, fuel) == IF IsLeaf(code) THEN TRUE ELSE IF fuel = 0 THEN FALSE
                        ELSE Reach(t, t[code + 1], fuel - 1) /\ Reach(t, t[code + 2], fuel - 1)
WalkTerminates == Reach(Built.tree, Built.tree[1], tl \div 2)

Canon == CanonIfComplete(lens, NSYM)
Used == {s \in 0..(NSYM - 1) : lens[s + 1] > 0}
BitsOfNum(v, n) == [k \in 1..n |-> (v \div 2^(n - k)) % 2]
\* follow bits from the root: the leaf's symbol if the bits end exactly on a leaf, else NSYM+1 / NSYM+2
RECURSIVE Follow(_,_,_)
Follow(t, code, bits) == IF IsLeaf(code) THEN (IF bits = <<>> THEN code - LeafBit ELSE NSYM + 1)
                         ELSE IF bits = <<>> THEN NSYM + 2 ELSE Follow(t, t[code + Head(bits) + 1], Tail(bits))
CanonicalWhenComplete ==
  Canon.use => \A s \in Used : LET cw == CanonCodeword(Canon, lens, s)
                               IN Follow(Built.tree, Built.tree[1], BitsOfNum(cw[1], cw[2])) = s

\* all inputs: one byte whose top MAXL bits vary, cut to 0..MAXL+1 bits by decoding at a late position
DecodersAgree ==
  Canon.use => \A v \in 0..(2^MAXL - 1) : \A start \in {0, 8 - MAXL, 8 - MAXL + 1, 6, 8} :
                 LET inp == << (v * 2^(8 - MAXL)) % 256 >>      \* MAXL <= 8
                 IN CanonDecode(inp, Canon, start) = TreeWalk(inp, Built.tree, start, LeafBit)

SingleOK(L) == Follow(Built.tree, Built.tree[1], [k \in 1..L |-> 0])
SingleSymbol ==
  (Cardinality(Used) = 1) =>
     LET s == CHOOSE x \in Used : TRUE
         L == lens[s + 1]
     IN (2^(L + 1) - 1 <= tl) => SingleOK(L) = s
SingleSymbolUnconditional ==
  (Cardinality(Used) = 1) => LET s == CHOOSE x \in Used : TRUE IN SingleOK(lens[s + 1]) = s

\* statistics: how many vectors are complete codes (printed once at the end via the postcondition)
CountComplete == (Canon.use /\ prev = <<0,0,0,0,0>> /\ tl = 2 * NSYM) => TLCSet(1, TLCGet(1) + 1)
ASSUME TLCSet(1, 0)
Report == PrintT(<<"complete prefix codes among the vectors", TLCGet(1)>>)
=====================================================================================
