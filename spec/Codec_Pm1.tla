--------------------------------- MODULE Codec_Pm1 ----------------------------------
(* lib/pm1_decoder.c: PMarc 1 (-pm1-).  No published definition exists; lhasa's decoder was
   reverse engineered from PMext/UNPMA10, so its fixed tables ARE the format and are copied here:
   copy_ranges, byte_ranges, byte_decode_trees (including the row lhasa marks BROKEN, whose
   fifth element is the array's implicit 0).  16 KiB window; literals go through the
   move-to-front list of Codec_Pma.

   FORMAT.  5 bits select one of 32 byte-decode trees; then commands, 1 bit each:
     0  copy:   range code (a prefix code that grows with the output position: more ranges become
                available after 64, 576, 2624 bytes), for ranges >= 2 a count code (3..244), then the
                distance: copy_ranges[range] = <<base, bits>>, where early in the stream ranges 3,4,5
                are redirected to entries with fewer bits
     1  block:  a count code (1..216), that many literals - each: a symbol 0..5 from the byte-decode
                tree selects byte_ranges[s] = <<base, bits>>, giving the index into the
                move-to-front list - and then, unless the block has the maximum length 216, a copy
                command without its leading 0 bit.
   A copy from a distance not below the number of bytes output so far is an error: the call
   returns 0 - also when a whole literal block has been decoded (and remembered) before it.

   END OF INPUT.  read_callback_wrapper turns "no more input" into zero bytes: the bit stream is
   the input followed by infinitely many 0 bits and no read ever fails (all requests are <= 13
   bits, so deviation BitCache never bites either).  A 0 command bit followed by zeros is a
   two-byte copy from distance 0, so once a single byte has been output the decoder produces
   output for ever; only the declared length stops it.

   STATE (projection of LHAPM1Decoder): input, pos, tree (0 = byte_decode_tree still NULL, else
   1 + row index), opos (output_stream_pos), hist, win (ringbuf, initially zeros - never read
   before written, see the distance check; ringbuf_pos = WPos(win, Pm1W, 0)). *)
EXTENDS Naturals, Sequences, SequencesExt, Codec_Bits, Codec_Window, Codec_Pma

Pm1W == 16384
MaxByteBlockLen == 216

CopyRanges == << <<0,6>>, <<64,8>>, <<0,6>>, <<64,9>>, <<576,11>>, <<2624,13>>,
                 <<64,8>>, <<576,8>>, <<576,9>>, <<576,10>>, <<2624,8>>, <<2624,9>>, <<2624,10>>, <<2624,11>>, <<2624,12>> >>
ByteRanges == << <<0,4>>, <<16,4>>, <<32,5>>, <<64,6>>, <<128,6>>, <<192,6>> >>
\* byte_decode_trees[32][5]: a node is a byte, each nibble a child: 10..15 = leaf 0..5, else offset to the child node
ByteDecodeTrees == <<
 <<18,45,239,28,171>>, <<18,35,222,171,207>>, <<18,44,210,171,239>>, <<18,162,210,188,239>>,
 <<18,162,194,189,239>>, <<18,162,205,177,239>>, <<18,171,18,205,239>>, <<18,171,29,193,239>>,
 <<18,171,193,209,239>>, <<161,18,44,222,191>>, <<161,29,28,177,239>>, <<161,18,45,239,188>>,
 <<161,18,178,222,207>>, <<161,18,188,209,239>>, <<161,28,177,209,239>>, <<161,177,18,205,239>>,
 <<161,177,193,209,239>>, <<18,28,222,171,0>>, <<18,162,205,190,0>>, <<18,171,193,222,0>>,
 <<161,29,28,190,0>>, <<161,18,188,222,0>>, <<161,28,177,222,0>>, <<161,177,193,222,0>>,
 <<29,28,171,0,0>>, <<28,161,189,0,0>>, <<18,171,205,0,0>>, <<161,28,189,0,0>>,
 <<161,177,205,0,0>>, <<161,188,0,0,0>>, <<171,0,0,0,0>>, <<0,0,0,0,0>> >>

\* the bit stream: input, then zeros
ZBit(inp, pos) == BitAt(inp, pos)
ZBits(inp, pos, n) == BitsAt(inp, pos, n)
ZVar(inp, entry, pos) == << entry[1] + ZBits(inp, pos, entry[2]), pos + entry[2] >>

Pm1Init(input) == [input |-> input, pos |-> 0, tree |-> 0, opos |-> 0, hist |-> PmaInitHist, win |-> EmptyWin]

\* read_byte_decode_index: <<index, pos>>; no row leads out of its five bytes, no nibble is 0 except in row 31
RECURSIVE TreeIdx(_,_,_,_)
TreeIdx(inp, row, p, pos) ==
  LET v == row[p + 1]
      child == IF ZBit(inp, pos) = 0 THEN v \div 16 ELSE v % 16
  IN IF child >= 10 THEN << child - 10, pos + 1 >> ELSE TreeIdx(inp, row, p + child, pos + 1)
ByteIndex(inp, row, pos) == IF row[1] = 0 THEN << 0, pos >> ELSE TreeIdx(inp, row, 0, pos)

\* read_bit_after_threshold
BitAfter(inp, opos, pos, thr, def) == IF opos >= thr THEN << ZBit(inp, pos), pos + 1 >> ELSE << def, pos >>

\* read_copy_type_range: <<range, pos>>
CopyTypeRange(inp, opos, pos) ==
  IF ZBit(inp, pos) = 0
  THEN LET x == BitAfter(inp, opos, pos + 1, 576, 0) IN
       IF x[1] # 0 THEN << 4, x[2] >> ELSE BitAfter(inp, opos, x[2], 64, 0)
  ELSE LET x == BitAfter(inp, opos, pos + 1, 64, 1) IN
       IF x[1] = 0 THEN << 3, x[2] >>
       ELSE LET y == BitAfter(inp, opos, x[2], 2624, 1) IN IF y[1] # 0 THEN << 2, y[2] >> ELSE << 5, y[2] >>

\* read_copy_byte_count: <<count, pos>>
CopyByteCount(inp, pos) ==
  LET a == ZBits(inp, pos, 2) IN
  IF a < 3 THEN << a + 3, pos + 2 >>
  ELSE LET b == ZBits(inp, pos + 2, 3)
           p == pos + 5
       IN IF b < 5 THEN << b + 6, p >>
          ELSE IF b = 5 THEN << ZBits(inp, p, 2) + 11, p + 2 >>
          ELSE IF b = 6 THEN << ZBits(inp, p, 3) + 15, p + 3 >>
          ELSE LET c == ZBits(inp, p, 6)
                   q == p + 6
               IN IF c < 62 THEN << c + 23, q >>
                  ELSE IF c = 62 THEN << ZBits(inp, q, 5) + 85, q + 5 >>
                  ELSE << ZBits(inp, q, 7) + 117, q + 7 >>

\* early in the stream the far ranges need fewer bits
Redirect(r, op) ==
  IF r = 3 THEN (IF op < 320 THEN 6 ELSE 3)
  ELSE IF r = 4 THEN (IF op < 832 THEN 7 ELSE IF op < 1088 THEN 8 ELSE IF op < 1600 THEN 9 ELSE 4)
  ELSE IF r = 5 THEN (IF op < 2880 THEN 10 ELSE IF op < 3136 THEN 11 ELSE IF op < 3648 THEN 12
                      ELSE IF op < 4672 THEN 13 ELSE IF op < 6720 THEN 14 ELSE 5)
  ELSE r

\* read_byte_block_count: <<count, pos>>
ByteBlockCount(inp, pos) ==
  LET a == ZBits(inp, pos, 2) IN
  IF a < 3 THEN << a + 1, pos + 2 >>
  ELSE LET b == ZBits(inp, pos + 2, 3) IN
       IF b < 7 THEN << b + 4, pos + 5 >>
       ELSE LET c == ZBits(inp, pos + 5, 4)
                p == pos + 9
            IN IF c < 14 THEN << c + 11, p >>
               ELSE IF c = 14 THEN << ZBits(inp, p, 6) + 25, p + 6 >>
               ELSE << ZBits(inp, p, 7) + 89, p + 7 >>

\* outputted_byte for a run of bytes
Outputted(d, out) ==
  [d EXCEPT !.win = WPush(d.win, out, Pm1W), !.hist = MtfAll(d.hist, out), !.opos = @ + Len(out)]

\* read_copy_command with the bit position after the command bit: [st, out]; out = <<>>: returned 0
CopyCommand(d, pos) ==
  LET inp == d.input
      tr == CopyTypeRange(inp, d.opos, pos)
      cc == IF tr[1] < 2 THEN << 2, tr[2] >> ELSE CopyByteCount(inp, tr[2])
      dist == ZVar(inp, CopyRanges[Redirect(tr[1], d.opos) + 1], cc[2])
      d1 == [d EXCEPT !.pos = dist[2]]
  IN IF dist[1] >= d.opos THEN [st |-> d1, out |-> <<>>]
     ELSE LET out == WCopy(d.win, dist[1], cc[1], Pm1W, 0, Zeros)
          IN [st |-> Outputted(d1, out), out |-> out]

\* read_byte_block
ByteBlock(d, pos) ==
  LET inp == d.input
      row == ByteDecodeTrees[d.tree]
      bc == ByteBlockCount(inp, pos)
      lit(a, j) ==         \* a = <<pos, hist, bytes>>
        LET bi == ByteIndex(inp, row, a[1])
            v == ZVar(inp, ByteRanges[bi[1] + 1], bi[2])
            b == a[2][v[1] + 1]
        IN << v[2], MtfAt(a[2], v[1] + 1), Append(a[3], b) >>
      r == FoldLeft(lit, << bc[2], d.hist, <<>> >>, IdxTo(bc[1]))
      d1 == [d EXCEPT !.pos = r[1], !.hist = r[2], !.win = WPush(d.win, r[3], Pm1W), !.opos = @ + bc[1]]
  IN IF bc[1] = MaxByteBlockLen THEN [st |-> d1, out |-> r[3]]
     ELSE LET c == CopyCommand(d1, d1.pos)
          IN IF c.out = <<>> THEN c ELSE [st |-> c.st, out |-> r[3] \o c.out]

Pm1Read(st) ==
  LET inp == st.input
      d == IF st.tree = 0 THEN [st EXCEPT !.tree = ZBits(inp, st.pos, 5) + 1, !.pos = @ + 5] ELSE st
  IN IF ZBit(inp, d.pos) = 0 THEN CopyCommand(d, d.pos + 1) ELSE ByteBlock(d, d.pos + 1)
=====================================================================================
