SPECIFICATION TSpec
CONSTANTS
  MAXSFX = 262144
  LB = 24
  FIXED_SKIP = TRUE
VIEW TView
POSTCONDITION Accepted
CHECK_DEADLOCK FALSE
