--------------------------------- MODULE PathCollapse --------------------------------
(* collapse_path of lib/lha_file_header.c as the in-place state machine it is (read pointer r,
   write pointer w, start of the current component `currpath`), next to the declarative normal
   form Header!Collapse.  One Step per character read. *)
EXTENDS Header

\* the string after the optional leading '/', which the C function skips and keeps
CBody(str) == IF Len(str) > 0 /\ str[1] = SLASH THEN Tail(str) ELSE str
CLead(str) == IF Len(str) > 0 /\ str[1] = SLASH THEN <<SLASH>> ELSE <<>>

\* walk back from w0 to the start of the previous component: the largest w <= w0 that is 0 or
\* preceded by a '/'
WalkBack(out, w0) == CHOOSE w \in 0..w0 : (w = 0 \/ out[w] = SLASH) /\ \A v \in (w + 1)..w0 : ~(v = 0 \/ out[v] = SLASH)

\* state a = <<out, cp>>: out = the characters written so far (w = Len(out)), cp = currpath offset
CStep(a, ch) ==
  LET out == Append(a[1], ch)  cp == a[2]  w == Len(out) IN
  IF ch # SLASH THEN <<out, cp>>
  ELSE LET len == w - cp - 1 IN
       IF len = 0 \/ (len = 1 /\ out[cp + 1] = 46) THEN <<SubSeq(out, 1, cp), cp>>
       ELSE IF len = 2 /\ out[cp + 1] = 46 /\ out[cp + 2] = 46
            THEN IF cp = 0 THEN << <<>>, 0 >>
                 ELSE LET w2 == WalkBack(out, cp - 1) IN <<SubSeq(out, 1, w2), w2>>
       ELSE <<out, w>>
CollapseC(str) == CLead(str) \o FoldLeft(CStep, << <<>>, 0 >>, CBody(str))[1]
=====================================================================================
