SPECIFICATION Spec
CONSTANTS
  CSET <- Basis16
  BSET <- AllB
  ALPHA = {0}
  MAXLEN = 0
  MODE = "pairs"
INVARIANTS StepEqTStep LinearOnPair
CHECK_DEADLOCK FALSE
