SPECIFICATION TSpec
POSTCONDITION Accepted
CHECK_DEADLOCK FALSE
