SPECIFICATION Spec
CONSTANT N = 5
INVARIANTS ConfinedBeforeDeferred CanaryIntact DeferredOrdered NoEarlyDanger
VIEW MCView
CHECK_DEADLOCK FALSE
