-------------------------------- MODULE MC_Codec_Lzs --------------------------------
(* Bounded check of Codec_Lzs (and with it Codec_Window and Codec_Bits) on a scaled-down ring:
   for ALL command lists of length <= MAXCMDS over literals Lits and copies (p, n) with every ring
   position p < W plus a few p >= W (the C code reduces modulo W) and every 4-bit length n in Lens,

       the output of  LzsRead*  on the encoded bit stream                  (the production model,
                                                                            LzsW/LzsStart/MergeAt overridden)
     = the output of a transcription of lzs_decoder.c's output_byte /
       output_block over an explicit ring array                            (RingRun)
     = the plain LZ77 expansion over the virtual history                   (PlainRun: V := V \o <<V[|V|-d]>>)

   and LzsRead returns exactly one chunk per command and then 0 (end of input), and the ring array
   RingOf(win) the model stands for equals the transcription's array at the end.
   One state per command list, no transitions.  The cfg overrides LzsW <- W, LzsStart <- Start,
   MergeAt <- SmallMerge (so that the two-level history merges and trims within three commands). *)
EXTENDS Codec_Lzs, TLC
CONSTANTS W, MAXCMDS, Lits, Lens, SmallMerge
Start == W - 3
Positions == (0..(W - 1)) \cup {W + 1, 2047}
Cmds == {<<"L", b, 0>> : b \in Lits} \cup {<<"C", p, n>> : p \in Positions, n \in Lens}
VARIABLE cmds
Init == cmds \in UNION {[1..k -> Cmds] : k \in 0..MAXCMDS}
Next == UNCHANGED cmds
Spec == Init /\ [][Next]_cmds

\* ---- encoder: 1 bbbbbbbb | 0 ppppppppppp llll
BitsOfNum(v, n) == [k \in 1..n |-> (v \div 2^(n - k)) % 2]
CmdBits(c) == IF c[1] = "L" THEN <<1>> \o BitsOfNum(c[2], 8) ELSE <<0>> \o BitsOfNum(c[2], 11) \o BitsOfNum(c[3], 4)
\* pad with 1 bits: a trailing "1" plus up to 6 more bits is an incomplete literal - the decoder must stop there
Encoded ==
  LET bits == FoldLeft(LAMBDA a, c : a \o CmdBits(c), <<>>, cmds)
      padded == bits \o [k \in 1..((8 - (Len(bits) % 8)) % 8) |-> 1]
  IN [i \in 1..(Len(padded) \div 8) |->
        128 * padded[8*i-7] + 64 * padded[8*i-6] + 32 * padded[8*i-5] + 16 * padded[8*i-4]
        + 8 * padded[8*i-3] + 4 * padded[8*i-2] + 2 * padded[8*i-1] + padded[8*i]]

\* ---- the production model, called until it returns 0
ModelRun ==
  LET step(a, k) == IF a.done THEN a
                    ELSE LET r == LzsRead(a.st) IN
                         IF r.out = <<>> THEN [a EXCEPT !.done = TRUE, !.st = r.st]
                         ELSE [a EXCEPT !.st = r.st, !.chunks = Append(@, r.out)]
  IN FoldLeft(step, [st |-> LzsInit(Encoded), chunks |-> <<>>, done |-> FALSE], IdxTo(MAXCMDS + 2))

\* ---- transcription of the C ring buffer code
InitRing == [i \in 0..(W - 1) |-> 32]
OutputByte(r, b) == [ring |-> [r.ring EXCEPT ![r.pos] = b], pos |-> (r.pos + 1) % W, out |-> Append(r.out, b)]
OutputBlock(r, start, len) == FoldLeft(LAMBDA a, i : OutputByte(a, a.ring[(start + i - 1) % W]), r, IdxTo(len))
RingRun == FoldLeft(LAMBDA r, c : IF c[1] = "L" THEN OutputByte(r, c[2]) ELSE OutputBlock(r, c[2], c[3] + LzsThreshold),
                    [ring |-> InitRing, pos |-> Start, out |-> <<>>], cmds)

\* ---- plain LZ77 over the virtual history (initial ring in ring order, oldest first, then the output)
V0 == [k \in 1..W |-> 32]
PlainCopy(v, d, cnt) == FoldLeft(LAMBDA a, i : Append(a, a[Len(a) - d]), v, IdxTo(cnt))
PlainRun == FoldLeft(LAMBDA v, c : IF c[1] = "L" THEN Append(v, c[2])
                                   ELSE PlainCopy(v, ((Start + Len(v) - W) + 2 * W - 1 - (c[2] % W)) % W, c[3] + LzsThreshold),
                     V0, cmds)

Flat(chunks) == FoldLeft(LAMBDA a, c : a \o c, <<>>, chunks)

\* one invariant (so that the three runs are evaluated once per state)
Agree ==
  LET m == ModelRun
      r == RingRun
      p == PlainRun
  IN /\ Flat(m.chunks) = r.out                                   \* SameOutput
     /\ r.out = SubSeq(p, W + 1, Len(p))
     /\ m.done /\ Len(m.chunks) = Len(cmds)                      \* OneChunkPerCommand
     /\ RingOf(m.st.win, W, Start, Spaces) = r.ring              \* SameRing
     /\ WPos(m.st.win, W, Start) = r.pos
=====================================================================================
