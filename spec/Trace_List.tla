---------------------------------- MODULE Trace_List ----------------------------------
(* C19 / C18 on the list commands: each trace line is one invocation of `lha l|lv|v|vv[q]` with the
   header records of the archive as the library returns them and the bytes the tool wrote to
   stdout; the spec requires stdout = ListOutput!Listing(...) byte for byte, and that every byte
   written is printable ASCII, LF, CR or TAB. *)
EXTENDS ListOutput, TLC, Json, IOUtils
Trc == ndJsonDeserialize(IOEnv.TRACE)
VARIABLE l
Ev == Trc[l]
Chk(what, cond) == IF cond THEN TRUE ELSE PrintT(<<"MISMATCH", what, "line", l>>) /\ FALSE
FirstDiff(a, b) == IF \E i \in 1..Len(a) : i > Len(b) \/ a[i] # b[i]
                   THEN CHOOSE i \in 1..Len(a) : (i > Len(b) \/ a[i] # b[i]) /\ \A j \in 1..(i - 1) : j <= Len(b) /\ a[j] = b[j]
                   ELSE Len(a) + 1
TInit == l = 1
TList == /\ l <= Len(Trc) /\ Ev.e = "List" /\ l' = l + 1
         /\ LET want == Listing(Ev.members, [mode |-> Ev.mode, quiet |-> Ev.quiet, now |-> Ev.now, mtime |-> Ev.mtime,
                                             filters |-> Ev.filters, totalratio |-> Ev.totalratio])
            IN /\ Chk("C18: byte outside printable ASCII / LF / CR / TAB on stdout", \A i \in 1..Len(Ev.out) : Printable(Ev.out[i]))
               /\ IF want = Ev.out THEN TRUE
                  ELSE PrintT(<<"MISMATCH", "C19: listing differs at byte", FirstDiff(want, Ev.out), "line", l>>) /\ PrintT(<<"WANT", want>>) /\ FALSE
\* any other command: only the C18 invariant on what was written (stdout and stderr)
TOut == /\ l <= Len(Trc) /\ Ev.e = "Out" /\ l' = l + 1
        /\ Chk("C18: byte outside printable ASCII / LF / CR / TAB", \A i \in 1..Len(Ev.out) : Printable(Ev.out[i]))
TSpec == TInit /\ [][TList \/ TOut]_l
Accepted == LET dd == TLCGet("stats").diameter - 1
            IN IF dd = Len(Trc) THEN TRUE ELSE PrintT(<<"REJECTED_AT_LINE", dd + 1>>) /\ FALSE
========================================================================================
