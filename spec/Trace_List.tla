---------------------------------- MODULE Trace_List ----------------------------------
(* C19 / C18 on the list commands: each trace line is one invocation of `lha l|lv|v|vv[q]` with the
   header records of the archive as the library returns them and the bytes the tool wrote to
   stdout; the spec requires stdout = ListOutput!Listing(...) byte for byte, and that every byte
   written is printable ASCII, LF, CR or TAB. *)
EXTENDS ListOutput, TLC, Json, IOUtils
Trc == ndJsonDeserialize(IOEnv.TRACE)
VARIABLE l
Ev == Trc[l]
Chk(what, cond) == IF cond THEN TRUE ELSE PrintT(<<"MISMATCH", what, "line", l>>) /\ FALSE
FirstDiff(a, b) == IF \E i \in 1..Len(a) : i > Len(b) \/ a[i] # b[i]
                   THEN CHOOSE i \in 1..Len(a) : (i > Len(b) \/ a[i] # b[i]) /\ \A j \in 1..(i - 1) : j <= Len(b) /\ a[j] = b[j]
                   ELSE Len(a) + 1
(* members of generated archives carry the bytes of their header (`rawhdr`): the record the rows are rendered from must be what Header!Parse
   makes of those bytes - so a row is checked against the archive, not merely against what the library says the archive contains *)
H == INSTANCE Header
RecordIsParse(m) ==
  IF "rawhdr" \notin DOMAIN m THEN TRUE
  ELSE LET p == H!Parse(m.rawhdr) IN
       /\ Chk("C19: the member's header is well-formed but the record differs (not returned as encoded)", p.ok)
       /\ Chk("C19: record field differs from the encoded header",
              /\ p.level = m.level /\ p.method = m.method /\ p.os = m.os /\ p.crc = m.crc /\ p.packed = m.packed /\ p.length = m.length
              /\ p.time = m.time /\ p.path = m.path /\ p.filename = m.filename /\ p.target = m.target
              /\ <<p.hasperms, p.hasids, p.hasos9>> = <<m.hasperms, m.hasids, m.hasos9>>
              /\ (p.hasperms => p.perms = m.perms) /\ (p.hasids => (p.uid = m.uid /\ p.gid = m.gid)) /\ (p.hasos9 => p.os9 = m.os9))
TInit == l = 1
TList == /\ l <= Len(Trc) /\ Ev.e = "List" /\ l' = l + 1
         /\ LET want == Listing(Ev.members, [mode |-> Ev.mode, quiet |-> Ev.quiet, now |-> Ev.now, mtime |-> Ev.mtime,
                                             filters |-> Ev.filters, totalratio |-> Ev.totalratio])
            IN /\ \A i \in 1..Len(Ev.members) : RecordIsParse(Ev.members[i])
               /\ Chk("C18: byte outside printable ASCII / LF / CR / TAB on stdout", \A i \in 1..Len(Ev.out) : Printable(Ev.out[i]))
               /\ IF want = Ev.out THEN TRUE
                  ELSE PrintT(<<"MISMATCH", "C19: listing differs at byte", FirstDiff(want, Ev.out), "line", l>>) /\ PrintT(<<"WANT", want>>) /\ FALSE
\* any other command: only the C18 invariant on what was written (stdout and stderr)
TOut == /\ l <= Len(Trc) /\ Ev.e = "Out" /\ l' = l + 1
        /\ Chk("C18: byte outside printable ASCII / LF / CR / TAB", \A i \in 1..Len(Ev.out) : Printable(Ev.out[i]))
TSpec == TInit /\ [][TList \/ TOut]_l
Accepted == LET dd == TLCGet("stats").diameter - 1
            IN IF dd = Len(Trc) THEN TRUE ELSE PrintT(<<"REJECTED_AT_LINE", dd + 1>>) /\ FALSE
========================================================================================
