SPECIFICATION FairSpec
CONSTANTS
  MAXSFX = 262144
  LB = 24
  FIXED_SKIP = TRUE
  MODE = "scan"
  MAXP = 40
  SHORTREADS = TRUE
  MAXSKIP = 0
  DATALEN = 0
INVARIANTS FoundRight NeverFails LeadinBounded
PROPERTIES ScanTerminates
CHECK_DEADLOCK FALSE
