SPECIFICATION TSpec
CONSTANTS
  FIXED = TRUE
  CHECK_LEAKS = TRUE
INVARIANTS RefsAreOwners HeadersAtBoundaries NormalIsBasic DeferredOrdered DeferOnlyAtEnd DecoderOnlyForNormal
PROPERTIES EofStickyT
POSTCONDITION Accepted
CHECK_DEADLOCK FALSE
