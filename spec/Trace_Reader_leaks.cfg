SPECIFICATION TSpec
CONSTANTS
  FIXED = FALSE
  CHECK_LEAKS = TRUE
INVARIANTS RefsAreOwners HeadersAtBoundaries NormalIsBasic DeferredOrdered DeferOnlyAtEnd DecoderOnlyForNormal
PROPERTIES EofStickyT
POSTCONDITION Accepted
CHECK_DEADLOCK FALSE
