SPECIFICATION TSpec
CONSTANTS
  FIXED = TRUE
  CHECK_WORK = FALSE
  CHECK_LEAKS = TRUE
INVARIANTS RefsAreOwners HeadersAtBoundaries NormalIsBasic DeferredOrdered DeferOnlyAtEnd DecoderOnlyForNormal
PROPERTIES EofStickyT
VIEW TView
POSTCONDITION Accepted
CHECK_DEADLOCK FALSE
