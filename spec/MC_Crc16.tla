---------------------------------- MODULE MC_Crc16 ---------------------------------
(* Bounded models for Crc16.
   MODE "pairs"    : every initial state is one (c, b) pair; invariant StepEqTStep.  With
                     CSET = 0..65535, BSET = 0..255 this is all 2^24 pairs.
   MODE "feed"     : all ways of feeding all buffers over ALPHA up to MAXLEN in pieces.
   MODE "export"   : writes Tab as JSON for the C driver (the driver never reads the C table).  *)
EXTENDS Crc16Feed, TLC, FiniteSets, Json, IOUtils
CONSTANTS CSET, BSET, ALPHA, MAXLEN, MODE

VARIABLES c, b, hist
vars == <<reg, fed, c, b, hist>>
GENLEN == 6

Basis16 == {0} \cup {2^i : i \in 0..15}
Basis8  == {0} \cup {2^i : i \in 0..7}

\* shards for parallel exhaustive runs: 16 TLC processes, one residue class each
Shard == CHOOSE i \in 0..15 : ToString(i) = IOEnv.SHARD
AllB == 0..255
AllC == 0..65535
ShardC == {x \in 0..65535 : x % 16 = Shard}
AlphaQ == {0, 1, 255}

Pieces == UNION {[1..n -> ALPHA] : n \in 0..2}

Init == /\ CInit
        /\ IF MODE \in {"pairs", "burst"} THEN c \in CSET /\ b \in BSET
           ELSE c = 0 /\ b = 0
        /\ hist = <<>>

Next == /\ MODE = "feed" /\ Len(fed) < MAXLEN
        /\ \E p \in Pieces : Len(fed) + Len(p) <= MAXLEN /\ Feed(p)
        /\ UNCHANGED <<c, b, hist>>

\* generator (simulation mode): random pieces of random length, history of (piece, register)
\* (k keeps the expressions non-constant: TLC pre-evaluates constant-level subexpressions once)
RandPiece(k) == LET n == RandomElement(IF k >= 0 THEN {0, 1, 2, 3, 7, 16, 33, 64} ELSE {})
                IN [i \in 1..n |-> RandomElement(IF k + i >= 0 THEN 0..255 ELSE {})]
GenNext == /\ MODE = "gen" /\ Len(hist) < GENLEN
           /\ \E p \in {TLCEval(RandPiece(Len(hist)))} :
                 /\ Feed(p)
                 /\ hist' = Append(hist, [piece |-> p, reg |-> CrcFrom(reg, p)])
           /\ UNCHANGED <<c, b>>
GenSpec == Init /\ [][GenNext]_vars
GenEmit == (Len(hist) = GENLEN) => PrintT(<<"VEC", ToJson(hist)>>)

Spec == Init /\ [][Next]_vars

StepEqTStep == Step(c, b) = TStep(c, b)
InRange     == Step(c, b) \in 0..65535
\* the register never depends on how the bytes were split
FeedInv     == PiecewiseEqWhole

\* GF(2)-linearity of the definition on the 24-bit (state, byte) space: together with agreement
\* on the basis this extends StepEqTStep from the basis to all pairs (used by the quick tier,
\* the thorough tier simply enumerates all pairs)
LinearOnPair == \A c2 \in Basis16, b2 \in Basis8 :
                   Step(c ^^ c2, b ^^ b2) = Step(c, b) ^^ Step(c2, b2)
TabLinear == LET t == Tab IN \A i \in 0..255, j \in Basis8 : t[i ^^ j] = t[i] ^^ t[j]
ASSUME TabLinear

\* burst lemma (used by C07): a burst of at most 16 bits is never masked.  Shifting a non-zero
\* register through zero bytes never reaches zero, and a non-zero pattern of <= 16 bits spread
\* over at most 3 consecutive bytes (any alignment) fed from state 0 leaves a non-zero register.
ZeroStepInjective == (c # 0) => Step(c, 0) # 0

(* Burst lemma for C07.  A burst of width w <= 16 starting at bit offset o of a byte is a 24-bit
   pattern p * 2^o with p odd (first bit set), p < 2^w, and - for width exactly w - bit w-1 set.
   MODE "burst": one initial state per (p, o) with c = p (all odd 16-bit patterns cover every
   width 1..16) and b = o.  The three bytes are fed LSB-first as the reflected CRC consumes them. *)
BurstBytes(p, o) == LET v == p * (2 ^ o) IN <<v % 256, (v \div 256) % 256, (v \div 65536) % 256>>
BurstDetected == (MODE = "burst") => Crc(BurstBytes(c, b)) # 0
\* linearity in the data for equal lengths: CRC(x xor e) = CRC(x) xor CRC(e) - so a burst e is
\* detected whatever the data are, and trailing zero bytes cannot cancel it (ZeroStepInjective)
XorLinear3 == (MODE = "burst") =>
   \A x \in {<<0, 0, 0>>, <<1, 2, 3>>, <<255, 255, 255>>, <<170, 85, 7>>} :
      LET e == BurstBytes(c, b) IN
      Crc([i \in 1..3 |-> x[i] ^^ e[i]]) = Crc(x) ^^ Crc(e)
OddPatterns == {x \in 0..65535 : x % 2 = 1}
Offsets == 0..7
ShardOff == {Shard % 8}

ExportPost == JsonSerialize(IOEnv.CRC_TAB_OUT, [tab |-> [i \in 1..256 |-> Tab[i - 1]]])
====================================================================================
