--------------------------------- MODULE Codec_Lzs ----------------------------------
(* lib/lzs_decoder.c: LArc -lzs-.  A bit stream of commands:
       1 bbbbbbbb            literal byte
       0 ppppppppppp llll    copy l+2 bytes starting at ring position p (absolute, 11 bits)
   2 KiB ring, initially all spaces, write position starts at 2048 - 17.

   State [input, pos, win]: pos = bit position (Codec_Bits, deviation BitCache), win = history
   (Codec_Window, deviation TwoLevelHistory; ringbuf_pos = WPos(win, LzsW, LzsStart)).

   An absolute ring position p is the distance (ringbuf_pos - 1 - p) mod W behind the write
   position, so the copy is an LZ77 expansion (Codec_Window!RingCopy; MC_Codec_Lzs checks this
   module against a transcription of output_byte / output_block on small rings).

   End of input: read_bit / read_bits fail when fewer bits are left than asked for.  The C code
   reads pos and len *both* before it tests either, so a stream that ends inside the 11-bit
   position may still consume 4 bits for the length; invisible, because the call returns 0 and
   lha_decoder_read never calls again. *)
EXTENDS Naturals, Sequences, Codec_Bits, Codec_Window

LzsW == 2048
LzsStart == LzsW - 17
LzsThreshold == 2

LzsInit(input) == [input |-> input, pos |-> 0, win |-> EmptyWin]

LzsRead(st) ==
  LET inp == st.input
      fail(p) == [st |-> [st EXCEPT !.pos = p], out |-> <<>>]
      b0 == RdBits(inp, st.pos, 1)
  IN IF ~b0.ok THEN fail(st.pos)
     ELSE IF b0.v = 1
     THEN LET b == RdBits(inp, b0.pos, 8) IN
          IF ~b.ok THEN fail(b0.pos)
          ELSE [st |-> [st EXCEPT !.pos = b.pos, !.win = WPush(st.win, <<b.v>>, LzsW)], out |-> <<b.v>>]
     ELSE LET p == RdBits(inp, b0.pos, 11)
              n == RdBits(inp, p.pos, 4)          \* read even if p failed
          IN IF ~p.ok \/ ~n.ok THEN fail(n.pos)
             ELSE LET out == RingCopy(st.win, p.v, n.v + LzsThreshold, LzsW, LzsStart, Spaces)
                  IN [st |-> [st EXCEPT !.pos = n.pos, !.win = WPush(st.win, out, LzsW)], out |-> out]
=====================================================================================
