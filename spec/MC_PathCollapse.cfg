SPECIFICATION Spec
CONSTANT N = 8
INVARIANTS Equiv IsClean NoLonger Idempotent
CHECK_DEADLOCK FALSE
