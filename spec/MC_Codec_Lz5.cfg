SPECIFICATION Spec
CONSTANTS
  W = 8
  MAXCMDS = 3
  Lits = {1, 2}
  Lens = {0, 1, 2, 4, 5, 6, 15}
  SmallMerge = 3
  Lz5W <- W
  Lz5Start <- Start
  Lz5InitAt <- McInitAt
  MergeAt <- SmallMerge
INVARIANTS Agree
CHECK_DEADLOCK FALSE
