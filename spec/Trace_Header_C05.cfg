SPECIFICATION TSpec
CONSTANTS MODE = {"C05"}
INVARIANT Stats
VIEW TView
POSTCONDITION Accepted
CHECK_DEADLOCK FALSE
