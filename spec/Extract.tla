----------------------------------- MODULE Extract ------------------------------------
(* What `lha x` does to the file system, entry by entry (src/extract.c: file_full_path,
   make_parent_directories, extract_archived_file; lib/lha_reader.c: lha_reader_extract with the
   directory policy END_OF_DIR and deferred symbolic links), over FsModel.

   An entry is [k |-> "file" | "dir" | "link", p |-> path components (already normalised by the
   header parser: no '.', '..', empty or absolute components), t |-> link target as a path record,
   plen |-> length of the stored path (orders deferred links)].
   Each operator returns [f |-> file system, esc |-> a mutating call acted outside the extraction
   directory, ...]; `esc` is accumulated per call, so the confinement invariant speaks about every
   prefix of the sequence of calls. *)
EXTENDS FsModel

Path(comps) == [c |-> comps, abs |-> FALSE, trail |-> FALSE]
DangerousTarget(t) == t.abs \/ \E i \in 1..Len(t.c) : t.c[i] = ".."

\* one mutating call and its confinement
Mut(o, root) == [f |-> o.f, ok |-> o.res = "ok", esc |-> o.res = "ok" /\ ~Below(root, o.loc)]

(* make_parent_directories: for every proper prefix of the path: stat (following links); a
   directory is fine, nothing there -> mkdir 0755, anything else -> give up *)
MkParents(f, cwd, root, comps) ==
  LET step(a, i) ==
        IF ~a.ok THEN a
        ELSE LET pre == Path(SubSeq(comps, 1, i))
                 st  == Stat(a.f, cwd, pre, TRUE)
             IN IF st.res = "ok" THEN (IF st.ty = "dir" THEN a ELSE [a EXCEPT !.ok = FALSE])
                ELSE IF st.res = "ENOENT"
                     THEN LET m == Mut(Mkdir(a.f, cwd, pre, 493), root) IN [f |-> m.f, ok |-> m.ok, esc |-> a.esc \/ m.esc]
                     ELSE [a EXCEPT !.ok = FALSE]
  IN FoldLeft(step, [f |-> f, ok |-> TRUE, esc |-> FALSE], [i \in 1..(Len(comps) - 1) |-> i])

\* lha_arch_fopen: unlink, then open(O_CREAT|O_EXCL)
UnlinkCreate(f, cwd, root, comps, node) ==
  LET u == Mut(Unlink(f, cwd, Path(comps)), root)
      c == Mut(Create(u.f, cwd, Path(comps), node, FALSE), root)
  IN [f |-> c.f, ok |-> c.ok, esc |-> u.esc \/ c.esc]

InsertDeferred(dq, e) ==
  LET k == CHOOSE i \in 1..(Len(dq) + 1) :
              (\A j \in 1..(i - 1) : dq[j].plen > e.plen) /\ (i = Len(dq) + 1 \/ dq[i].plen <= e.plen)
  IN SubSeq(dq, 1, k - 1) \o <<e>> \o SubSeq(dq, k, Len(dq))

(* one entry from the archive: returns [f, deferred, esc] *)
DoEntry(f, cwd, root, dq, e) ==
  LET mp == MkParents(f, cwd, root, e.p) IN
  IF ~mp.ok THEN [f |-> mp.f, deferred |-> dq, esc |-> mp.esc]
  ELSE IF e.k = "dir"
       THEN LET m == Mut(Mkdir(mp.f, cwd, Path(e.p), 448), root) IN [f |-> m.f, deferred |-> dq, esc |-> mp.esc \/ m.esc]
  ELSE IF e.k = "file"
       THEN LET r == UnlinkCreate(mp.f, cwd, root, e.p, FileNode(384)) IN [f |-> r.f, deferred |-> dq, esc |-> mp.esc \/ r.esc]
  ELSE IF DangerousTarget(e.t)
       THEN LET r == UnlinkCreate(mp.f, cwd, root, e.p, FileNode(384))          \* placeholder file
            IN [f |-> r.f, deferred |-> IF r.ok THEN InsertDeferred(dq, e) ELSE dq, esc |-> mp.esc \/ r.esc]
  ELSE LET r == UnlinkCreate(mp.f, cwd, root, e.p, LinkNode(e.t.c, e.t.abs)) IN [f |-> r.f, deferred |-> dq, esc |-> mp.esc \/ r.esc]

(* a deferred symbolic link, at the end of the archive *)
DoDeferred(f, cwd, root, e) ==
  LET mp == MkParents(f, cwd, root, e.p) IN
  IF ~mp.ok THEN [f |-> mp.f, esc |-> mp.esc]
  ELSE LET r == UnlinkCreate(mp.f, cwd, root, e.p, LinkNode(e.t.c, e.t.abs)) IN [f |-> r.f, esc |-> mp.esc \/ r.esc]
=======================================================================================
