SPECIFICATION Spec
CONSTANTS
  FIXED = TRUE
  MAXN = 4
  FAULTS = 0
INVARIANTS Emit
CHECK_DEADLOCK FALSE
