------------------------------------- MODULE Glob -------------------------------------
(* Wildcard matching of the command line tool (src/filter.c, match_glob): '*' matches any run of
   characters, '?' exactly one, anything else itself.  Match is the declarative meaning, MatchC the
   transcription of the C function; MC_Glob checks that they agree. Patterns and strings are
   sequences of byte values; 42 = '*', 63 = '?'. *)
EXTENDS Naturals, Sequences
RECURSIVE Match(_, _)
Match(gl, st) == IF Len(gl) = 0 THEN Len(st) = 0
                 ELSE IF Head(gl) = 42 THEN \E k \in 0..Len(st) : Match(Tail(gl), SubSeq(st, k + 1, Len(st)))
                 ELSE Len(st) > 0 /\ (Head(gl) = 63 \/ Head(gl) = Head(st)) /\ Match(Tail(gl), Tail(st))

GC(gl, i) == IF i <= Len(gl) THEN gl[i] ELSE 0
RECURSIVE MatchC(_, _, _, _)
MatchC(gl, st, gi, si) ==
  IF si <= Len(st)
  THEN IF GC(gl, gi) = 42 THEN (IF MatchC(gl, st, gi + 1, si) THEN TRUE ELSE MatchC(gl, st, gi, si + 1))
       ELSE IF GC(gl, gi) = 63 \/ GC(gl, gi) = st[si] THEN MatchC(gl, st, gi + 1, si + 1)
       ELSE FALSE
  ELSE LET k == CHOOSE k \in gi..(Len(gl) + 1) : (\A j \in gi..(k - 1) : gl[j] = 42) /\ (k = Len(gl) + 1 \/ gl[k] # 42)
       IN k = Len(gl) + 1
\* a member is selected if there are no patterns or one of them matches its full path
Selected(filters, fullpath) == filters = <<>> \/ \E i \in 1..Len(filters) : Match(filters[i], fullpath)
========================================================================================
