----------------------------- MODULE Trace_InputStream ------------------------------
(* Trace validation of lha_input_stream_read / _skip (stream_drv.c) against InputStream.tla.
   Reset{data, kind}: the bytes of the source and the kind of stream.  For callback streams every
   source call made during an API call is logged and must be exactly the model's (request sizes
   and order - this is also the work bound of C13); for FILE streams only results are visible and
   the source is taken to deliver what is there. *)
EXTENDS InputStream, TLC, Json, IOUtils
Trc == ndJsonDeserialize(IOEnv.TRACE)
VARIABLES l, data, kind, s
tvars == <<l, data, kind, s>>
Ev == Trc[l]
IsEvent(e) == l <= Len(Trc) /\ Ev.e = e /\ l' = l + 1
Chk(what, cond) == IF cond THEN TRUE ELSE PrintT(<<"MISMATCH", what, "line", l>>) /\ FALSE

TInit == l = 1 /\ data = <<>> /\ kind = "cb" /\ s = [state |-> "INIT", leadin |-> <<>>, pos |-> 0]
TReset == /\ IsEvent("Reset") /\ data' = Ev.data /\ kind' = Ev.kind
          /\ s' = [state |-> "INIT", leadin |-> <<>>, pos |-> 0]

IsCb == kind \in {"cb", "cbns"}
Results(calls) == [i \in 1..Len(calls) |-> calls[i][3]]
Requests(calls) == [i \in 1..Len(calls) |-> calls[i][2]]
DetRs == [i \in 1..ScanBound(data) |-> 0]

TRead == /\ IsEvent("Read")
         /\ LET c == IF IsCb THEN ReadCall(data, s, Ev.n, Results(Ev.calls), FALSE)
                     ELSE ReadCall(data, s, Ev.n, DetRs, TRUE)
            IN /\ Chk("starved", c.s.state # "STARVED")
               /\ Chk("ok", c.ok = Ev.ok)
               /\ Chk("bytes", Ev.ok => c.bytes = Ev.bytes)
               /\ Chk("requests", IsCb => (c.reqs = Requests(Ev.calls) /\ c.used = Len(Ev.calls)))
               /\ Chk("ops", IsCb => \A i \in 1..Len(Ev.calls) : Ev.calls[i][1] = "r")
               /\ Chk("state", c.s.state = Ev.proj.state)
               /\ Chk("leadin", Len(c.s.leadin) = Ev.proj.leadin)
               /\ s' = c.s
         /\ UNCHANGED <<data, kind>>

SkipKind == IF kind = "cb" THEN "cbskip" ELSE IF kind = "cbns" THEN "cbread" ELSE IF kind = "FILE" THEN "seek" ELSE "pipe"
TSkip == /\ IsEvent("Skip")
         \* (skipping goes straight to the source in every state and leaves the lead-in buffer alone: SkipCall says the
         \*  same; the library itself only skips after a header read has drained the lead-in)
         /\ LET c == SkipCall(data, s, SkipKind, Ev.n, Results(Ev.calls))
            IN /\ Chk("skip.ok", c.ok = Ev.ok)
               /\ Chk("skip.requests", IsCb => (c.reqs = Requests(Ev.calls) /\ c.used = Len(Ev.calls)))
               /\ s' = c.s
         /\ UNCHANGED <<data, kind>>

TNext == TReset \/ TRead \/ TSkip
\* the source bytes are fixed between Resets: keep them out of the fingerprint
TView == <<l, kind, s>>
TSpec == TInit /\ [][TNext]_tvars
Accepted == LET dd == TLCGet("stats").diameter - 1
            IN IF dd = Len(Trc) THEN TRUE ELSE PrintT(<<"REJECTED_AT_LINE", dd + 1>>) /\ FALSE
=====================================================================================
