------------------------------ MODULE Codec_Lh1Groups -------------------------------
(* lhasa's maintenance of the -lh1- adaptive Huffman tree (lib/lh1_decoder.c) transcribed function
   by function, next to the DEFINITION of that code: Okumura/Yoshizaki's LZHUF.C (StartHuff /
   update / reconst), both parameterised by the alphabet size and the rebuild threshold so that
   small instances can be model-checked exhaustively (MC_Codec_Lh1Lock).

   Codec_Lh1.tla holds the same reference with NChar = 314 and MaxFreq = 32768 hard-wired (it is
   what real streams are validated against); the R* operators below are the same algorithm with
   the two numbers read from the state.  RInit(314, 32768) = StartHuff etc. is checked at full
   scale by a TLC evaluation (see MC_Codec_Lh1Lock, "full scale").

   The two "compile-time" numbers travel in the state records as fields nc and limit:
       nc     NUM_CODES          (C: 314)      N_CHAR  in LZHUF.C
       limit  TREE_REORDER_LIMIT (C: 0x8000)   MAX_FREQ in LZHUF.C
   NT = 2 nc - 1 nodes (NUM_TREE_NODES / T).  Requirements: 2 <= nc < limit <= 32768
   (nc < limit: otherwise the initial root weight nc is already at/over the threshold and the
   reference's test `freq[R] == MAX_FREQ` never fires; limit <= 32768: uint16_t never wraps).

   PART G  lhasa.  State = projection of LHALH1Decoder on the tree:
       nodes        [0..NT-1 -> [leaf : BOOLEAN, child_index, parent, freq, group]]
       leaf_nodes   [0..nc-1 -> node index]
       groups       [0..NT-1 -> group id]      the free list (a stack, top = num_groups)
       num_groups
       group_leader [0..NT-1 -> node index]
       fault        TRUE once the C code WOULD have indexed outside one of these arrays (the C
                    code has no such checks: reconstruct_tree's first inner loop decrements `leaf`
                    unchecked, alloc_group/free_group do not look at num_groups, increment_node_freq
                    forms &nodes[node_index - 1]).  Not a field of the C struct; never TRUE is an
                    invariant of MC_Codec_Lh1Lock.
     The struct is calloc'ed (lha_decoder.c), so fields never written read as 0 - in particular
     nodes[0].parent, which no function ever writes or reads.  Stale values (group_leader of freed
     groups, the allocated part of groups[]) are kept exactly as the C code leaves them.
     Every C loop is a FoldLeft over an index sequence that is an upper bound for its trip count.
     (TLCEval around function constructors only forces TLC to build the array instead of keeping
     a lambda that is re-evaluated on every access; it is the identity.)

   PART R  the reference.  State [nc, limit, freq, prnt, son] with the LZHUF.C arrays
       freq[0..T]  son[0..T-1]  prnt[0..T+nc-1]     (T = NT, R = T - 1 the root)

   Correspondence (what MC_Codec_Lh1Lock establishes): lhasa's node i is the reference's node
   R - i; child_index - bit is son[] + bit. *)
EXTENDS Integers, Sequences, SequencesExt, FiniteSets, TLC

Ix(n) == [k \in 1..n |-> k]                 \* <<1, ..., n>>, the index sequence of a loop
U16(x) == x % 65536                         \* (uint16_t) cast
GNT(nc) == 2 * nc - 1                       \* NUM_TREE_NODES

\* =====================================================================================
\* PART G - lib/lh1_decoder.c
\* =====================================================================================

GFault(st) == [st EXCEPT !.fault = TRUE]

\* alloc_group: <<state, result>>
GAllocGroup(st) ==
  IF st.num_groups >= GNT(st.nc) THEN << GFault(st), 0 >>                  \* groups[NUM_TREE_NODES]
  ELSE << [st EXCEPT !.num_groups = st.num_groups + 1], st.groups[st.num_groups] >>

\* free_group
GFreeGroup(st, group) ==
  IF st.num_groups = 0 THEN GFault(st)                                       \* groups[-1]
  ELSE [st EXCEPT !.num_groups = st.num_groups - 1, !.groups[st.num_groups - 1] = group]

\* init_groups
GInitGroups(st) ==
  [st EXCEPT !.groups = TLCEval([i \in 0..(GNT(st.nc) - 1) |-> U16(i)]), !.num_groups = 0]

\* init_tree
GInitTree(st0) ==
  LET NC == st0.nc
      NT == GNT(NC)
      a == GAllocGroup(st0)
      leaf_group == a[2]
      \* for (i = 0; i < NUM_CODES; ++i), node_index = NUM_TREE_NODES - 1 - i
      leafStep(st, k) ==
        LET i == k - 1
            ni == NT - 1 - i
        IN [st EXCEPT !.nodes[ni].leaf = TRUE,
                      !.nodes[ni].child_index = i,
                      !.nodes[ni].freq = 1,
                      !.nodes[ni].group = leaf_group,
                      !.group_leader[leaf_group] = U16(ni),
                      !.leaf_nodes[i] = U16(ni)]
      s1 == FoldLeft(leafStep, a[1], Ix(NC))
      \* while (node_index >= 0): m-th pass has node_index = NC - 1 - m, child = NT - 1 - 2 (m - 1)
      innerStep(st, m) ==
        LET ni == NC - 1 - m
            child == NT - 1 - 2 * (m - 1)
            fr == U16(st.nodes[child].freq + st.nodes[child - 1].freq)
            st1 == [st EXCEPT !.nodes[ni].leaf = FALSE,
                              !.nodes[ni].child_index = child,
                              !.nodes[child].parent = U16(ni),
                              !.nodes[child - 1].parent = U16(ni),
                              !.nodes[ni].freq = fr]
            al == IF fr = st1.nodes[ni + 1].freq
                  THEN << st1, st1.nodes[ni + 1].group >>
                  ELSE GAllocGroup(st1)
        IN [al[1] EXCEPT !.nodes[ni].group = al[2], !.group_leader[al[2]] = U16(ni)]
  IN FoldLeft(innerStep, s1, Ix(NC - 1))

\* lha_lh1_init (the tree part): calloc, init_groups, init_tree
GInit(NC, LIMIT) ==
  LET NT == GNT(NC)
      zero == [nc |-> NC, limit |-> LIMIT,
               nodes |-> TLCEval([i \in 0..(NT - 1) |-> [leaf |-> FALSE, child_index |-> 0, parent |-> 0,
                                                         freq |-> 0, group |-> 0]]),
               leaf_nodes |-> TLCEval([c \in 0..(NC - 1) |-> 0]),
               groups |-> TLCEval([i \in 0..(NT - 1) |-> 0]),
               num_groups |-> 0,
               group_leader |-> TLCEval([i \in 0..(NT - 1) |-> 0]),
               fault |-> FALSE]
  IN GInitTree(GInitGroups(zero))

\* make_group_leader: <<state, new index of the node>>
GMakeGroupLeader(st, node_index) ==
  LET group == st.nodes[node_index].group
      leader_index == st.group_leader[group]
  IN IF leader_index = node_index THEN << st, node_index >>
     ELSE LET node == st.nodes[node_index]
              leader == st.nodes[leader_index]
              \* swap leaf and child_index (freq and group are equal, parent stays with the slot)
              s1 == [st EXCEPT !.nodes[leader_index].leaf = node.leaf,
                               !.nodes[node_index].leaf = leader.leaf,
                               !.nodes[leader_index].child_index = node.child_index,
                               !.nodes[node_index].child_index = leader.child_index]
              \* re-point leaf_nodes[] / the children's parent at slot x
              fix(s, x) ==
                LET nd == s.nodes[x] IN
                IF nd.leaf THEN [s EXCEPT !.leaf_nodes[nd.child_index] = x]
                ELSE [s EXCEPT !.nodes[nd.child_index].parent = x,
                               !.nodes[nd.child_index - 1].parent = x]
          IN << fix(fix(s1, node_index), leader_index), leader_index >>

\* increment_node_freq
GIncrementNodeFreq(st0, node_index) ==
  IF node_index = 0 THEN GFault(st0)                 \* other = &nodes[-1] is dereferenced below
  ELSE
  LET NT == GNT(st0.nc)
      st == [st0 EXCEPT !.nodes[node_index].freq = U16(st0.nodes[node_index].freq + 1)]
      node == st.nodes[node_index]
      other == st.nodes[node_index - 1]
      shares == IF node_index < NT - 1 THEN node.group = st.nodes[node_index + 1].group ELSE FALSE
  IN IF shares
     THEN \* leaves its group: the next node becomes that group's leader
          LET s1 == [st EXCEPT !.group_leader[node.group] = U16(st.group_leader[node.group] + 1)]
          IN IF node.freq = other.freq
             THEN [s1 EXCEPT !.nodes[node_index].group = other.group]
             ELSE LET al == GAllocGroup(s1)
                  IN [al[1] EXCEPT !.nodes[node_index].group = al[2],
                                   !.group_leader[al[2]] = node_index]
     ELSE \* single-node group
          IF node.freq = other.freq
          THEN [GFreeGroup(st, node.group) EXCEPT !.nodes[node_index].group = other.group]
          ELSE st

(* reconstruct_tree.
   Loop 1 (gather): leaves to the front, in table order, weights halved rounding up; parent and
     group of the slots written are NOT touched (they keep what the slot held).
   Loop 2 (build): the C code is   while (i >= 0) { while (child - i < 2) COPY;
                                                    freq = ...; while (leaf >= nodes && freq >= leaf->freq) COPY;
                                                    BRANCH; }
     Every COPY and every BRANCH decrements i, so there are exactly NT of them, and which one
     happens at a given i depends only on (child - i, leaf, freq): once child - i >= 2 it stays so
     until the BRANCH, and freq does not change between the two inner loops (child is fixed and
     only .parent of nodes[child], nodes[child-1] is written).  So the nest is ONE fold over NT
     passes that does, at position i:   child - i < 2          -> COPY   (leaf NOT range-checked)
                                        leaf >= 0, freq >= lf  -> COPY
                                        otherwise              -> BRANCH.
     COPY is a struct assignment: parent and group travel with the leaf (both are overwritten
     later, except that slot 0 is always written by the last BRANCH, so nodes[0].parent survives).
   Loop 3: init_groups and one group per run of equal weights. *)
GReconstructTree(st0) ==
  LET NC == st0.nc
      NT == GNT(NC)
      gather(a, k) ==                        \* a = <<nodes, index `leaf` points at>>, i = k - 1
        LET nd == a[1][k - 1] IN
        IF nd.leaf
        THEN << [a[1] EXCEPT ![a[2]].leaf = TRUE,
                             ![a[2]].child_index = nd.child_index,
                             ![a[2]].freq = U16(nd.freq + 1) \div 2],
                a[2] + 1 >>
        ELSE a
      g1 == FoldLeft(gather, << st0.nodes, 0 >>, Ix(NT))
      build(a, k) ==
        IF a.fault THEN a
        ELSE
        LET i == a.i
            child == a.child
            leaf == a.leaf
            copy == [a EXCEPT !.nodes[i] = a.nodes[leaf],
                              !.leaf_nodes[a.nodes[leaf].child_index] = U16(i),
                              !.i = i - 1, !.leaf = leaf - 1]
        IN IF child - i < 2
           THEN IF leaf < 0 THEN [a EXCEPT !.fault = TRUE] ELSE copy        \* reads nodes[-1]
           ELSE LET freq == a.nodes[child].freq + a.nodes[child - 1].freq
                    more == IF leaf >= 0 THEN freq >= a.nodes[leaf].freq ELSE FALSE
                IN IF more THEN copy
                   ELSE [a EXCEPT !.nodes[i].leaf = FALSE,
                                  !.nodes[i].freq = U16(freq),
                                  !.nodes[i].child_index = U16(child),
                                  !.nodes[child].parent = U16(i),
                                  !.nodes[child - 1].parent = U16(i),
                                  !.i = i - 1, !.child = child - 2]
      b == FoldLeft(build, [nodes |-> g1[1], leaf_nodes |-> st0.leaf_nodes, i |-> NT - 1,
                            leaf |-> NC - 1, child |-> NT - 1, fault |-> FALSE], Ix(NT))
      s2 == GInitGroups([st0 EXCEPT !.nodes = b.nodes, !.leaf_nodes = b.leaf_nodes,
                                    !.fault = st0.fault \/ b.fault])
      al == GAllocGroup(s2)
      s3 == [al[1] EXCEPT !.nodes[0].group = al[2], !.group_leader[al[2]] = 0]
      grp(st, i) ==                          \* for (i = 1; i < NUM_TREE_NODES; ++i)
        IF st.nodes[i].freq = st.nodes[i - 1].freq
        THEN [st EXCEPT !.nodes[i].group = st.nodes[i - 1].group]
        ELSE LET x == GAllocGroup(st)
             IN [x[1] EXCEPT !.nodes[i].group = x[2], !.group_leader[x[2]] = U16(i)]
  IN FoldLeft(grp, s3, Ix(NT - 1))

\* increment_for_code.  Every pass of the while loop moves to a parent, i.e. to a smaller index (in a
\* well-formed table), so NT passes are an upper bound; a walk still going after that is a fault.
GIncrementForCode(st0, code) ==
  LET s1 == IF st0.nodes[0].freq >= st0.limit THEN GReconstructTree(st0) ELSE st0
      s2 == [s1 EXCEPT !.nodes[0].freq = U16(s1.nodes[0].freq + 1)]
      step(a, k) ==                          \* a = <<state, node_index>>
        IF a[2] = 0 THEN a
        ELSE LET m == GMakeGroupLeader(a[1], a[2])
                 s == GIncrementNodeFreq(m[1], m[2])
             IN << TLCEval(s), s.nodes[m[2]].parent >>
      r == FoldLeft(step, << s2, s2.leaf_nodes[code] >>, Ix(GNT(st0.nc)))
  IN IF r[2] # 0 THEN GFault(r[1]) ELSE r[1]           \* (still walking: parent pointers cycle)

GUpdate(st, sym) == GIncrementForCode(st, sym)

(* read_code's walk.  bits = the bits the stream delivers; [ok, sym, used]: ok = a leaf was reached
   within the given bits (otherwise read_bit fails), sym = its child_index, used = bits consumed. *)
GReadCode(st, bits) ==
  LET step(a, k) ==                          \* a = <<node_index, used, status 0 walking 1 leaf 2 no more bits>>
        IF a[3] # 0 THEN a
        ELSE IF st.nodes[a[1]].leaf THEN << a[1], a[2], 1 >>
        ELSE IF a[2] >= Len(bits) THEN << a[1], a[2], 2 >>
        ELSE << st.nodes[a[1]].child_index - bits[a[2] + 1], a[2] + 1, 0 >>
      r == FoldLeft(step, << 0, 0, 0 >>, Ix(Len(bits) + 1))
  IN [ok |-> r[3] = 1, sym |-> IF r[3] = 1 THEN st.nodes[r[1]].child_index ELSE 0, used |-> r[2]]

(* All codes at once: the tree as read_code sees it (nodes[].leaf and nodes[].child_index ONLY),
   expanded from the root: a work list of <<node index, bits from the root>>, the k-th pass expands
   the k-th entry.  A proper tree has NT entries after NT passes. *)
GWalkAll(st) ==
  LET NT == GNT(st.nc)
      step(w, k) ==
        IF k > Len(w) THEN w
        ELSE LET nd == st.nodes[w[k][1]] IN
             IF nd.leaf THEN w
             ELSE IF nd.child_index < 1 \/ nd.child_index > NT - 1 THEN w   \* would leave the array
             ELSE w \o << << nd.child_index, Append(w[k][2], 0) >>,
                          << nd.child_index - 1, Append(w[k][2], 1) >> >>
  IN FoldLeft(step, << << 0, << >> >> >>, Ix(NT))

\* sym -> sequence of the bit strings that read_code decodes to sym (one pass over the work list)
GCodeLists(st) ==
  LET w == GWalkAll(st)
      put(a, k) ==
        LET nd == st.nodes[w[k][1]] IN
        IF nd.leaf
        THEN IF nd.child_index \in DOMAIN a THEN [a EXCEPT ![nd.child_index] = Append(a[nd.child_index], w[k][2])] ELSE a
        ELSE a
  IN FoldLeft(put, [s \in 0..(st.nc - 1) |-> << >>], Ix(Len(w)))

NoCode == << 2 >>                            \* not a bit string
\* sym -> THE bit string that decodes to sym (NoCode if there is none or more than one)
GCodeTable(st) ==
  LET cl == GCodeLists(st)
      pick(a, k) == [a EXCEPT ![k - 1] = IF Len(cl[k - 1]) = 1 THEN cl[k - 1][1] ELSE NoCode]
  IN FoldLeft(pick, [s \in 0..(st.nc - 1) |-> NoCode], Ix(st.nc))
GCode(st, sym) == GCodeTable(st)[sym]

\* =====================================================================================
\* PART R - LZHUF.C
\* =====================================================================================
RT(nc) == 2 * nc - 1                         \* T
RRoot(nc) == 2 * nc - 2                      \* R

\* StartHuff
RInit(NC, LIMIT) ==
  LET T == RT(NC)
      R == RRoot(NC)
      f0 == TLCEval([k \in 0..T |-> IF k < NC THEN 1 ELSE 0])
      s0 == TLCEval([k \in 0..(T - 1) |-> IF k < NC THEN k + T ELSE 0])
      p0 == TLCEval([k \in 0..(T + NC - 1) |-> IF k >= T THEN k - T ELSE 0])
      \* i = 0; j = N_CHAR; while (j <= R) {...; i += 2; j++}
      step(a, m) ==
        LET i == 2 * (m - 1)
            j == NC + m - 1
        IN [a EXCEPT !.freq[j] = a.freq[i] + a.freq[i + 1],
                     !.son[j] = i,
                     !.prnt[i] = j, !.prnt[i + 1] = j]
      t == FoldLeft(step, [nc |-> NC, limit |-> LIMIT, freq |-> f0, prnt |-> p0, son |-> s0], Ix(NC - 1))
  IN [t EXCEPT !.freq[T] = 65535, !.prnt[R] = 0]

\* reconst
RReconst(t0) ==
  LET NC == t0.nc
      T == RT(NC)
      \* collect leaf nodes in the first half of the table, replacing freq by (freq + 1) / 2
      collect(a, q) ==                       \* a = <<freq, son, j>>, i = q - 1
        LET i == q - 1 IN
        IF a[2][i] >= T
        THEN << [a[1] EXCEPT ![a[3]] = (a[1][i] + 1) \div 2], [a[2] EXCEPT ![a[3]] = a[2][i]], a[3] + 1 >>
        ELSE a
      c1 == FoldLeft(collect, << t0.freq, t0.son, 0 >>, Ix(T))
      \* for (i = 0, j = N_CHAR; j < T; i += 2, j++)
      connect(a, m) ==                       \* a = <<freq, son>>
        LET i == 2 * (m - 1)
            j == NC + m - 1
            f == a[1][i] + a[1][i + 1]
            fq == [a[1] EXCEPT ![j] = f]
            \* for (k = j - 1; f < freq[k]; k--);  k++
            scan(x, q) == IF x[2] THEN x ELSE IF f < fq[x[1]] THEN << x[1] - 1, FALSE >> ELSE << x[1], TRUE >>
            k == FoldLeft(scan, << j - 1, FALSE >>, Ix(j))[1] + 1
            \* memmove(&a[k + 1], &a[k], (j - k) elements); a[k] = v
            ins(arr, v) == TLCEval([x \in DOMAIN arr |-> IF x = k THEN v
                                                         ELSE IF x > k /\ x <= j THEN arr[x - 1] ELSE arr[x]])
        IN << ins(fq, f), ins(a[2], i) >>
      c2 == FoldLeft(connect, << c1[1], c1[2] >>, Ix(NC - 1))
      \* connect prnt
      par(p, q) ==
        LET i == q - 1
            k == c2[2][i]
        IN IF k >= T THEN [p EXCEPT ![k] = i] ELSE [p EXCEPT ![k] = i, ![k + 1] = i]
  IN [t0 EXCEPT !.freq = c2[1], !.son = c2[2], !.prnt = FoldLeft(par, t0.prnt, Ix(T))]

(* update: <<state, done>>.  Every pass of the do-while ends with c = prnt[c] (after c = l > c on an
   exchange), and parents have higher indices, so T passes are an upper bound; done = the loop
   has ended by then (prnt[] reached 0, i.e. passed the root). *)
RUpdateX(t0, sym) ==
  LET NC == t0.nc
      T == RT(NC)
      R == RRoot(NC)
      t1 == IF t0.freq[R] = t0.limit THEN RReconst(t0) ELSE t0
      step(a, q) ==                          \* a = <<state, c, done>>
        IF a[3] THEN a
        ELSE
        LET t == a[1]
            c == a[2]
            k == t.freq[c] + 1
            f1 == [t.freq EXCEPT ![c] = k]                                  \* k = ++freq[c]
        IN IF k > f1[c + 1]                                                 \* l = c + 1
           THEN LET \* while (k > freq[++l]); l--;   x = <<last index known to be lighter, done>>
                    scan(x, z) == IF x[2] THEN x
                                  ELSE IF k > f1[x[1] + 1] THEN << x[1] + 1, FALSE >> ELSE << x[1], TRUE >>
                    l == FoldLeft(scan, << c + 1, FALSE >>, Ix(T))[1]
                    f2 == [f1 EXCEPT ![c] = f1[l], ![l] = k]
                    i == t.son[c]
                    p1 == IF i < T THEN [t.prnt EXCEPT ![i] = l, ![i + 1] = l] ELSE [t.prnt EXCEPT ![i] = l]
                    j == t.son[l]
                    s1 == [t.son EXCEPT ![l] = i]
                    p2 == IF j < T THEN [p1 EXCEPT ![j] = c, ![j + 1] = c] ELSE [p1 EXCEPT ![j] = c]
                    s2 == [s1 EXCEPT ![c] = j]
                    up == p2[l]                                             \* c = l; c = prnt[c]
                IN << TLCEval([t EXCEPT !.freq = f2, !.prnt = p2, !.son = s2]), up, up = 0 >>
           ELSE << TLCEval([t EXCEPT !.freq = f1]), t.prnt[c], t.prnt[c] = 0 >>
      r == FoldLeft(step, << t1, t1.prnt[sym + T], FALSE >>, Ix(T))
  IN << r[1], r[3] >>
RUpdate(t0, sym) == RUpdateX(t0, sym)[1]

(* EncodeChar: k = prnt[c + T]; do { bit = k's position under its parent } while ((k = prnt[k]) != R),
   bits collected leaf to root, emitted root to leaf.  Bit of node k = k - son[prnt[k]]: DecodeChar
   goes from node p to son[p] + bit.  (LZHUF's EncodeChar takes k & 1 instead - the same because
   every son[] of an inner node is even; REvenSons in MC_Codec_Lh1Lock.) *)
RCode(t, sym) ==
  LET NC == t.nc
      T == RT(NC)
      R == RRoot(NC)
      step(a, q) ==                          \* a = <<k, bits so far (root-most first), done>>
        IF a[3] THEN a
        ELSE LET k == a[1]
                 p == t.prnt[k]
             IN << p, << k - t.son[p] >> \o a[2], p = R >>
      r == FoldLeft(step, << t.prnt[sym + T], << >>, t.prnt[sym + T] = R >>, Ix(NC))
  IN IF r[3] THEN r[2] ELSE NoCode
\* the same with EncodeChar's own bit rule
RCodeOdd(t, sym) ==
  LET NC == t.nc
      T == RT(NC)
      R == RRoot(NC)
      step(a, q) == IF a[3] THEN a ELSE << t.prnt[a[1]], << a[1] % 2 >> \o a[2], t.prnt[a[1]] = R >>
      r == FoldLeft(step, << t.prnt[sym + T], << >>, t.prnt[sym + T] = R >>, Ix(NC))
  IN IF r[3] THEN r[2] ELSE NoCode

\* DecodeChar: c = son[R]; while (c < T) { c += GetBit(); c = son[c]; }  return c - T.   [ok, sym, used]
RDecode(t, bits) ==
  LET T == RT(t.nc)
      step(a, q) ==                          \* a = <<c, used, status>>
        IF a[3] # 0 THEN a
        ELSE IF a[1] >= T THEN << a[1], a[2], 1 >>
        ELSE IF a[2] >= Len(bits) THEN << a[1], a[2], 2 >>
        ELSE << t.son[a[1] + bits[a[2] + 1]], a[2] + 1, 0 >>
      r == FoldLeft(step, << t.son[RRoot(t.nc)], 0, 0 >>, Ix(Len(bits) + 1))
  IN [ok |-> r[3] = 1, sym |-> IF r[3] = 1 THEN r[1] - T ELSE 0, used |-> r[2]]
\* =====================================================================================
\* CORRESPONDENCE
\* =====================================================================================
(* lhasa's node i IS the reference's node R - i (same weight, leaf for the same symbol / children
   R - son, R - son - 1, parent R - prnt; leaf_nodes[c] = R - prnt[T + c]), no fault, and every symbol
   of sample has the same code in both.  State-level (no variables): used by MC_Codec_Lh1Lock's
   full-scale evaluation and by Trace_Lh1Groups at every dump of the C struct. *)
FullLock(rr, gg, sample) ==
  LET nc == rr.nc
      t == RT(nc)
      rt == RRoot(nc)
      tab == GCodeTable(gg)
  IN /\ ~gg.fault
     /\ \A i \in 0..(t - 1) :
           LET nd == gg.nodes[i]
               k == rt - i
           IN /\ nd.freq = rr.freq[k]
              /\ IF nd.leaf THEN rr.son[k] = t + nd.child_index
                            ELSE rr.son[k] < t /\ nd.child_index = rt - rr.son[k]
              /\ (i # 0 => nd.parent = rt - rr.prnt[k])
     /\ \A c \in 0..(nc - 1) : gg.leaf_nodes[c] = rt - rr.prnt[t + c]
     /\ \A s \in sample : tab[s] # NoCode /\ tab[s] = RCode(rr, s)
=====================================================================================
