------------------------------ MODULE MC_Codec_Lh1Lock ------------------------------
(* LOCK-STEP of lhasa's -lh1- code tree (Codec_Lh1Groups part G: nodes[] in descending weight
   order, groups of equal weight, group leaders; transcribed from lib/lh1_decoder.c) with the
   definition of the code, LZHUF.C (part R: freq[]/prnt[]/son[]), for small alphabets and small
   rebuild thresholds: after EVERY sequence of decoded symbols both structures give every symbol
   the same code word - same length, same bits - through every weight increment, node exchange
   and periodic halving/rebuild.

   An instance is a record [nc, limit, depth]; Instances (a set of them, chosen by the cfg) are
   all explored in one run (variable inst, constant along a behaviour).
   Variables: inst; r (reference state); g (lhasa state); n (symbols decoded so far);
              rok (the reference's last update loop ended within its bound);
              last (the symbol decoded last, -1 initially; only to make error traces readable, not
              part of the VIEW).
   Next = decode ANY symbol s of the alphabet: r' = RUpdate(r, s), g' = GUpdate(g, s).

   Two ways to run it:
     MC_Codec_Lh1Lock.cfg    depth-bounded: VIEW <<inst, r, g, n, rok>>, CONSTRAINT n < inst.depth.
                             Every symbol sequence of length <= depth is explored; sequences of the
                             same length that lead to the same pair (r, g) are one state, which is
                             why nc^depth sequences need far fewer states.  (TLC evaluates the
                             invariants on the successors it then discards for the constraint, so
                             sequences of length exactly depth are checked too - tried with an
                             invariant n <= depth - 1, which fails.)
     MC_Codec_Lh1Lock_t.cfg  UNBOUNDED: VIEW <<inst, r, g, rok>>, no constraint.  The pair (r, g) has
                             finitely many values for a given (nc, limit) - all weights are below
                             limit + 1 - so TLC reaches a fixpoint = all symbol sequences of ALL
                             lengths for that instance.

   Invariants.
   (a) lock-step
     LockStep        for every symbol s: the unique bit string that lhasa's read_code walk (root,
                     child_index - bit, until .leaf) decodes to s  =  the reference's code of s
                     (leaf to root over prnt[], bit = position under the parent, reversed); and
                     there is such a string.
     DecodeAgrees    feeding that string to both decoders (GReadCode / RDecode) yields s and
                     consumes all of it.
     StructLock      the stronger, structural statement: lhasa's node i IS the reference's node
                     R - i: same weight, leaf for the same symbol / children R - son, R - son - 1,
                     parent R - prnt, leaf_nodes[c] = R - prnt[T + c], root weights equal.
   (b) the reference's own
     RSorted         freq[0..T-1] non-decreasing, freq[T] = 65535 the sentinel, all weights >= 1
     RParentSon      every son[] entry is a leaf code T + c or an inner index below its node, sons
                     of an inner node are adjacent (son, son + 1) and both name it as prnt; every
                     node except R is the son of exactly one node; prnt[T + c] is the leaf of c;
                     prnt[R] = 0; weight of an inner node = sum of its sons
     REvenSons       son[] of an inner node is even (EncodeChar's k & 1 = DecodeChar's + bit)
     RRootSum        freq[R] = sum of the leaf weights, and nc <= freq[R] <= limit
     RLoopEnds       update()'s do-while ended (reached prnt[] = 0) within T passes
   (c) lhasa's
     GNoFault        no out-of-range array access (see Codec_Lh1Groups: fault)
     GSorted         nodes[].freq non-increasing, all >= 1
     GGroups         two nodes are in the same group iff they have the same weight (with GSorted:
                     a group's members are contiguous and of equal weight, different runs have
                     different group ids)
     GLeader         group_leader[group of node i] = the first (lowest) index of that group
     GLeafNodes      nodes[leaf_nodes[s]] is a leaf with child_index s; every leaf is some
                     symbol's leaf_nodes entry (nc leaves)
     GParents        node 0 is the root and not a leaf; an inner node's children child_index,
                     child_index - 1 lie to its right and name it as parent; every node but 0 is
                     a child of exactly one node; inner weight = sum of the children
     GAllocator      num_groups = number of groups in use; the free part of groups[]
                     (groups[num_groups..]) lists exactly the unused group ids, each once
     GRootSum        nodes[0].freq = sum of the leaf weights, and nc <= nodes[0].freq <= limit

   (MC_Codec_Lh1Lock_d.cfg = the bounded run with the deeper instance set Deep.)
   Measured:  .cfg   (Quick)     see checks/c02_groups.py, 8 workers, about 20 s
              _d.cfg (Deep)      1,042,353 states generated, 210,138 distinct, 33 s with 16 workers
              _t.cfg (Thorough)  16,636,255 generated, 3,405,208 distinct, 6.5 min with 16 workers
   Each invariant was seen to fail on a deliberately wrong copy of Codec_Lh1Groups (tie rule of
   the rebuild, no leader swap, `>` for `>=` at the limit, halving rounded down, `>=` in the
   reference's search, flipped bit in read_code / in the walk, stale group_leader, no free_group).

   Full scale (nc = 314, limit = 32768) is a TLC evaluation, not a model: FullLock / FullScale at
   the end; how part G was compared with the compiled C code is described there. *)
EXTENDS Codec_Lh1Groups

CONSTANT Instances                      \* SUBSET [nc : Nat, limit : Nat, depth : Nat]
ASSUME \A I \in Instances : 2 <= I.nc /\ I.nc < I.limit /\ I.limit <= 32768

\* instance sets for the cfg files.  First update that rebuilds: number limit - nc + 1; afterwards the
\* root weight is about half the limit, so a rebuild every (limit - nc) / 2 or so symbols.
Quick == { [nc |-> 2, limit |-> 4, depth |-> 16],
           [nc |-> 3, limit |-> 6, depth |-> 12],
           [nc |-> 4, limit |-> 8, depth |-> 9],
           [nc |-> 5, limit |-> 8, depth |-> 7],
           [nc |-> 3, limit |-> 16, depth |-> 24],
           [nc |-> 4, limit |-> 12, depth |-> 14],
           [nc |-> 6, limit |-> 10, depth |-> 8],
           [nc |-> 9, limit |-> 12, depth |-> 5],
           [nc |-> 16, limit |-> 18, depth |-> 3] }
\* the same, deeper (MC_Codec_Lh1Lock_d.cfg)
Deep == { [nc |-> 2, limit |-> 4, depth |-> 16],
          [nc |-> 3, limit |-> 6, depth |-> 12],
          [nc |-> 4, limit |-> 8, depth |-> 9],
          [nc |-> 5, limit |-> 8, depth |-> 7],
          [nc |-> 3, limit |-> 16, depth |-> 24],
          [nc |-> 4, limit |-> 12, depth |-> 16],
          [nc |-> 6, limit |-> 10, depth |-> 9],
          [nc |-> 9, limit |-> 12, depth |-> 6],
          [nc |-> 16, limit |-> 18, depth |-> 4] }
\* depth is not used by the unbounded configuration
Thorough == { [nc |-> 2, limit |-> 32, depth |-> 0],
              [nc |-> 3, limit |-> 24, depth |-> 0],
              [nc |-> 4, limit |-> 16, depth |-> 0],
              [nc |-> 5, limit |-> 14, depth |-> 0],
              [nc |-> 6, limit |-> 12, depth |-> 0],
              [nc |-> 7, limit |-> 9, depth |-> 0],
              [nc |-> 8, limit |-> 10, depth |-> 0] }

VARIABLES inst, r, g, n, rok, last
vars == << inst, r, g, n, rok, last >>
ViewBounded == << inst, r, g, n, rok >>
ViewUnbounded == << inst, r, g, rok >>

Init == /\ inst \in Instances
        /\ r = RInit(inst.nc, inst.limit)
        /\ g = GInit(inst.nc, inst.limit)
        /\ n = 0
        /\ rok = TRUE
        /\ last = -1

Decode(s) == LET x == RUpdateX(r, s) IN
             /\ r' = x[1]
             /\ rok' = x[2]
             /\ g' = GUpdate(g, s)
             /\ n' = n + 1
             /\ last' = s
             /\ UNCHANGED inst

Next == \E s \in 0..(inst.nc - 1) : Decode(s)
Spec == Init /\ [][Next]_vars

DepthBound == n < inst.depth

\* ----------------------------------------------------------------------------- shorthands
Nc == inst.nc
Tt == RT(Nc)
Rt == RRoot(Nc)
Syms == 0..(Nc - 1)
RECURSIVE SumOver(_, _)
SumOver(f, S) == IF S = {} THEN 0 ELSE LET x == CHOOSE y \in S : TRUE IN f[x] + SumOver(f, S \ {x})   \* |S| <= nc

\* ----------------------------------------------------------------------------- (a)
LockStep ==
  LET tab == GCodeTable(g) IN
  \A s \in Syms : tab[s] # NoCode /\ tab[s] = RCode(r, s)

DecodeAgrees ==
  \A s \in Syms :
     LET b == RCode(r, s)
         dr == RDecode(r, b)
         dg == GReadCode(g, b)
     IN b # NoCode /\ RCodeOdd(r, s) = b
        /\ dr.ok /\ dr.sym = s /\ dr.used = Len(b)
        /\ dg.ok /\ dg.sym = s /\ dg.used = Len(b)

StructLock ==
  /\ \A i \in 0..(Tt - 1) :
        LET nd == g.nodes[i]
            k == Rt - i
        IN /\ nd.freq = r.freq[k]
           /\ IF nd.leaf THEN r.son[k] = Tt + nd.child_index
                         ELSE r.son[k] < Tt /\ nd.child_index = Rt - r.son[k]
           /\ (i # 0 => nd.parent = Rt - r.prnt[k])
  /\ \A c \in Syms : g.leaf_nodes[c] = Rt - r.prnt[Tt + c]

\* ----------------------------------------------------------------------------- (b)
RIsLeaf(k) == r.son[k] >= Tt
RSorted ==
  /\ \A k \in 0..(Tt - 2) : r.freq[k] <= r.freq[k + 1]
  /\ \A k \in 0..(Tt - 1) : r.freq[k] >= 1
  /\ r.freq[Tt] = 65535

RParentSon ==
  /\ \A k \in 0..(Tt - 1) :
        IF RIsLeaf(k) THEN r.son[k] < Tt + Nc /\ r.prnt[r.son[k]] = k
        ELSE /\ r.son[k] >= 0 /\ r.son[k] + 1 < k
             /\ r.prnt[r.son[k]] = k /\ r.prnt[r.son[k] + 1] = k
             /\ r.freq[k] = r.freq[r.son[k]] + r.freq[r.son[k] + 1]
  /\ \A c \in Syms : r.prnt[Tt + c] \in 0..(Tt - 1) /\ r.son[r.prnt[Tt + c]] = Tt + c
  /\ \A k \in 0..(Rt - 1) :        \* k is the son of exactly one node, and that is prnt[k]
        /\ r.prnt[k] \in (k + 1)..Rt
        /\ Cardinality({ p \in 0..Rt : ~RIsLeaf(p) /\ (r.son[p] = k \/ r.son[p] + 1 = k) }) = 1
        /\ ~RIsLeaf(r.prnt[k]) /\ (r.son[r.prnt[k]] = k \/ r.son[r.prnt[k]] + 1 = k)
  /\ r.prnt[Rt] = 0
  /\ ~RIsLeaf(Rt)

REvenSons == \A k \in 0..(Tt - 1) : RIsLeaf(k) \/ r.son[k] % 2 = 0

RRootSum ==
  /\ r.freq[Rt] = SumOver([c \in Syms |-> r.freq[r.prnt[Tt + c]]], Syms)
  /\ Nc <= r.freq[Rt] /\ r.freq[Rt] <= inst.limit

RLoopEnds == rok

\* ----------------------------------------------------------------------------- (c)
GNoFault == ~g.fault

GSorted ==
  /\ \A i \in 0..(Tt - 2) : g.nodes[i].freq >= g.nodes[i + 1].freq
  /\ \A i \in 0..(Tt - 1) : g.nodes[i].freq >= 1

GGroups ==
  \A i, j \in 0..(Tt - 1) : (g.nodes[i].group = g.nodes[j].group) <=> (g.nodes[i].freq = g.nodes[j].freq)

GLeader ==
  \A i \in 0..(Tt - 1) :
     LET grp == g.nodes[i].group IN
     IF grp \in 0..(Tt - 1)
     THEN LET ld == g.group_leader[grp] IN
          IF ld \in 0..i
          THEN g.nodes[ld].group = grp /\ \A m \in 0..(ld - 1) : g.nodes[m].group # grp
          ELSE FALSE
     ELSE FALSE

GLeafNodes ==
  /\ \A s \in Syms : LET i == g.leaf_nodes[s] IN
                     i \in 0..(Tt - 1) /\ g.nodes[i].leaf /\ g.nodes[i].child_index = s
  /\ Cardinality({ i \in 0..(Tt - 1) : g.nodes[i].leaf }) = Nc

GParents ==
  /\ ~g.nodes[0].leaf
  /\ \A i \in 0..(Tt - 1) :
        LET nd == g.nodes[i] IN
        nd.leaf \/ ( /\ nd.child_index - 1 > i /\ nd.child_index <= Tt - 1
                     /\ g.nodes[nd.child_index].parent = i /\ g.nodes[nd.child_index - 1].parent = i
                     /\ nd.freq = g.nodes[nd.child_index].freq + g.nodes[nd.child_index - 1].freq )
  /\ \A i \in 1..(Tt - 1) :
        /\ g.nodes[i].parent \in 0..(i - 1)
        /\ Cardinality({ p \in 0..(Tt - 1) : ~g.nodes[p].leaf
                                            /\ (g.nodes[p].child_index = i \/ g.nodes[p].child_index - 1 = i) }) = 1
        /\ LET p == g.nodes[g.nodes[i].parent] IN ~p.leaf /\ (p.child_index = i \/ p.child_index - 1 = i)

GAllocator ==
  LET used == { g.nodes[i].group : i \in 0..(Tt - 1) }
      free == { g.groups[k] : k \in g.num_groups..(Tt - 1) }
  IN /\ g.num_groups = Cardinality(used)
     /\ free = (0..(Tt - 1)) \ used
     /\ Cardinality(free) = Tt - g.num_groups

GRootSum ==
  /\ g.nodes[0].freq = SumOver([c \in Syms |-> g.nodes[g.leaf_nodes[c]].freq], Syms)
  /\ Nc <= g.nodes[0].freq /\ g.nodes[0].freq <= inst.limit

\* ----------------------------------------------------------------------------- statistics
\* how often the bound exercised the interesting paths is not observable from counts alone; this
\* invariant-shaped probe is FALSE in the state right after a rebuild and is used only by hand
\* (tlc ... with INVARIANT NoRebuildYet) to see that rebuilds are within the bounds.
NoRebuildYet == n < inst.limit - inst.nc + 1

(* ----------------------------------------------------------------------------- full scale
   FullLock(rr, gg, sample): StructLock's statement for arbitrary states (no variables), plus equal
   codes for the symbols in sample.  FullScale(nc, limit, syms, every): both structures driven by
   the symbol sequence syms, FullLock after every `every`-th symbol (root weights and fault flag
   after each): <<ok, index of the first failing symbol or 0, r, g>>.

   The binding of part G to the compiled C code is permanent since: harness/c/lh1groups_drv.c,
   Trace_Lh1Groups.tla, checks/c02_groups.py (which also runs this module).  First done by hand
   (2026-10-01): a driver that #includes lib/lh1_decoder.c (for small alphabets: a copy
   whose two #defines NUM_CODES / TREE_REORDER_LIMIT are taken from -D options), callocs the
   decoder, and either decodes a real stream with read_code/read_offset or calls
   increment_for_code on a generated sequence; it prints the symbols, the bits read_code consumed
   for each, and the complete nodes[]/leaf_nodes[]/groups[]/num_groups/group_leader[] every k
   symbols.  A TLC evaluation then folds GUpdate / RUpdateX (and Codec_Lh1!Update) over the
   symbols and requires, per symbol, GReadCode(g, bits) = RDecode(r, bits) = the symbol using all
   bits and RCode(r, sym) = bits; per dump, field-for-field equality of g with the C struct
   (stale entries included), FullLock(r, g, all symbols), and r = Codec_Lh1's hard-wired arrays.
     nc = 314, limit = 32768: all 5028 symbols of test/compressed/lh1.bin (11 dumps)   accepted, 4 s
                              70000 generated symbols, 3 rebuilds, 12 dumps (one right
                              after the first rebuild, update 32455)                     accepted, 16 s
     (nc, limit) = (2,4) (3,6) (3,9) (4,8) (5,8) (6,12) (7,9) (8,10) (16,18) (13,40): 2 x 3000
                              generated symbols each, dump after EVERY symbol, 180..2000
                              rebuilds per run                                           accepted
     negative control: one altered group_leader entry in a dump                          rejected *)
\* (FullLock is defined in Codec_Lh1Groups: Trace_Lh1Groups uses it too.)

\* <<ok, index of the first symbol after which FullLock failed (0 = none), r, g>>
FullScale(nc, limit, syms, every) ==
  LET step(a, k) ==
        IF ~a[1] THEN a
        ELSE LET x == RUpdateX(a[3], syms[k])
                 g2 == GUpdate(a[4], syms[k])
                 chk == IF k % every = 0 \/ k = Len(syms)
                        THEN x[2] /\ FullLock(x[1], g2, 0..(nc - 1))
                        ELSE x[2] /\ ~g2.fault /\ g2.nodes[0].freq = x[1].freq[RRoot(nc)]
             IN IF chk THEN << TRUE, 0, TLCEval(x[1]), TLCEval(g2) >> ELSE << FALSE, k, x[1], g2 >>
  IN FoldLeft(step, << TRUE, 0, RInit(nc, limit), GInit(nc, limit) >>, Ix(Len(syms)))
=====================================================================================
