----------------------------------- MODULE TreeModel -----------------------------------
(* C06 as a function: the tree that `lha x` / `lha e` must leave behind, computed from what the
   archive is meant to contain (the generator's items, in archive order), the options, the wildcard
   arguments, the files that were there before and the answers typed at the overwrite prompt.

   item: [pb |-> stored path as bytes (directories end in '/'), comps |-> its components,
          ty |-> "file" | "dir" | "link" | "unsafe", size, crc, mtime (<<hi, lo>> or <<-1>> = not
          guaranteed), mode (-1 = not guaranteed), traw |-> link target, hp |-> permissions are recorded]
   opts: [flat |-> option i, wd |-> components of w=DIR (<<>> = none), policy |-> "prompt" | "all"]
   pre:  what is present beforehand [comps, ty ("file" | "dir" | "link"), size, crc, mode, traw, live (a link: its target exists)]
   answers: first byte of each line typed on stdin (10 = empty line)

   A node of the result: [ty, size, crc, mtime, mode, traw]; -1 / <<-1>> = any value is acceptable.
   Rules (src/extract.c, lib/lha_reader.c):
     - only members whose stored path matches a wildcard argument are touched (all, if none given)
     - option i drops directories and reduces every path to its last component
     - missing parent directories are created with mode 0755 (umask 022)
     - a file that already exists is replaced only if the policy says so: `all` (options f, q), or
       the answer at the prompt: y = this one, a = this and all further ones, n / empty line = keep,
       s = keep this and all further ones, anything else = ask again; end of input at the prompt ends
       the tool at once (exit status 255): nothing further is extracted and directories still open keep
       the mode they were created with
     - a directory that already exists (because a file was there before, or because a wildcard selected a
       member below it before its own entry) keeps its mode and time: its entry changes nothing
     - links replace whatever non-directory was there; links with absolute or '..' targets are outside
       the guarantee (ty "unsafe": a link or its placeholder file)
     - owners (optional: item.own = <<uid, gid>> when the header records them, opts.me = the ids the tool runs with, opts.priv = it may give
       files away): whatever the tool creates belongs to the tool's user; a file whose header records owner ids is handed to them right after
       it is created (lha_arch_fopen: fchown before fchmod) and a directory when its metadata is applied (set_directory_metadata) - if the
       system allows it, which it does for a privileged user or when the ids are the tool's own; refusal is ignored.  Links, directories
       created on the way and placeholder files are never handed over. *)
EXTENDS Naturals, Sequences, SequencesExt, FiniteSets, Glob

ANY == -1
ANYT == <<-1>>
DirNodeX(mode, mtime, own) == [ty |-> "dir", size |-> 0, crc |-> 0, mtime |-> mtime, mode |-> mode, traw |-> "", live |-> TRUE, own |-> own]
OwnOf(it) == IF "own" \in DOMAIN it THEN it.own ELSE ANYT
MeOf(o) == IF "me" \in DOMAIN o THEN o.me ELSE ANYT
PrivOf(o) == "priv" \in DOMAIN o /\ o.priv
\* who owns what the entry `it` leaves behind
Owner(o, it) == IF MeOf(o) = ANYT THEN ANYT
                ELSE IF OwnOf(it) = ANYT \/ OwnOf(it) = MeOf(o) THEN MeOf(o)
                ELSE IF PrivOf(o) THEN OwnOf(it)
                ELSE IF OwnOf(it)[1] = MeOf(o)[1] THEN ANYT      \* own user, other group: allowed exactly if the user is a member of it
                ELSE MeOf(o)
Put(t, loc, nd) == [x \in DOMAIN t \cup {loc} |-> IF x = loc THEN nd ELSE t[x]]
Lower(b) == IF b >= 65 /\ b <= 90 THEN b + 32 ELSE b

\* creates the missing directories above loc, below base (base itself exists)
WithParents(t, base, loc, me) ==
  FoldLeft(LAMBDA a, k : LET d == SubSeq(loc, 1, k) IN IF d \in DOMAIN a THEN a ELSE Put(a, d, DirNodeX(493, ANYT, me)),
           t, [i \in 1..(IF Len(loc) - 1 > Len(base) THEN Len(loc) - 1 - Len(base) ELSE 0) |-> Len(base) + i])

\* the overwrite decision: [go |-> replace?, policy, answers]
RECURSIVE Ask(_, _)
Ask(policy, ans) ==
  IF policy = "all" THEN [go |-> TRUE, policy |-> policy, ans |-> ans]
  ELSE IF policy = "skip" THEN [go |-> FALSE, policy |-> policy, ans |-> ans]
  ELSE IF ans = <<>> THEN [go |-> FALSE, policy |-> "eof", ans |-> ans]      \* end of input at the prompt: the tool exits on the spot
  ELSE LET c == Lower(Head(ans)) IN
       CASE c = 121 -> [go |-> TRUE, policy |-> "prompt", ans |-> Tail(ans)]
         [] c \in {110, 10} -> [go |-> FALSE, policy |-> "prompt", ans |-> Tail(ans)]
         [] c = 97 -> [go |-> TRUE, policy |-> "all", ans |-> Tail(ans)]
         [] c = 115 -> [go |-> FALSE, policy |-> "skip", ans |-> Tail(ans)]
         [] OTHER -> Ask(policy, Tail(ans))

(* Directories are extracted in two stages (lib/lha_reader.c): created at once - with mode 0700 if permissions are
   recorded, so that a read-only directory can still be filled - and given their recorded mode and time when the first
   entry arrives whose stored directory part does not begin with the directory's stored path (a comparison of bytes, as
   the code does it), or at the end of the archive.  `stack` holds the directories created and not yet completed. *)
DirPart(pb) == LET sl == {i \in 1..Len(pb) : pb[i] = 47} IN
               IF sl = {} THEN <<>> ELSE SubSeq(pb, 1, CHOOSE i \in sl : \A j \in sl : j <= i)
BytesPrefix(a, b) == Len(a) <= Len(b) /\ SubSeq(b, 1, Len(a)) = a
Complete(t, d) == IF d.loc \in DOMAIN t /\ t[d.loc].ty = "dir" THEN Put(t, d.loc, DirNodeX(d.mode, d.mtime, d.own)) ELSE t
\* completes the directories on top of the stack that do not contain the entry whose directory part is dp (dp = <<-1>>: all)
RECURSIVE PopWhile(_, _, _)
PopWhile(t, stack, dp) ==
  IF stack = <<>> \/ (dp # <<-1>> /\ BytesPrefix(Head(stack).pb, dp)) THEN [tree |-> t, stack |-> stack]
  ELSE PopWhile(Complete(t, Head(stack)), Tail(stack), dp)

Step(base, opts, filters, st, it) ==
  IF st.policy = "eof" THEN st
  ELSE
  LET pp  == PopWhile(st.tree, st.stack, DirPart(it.pb))
      s1  == [st EXCEPT !.tree = pp.tree, !.stack = pp.stack]
  IN IF ~Selected(filters, it.pb) THEN s1
     ELSE IF opts.flat /\ it.ty = "dir" THEN s1
     ELSE
     LET loc == base \o opts.wd \o (IF opts.flat THEN <<it.comps[Len(it.comps)]>> ELSE it.comps)
         nd  == [ty |-> it.ty, size |-> it.size, crc |-> it.crc, mtime |-> it.mtime, mode |-> it.mode, traw |-> it.traw, live |-> TRUE,
                 own |-> IF it.ty = "file" THEN Owner(opts, it) ELSE IF it.ty = "link" THEN MeOf(opts) ELSE ANYT]
         t1  == WithParents(s1.tree, base, loc, MeOf(opts))
     IN IF it.ty = "dir"
        THEN IF loc \in DOMAIN s1.tree /\ s1.tree[loc].ty = "dir"
             THEN s1     \* ExistingDirLeftAlone: mkdir fails with EEXIST, the directory keeps its mode and time (extract_directory)
             ELSE [s1 EXCEPT !.tree = Put(t1, loc, DirNodeX(IF it.hp THEN 448 ELSE 493, ANYT, MeOf(opts))),
                             !.stack = <<[loc |-> loc, pb |-> it.pb, mode |-> it.mode, mtime |-> it.mtime, own |-> Owner(opts, it)]>> \o @]
        \* ("exists" is what stat says: a symbolic link counts if it leads somewhere - to a file or to a directory - and then the
        \*  link itself is what gets replaced, never what it points to; a dangling link is replaced without asking)
        \* (a directory where the file belongs also "exists": the question is asked, but whatever the answer a directory is not replaced -
        \*  unlink and the exclusive open both fail - so it stays, with everything in it)
        ELSE IF it.ty = "file" /\ loc \in DOMAIN s1.tree /\ s1.tree[loc].ty = "dir"
        THEN LET a == Ask(s1.policy, s1.ans) IN [s1 EXCEPT !.policy = a.policy, !.ans = a.ans]
        ELSE IF it.ty = "file" /\ loc \in DOMAIN s1.tree /\ (s1.tree[loc].ty = "file" \/ (s1.tree[loc].ty = "link" /\ s1.tree[loc].live))
        THEN LET a == Ask(s1.policy, s1.ans)
             IN [s1 EXCEPT !.tree = IF a.go THEN Put(t1, loc, nd) ELSE s1.tree, !.policy = a.policy, !.ans = a.ans]
        ELSE [s1 EXCEPT !.tree = Put(t1, loc, nd)]

ModelTree(base, items, opts, filters, pre, answers) ==
  LET me   == MeOf(opts)       \* (what is there beforehand belongs to the user the tool runs as)
      t0   == FoldLeft(LAMBDA a, p : Put(WithParents(a, base, base \o p.comps, me), base \o p.comps,
                                         IF p.ty = "dir" THEN DirNodeX(p.mode, ANYT, me)
                                         ELSE IF p.ty = "link" THEN [ty |-> "link", size |-> 0, crc |-> 0, mtime |-> ANYT, mode |-> ANY, traw |-> p.traw, live |-> p.live, own |-> me]
                                         ELSE [ty |-> "file", size |-> p.size, crc |-> p.crc, mtime |-> ANYT, mode |-> p.mode, traw |-> "", live |-> TRUE, own |-> me]),
                       << >>, pre)
      \* (the directory given with w= is created, with its parents, by the first entry extracted into it)
      fin  == FoldLeft(LAMBDA st, it : Step(base, opts, filters, st, it), [tree |-> t0, policy |-> opts.policy, ans |-> answers, stack |-> <<>>], items)
  IN IF fin.policy = "eof" THEN fin       \* the tool is gone: directories still open keep their provisional mode
     ELSE [fin EXCEPT !.tree = PopWhile(fin.tree, fin.stack, <<-1>>).tree, !.stack = <<>>]

NodeMatches(x, got) ==
  /\ (IF x.ty = "unsafe" THEN got.ty \in {"file", "link"} ELSE got.ty = x.ty)
  /\ (x.ty = "file" => (got.size = x.size /\ got.crc = x.crc))
  \* (a dangerous link that has not been made yet is an empty placeholder file that only its owner can read and write: extract_placeholder_symlink)
  /\ ((x.ty = "unsafe" /\ got.ty = "file") => (got.size = 0 /\ got.mode = 384))
  /\ (x.mtime # ANYT => got.mtime = x.mtime)
  /\ (x.mode # ANY => got.mode = x.mode)
  /\ (x.ty = "link" => got.traw = x.traw)
  /\ (x.own # ANYT => ("own" \in DOMAIN got /\ got.own = x.own))
=========================================================================================
