----------------------------------- MODULE TreeModel -----------------------------------
(* C06 as a function: the tree that `lha x` / `lha e` must leave behind, computed from what the
   archive is meant to contain (the generator's items, in archive order), the options, the wildcard
   arguments, the files that were there before and the answers typed at the overwrite prompt.

   item: [pb |-> stored path as bytes (directories end in '/'), comps |-> its components,
          ty |-> "file" | "dir" | "link" | "unsafe", size, crc, mtime (<<hi, lo>> or <<-1>> = not
          guaranteed), mode (-1 = not guaranteed), traw |-> link target]
   opts: [flat |-> option i, wd |-> components of w=DIR (<<>> = none), policy |-> "prompt" | "all"]
   pre:  files present beforehand [comps, size, crc, mode]
   answers: first byte of each line typed on stdin (10 = empty line)

   A node of the result: [ty, size, crc, mtime, mode, traw]; -1 / <<-1>> = any value is acceptable.
   Rules (src/extract.c, lib/lha_reader.c):
     - only members whose stored path matches a wildcard argument are touched (all, if none given)
     - option i drops directories and reduces every path to its last component
     - missing parent directories are created with mode 0755 (umask 022)
     - a file that already exists is replaced only if the policy says so: `all` (options f, q), or
       the answer at the prompt: y = this one, a = this and all further ones, n / empty line = keep,
       s = keep this and all further ones, anything else = ask again
     - a directory that already exists (because a file was there before, or because a wildcard selected a
       member below it before its own entry) keeps its mode and time: its entry changes nothing
     - links replace whatever non-directory was there; links with absolute or '..' targets are outside
       the guarantee (ty "unsafe": a link or its placeholder file) *)
EXTENDS Naturals, Sequences, SequencesExt, FiniteSets, Glob

ANY == -1
ANYT == <<-1>>
DirNodeX(mode, mtime) == [ty |-> "dir", size |-> 0, crc |-> 0, mtime |-> mtime, mode |-> mode, traw |-> ""]
Put(t, loc, nd) == [x \in DOMAIN t \cup {loc} |-> IF x = loc THEN nd ELSE t[x]]
Lower(b) == IF b >= 65 /\ b <= 90 THEN b + 32 ELSE b

\* creates the missing directories above loc, below base (base itself exists)
WithParents(t, base, loc) ==
  FoldLeft(LAMBDA a, k : LET d == SubSeq(loc, 1, k) IN IF d \in DOMAIN a THEN a ELSE Put(a, d, DirNodeX(493, ANYT)),
           t, [i \in 1..(IF Len(loc) - 1 > Len(base) THEN Len(loc) - 1 - Len(base) ELSE 0) |-> Len(base) + i])

\* the overwrite decision: [go |-> replace?, policy, answers]
RECURSIVE Ask(_, _)
Ask(policy, ans) ==
  IF policy = "all" THEN [go |-> TRUE, policy |-> policy, ans |-> ans]
  ELSE IF policy = "skip" THEN [go |-> FALSE, policy |-> policy, ans |-> ans]
  ELSE IF ans = <<>> THEN [go |-> FALSE, policy |-> "starved", ans |-> ans]  \* (end of input at the prompt ends the tool: not modelled, the
                                                                            \*  harness always types enough answers; see Starved)
  ELSE LET c == Lower(Head(ans)) IN
       CASE c = 121 -> [go |-> TRUE, policy |-> "prompt", ans |-> Tail(ans)]
         [] c \in {110, 10} -> [go |-> FALSE, policy |-> "prompt", ans |-> Tail(ans)]
         [] c = 97 -> [go |-> TRUE, policy |-> "all", ans |-> Tail(ans)]
         [] c = 115 -> [go |-> FALSE, policy |-> "skip", ans |-> Tail(ans)]
         [] OTHER -> Ask(policy, Tail(ans))

Step(base, opts, st, it) ==
  IF st.policy = "starved" THEN st
  ELSE IF opts.flat /\ it.ty = "dir" THEN st
  ELSE
  LET loc == base \o opts.wd \o (IF opts.flat THEN <<it.comps[Len(it.comps)]>> ELSE it.comps)
      nd  == [ty |-> it.ty, size |-> it.size, crc |-> it.crc, mtime |-> it.mtime, mode |-> it.mode, traw |-> it.traw]
      t1  == WithParents(st.tree, base, loc)
  IN IF it.ty = "dir" /\ loc \in DOMAIN st.tree /\ st.tree[loc].ty = "dir"
     THEN st          \* ExistingDirLeftAlone: mkdir fails with EEXIST, the directory keeps its mode and time (extract_directory)
     ELSE IF it.ty = "file" /\ loc \in DOMAIN st.tree /\ st.tree[loc].ty = "file"
     THEN LET a == Ask(st.policy, st.ans)
          IN [tree |-> IF a.go THEN Put(t1, loc, nd) ELSE st.tree, policy |-> a.policy, ans |-> a.ans]
     ELSE [st EXCEPT !.tree = Put(t1, loc, nd)]

ModelTree(base, items, opts, filters, pre, answers) ==
  LET sel  == SelectSeq(items, LAMBDA it : Selected(filters, it.pb))
      t0   == FoldLeft(LAMBDA a, p : Put(WithParents(a, base, base \o p.comps), base \o p.comps,
                                         [ty |-> "file", size |-> p.size, crc |-> p.crc, mtime |-> ANYT, mode |-> p.mode, traw |-> ""]),
                       << >>, pre)
      \* (the directory given with w= is created, with its parents, by the first entry extracted into it)
  IN FoldLeft(LAMBDA st, it : Step(base, opts, st, it), [tree |-> t0, policy |-> opts.policy, ans |-> answers], sel)

Starved(base, items, opts, filters, pre, answers) == ModelTree(base, items, opts, filters, pre, answers).policy = "starved"
NodeMatches(x, got) ==
  /\ (IF x.ty = "unsafe" THEN got.ty \in {"file", "link"} ELSE got.ty = x.ty)
  /\ (x.ty = "file" => (got.size = x.size /\ got.crc = x.crc))
  /\ (x.mtime # ANYT => got.mtime = x.mtime)
  /\ (x.mode # ANY => got.mode = x.mode)
  /\ (x.ty = "link" => got.traw = x.traw)
=========================================================================================
