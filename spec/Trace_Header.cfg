SPECIFICATION TSpec
CONSTANTS MODE = {"C05", "C11", "C12"}
INVARIANT Stats
VIEW TView
POSTCONDITION Accepted
CHECK_DEADLOCK FALSE
