SPECIFICATION Spec
CONSTANTS
  NSYM = 5
  MAXL = 4
  TLOffsets = {0, 1, 3}
INVARIANTS InBounds PointersForward WalkTerminates CanonicalWhenComplete DecodersAgree SingleSymbol CountComplete
POSTCONDITION Report
CHECK_DEADLOCK FALSE
