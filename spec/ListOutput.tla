----------------------------------- MODULE ListOutput ----------------------------------
(* What `lha l`, `lha lv`, `lha v`, `lha vv` print (src/list.c), as sequences of bytes: headings,
   separator row, one row per selected member (two lines in the doubly verbose forms), separator,
   footer.  Input: the header records as the library returns them (Header.tla's record shape, word
   pairs for 32-bit values), the option set, `now` and the archive's mtime.

   The digits of the ratio column come from single-precision arithmetic ((float) packed * 100.0f /
   (float) length printed with %5.1f); they are computed outside TLA+ by a reference helper and
   passed in as r.ratio / totals ratio - everything else, including which operands are used and
   when ****** is shown, is defined here.  Sanitising (src/safe.c) is SafeText. *)
EXTENDS Naturals, Integers, Sequences, SequencesExt, Glob

NULLS == <<-1>>
StrOf(x) == IF x = NULLS THEN <<>> ELSE x

OsName(os) == CASE os = 77 -> <<91, 77, 83, 45, 68, 79, 83, 93>>
                [] os = 119 -> <<91, 87, 105, 110, 57, 120, 93>>
                [] os = 87 -> <<91, 87, 105, 110, 78, 84, 93>>
                [] os = 85 -> <<91, 85, 110, 105, 120, 93>>
                [] os = 50 -> <<91, 79, 83, 47, 50, 93>>
                [] os = 67 -> <<91, 67, 80, 47, 77, 93>>
                [] os = 109 -> <<91, 77, 97, 99, 32, 79, 83, 93>>
                [] os = 74 -> <<91, 74, 97, 118, 97, 93>>
                [] os = 70 -> <<91, 70, 76, 69, 88, 93>>
                [] os = 82 -> <<91, 82, 117, 110, 115, 101, 114, 93>>
                [] os = 84 -> <<91, 84, 111, 119, 110, 115, 79, 83, 93>>
                [] os = 57 -> <<91, 79, 83, 45, 57, 93>>
                [] os = 75 -> <<91, 79, 83, 45, 57, 47, 54, 56, 75, 93>>
                [] os = 51 -> <<91, 79, 83, 45, 51, 56, 54, 93>>
                [] os = 72 -> <<91, 72, 117, 109, 97, 110, 54, 56, 75, 93>>
                [] os = 97 -> <<91, 65, 116, 97, 114, 105, 93>>
                [] os = 65 -> <<91, 65, 109, 105, 103, 97, 93>>
                [] os = 32 -> <<91, 76, 72, 65, 82, 75, 93>>
                [] os = 0 -> <<91, 103, 101, 110, 101, 114, 105, 99, 93>>
                [] OTHER -> <<91, 117, 110, 107, 110, 111, 119, 110, 93>>
MonthNames == <<<<74, 97, 110>>, <<70, 101, 98>>, <<77, 97, 114>>, <<65, 112, 114>>, <<77, 97, 121>>, <<74, 117, 110>>, <<74, 117, 108>>, <<65, 117, 103>>, <<83, 101, 112>>, <<79, 99, 116>>, <<78, 111, 118>>, <<68, 101, 99>>>>
ColName(c) == CASE c = "Perm" -> <<32, 80, 69, 82, 77, 83, 83, 78>>
                [] c = "UidGid" -> <<32, 85, 73, 68, 32, 32, 71, 73, 68>>
                [] c = "Packed" -> <<32, 80, 65, 67, 75, 69, 68>>
                [] c = "Size" -> <<32, 32, 32, 83, 73, 90, 69>>
                [] c = "Ratio" -> <<32, 82, 65, 84, 73, 79>>
                [] c = "MethodCrc" -> <<77, 69, 84, 72, 79, 68, 32, 67, 82, 67>>
                [] c = "Stamp" -> <<32, 32, 32, 32, 83, 84, 65, 77, 80>>
                [] c = "FullStamp" -> <<32, 32, 32, 32, 83, 84, 65, 77, 80>>
                [] c = "Name" -> <<32, 32, 32, 32, 32, 32, 32, 78, 65, 77, 69>>
                [] c = "ShortName" -> <<32, 32, 32, 32, 32, 32, 78, 65, 77, 69>>
                [] c = "WholeName" -> <<>>
                [] c = "Level" -> <<32, 76, 86>>
ColWidth(c) == CASE c = "Perm" -> 10 [] c = "UidGid" -> 11 [] c = "Packed" -> 7 [] c = "Size" -> 7 [] c = "Ratio" -> 6 [] c = "MethodCrc" -> 10 [] c = "Stamp" -> 12 [] c = "FullStamp" -> 19 [] c = "Name" -> 20 [] c = "ShortName" -> 13 [] c = "WholeName" -> 0 [] c = "Level" -> 3
HasFooter(c) == c \in {"FullStamp", "Packed", "Perm", "Ratio", "Size", "Stamp", "UidGid"}
TOTAL == <<32, 84, 111, 116, 97, 108, 32, 32, 32, 32>>
FILE1 == <<32, 102, 105, 108, 101, 32>>
FILES == <<32, 102, 105, 108, 101, 115>>
ARROW == <<32, 45, 62, 32>>
STARS == <<42, 42, 42, 42, 42, 42>>
RWX == <<114, 119, 120, 114, 119, 120, 114, 119, 120>>
SEWREWR == <<115, 101, 119, 114, 101, 119, 114>>
HEXDIGITS == <<48, 49, 50, 51, 52, 53, 54, 55, 56, 57, 97, 98, 99, 100, 101, 102>>

Rep(ch, n) == [i \in 1..(IF n > 0 THEN n ELSE 0) |-> ch]
PadL(s, w) == Rep(32, w - Len(s)) \o s
PadR(s, w) == s \o Rep(32, w - Len(s))
ZeroPad(s, w) == Rep(48, w - Len(s)) \o s

\* decimal digits of a natural number < 2^31
RECURSIVE Dec(_)
Dec(n) == IF n < 10 THEN <<48 + n>> ELSE Dec(n \div 10) \o <<48 + (n % 10)>>
\* division of a 32-bit pair <<hi, lo>> by d (d <= 32767): [q |-> pair, r |-> remainder]
DivW(w, d) == LET qh == w[1] \div d  t == (w[1] % d) * 65536 + w[2]
              IN [q |-> <<qh, t \div d>>, r |-> t % d]
\* decimal digits of a 32-bit pair
DecW(w) == LET step(a, i) == IF a.done THEN a
                             ELSE LET dv == DivW(a.w, 10) IN
                                  [w |-> dv.q, s |-> <<48 + dv.r>> \o a.s, done |-> dv.q = <<0, 0>>]
           IN FoldLeft(step, [w |-> w, s |-> <<>>, done |-> FALSE], [i \in 1..10 |-> i]).s
WAdd(a, b) == LET lo == a[2] + b[2] IN <<(a[1] + b[1] + lo \div 65536) % 65536, lo % 65536>>     \* mod 2^32
WLe(a, b) == a[1] < b[1] \/ (a[1] = b[1] /\ a[2] <= b[2])
WSub(a, b) == LET lo == a[2] - b[2]  br == IF lo < 0 THEN 1 ELSE 0        \* a - b, for a >= b
              IN <<a[1] - b[1] - br, IF lo < 0 THEN lo + 65536 ELSE lo>>
Hex4(v) == [k \in 1..4 |-> HEXDIGITS[((v \div (16 ^ (4 - k))) % 16) + 1]]
Bit(v, k) == (v \div (2 ^ k)) % 2

(* src/safe.c: control characters, DEL and everything >= 0x80 become '?'; text ends at a NUL *)
CStrOf(s) == LET z == {i \in 1..Len(s) : s[i] = 0}
             IN IF z = {} THEN s ELSE SubSeq(s, 1, (CHOOSE i \in z : \A j \in z : i <= j) - 1)
SafeText(s) == [i \in 1..Len(s) |-> IF s[i] < 32 \/ s[i] >= 127 THEN 63 ELSE s[i]]
Printable(b) == (b >= 32 /\ b <= 126) \/ b \in {10, 13, 9}

LHDm == <<45, 108, 104, 100, 45>>
PermChars(tmpl, v, n) == [i \in 1..n |-> IF Bit(v, n - i) = 1 THEN tmpl[i] ELSE 45]

\* civil date/time (UTC) of a 32-bit second count
Civil(w) == LET d32 == DivW(w, 32)  d2700 == DivW(d32.q, 2700)
                days == d2700.q[1] * 65536 + d2700.q[2]
                sod  == d2700.r * 32 + d32.r
                z == days + 719468  era == z \div 146097  doe == z - era * 146097
                yoe == (doe - doe \div 1460 + doe \div 36524 - doe \div 146096) \div 365
                doy == doe - (365 * yoe + yoe \div 4 - yoe \div 100)
                mp == (5 * doy + 2) \div 153
                d == doy - (153 * mp + 2) \div 5 + 1
                m == IF mp < 10 THEN mp + 3 ELSE mp - 9
                y == yoe + era * 400 + (IF m <= 2 THEN 1 ELSE 0)
            IN [y |-> y, m |-> m, d |-> d, hh |-> sod \div 3600, mm |-> (sod % 3600) \div 60, ss |-> sod % 60]
SIXMONTHS == <<237, 19968>>            \* 6 * 30 * 24 * 60 * 60 = 15552000
\* (time_t) stamp > now - 15552000, with now - 15552000 possibly negative
Recent(stamp, now) == IF WLe(SIXMONTHS, now) THEN ~WLe(stamp, WSub(now, SIXMONTHS)) ELSE TRUE
ShortStamp(stamp, now) ==
  IF stamp = <<0, 0>> THEN Rep(32, 12)
  ELSE LET c == Civil(stamp) IN
       MonthNames[c.m] \o <<32>> \o PadL(Dec(c.d), 2) \o <<32>> \o
       (IF Recent(stamp, now) THEN ZeroPad(Dec(c.hh), 2) \o <<58>> \o ZeroPad(Dec(c.mm), 2) ELSE <<32>> \o ZeroPad(Dec(c.y), 4))
FullStampText(stamp) ==
  IF stamp = <<0, 0>> THEN Rep(32, 19)
  ELSE LET c == Civil(stamp) IN
       ZeroPad(Dec(c.y), 4) \o <<45>> \o ZeroPad(Dec(c.m), 2) \o <<45>> \o ZeroPad(Dec(c.d), 2) \o <<32>> \o
       ZeroPad(Dec(c.hh), 2) \o <<58>> \o ZeroPad(Dec(c.mm), 2) \o <<58>> \o ZeroPad(Dec(c.ss), 2)

(* one column of one member; r = header record, o = [now, ...] *)
Cell(c, r, o) ==
  LET isdir == r.method = LHDm IN
  CASE c = "Perm" ->
         IF r.hasos9 THEN <<IF isdir THEN 100 ELSE 45>> \o PermChars(SEWREWR, r.os9, 7) \o <<32, 32>>
         ELSE IF r.hasperms THEN <<IF ~isdir THEN 45 ELSE IF r.target # NULLS THEN 108 ELSE 100>> \o PermChars(RWX, r.perms, 9)
         ELSE PadR(OsName(r.os), 10)
    [] c = "UidGid" -> IF r.hasids THEN PadL(Dec(r.uid), 5) \o <<47>> \o PadR(Dec(r.gid), 5) ELSE Rep(32, 11)
    [] c = "Packed" -> PadL(DecW(r.packed), 7)
    [] c = "Size" -> PadL(DecW(r.length), 7)
    [] c = "Ratio" -> IF isdir THEN STARS ELSE r.ratio
    [] c = "MethodCrc" -> PadR(SafeText(CStrOf(r.method)), 5) \o <<32>> \o Hex4(r.crc)
    [] c = "Stamp" -> ShortStamp(r.time, o.now)
    [] c = "FullStamp" -> FullStampText(r.time)
    [] c \in {"Name", "ShortName"} ->
         SafeText(StrOf(r.path)) \o SafeText(StrOf(r.filename)) \o (IF r.target # NULLS THEN SafeText(ARROW \o r.target) ELSE <<>>)
    [] c = "WholeName" ->
         SafeText(StrOf(r.path)) \o SafeText(StrOf(r.filename)) \o (IF r.target # NULLS THEN SafeText(<<124>> \o r.target) ELSE <<>>) \o <<10>>
    [] c = "Level" -> <<91>> \o Dec(r.level) \o <<93>>

Columns(mode) == CASE mode = "l"  -> <<"Perm", "UidGid", "Size", "Ratio", "Stamp", "Name">>
                   [] mode = "lv" -> <<"WholeName", "Perm", "UidGid", "Size", "Ratio", "Stamp", "Level">>
                   [] mode = "v"  -> <<"Perm", "UidGid", "Packed", "Size", "Ratio", "MethodCrc", "Stamp", "ShortName">>
                   [] mode = "vv" -> <<"WholeName", "Perm", "UidGid", "Packed", "Size", "Ratio", "MethodCrc", "FullStamp", "Level">>
\* index of the last column with a width
LastReal(cols) == CHOOSE i \in 1..Len(cols) : ColWidth(cols[i]) # 0 /\ \A j \in (i + 1)..Len(cols) : ColWidth(cols[j]) = 0
Cat(parts) == FoldLeft(LAMBDA a, x : a \o x, <<>>, parts)

Row(cols, r, o) == Cat([i \in 1..Len(cols) |-> Cell(cols[i], r, o) \o (IF ColWidth(cols[i]) # 0 /\ i # LastReal(cols) THEN <<32>> ELSE <<>>)]) \o <<10>>
Headings(cols) == Cat([i \in 1..Len(cols) |-> IF ColWidth(cols[i]) > 0 /\ i # LastReal(cols) THEN PadR(ColName(cols[i]), ColWidth(cols[i]) + 1) ELSE ColName(cols[i])]) \o <<10>>
Separators(cols) == Cat([i \in 1..Len(cols) |-> Rep(45, ColWidth(cols[i])) \o (IF ColWidth(cols[i]) # 0 /\ i # LastReal(cols) THEN <<32>> ELSE <<>>)]) \o <<10>>

\* footer: st = [n, packed, length, mtime, ratio]
FooterCell(c, st, o) ==
  CASE c = "Perm" -> TOTAL
    [] c = "UidGid" -> PadL(Dec(st.n), 5) \o (IF st.n = 1 THEN FILE1 ELSE FILES)
    [] c = "Packed" -> PadL(DecW(st.packed), 7)
    [] c = "Size" -> PadL(DecW(st.length), 7)
    [] c = "Ratio" -> IF st.length = <<0, 0>> THEN STARS ELSE st.ratio
    [] c = "Stamp" -> ShortStamp(st.mtime, o.now)
    [] c = "FullStamp" -> FullStampText(st.mtime)
NumFooterCols(cols) == IF \E i \in 1..Len(cols) : HasFooter(cols[i])
                       THEN CHOOSE i \in 1..Len(cols) : HasFooter(cols[i]) /\ \A j \in (i + 1)..Len(cols) : ~HasFooter(cols[j])
                       ELSE 0
Footer(cols, st, o) ==
  LET n == NumFooterCols(cols) IN
  Cat([i \in 1..n |-> (IF HasFooter(cols[i]) THEN FooterCell(cols[i], st, o)
                        ELSE IF i + 1 <= n THEN Rep(32, Len(ColName(cols[i]))) ELSE <<>>)
                       \o (IF ColWidth(cols[i]) # 0 /\ i + 1 <= n THEN <<32>> ELSE <<>>)]) \o <<10>>

FullPath(r) == StrOf(r.path) \o StrOf(r.filename)
(* the whole listing: members = sequence of header records (each with its ratio digits), opts =
   [mode, quiet, now, mtime, filters, totalratio] *)
Listing(members, opts) ==
  LET cols == Columns(opts.mode)
      sel  == SelectSeq(members, LAMBDA r : Selected(opts.filters, FullPath(r)))
      st   == [n |-> Len(sel),
               packed |-> FoldLeft(LAMBDA a, r : WAdd(a, r.packed), <<0, 0>>, sel),
               length |-> FoldLeft(LAMBDA a, r : WAdd(a, r.length), <<0, 0>>, sel),
               mtime |-> opts.mtime, ratio |-> opts.totalratio]
      rows == Cat([i \in 1..Len(sel) |-> Row(cols, sel[i], opts)])
  IN IF opts.quiet < 2 THEN Headings(cols) \o Separators(cols) \o rows \o Separators(cols) \o Footer(cols, st, opts)
     ELSE rows
=========================================================================================
