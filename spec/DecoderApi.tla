--------------------------------- MODULE DecoderApi ---------------------------------
(* The decoder front end of lhasa: lib/lha_decoder.c (lha_decoder_new / _read / _monitor /
   _get_crc / _get_length).  State variables are projections of struct _LHADecoder; the inner
   algorithm (dtype->read) is an opaque source of chunks, scripted by `script`.

   Two grains of the same transition relation are defined from one pure function Iter (one
   iteration of the while loop in lha_decoder_read):
     - fine:   ReadBegin(k) ; LoopStep* ; ReadEnd       (bounded model: invariants + liveness)
     - atomic: ReadAtomic(k) = the closure computed by a fold (trace validation: the public
               call's return is the linearisation point of a sequential library)
   MC_DecoderApi checks that both grains agree (invariant AtomicMatches). *)
EXTENDS Naturals, Sequences, SequencesExt, Crc16

CONSTANT KeepHistory   \* TRUE: g.delivered holds every byte handed out (bounded models); FALSE: only g.dlen (long traces)

NONE == 99999999      \* UINT_MAX in last_block: "no block announced yet"

VARIABLES
  d,        \* projection of LHADecoder: [spos, slen, opos, olen, obuf, failed, crc, lastBlock, total, monitored]
            \*   and of its LHADecoderType: [block (block_size), maxread (max_read = size of outbuf)]
  script,   \* chunks the inner decoder will still produce; when exhausted it returns 0 bytes
  call,     \* the API call in progress: [pc, k0, req, filled, out, broke]
  g         \* ghost/history: [delivered, cbs, innerCalls, zeroSeen, iaf, lastRet, lastReq, expect]

dvars == <<d, script, call, g>>

Min2(a, b) == IF a < b THEN a ELSE b
CeilDiv(a, b) == (a + b - 1) \div b

IdleCall == [pc |-> "idle", k0 |-> 0, req |-> 0, filled |-> 0, out |-> <<>>, broke |-> FALSE]

NewDecoder(declared, block, maxread) ==
  [block |-> block, maxread |-> maxread, spos |-> 0, slen |-> declared, opos |-> 0, olen |-> 0, obuf |-> <<>>, failed |-> FALSE,
   crc |-> 0, lastBlock |-> NONE, total |-> 0, monitored |-> FALSE]

NewGhost == [delivered |-> <<>>, dlen |-> 0, cbs |-> <<>>, innerCalls |-> 0, zeroSeen |-> FALSE, iaf |-> FALSE,
             lastRet |-> 0, lastReq |-> 0, expect |-> <<>>]

DInit(declared, block, maxread, sc) == /\ d = NewDecoder(declared, block, maxread) /\ script = sc /\ call = IdleCall /\ g = NewGhost

-------------------------------------------------------------------------------------
(* check_progress_callback: callbacks for every block number from last_block+1 (UINT_MAX wraps
   to 0) up to the block containing pos *)
Progress(lb, pos) ==
  LET blk  == CeilDiv(pos, d.block)
      from == IF lb = NONE THEN 0 ELSE lb + 1
      n    == IF blk + 1 > from THEN blk + 1 - from ELSE 0
  IN [last |-> IF n = 0 THEN lb ELSE blk, cbs |-> [i \in 1..n |-> from + i - 1]]

(* One iteration of the while loop, as a pure function on the loop state
   a = [filled, out, broke, opos, olen, obuf, failed, script, innerCalls, zeroSeen, iaf] *)
Iter(a, req) ==
  LET avail == a.olen - a.opos
      bytes == Min2(req - a.filled, avail)
      a1 == [a EXCEPT !.opos = @ + bytes, !.filled = @ + bytes,
                      !.out = @ \o SubSeq(a.obuf, a.opos + 1, a.opos + bytes)]
  IN IF a1.failed THEN [a1 EXCEPT !.broke = TRUE]
     ELSE LET refill == a1.opos >= a1.olen
              chunk  == IF a1.script = <<>> THEN <<>> ELSE Head(a1.script)
              a2 == IF refill
                    THEN [a1 EXCEPT !.obuf = chunk, !.olen = Len(chunk), !.opos = 0,
                                    !.script = IF @ = <<>> THEN @ ELSE Tail(@),
                                    !.innerCalls = @ + 1,
                                    !.iaf = @ \/ a1.zeroSeen,
                                    !.zeroSeen = @ \/ (chunk = <<>>)]
                    ELSE a1
          IN IF a2.olen = 0 THEN [a2 EXCEPT !.failed = TRUE, !.broke = TRUE] ELSE a2

LoopState == [filled |-> call.filled, out |-> call.out, broke |-> call.broke,
              opos |-> d.opos, olen |-> d.olen, obuf |-> d.obuf, failed |-> d.failed,
              script |-> script, innerCalls |-> g.innerCalls, zeroSeen |-> g.zeroSeen, iaf |-> g.iaf]

Clamp(k0) == IF d.spos + k0 > d.slen THEN d.slen - d.spos ELSE k0

(* the whole loop as a fold: at most 2 iterations per delivered chunk plus slack *)
RunLoop(a0, req, bound) ==
  FoldLeft(LAMBDA a, i : IF a.broke \/ ~(a.filled < req) THEN a ELSE Iter(a, req),
           a0, [i \in 1..bound |-> i])

(* effect of the statements after the loop: CRC, stream position, progress callbacks *)
Finish(a) ==
  LET pos == d.spos + a.filled
      p   == IF d.monitored THEN Progress(d.lastBlock, pos) ELSE [last |-> d.lastBlock, cbs |-> <<>>]
  IN [dd |-> [d EXCEPT !.opos = a.opos, !.olen = a.olen, !.obuf = a.obuf, !.failed = a.failed,
                       !.crc = CrcFrom(d.crc, a.out), !.spos = pos, !.lastBlock = p.last],
      sc |-> a.script,
      gg |-> [g EXCEPT !.delivered = IF KeepHistory THEN @ \o a.out ELSE <<>>, !.dlen = @ + a.filled, !.cbs = @ \o p.cbs, !.innerCalls = a.innerCalls,
                       !.zeroSeen = a.zeroSeen, !.iaf = a.iaf, !.lastRet = a.filled],
      ret |-> a.filled, out |-> a.out, newcbs |-> p.cbs]

(* atomic grain, used by the trace specification: the result of a whole lha_decoder_read(k0)
   when the inner decoder produces the chunks sc *)
AtomicResult(sc, k0) ==
  Finish(RunLoop([LoopState EXCEPT !.filled = 0, !.out = <<>>, !.broke = FALSE, !.script = sc],
                 Clamp(k0), 2 * Len(sc) + 4))

-------------------------------------------------------------------------------------
(* fine-grained actions *)
ReadBegin(k0) ==
  /\ call.pc = "idle"
  /\ call' = [pc |-> "loop", k0 |-> k0, req |-> Clamp(k0), filled |-> 0, out |-> <<>>, broke |-> FALSE]
  /\ g' = [g EXCEPT !.lastReq = k0, !.expect = AtomicResult(script, k0)]
  /\ UNCHANGED <<d, script>>

LoopStep ==
  /\ call.pc = "loop" /\ ~call.broke /\ call.filled < call.req
  /\ LET a == Iter(LoopState, call.req)
     IN /\ call' = [call EXCEPT !.filled = a.filled, !.out = a.out, !.broke = a.broke]
        /\ d' = [d EXCEPT !.opos = a.opos, !.olen = a.olen, !.obuf = a.obuf, !.failed = a.failed]
        /\ script' = a.script
        /\ g' = [g EXCEPT !.innerCalls = a.innerCalls, !.zeroSeen = a.zeroSeen, !.iaf = a.iaf]

ReadEnd ==
  /\ call.pc = "loop" /\ (call.broke \/ ~(call.filled < call.req))
  /\ LET f == Finish(LoopState)
     IN /\ d' = f.dd /\ g' = f.gg /\ script' = f.sc
  /\ call' = [IdleCall EXCEPT !.k0 = call.k0]

(* lha_decoder_monitor *)
Monitor ==
  /\ call.pc = "idle"
  /\ LET p == Progress(d.lastBlock, d.spos)
     IN /\ d' = [d EXCEPT !.monitored = TRUE, !.total = CeilDiv(d.slen, d.block), !.lastBlock = p.last]
        /\ g' = [g EXCEPT !.cbs = @ \o p.cbs]
  /\ UNCHANGED <<script, call>>

(* atomic grain *)
ReadAtomic(sc, k0) ==
  /\ call.pc = "idle"
  /\ LET f == AtomicResult(sc, k0)
     IN /\ d' = f.dd /\ script' = f.sc /\ g' = [f.gg EXCEPT !.lastReq = k0]
  /\ UNCHANGED call

-------------------------------------------------------------------------------------
(* observers: lha_decoder_get_length, lha_decoder_get_crc *)
GetLength == d.spos
GetCrc    == d.crc

(* invariants of the design; AllBytes is what the source would produce in total *)
Flatten(sq) == FoldLeft(LAMBDA a, x : a \o x, <<>>, sq)
AtIdle(P)        == call.pc = "idle" => P
BufBound         == d.olen <= d.maxread /\ d.opos <= d.olen /\ d.olen = Len(d.obuf)
RetLeReq         == AtIdle(g.lastRet <= g.lastReq)
NeverExceeds     == g.dlen <= d.slen
NoInnerAfterZero == ~g.iaf
LengthFaithful   == AtIdle(GetLength = g.dlen /\ (KeepHistory => g.dlen = Len(g.delivered)))
CrcFaithful      == AtIdle(KeepHistory => GetCrc = Crc(g.delivered))
CbsRising        == \A i \in 1..Len(g.cbs) : g.cbs[i] = i - 1
CbsCurrent       == AtIdle(d.monitored => Len(g.cbs) = CeilDiv(d.spos, d.block) + 1)
CbsComplete      == AtIdle((d.monitored /\ d.spos = d.slen) => (Len(g.cbs) = d.total + 1))
=====================================================================================
