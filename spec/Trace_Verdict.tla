--------------------------------- MODULE Trace_Verdict -------------------------------
(* C07: a member is reported good only if the bytes produced have exactly the recorded length and
   CRC-16, and a member of a supported method for which both hold is reported good.

   One archive = one Reset followed by three passes through the real reader (reader_drv):
     pass "read":    Next + Reads to the end of every member, all bytes logged;
                     the spec computes length and CRC-16 of what was produced (its own Crc16);
     pass "check":   Next + Check for every member;
     pass "extract": Next + Extract for every member (into an empty scratch directory);
   and then, optionally, the command line tool's view (Cli lines): `lha t` / `lha x` verdict per
   member and the exit status.  The verdict the spec demands is
        supported(method) /\ produced length = header.length /\ Crc16(produced) = header.crc   *)
EXTENDS Crc16, TLC, Json, IOUtils, Naturals, Sequences
Trc == ndJsonDeserialize(IOEnv.TRACE)
CTab == Tab       \* evaluated once
VARIABLES l, pass, idx, obs, cur, anyBad, ended
tvars == <<l, pass, idx, obs, cur, anyBad, ended>>
Ev == Trc[l]
IsEvent(e) == l <= Len(Trc) /\ Ev.e = e /\ l' = l + 1
Chk(what, cond) == IF cond THEN TRUE ELSE PrintT(<<"MISMATCH", what, "line", l>>) /\ FALSE

\* the 14 method names that have a decoder ("2d6c68352d" = "-lh5-" in hex, as logged)
Supported == {"2d6c7a342d", "2d6c7a352d", "2d6c7a732d", "2d6c68302d", "2d6c68312d", "2d6c68342d", "2d6c68352d",
              "2d6c68362d", "2d6c68372d", "2d6c68782d", "2d6c6b372d", "2d706d302d", "2d706d312d", "2d706d322d"}

Cur0 == [len |-> 0, crc |-> 0, stored |-> FALSE, packed |-> 0]
Stored == {"2d6c68302d", "2d6c7a342d", "2d706d302d"}          \* -lh0- -lz4- -pm0-
TInit == l = 1 /\ pass = "none" /\ idx = 0 /\ obs = <<>> /\ cur = Cur0 /\ anyBad = FALSE /\ ended = FALSE

\* Reset{pass}: pass = "read" starts a new archive; "check" / "extract" / "cli-t" / "cli-x" start the
\* corresponding pass over the same archive
TReset == /\ IsEvent("Reset")
          /\ pass' = Ev.pass /\ idx' = 0 /\ cur' = Cur0 /\ anyBad' = FALSE /\ ended' = FALSE
          /\ obs' = IF Ev.pass = "read" THEN <<>> ELSE obs

Verdict(i) == obs[i].sup /\ obs[i].len = obs[i].hlen /\ obs[i].crc = obs[i].hcrc

TNext == /\ IsEvent("Next")
         /\ IF Ev.id = "" THEN UNCHANGED <<idx, obs, cur>>
            ELSE IF Ev.fake THEN /\ cur' = [cur EXCEPT !.len = 1] /\ UNCHANGED <<idx, obs>>   \* re-presented entry: no verdict
            ELSE /\ idx' = idx + 1
                 /\ cur' = [Cur0 EXCEPT !.stored = Ev.method \in Stored, !.packed = Ev.packed]
                 /\ IF pass = "read"
                    THEN obs' = Append(obs, [id |-> Ev.id, hlen |-> Ev.length, hcrc |-> Ev.crc, isdir |-> Ev.isdir,
                                             sup |-> Ev.method \in Supported, len |-> 0, crc |-> 0])
                    ELSE /\ Chk("same members in every pass", idx + 1 <= Len(obs) /\ obs[idx + 1].id = Ev.id)
                         /\ UNCHANGED obs
         /\ ended' = (Ev.id = "")
         /\ UNCHANGED <<pass, anyBad>>

TRead == /\ IsEvent("Read") /\ pass = "read" /\ (idx > 0 \/ ended)
         /\ Chk("n <= k", Ev.n <= Ev.k /\ Len(Ev.bytes) = Ev.n)
         /\ Chk("nothing after the end", ended => Ev.n = 0)
         /\ obs' = IF ended THEN obs ELSE [obs EXCEPT ![idx].len = @ + Ev.n, ![idx].crc = CrcFromT(CTab, @, Ev.bytes)]
         /\ UNCHANGED <<pass, idx, cur, anyBad, ended>>

Want(i) == IF obs[i].isdir THEN TRUE ELSE Verdict(i)
TCheck == /\ IsEvent("Check") /\ pass = "check" /\ (idx > 0 \/ ended)
          /\ Chk("check verdict", Ev.res = (IF ended THEN FALSE ELSE Want(idx)))
          /\ UNCHANGED <<pass, idx, obs, cur, anyBad, ended>>
FileVerdict(i) == obs[i].sup /\ Len(Ev.file) = obs[i].hlen /\ CrcFromT(CTab, 0, Ev.file) = obs[i].hcrc
TExtract == /\ IsEvent("Extract") /\ pass = "extract" /\ (idx > 0 \/ ended)
            /\ Chk("extract verdict", IF ended THEN ~Ev.res ELSE IF cur.len = 1 THEN TRUE ELSE (obs[idx].isdir \/ Ev.res = Verdict(idx)))
            /\ Chk("extract verdict = length and CRC of the file written",
                   IF ended \/ cur.len = 1 THEN TRUE ELSE IF obs[idx].isdir THEN TRUE
                   ELSE IF "file" \in DOMAIN Ev THEN Ev.res = FileVerdict(idx) ELSE TRUE)
            /\ UNCHANGED <<pass, idx, obs, cur, anyBad, ended>>

\* pass "mixed": the caller first reads some bytes of the member and then asks for a verdict on it.  The
\* library then starts a NEW decoder on what is left of the member's stored stream, so the verdict is about
\* the bytes that second decoder produces.  For an extraction those bytes are in the file it wrote (logged:
\* Extract.file) and the verdict must be exactly "supported, recorded length, recorded CRC" of them.  For a
\* check they are discarded; the verdict is then only determined when the stored stream is the data itself
\* (-lh0- -lz4- -pm0-) and too little of it is left to reach the recorded length: it must be bad.  (A
\* compressed stream entered in the middle can decode to anything - for instance to the spaces the history
\* window starts with, which is also how some members begin.)
TReadMixed == /\ IsEvent("Read") /\ pass = "mixed" /\ (idx > 0 \/ ended)
              /\ cur' = [cur EXCEPT !.crc = @ + Ev.n]          \* (cur.crc doubles as "bytes already taken" in this pass)
              /\ UNCHANGED <<pass, idx, obs, anyBad, ended>>
TCheckMixed == /\ IsEvent("Check") /\ pass = "mixed" /\ (idx > 0 \/ ended)
               /\ Chk("verdict after a partial read",
                      IF ended \/ cur.len = 1 THEN ~Ev.res
                      ELSE IF cur.crc = 0 THEN Ev.res = Want(idx)
                      ELSE IF obs[idx].isdir THEN Ev.res
                      ELSE IF ~obs[idx].sup THEN ~Ev.res
                      ELSE IF cur.stored /\ cur.packed < obs[idx].hlen + cur.crc THEN ~Ev.res
                      ELSE TRUE)
               /\ UNCHANGED <<pass, idx, obs, cur, anyBad, ended>>
TExtractMixed == /\ IsEvent("Extract") /\ pass = "mixed" /\ (idx > 0 \/ ended)
                 /\ Chk("extract verdict = length and CRC of the file written",
                        IF ended THEN ~Ev.res ELSE IF cur.len = 1 \/ obs[idx].isdir THEN TRUE
                        ELSE IF "file" \in DOMAIN Ev THEN Ev.res = FileVerdict(idx)
                        ELSE IF "filebig" \in DOMAIN Ev THEN TRUE
                        ELSE ~Ev.res)
                 /\ UNCHANGED <<pass, idx, obs, cur, anyBad, ended>>
\* command line: Cli{i, good} = the tool's per-member line says Tested/Melted (good) or not;
\* Exit{code}
TCli == /\ IsEvent("Cli") /\ pass \in {"cli-t", "cli-x"}
        /\ Chk("cli member", Ev.i >= 1 /\ Ev.i <= Len(obs))
        /\ Chk("cli verdict", Ev.good = Verdict(Ev.i))
        /\ anyBad' = (anyBad \/ ~Ev.good)
        /\ UNCHANGED <<pass, idx, obs, cur, ended>>
TExit == /\ IsEvent("Exit")
         /\ Chk("exit status", (Ev.code # 0) = anyBad)
         /\ UNCHANGED <<pass, idx, obs, cur, anyBad, ended>>
TOther == /\ l <= Len(Trc) /\ Ev.e \in {"New", "Free"} /\ l' = l + 1 /\ UNCHANGED <<pass, idx, obs, cur, anyBad, ended>>

VStep == TReset \/ TNext \/ TReadMixed \/ TCheckMixed \/ TExtractMixed \/ TRead \/ TCheck \/ TExtract \/ TCli \/ TExit \/ TOther
TView == <<l, pass, idx, anyBad>>
TSpec == TInit /\ [][VStep]_tvars
Accepted == LET dd == TLCGet("stats").diameter - 1
            IN IF dd = Len(Trc) THEN TRUE ELSE PrintT(<<"REJECTED_AT_LINE", dd + 1>>) /\ FALSE
=====================================================================================
