--------------------------------- MODULE Codec_Null ---------------------------------
(* lib/null_decoder.c: the decoder for stored members (-lh0-, -lz4-, -pm0-).
   State = projection of LHANullDecoder plus the callback's position in the compressed data:
     [input, ipos].  One read() call hands on whatever one callback(buf, 1024) delivers. *)
EXTENDS Naturals, Sequences, Codec_Bits

NullBlock == 1024      \* BLOCK_READ_SIZE

NullInit(input) == [input |-> input, ipos |-> 0]

NullRead(st) ==
  LET k == Min2c(NullBlock, Len(st.input) - st.ipos)
  IN [st |-> [st EXCEPT !.ipos = @ + k], out |-> SubSeq(st.input, st.ipos + 1, st.ipos + k)]
=====================================================================================
