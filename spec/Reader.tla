----------------------------------- MODULE Reader -----------------------------------
(* The archive reader of lhasa: lib/lha_reader.c on top of lib/lha_basic_reader.c.

   One action per public call (a sequential library: the call's return is the linearisation
   point): NextFile, Read(k), Check, Extract, SetPolicy, Free; IsFake is an observer.  State
   variables are projections of struct _LHAReader / _LHABasicReader; reference counts of
   headers and the live decoder are ghost variables mirroring _refcount and the decoder
   pointers, so that ownership (C20) can be stated.

   The archive `arc` is a sequence of member records (ground truth):
     id     - identity of the header (what the driver logs when it is returned)
     kind   - "file" | "dir" | "slink" (safe symlink) | "dlink" (absolute or '..' target)
     dirp   - path components: of the containing directory (files, links) or of itself (dirs)
     plen   - strlen(path) + strlen(filename), orders deferred symlinks
     packed - compressed size recorded in the header
     avail  - compressed bytes actually present in the input (< packed: truncated archive)
     sup    - a decoder exists for the method
     data   - bytes a single maximal read obtains (already cut at the declared length)
     good   - length and CRC of `data` equal the recorded ones
   Decoding itself is DecoderApi's business: this module relies on its guarantees (what is
   handed out is a prefix of `data`, any sufficient request reaches its end).

   FIXED = FALSE models the release logic as found (deferred-symlink headers leak);
   FIXED = TRUE  models the repaired logic.  *)
EXTENDS Naturals, Sequences, SequencesExt, FiniteSets

CONSTANT FIXED

VARIABLES arc, policy,
          b,          \* basic reader: [idx, eof, rem, pos]  idx = 0: no current header; pos = stream offset
          r,          \* reader: [ctype, cur, dec, dpos]; dec: decoder open?  dpos: bytes handed out
          dirStack,   \* member indices, top first
          deferred,   \* member indices, decreasing plen
          refs,       \* ghost: reference count of each member's header (0 = freed / never read)
          done,       \* ghost: what the caller already did with each entry presentation
          live,       \* ghost: non-header resources currently allocated: subset of {"decoder", "reader"}
          mis         \* ghost: a header was read at an offset that is not a member boundary

rvars == <<arc, policy, b, r, dirStack, deferred, refs, done, live, mis>>

N == Len(arc)
Policies == {"PLAIN", "EOD", "EOF"}      \* LHA_READER_DIR_PLAIN / _END_OF_DIR / _END_OF_FILE

\* layout of the input: a header occupies one unit, followed by `avail` data units
HdrOff(i) == FoldLeft(LAMBDA a, j : a + 1 + arc[j].avail, 0, [j \in 1..(i - 1) |-> j])
\* only the last member can be truncated: members after a truncated one do not exist
WellLaidOut == \A i \in 1..N : (arc[i].avail < arc[i].packed) => i = N

RInit(a, p) ==
  /\ arc = a /\ policy = p
  /\ b = [idx |-> 0, eof |-> FALSE, rem |-> 0, pos |-> 0]
  /\ r = [ctype |-> "START", cur |-> 0, dec |-> FALSE, dpos |-> 0]
  /\ dirStack = <<>> /\ deferred = <<>>
  /\ refs = [i \in 1..Len(a) |-> 0]
  /\ done = [i \in 1..Len(a) |-> "none"]
  /\ live = {"reader"}
  /\ mis = FALSE

Dec(rf, h) == IF h = 0 THEN rf ELSE [rf EXCEPT ![h] = rf[h] - 1]
Inc(rf, h) == IF h = 0 THEN rf ELSE [rf EXCEPT ![h] = rf[h] + 1]

-------------------------------------------------------------------------------------
(* lha_basic_reader_next_file: release the current header, skip the unread remainder of its
   data, read the next header.  hdrOk = FALSE: the header read fails (allocation failure or
   malformed/short input) - the basic reader latches eof. *)
BasicNext(bb, rf, hdrOk) ==
  LET had     == bb.idx # 0
      rf1     == Dec(rf, bb.idx)
      \* skip: fails (eof) when the data is not all there; a seekable stream may succeed and
      \* then fail reading the header instead - the observable result is the same
      skipOk  == ~had \/ arc[bb.idx].avail = arc[bb.idx].packed
      pos1    == IF had THEN bb.pos + bb.rem ELSE bb.pos
      eof1    == bb.eof \/ ~skipOk
      nxt     == IF had THEN bb.idx + 1 ELSE IF bb.pos = 0 /\ ~bb.eof THEN 1 ELSE N + 1
      present == ~eof1 /\ nxt <= N /\ hdrOk
  IN [bb  |-> IF present
              THEN [idx |-> nxt, eof |-> FALSE, rem |-> arc[nxt].packed, pos |-> pos1 + 1]
              ELSE [idx |-> 0, eof |-> TRUE, rem |-> 0, pos |-> pos1],
      rf  |-> IF present THEN Inc(rf1, nxt) ELSE rf1,
      mis |-> present /\ pos1 # HdrOff(nxt)]

EndOfTopDir(bb) ==
  IF dirStack = <<>> THEN FALSE
  ELSE IF bb.idx = 0 THEN TRUE
  ELSE IF policy = "PLAIN" THEN TRUE
  ELSE IF policy = "EOF" THEN FALSE
  ELSE LET inp == arc[bb.idx]  top == arc[Head(dirStack)]
       IN (inp.kind # "dir" /\ inp.dirp = <<>>) \/ ~IsPrefix(top.dirp, inp.dirp)

CloseDecoder == live \ {"decoder"}

(* lha_reader_next_file *)
NextFileWith(hdrOk) ==
  /\ "reader" \in live
  /\ IF r.ctype = "EOF"
     THEN /\ live' = CloseDecoder /\ r' = [r EXCEPT !.dec = FALSE, !.dpos = 0]
          /\ UNCHANGED <<arc, policy, b, dirStack, deferred, refs, done, mis>>
     ELSE LET adv == r.ctype \in {"START", "NORMAL"}
              bn  == IF adv THEN BasicNext(b, refs, hdrOk) ELSE [bb |-> b, rf |-> refs, mis |-> FALSE]
              \* a re-presented directory is unreferenced when the caller moves on; a deferred
              \* symlink only in the repaired logic
              rf2 == IF r.ctype = "FAKE" \/ (FIXED /\ r.ctype = "DEFER") THEN Dec(bn.rf, r.cur) ELSE bn.rf
          IN /\ b' = bn.bb /\ mis' = (mis \/ bn.mis) /\ refs' = rf2
             /\ live' = CloseDecoder
             /\ IF EndOfTopDir(bn.bb)
                THEN /\ r' = [ctype |-> "FAKE", cur |-> Head(dirStack), dec |-> FALSE, dpos |-> 0]
                     /\ dirStack' = Tail(dirStack) /\ UNCHANGED deferred
                ELSE IF bn.bb.idx # 0
                THEN /\ r' = [ctype |-> "NORMAL", cur |-> bn.bb.idx, dec |-> FALSE, dpos |-> 0]
                     /\ UNCHANGED <<dirStack, deferred>>
                ELSE IF deferred # <<>>
                THEN /\ r' = [ctype |-> "DEFER", cur |-> Head(deferred), dec |-> FALSE, dpos |-> 0]
                     /\ deferred' = Tail(deferred) /\ UNCHANGED dirStack
                ELSE /\ r' = [ctype |-> "EOF", cur |-> 0, dec |-> FALSE, dpos |-> 0]
                     /\ UNCHANGED <<dirStack, deferred>>
             /\ UNCHANGED <<arc, policy, done>>
NextFile == NextFileWith(TRUE)

\* what lha_reader_next_file returns: the member index of the header, 0 for NULL
NextResult == r'.cur
IsFake == r.ctype \in {"FAKE", "DEFER"}

-------------------------------------------------------------------------------------
(* decoding *)
Decodable == r.ctype = "NORMAL" /\ arc[r.cur].kind = "file" /\ arc[r.cur].sup

\* compressed bytes consumed by the decoder so far are not observable at this interface: the
\* basic reader's `rem` may drop by any amount up to what is present
Consume(c) == [b EXCEPT !.rem = @ - c, !.pos = @ + c]
\* a member whose data is not all there: reading its compressed data can hit the end of the
\* input, which latches the basic reader's eof flag (lha_basic_reader_read_compressed)
Truncated(i) == arc[i].avail < arc[i].packed \/ ("trunc" \in DOMAIN arc[i] /\ arc[i].trunc)
ConsumeE(c, eofNow) == [b EXCEPT !.rem = @ - c, !.pos = @ + c, !.eof = @ \/ eofNow]
EofAllowed(eofNow) == eofNow => (b.idx # 0 /\ Truncated(b.idx))
CanConsume(c) == b.idx # 0 /\ c <= b.rem /\ (b.pos - HdrOff(b.idx) - 1) + c <= arc[b.idx].avail

\* a member from a Mac archive that announces a MacBinary envelope (>= 128 bytes declared) but
\* yields fewer than 128 bytes: the pass-through decoder cannot be set up.  The inner decoder that
\* was created for the attempt is released again at once, and nothing can be read.
MacFail(i) == "macfail" \in DOMAIN arc[i] /\ arc[i].macfail
OpenFails == Decodable /\ ~r.dec /\ MacFail(r.cur)
FailedOpen(c, allocOk, eofNow) ==      \* effect of an open attempt that fails in the pass-through
  /\ live' = live
  /\ IF allocOk THEN CanConsume(c) /\ EofAllowed(eofNow) /\ b' = ConsumeE(c, eofNow) ELSE c = 0 /\ ~eofNow /\ UNCHANGED b
  /\ UNCHANGED r

(* lha_reader_read(k): opens the decoder on first use (allocOk = FALSE: that allocation fails) *)
ReadWith(k, c, allocOk, eofNow) ==
  /\ "reader" \in live
  /\ IF OpenFails THEN FailedOpen(c, allocOk, eofNow) /\ UNCHANGED done
     ELSE IF r.dec \/ (Decodable /\ allocOk)
     THEN LET m == arc[r.cur]
              n == IF k < Len(m.data) - r.dpos THEN k ELSE Len(m.data) - r.dpos
          IN /\ r' = [r EXCEPT !.dec = TRUE, !.dpos = @ + n]
             /\ live' = live \cup {"decoder"}
             /\ CanConsume(c) /\ EofAllowed(eofNow) /\ b' = ConsumeE(c, eofNow)
             /\ done' = [done EXCEPT ![r.cur] = "read"]
     ELSE /\ c = 0 /\ ~eofNow /\ UNCHANGED <<r, live, b, done>>
  /\ UNCHANGED <<arc, policy, dirStack, deferred, refs, mis>>
ReadResult(k, allocOk) ==     \* bytes returned by the call (evaluated in the pre-state)
  IF OpenFails THEN <<>> ELSE
  IF r.dec \/ (Decodable /\ allocOk)
  THEN LET m == arc[r.cur]
           n == IF k < Len(m.data) - r.dpos THEN k ELSE Len(m.data) - r.dpos
       IN SubSeq(m.data, r.dpos + 1, r.dpos + n)
  ELSE <<>>

(* lha_reader_check: decodes the whole member, discarding the output *)
CheckResult(allocOk) ==
  IF r.ctype # "NORMAL" THEN FALSE
  ELSE IF arc[r.cur].kind # "file" THEN TRUE
  ELSE allocOk /\ arc[r.cur].sup /\ arc[r.cur].good /\ ~MacFail(r.cur)
CheckWith(c, allocOk, eofNow) ==
  /\ "reader" \in live
  /\ IF OpenFails THEN FailedOpen(c, allocOk, eofNow)
     ELSE IF Decodable /\ allocOk
     THEN /\ r' = [r EXCEPT !.dec = TRUE, !.dpos = Len(arc[r.cur].data)]
          /\ live' = live \cup {"decoder"}
          /\ CanConsume(c) /\ EofAllowed(eofNow) /\ b' = ConsumeE(c, eofNow)
     ELSE /\ c = 0 /\ ~eofNow /\ UNCHANGED <<r, live, b>>
  /\ done' = IF r.ctype = "NORMAL" THEN [done EXCEPT ![r.cur] = "checked"] ELSE done
  /\ UNCHANGED <<arc, policy, dirStack, deferred, refs, mis>>

-------------------------------------------------------------------------------------
(* extraction; `fs` is the outcome of the one file-system operation that decides the call:
   file:  fopen succeeded        dir: "made" | "exists" | "fail"       link: symlink()/fopen ok *)
InsertDeferred(dq, h) ==
  LET k == CHOOSE i \in 1..(Len(dq) + 1) :
              /\ \A j \in 1..(i - 1) : arc[dq[j]].plen > arc[h].plen
              /\ (i = Len(dq) + 1 \/ arc[dq[i]].plen <= arc[h].plen)
  IN SubSeq(dq, 1, k - 1) \o <<h>> \o SubSeq(dq, k, Len(dq))

ExtractResult(fs, allocOk) ==
  CASE r.ctype = "NORMAL" ->
         LET m == arc[r.cur] IN
         CASE m.kind = "file"  -> allocOk /\ m.sup /\ fs = "ok" /\ m.good /\ ~MacFail(r.cur)
           [] m.kind = "dir"   -> fs \in {"made", "exists"}
           [] OTHER            -> allocOk /\ fs = "ok"
    [] r.ctype = "FAKE"  -> TRUE
    [] r.ctype = "DEFER" -> allocOk /\ fs = "ok"
    [] OTHER -> FALSE

ExtractWith(fs, c, allocOk, eofNow) ==
  /\ "reader" \in live
  /\ IF r.ctype = "NORMAL"
     THEN LET m == arc[r.cur] IN
          /\ done' = [done EXCEPT ![r.cur] = "extracted"]
          /\ CASE m.kind = "file" ->
                    /\ IF OpenFails THEN FailedOpen(c, allocOk, eofNow)
                       ELSE IF allocOk /\ m.sup
                       THEN /\ live' = live \cup {"decoder"}
                            /\ IF fs = "ok"
                               THEN /\ r' = [r EXCEPT !.dec = TRUE, !.dpos = Len(m.data)]
                                    /\ CanConsume(c) /\ EofAllowed(eofNow) /\ b' = ConsumeE(c, eofNow)
                               \* (the output file could not be created; a MacBinary pass-through has
                               \*  already read the envelope from the member's data by then)
                               ELSE /\ r' = [r EXCEPT !.dec = TRUE]
                                    /\ CanConsume(c) /\ EofAllowed(eofNow) /\ b' = ConsumeE(c, eofNow)
                       ELSE c = 0 /\ ~eofNow /\ UNCHANGED <<live, r, b>>
                    /\ UNCHANGED <<dirStack, deferred, refs>>
               [] m.kind = "dir" ->
                    /\ c = 0 /\ ~eofNow
                    /\ IF fs = "made" /\ policy # "PLAIN"
                       THEN dirStack' = <<r.cur>> \o dirStack /\ refs' = Inc(refs, r.cur)
                       ELSE UNCHANGED <<dirStack, refs>>
                    /\ UNCHANGED <<deferred, live, r, b>>
               [] m.kind = "dlink" ->
                    /\ c = 0 /\ ~eofNow
                    /\ IF allocOk /\ fs = "ok"
                       THEN deferred' = InsertDeferred(deferred, r.cur) /\ refs' = Inc(refs, r.cur)
                       ELSE UNCHANGED <<deferred, refs>>
                    /\ UNCHANGED <<dirStack, live, r, b>>
               [] OTHER -> c = 0 /\ ~eofNow /\ UNCHANGED <<dirStack, deferred, refs, live, r, b>>
     ELSE /\ c = 0 /\ ~eofNow
          /\ done' = IF r.ctype \in {"FAKE", "DEFER"} THEN [done EXCEPT ![r.cur] = "re-extracted"] ELSE done
          /\ UNCHANGED <<dirStack, deferred, refs, live, r, b>>
  /\ UNCHANGED <<arc, policy, mis>>

SetPolicy(p) == policy' = p /\ UNCHANGED <<arc, b, r, dirStack, deferred, refs, done, live, mis>>

(* lha_reader_free (the input stream is freed by the caller) *)
DecAll(rf, sq) == FoldLeft(LAMBDA a, h : Dec(a, h), rf, sq)
Free ==
  /\ "reader" \in live
  /\ live' = {}
  /\ LET r1 == DecAll(refs, dirStack)
         r2 == Dec(r1, b.idx)
         r3 == IF FIXED THEN DecAll(r2, deferred) ELSE r2
         r4 == IF FIXED /\ r.ctype \in {"FAKE", "DEFER"} THEN Dec(r3, r.cur) ELSE r3
     IN refs' = r4
  /\ r' = [r EXCEPT !.dec = FALSE]
  /\ UNCHANGED <<arc, policy, b, dirStack, deferred, done, mis>>

-------------------------------------------------------------------------------------
(* properties of the design *)
Count(sq, h) == Cardinality({i \in 1..Len(sq) : sq[i] = h})
Owners(h) == (IF b.idx = h THEN 1 ELSE 0) + Count(dirStack, h) + Count(deferred, h)
             + (IF r.ctype \in {"FAKE", "DEFER"} /\ r.cur = h THEN 1 ELSE 0)
\* every header is referenced exactly by its owners while the reader lives ...
RefsAreOwners == ("reader" \in live) => \A h \in 1..N : refs[h] = Owners(h)
\* ... and nothing is live after the reader is freed
NothingLiveAfterFree == ("reader" \notin live) => (live = {} /\ \A h \in 1..N : refs[h] = 0)
\* headers are only ever read at member boundaries, whatever was done with earlier members
HeadersAtBoundaries == ~mis
\* the current normal entry is the basic reader's current header
NormalIsBasic == (r.ctype = "NORMAL") => (r.cur = b.idx /\ b.idx # 0)
\* deferred symlinks: longest path first, handed out only after everything else
DeferredOrdered == \A i \in 1..(Len(deferred) - 1) : arc[deferred[i]].plen >= arc[deferred[i + 1]].plen
DeferOnlyAtEnd == (r.ctype = "DEFER") => (b.idx = 0 /\ dirStack = <<>>)
\* the plain policy never re-presents a directory
PlainNeverStacks == (policy = "PLAIN" /\ \A i \in 1..N : done[i] # "extracted") => dirStack = <<>>
\* end of archive is sticky
EofSticky == [][r.ctype = "EOF" => r'.ctype = "EOF"]_rvars
DecoderOnlyForNormal == r.dec => (r.ctype = "NORMAL" /\ "decoder" \in live)
=====================================================================================
