SPECIFICATION Spec
CONSTANTS
  KeepHistory = TRUE
  BLOCK = 2
  MAXREAD = 3
  MAXTOTAL = 6
  MAXCHUNKS = 4
  MAXLEN = 7
  MAXCALLS = 4
  ChunkSizes = {0, 1, 2, 3}
  ReadSizes = {0, 1, 2, 3, 8}
  BIG = 8
INVARIANTS BufBound RetLeReq NeverExceeds NoInnerAfterZero LengthFaithful CrcFaithful CbsRising CbsCurrent CbsComplete DeliveredPrefix Reaches
PROPERTIES AtomicMatches
CHECK_DEADLOCK FALSE
