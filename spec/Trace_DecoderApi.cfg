SPECIFICATION TSpec
CONSTANTS KeepHistory = FALSE
INVARIANTS BufBound RetLeReq NeverExceeds NoInnerAfterZero LengthFaithful CbsRising CbsCurrent CbsComplete
POSTCONDITION Accepted
CHECK_DEADLOCK FALSE
