SPECIFICATION TSpec
CONSTANTS KeepHistory = FALSE
INVARIANTS BufBound RetLeReq NeverExceeds NoInnerAfterZero LengthFaithful CbsRising CbsCurrent CbsComplete
VIEW TView
POSTCONDITION Accepted
CHECK_DEADLOCK FALSE
