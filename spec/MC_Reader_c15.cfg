SPECIFICATION Spec
CONSTANTS
  FIXED = TRUE
  MAXN = 3
  FAULTS = 0
INVARIANTS NormalInOrder HeadersAtBoundaries NormalIsBasic DeferredOrdered DeferOnlyAtEnd DecoderOnlyForNormal FakeWasExtracted DeferWasExtracted FakeAtRightPlace FakeOnlyAtEndUnderEOF NeverFakeUnderPlain EofMeansAllDone
PROPERTIES EofSticky
VIEW MCView
CHECK_DEADLOCK FALSE
