--------------------------------- MODULE Codec_Lh1 ----------------------------------
(* -lh1- (LHarc 1.x): LZSS with an adaptive Huffman code for literals/lengths (314 symbols) and a
   fixed prefix code for the upper six bits of the distance.  4 KiB window, initially spaces.

   THE DEFINITION of the adaptive code is an algorithm: Okumura/Yoshizaki's LZHUF.C
   (StartHuff / update / reconst over the arrays freq[], prnt[], son[]).  That reference is what is
   transcribed here - NOT lhasa's lib/lh1_decoder.c, which maintains the same tree with a different
   data structure (nodes[] ordered from the root, groups of equal frequency, group leaders).
   NAMED DEVIATION LzhufArrays: the state holds the reference arrays; lhasa's node i is the
   reference's node R - i, child_index - bit is son[] + bit, leaf_nodes[c] is R - prnt[c + T];
   nodes[0].freq = freq[R].  Trace validation then checks lhasa's implementation against the
   reference, including the rebuild at 32 K symbols (reconst vs. reconstruct_tree).

   Arrays (0-based functions, as in LZHUF.C):  T = 627 nodes, R = 626 the root;
     freq[0..T]         node weights in non-decreasing order; freq[T] = 65535 is a sentinel
     son[0..T-1]        inner node: index of the first of its two (adjacent) children;
                        leaf for symbol c: T + c
     prnt[0..T+313]     parent of node i; prnt[T + c] = the leaf node of symbol c; prnt[R] = 0

   Distance: 8 bits must be available (the C code peeks a byte to index its lookup table, so a
   stream that ends less than 8 bits after a copy symbol fails there even if the prefix code is
   shorter); upper part = canonical code with 1,3,8,12,24,16 codes of 3..8 bits (Codec_Huff (A):
   init_offset_table hands out consecutive left-justified codes = the canonical code), then 6 bits.

   One Lh1Read = one lha_lh1_read = one symbol.  State [input, pos, freq, prnt, son, win]. *)
EXTENDS Naturals, Sequences, SequencesExt, TLC, Codec_Bits, Codec_Huff, Codec_Window

NChar == 314                   \* NUM_CODES: 256 literals + copy lengths 3..60
LzT == 2 * NChar - 1           \* 627
LzR == LzT - 1                 \* root
MaxFreq == 32768               \* TREE_REORDER_LIMIT
Lh1W == 4096

\* ---------------------------------------------------------------- StartHuff
StartHuff ==
  LET f0 == [k \in 0..LzT |-> IF k < NChar THEN 1 ELSE IF k = LzT THEN 65535 ELSE 0]
      p0 == [k \in 0..(LzT + NChar - 1) |-> IF k >= LzT THEN k - LzT ELSE 0]
      s0 == [k \in 0..(LzT - 1) |-> IF k < NChar THEN k + LzT ELSE 0]
      step(a, m) == LET i == 2 * (m - 1)
                        j == NChar + m - 1
                    IN [freq |-> [a.freq EXCEPT ![j] = a.freq[i] + a.freq[i + 1]],
                        prnt |-> [a.prnt EXCEPT ![i] = j, ![i + 1] = j],
                        son  |-> [a.son EXCEPT ![j] = i]]
  IN FoldLeft(step, [freq |-> f0, prnt |-> p0, son |-> s0], IdxTo(NChar - 1))

\* ---------------------------------------------------------------- reconst
(* 1. the leaves, in table order, with halved weights (rounded up);
   2. pair the two lightest unpaired nodes (positions 2m-1, 2m of the growing table) under a new
      inner node and insert it behind the last entry that is not heavier (scan from the top);
   3. recompute prnt from son.  prnt[R] stays 0. *)
Reconst(t) ==
  LET leafIdx == SelectSeq([k \in 1..LzT |-> k - 1], LAMBDA i : t.son[i] >= LzT)
      fs0 == [k \in 1..NChar |-> (t.freq[leafIdx[k]] + 1) \div 2]
      ss0 == [k \in 1..NChar |-> t.son[leafIdx[k]]]
      ins(a, m) ==         \* a = <<fs, ss>> of length j = NChar + m - 1 (1-based position p = index p-1)
        LET j == NChar + m - 1
            f == a[1][2 * m - 1] + a[1][2 * m]
            scan(x, q) == IF x[2] THEN x ELSE IF f < a[1][j + 1 - q] THEN <<x[1] - 1, FALSE>> ELSE <<x[1], TRUE>>
            k0 == FoldLeft(scan, <<j, FALSE>>, IdxTo(j))[1]        \* entries 1..k0 stay in front
        IN << SubSeq(a[1], 1, k0) \o <<f>> \o SubSeq(a[1], k0 + 1, j),
              SubSeq(a[2], 1, k0) \o <<2 * (m - 1)>> \o SubSeq(a[2], k0 + 1, j) >>
      r == FoldLeft(ins, <<fs0, ss0>>, IdxTo(NChar - 1))
      freq2 == [k \in 0..LzT |-> IF k < LzT THEN r[1][k + 1] ELSE t.freq[LzT]]
      son2 == [k \in 0..(LzT - 1) |-> r[2][k + 1]]
      pstep(p, q) == LET i == q - 1
                         k == son2[i]
                     IN IF k >= LzT THEN [p EXCEPT ![k] = i] ELSE [p EXCEPT ![k] = i, ![k + 1] = i]
  IN [freq |-> freq2, son |-> son2, prnt |-> FoldLeft(pstep, t.prnt, IdxTo(LzT))]

\* ---------------------------------------------------------------- update
(* One step of the do-while for node c: bump its weight; if that breaks the order, swap it with
   the last node of the run of lighter nodes above it; continue with the parent.  The depth of
   the tree (the recursion depth) is below 1.45 * log2(MaxFreq) < 24. *)
RECURSIVE UpdFrom(_,_,_,_)
UpdFrom(f, p, s, c) ==
  LET k == f[c] + 1
      f1 == [f EXCEPT ![c] = k]
  IN IF k > f1[c + 1]
     THEN LET l == CHOOSE x \in (c + 1)..LzR : f1[x] < k /\ f1[x + 1] >= k     \* while (k > freq[++l]); l--   (unique: freq is sorted, freq[T] is a sentinel)
              f2 == [f1 EXCEPT ![c] = f1[l], ![l] = k]
              i == s[c]
              j == s[l]
              p1 == IF i < LzT THEN [p EXCEPT ![i] = l, ![i + 1] = l] ELSE [p EXCEPT ![i] = l]
              p2 == IF j < LzT THEN [p1 EXCEPT ![j] = c, ![j + 1] = c] ELSE [p1 EXCEPT ![j] = c]
              s2 == [s EXCEPT ![l] = i, ![c] = j]
              nc == p2[l]
          IN IF nc = 0 THEN [freq |-> f2, prnt |-> p2, son |-> s2]
             ELSE UpdFrom(TLCEval(f2), TLCEval(p2), TLCEval(s2), nc)
     ELSE LET nc == p[c]
          IN IF nc = 0 THEN [freq |-> f1, prnt |-> p, son |-> s] ELSE UpdFrom(TLCEval(f1), p, s, nc)

Update(t, sym) ==
  LET t1 == IF t.freq[LzR] = MaxFreq THEN Reconst(t) ELSE t
  IN UpdFrom(t1.freq, t1.prnt, t1.son, t1.prnt[sym + LzT])

\* ---------------------------------------------------------------- decoding
\* DecodeChar: from the root follow son[] + bit down to a leaf: [ok, v, pos]
SymWalkN(inp, son, pos0, idx) ==
  LET nb == NBitsOf(inp)
      step(a, k) == IF a[3] # 0 THEN a
                    ELSE IF a[1] >= LzT THEN <<a[1], a[2], 1>>
                    ELSE IF a[2] >= nb THEN <<a[1], a[2], 2>>
                    ELSE << son[a[1] + BitAt(inp, a[2])], a[2] + 1, 0 >>
  IN FoldLeft(step, <<son[LzR], pos0, 0>>, idx)
SymWalk(inp, son, pos) ==
  LET r1 == SymWalkN(inp, son, pos, Idx32)
      r == IF r1[3] # 0 THEN r1 ELSE SymWalkN(inp, son, pos, IdxTo(LzT))
  IN [ok |-> r[3] = 1, v |-> IF r[3] = 1 THEN r[1] - LzT ELSE 0, pos |-> r[2]]

\* code lengths of the 64 distance prefixes: offset_fdist = 1,3,8,12,24,16 codes of 3..8 bits
PosLens == [u \in 1..64 |-> IF u <= 1 THEN 3 ELSE IF u <= 4 THEN 4 ELSE IF u <= 12 THEN 5
                            ELSE IF u <= 24 THEN 6 ELSE IF u <= 48 THEN 7 ELSE 8]
PosCode == CanonOf(PosLens, 64)
ASSUME IsCompleteCanon(PosCode)

\* read_offset: [ok, v, pos]
ReadPosition(inp, pos) ==
  IF ~BitsOk(inp, pos, 8) THEN [ok |-> FALSE, v |-> 0, pos |-> pos]
  ELSE LET u == CanonDecode(inp, PosCode, pos)
           low == RdBits(inp, u.pos, 6)
       IN [ok |-> low.ok, v |-> u.v * 64 + low.v, pos |-> low.pos]

Lh1Init(input) ==
  LET t == StartHuff IN
  [input |-> input, pos |-> 0, freq |-> t.freq, prnt |-> t.prnt, son |-> t.son, win |-> EmptyWin]

Lh1Read(st) ==
  LET inp == st.input
      c == SymWalk(inp, st.son, st.pos)
  IN IF ~c.ok THEN [st |-> st, out |-> <<>>]                      \* no tree update either
     ELSE LET t == Update([freq |-> st.freq, prnt |-> st.prnt, son |-> st.son], c.v)
              s == [st EXCEPT !.freq = t.freq, !.prnt = t.prnt, !.son = t.son, !.pos = c.pos]
          IN IF c.v < 256
             THEN [st |-> [s EXCEPT !.win = WPush(s.win, <<c.v>>, Lh1W)], out |-> <<c.v>>]
             ELSE LET o == ReadPosition(inp, c.pos) IN
                  IF ~o.ok THEN [st |-> [s EXCEPT !.pos = o.pos], out |-> <<>>]
                  ELSE LET out == WCopy(s.win, o.v, c.v - 256 + 3, Lh1W, 0, Spaces)
                       IN [st |-> [s EXCEPT !.pos = o.pos, !.win = WPush(s.win, out, Lh1W)], out |-> out]
=====================================================================================
