----------------------------------- MODULE MacBinary -----------------------------------
(* lib/macbinary.c: members written by MacLHA (OS type 'm') may carry a 128-byte MacBinary envelope in
   front of the file's data fork.  What the caller of the library obtains for such a member, as a function
   of the bytes the member's own decoder yields (`inner`, already limited to the header's length field),
   the header's file name, length and time stamp.

   The envelope is recognised by (is_macbinary_header): byte 0, 0x4a, 0x52 zero; bytes 0x63..0x7f zero; the
   name field (length byte + up to 63 bytes, zero padded) equal to the header's file name; data fork length
   + resource fork length + 128, rounded up to a multiple of 128 (all modulo 2^32), equal to the header's
   length; the modification date not before 1970 in Mac time and within 14 hours of the header's stamp.
   If recognised, the caller gets the data fork, or the resource fork if the data fork is empty; otherwise
   the whole stream.  If the header announces at least 128 bytes but fewer arrive, the member cannot be
   opened at all (Outer.ok = FALSE).   32-bit quantities are pairs <<high 16 bits, low 16 bits>>. *)
EXTENDS Naturals, Sequences

W(n) == <<n \div 65536, n % 65536>>                       \* n < 2^31
WLe(a, b) == a[1] < b[1] \/ (a[1] = b[1] /\ a[2] <= b[2])
WAdd(a, b) == LET lo == a[2] + b[2] IN <<(a[1] + b[1] + lo \div 65536) % 65536, lo % 65536>>     \* mod 2^32
WSub(a, b) == LET lo == a[2] - b[2]  br == IF lo < 0 THEN 1 ELSE 0                               \* a - b, for a >= b
              IN <<a[1] - b[1] - br, IF lo < 0 THEN lo + 65536 ELSE lo>>
WRound128(a) == LET s == WAdd(a, <<0, 127>>) IN <<s[1], s[2] - (s[2] % 128)>>
BE32(h, off) == <<h[off + 1] * 256 + h[off + 2], h[off + 3] * 256 + h[off + 4]>>            \* off: 0-based offset
Zero(h, from, n) == \A i \in 1..n : h[from + i] = 0                                          \* n bytes from 0-based offset

MACOFFSET == <<31781, 45184>>       \* 2082844800 = seconds from 1904 to 1970
FOURTEENH == <<0, 50400>>
CStr(s) == LET z == {i \in 1..Len(s) : s[i] = 0} IN IF z = {} THEN s ELSE SubSeq(s, 1, (CHOOSE i \in z : \A j \in z : i <= j) - 1)

IsEnvelope(h, fname, hlen, ts) ==
  LET nl   == h[2]
      name == CStr(fname)
      df   == BE32(h, 83)   rf == BE32(h, 87)   mod == BE32(h, 95)
  IN /\ h[1] = 0 /\ h[75] = 0 /\ h[83] = 0 /\ Zero(h, 99, 2) /\ Zero(h, 101, 27)
     /\ nl <= 63 /\ nl = Len(name) /\ SubSeq(h, 3, 2 + nl) = name /\ Zero(h, 2 + nl, 63 - nl)
     /\ hlen = WRound128(WAdd(WAdd(df, rf), <<0, 128>>))
     /\ WLe(MACOFFSET, mod)
     /\ LET t == WSub(mod, MACOFFSET)
            d == IF WLe(t, ts) THEN WSub(ts, t) ELSE WSub(t, ts)
        IN WLe(d, FOURTEENH)

Min2(a, b) == IF a < b THEN a ELSE b
\* number of bytes min(w, n) for a 32-bit w and a small n
MinW(w, n) == IF w[1] > 0 THEN n ELSE Min2(w[2], n)

Outer(inner, fname, hlen, ts) ==
  IF WLe(<<0, 128>>, hlen) /\ Len(inner) < 128 THEN [ok |-> FALSE, out |-> <<>>, env |-> FALSE]
  ELSE IF ~WLe(<<0, 128>>, hlen) THEN [ok |-> TRUE, out |-> inner, env |-> FALSE]
  ELSE LET h == SubSeq(inner, 1, 128) IN
       IF ~IsEnvelope(h, fname, hlen, ts) THEN [ok |-> TRUE, out |-> inner, env |-> FALSE]
       ELSE LET df == BE32(h, 83)  rf == BE32(h, 87)
                rem == IF df # <<0, 0>> THEN df ELSE rf
            IN [ok |-> TRUE, out |-> SubSeq(inner, 129, 128 + MinW(rem, Len(inner) - 128)), env |-> TRUE]
=========================================================================================
