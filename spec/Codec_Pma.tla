--------------------------------- MODULE Codec_Pma ----------------------------------
(* lib/pma_common.c: what the two PMarc decoders share.

   HistoryLinkedList is a move-to-front list of the 256 byte values, kept in C as a circular doubly
   linked list (history[256].prev/next, history_head) that find_in_history_list walks from
   whichever side is nearer.  Declaratively it is a permutation `hist` of 0..255 (a sequence,
   hist[1] = the byte output last = history_head, hist[k+1] = k steps along .prev):
     find_in_history_list(count)  =  hist[count + 1]
     update_history_list(b)       =  b moved to the front
   The initial order is the chain init_history_list cuts together: 0x20..0x7f, 0x00..0x1f,
   0xa0..0xdf, 0x80..0x9f, 0xe0..0xff. *)
EXTENDS Naturals, Sequences, SequencesExt, Codec_Bits

RngSeq(a, b) == [i \in 1..(b - a + 1) |-> a + i - 1]
PmaInitHist == RngSeq(32, 127) \o RngSeq(0, 31) \o RngSeq(160, 223) \o RngSeq(128, 159) \o RngSeq(224, 255)

MtfIndex(h, b) == CHOOSE k \in 1..256 : h[k] = b            \* unique: h is a permutation
MtfAt(h, k) == IF k = 1 THEN h ELSE <<h[k]>> \o SubSeq(h, 1, k - 1) \o SubSeq(h, k + 1, 256)
MtfFront(h, b) == MtfAt(h, MtfIndex(h, b))
MtfAll(h, bytes) == FoldLeft(MtfFront, h, bytes)

\* decode_variable_length(table, header): table entry <<offset, bits>>: [ok, v, pos]
VarLen(inp, entry, pos) ==
  LET r == RdBits(inp, pos, entry[2]) IN [ok |-> r.ok, v |-> entry[1] + r.v, pos |-> r.pos]
=====================================================================================
