SPECIFICATION Spec
CONSTANT N = 6
INVARIANTS Emit
CHECK_DEADLOCK FALSE
