SPECIFICATION Spec
CONSTANT N = 10
INVARIANTS Equiv IsClean NoLonger Idempotent
CHECK_DEADLOCK FALSE
