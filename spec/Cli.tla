------------------------------------- MODULE Cli --------------------------------------
(* What the command line tool writes to standard output in the test, extract, print and dry-run
   commands (src/extract.c, src/main.c), as sequences of bytes, and how the command word is parsed
   into options (parse_command_line / parse_options).

   A member record m carries what the library returns for it (path, filename, target, method, length
   as <<hi, lo>>) plus, from the generator: `produced` (number of bytes a complete decode delivers),
   `good` (verdict), `data`
   (its bytes, for the print command), `exists` (a file is already at the output path). *)
EXTENDS ListOutput

S_MELTING == <<77, 101, 108, 116, 105, 110, 103, 32, 32, 58>>
S_TESTING == <<84, 101, 115, 116, 105, 110, 103, 32, 32, 58>>
S_MELTED  == <<77, 101, 108, 116, 101, 100>>
S_FAILURE == <<70, 97, 105, 108, 117, 114, 101>>
S_TESTED  == <<84, 101, 115, 116, 101, 100>>
S_CRCERR  == <<67, 82, 67, 32, 101, 114, 114, 111, 114>>
S_SYMLINK == <<83, 121, 109, 98, 111, 108, 105, 99, 32, 76, 105, 110, 107, 32>>
S_EXTRACT == <<69, 88, 84, 82, 65, 67, 84, 32>>
S_VERIFY  == <<86, 69, 82, 73, 70, 89, 32>>
S_DIRSFX  == <<32, 40, 100, 105, 114, 101, 99, 116, 111, 114, 121, 41>>
S_EXISTS  == <<32, 98, 117, 116, 32, 102, 105, 108, 101, 32, 105, 115, 32, 101, 120, 105, 115, 116, 46>>
S_SKIPPED == <<32, 58, 32, 83, 107, 105, 112, 112, 101, 100, 46, 46, 46>>
S_BANNER  == <<58, 58, 58, 58, 58, 58, 58, 58>>
MAXPROGRESS == 58
(* block size of each decoder type (the unit of the progress callback): 2048 for the stored methods (they read 1024 bytes at a time),
   the ring size for -lzs- -lz5- -lh1- -pm2-, half the ring for -lh5- -lh6- -lh7- -lhx-, a quarter of
   -lh5-'s ring for -lh4-, 2048 for -pm1-, 32768 for LHARK's -lh7- (which the library presents as -lk7-);
   0 = no decoder for the method *)
BlockSize(meth) ==
  CASE meth = <<45, 108, 107, 55, 45>> -> 32768 [] meth = <<45, 108, 104, 48, 45>> -> 2048 [] meth = <<45, 108, 122, 52, 45>> -> 2048 [] meth = <<45, 112, 109, 48, 45>> -> 2048 [] meth = <<45, 108, 122, 115, 45>> -> 2048 [] meth = <<45, 108, 122, 53, 45>> -> 4096 [] meth = <<45, 108, 104, 49, 45>> -> 4096 [] meth = <<45, 108, 104, 52, 45>> -> 4096 [] meth = <<45, 108, 104, 53, 45>> -> 8192 [] meth = <<45, 108, 104, 54, 45>> -> 32768 [] meth = <<45, 108, 104, 55, 45>> -> 65536 [] meth = <<45, 108, 104, 120, 45>> -> 524288 [] meth = <<45, 112, 109, 49, 45>> -> 2048 [] meth = <<45, 112, 109, 50, 45>> -> 8192 [] OTHER -> 0
LenInt(m) == m.length[1] * 65536 + m.length[2]          \* members with declared lengths below 2^31 only
Block(m) == BlockSize(m.method)

-------------------------------------------------------------------------------------
(* the command word: first character = command, then option letters.  Result: [ok, mode, quiet,
   verbose, dry, overwrite ("prompt" | "all"), usepath, wdir (<<-1>> = none)] *)
ParseCommand(cmd0) ==
  LET cmd == IF Len(cmd0) > 0 /\ cmd0[1] = 45 THEN Tail(cmd0) ELSE cmd0
      mode == IF Len(cmd) = 0 THEN "unknown"
              ELSE CASE cmd[1] = 108 -> "list" [] cmd[1] = 118 -> "verbose" [] cmd[1] = 116 -> "test"
                     [] cmd[1] \in {101, 120} -> "extract" [] cmd[1] = 112 -> "print" [] OTHER -> "unknown"
      step(a, i) ==
        IF ~a.ok \/ a.skip > 0 \/ a.w THEN [a EXCEPT !.skip = IF @ > 0 THEN @ - 1 ELSE 0]
        ELSE LET c == cmd[i] IN
             CASE c = 102 -> [a EXCEPT !.overwrite = "all"]
               [] c = 105 -> [a EXCEPT !.usepath = FALSE]
               [] c = 110 -> [a EXCEPT !.dry = TRUE]
               [] c = 113 -> IF i + 1 <= Len(cmd) /\ cmd[i + 1] >= 48 /\ cmd[i + 1] <= 57
                             THEN [a EXCEPT !.quiet = cmd[i + 1] - 48, !.overwrite = "all", !.skip = 1]
                             ELSE [a EXCEPT !.quiet = 2, !.overwrite = "all"]
               [] c = 118 -> [a EXCEPT !.verbose = TRUE]
               [] c = 119 -> LET st == IF i + 1 <= Len(cmd) /\ cmd[i + 1] = 61 THEN i + 2 ELSE i + 1
                             IN [a EXCEPT !.wdir = SubSeq(cmd, st, Len(cmd)), !.w = TRUE]
               [] OTHER -> [a EXCEPT !.ok = FALSE]
  IN FoldLeft(step, [ok |-> mode # "unknown", mode |-> mode, quiet |-> 0, verbose |-> FALSE, dry |-> FALSE, overwrite |-> "prompt",
                     usepath |-> TRUE, wdir |-> <<-1>>, skip |-> 0, w |-> FALSE], [k \in 1..(IF Len(cmd) > 0 THEN Len(cmd) - 1 ELSE 0) |-> k + 1])

StripSlashes(s) == LET k == IF \E i \in 1..Len(s) : s[i] # 47 THEN (CHOOSE i \in 1..Len(s) : s[i] # 47 /\ \A j \in 1..(i - 1) : s[j] = 47) ELSE Len(s) + 1
                   IN SubSeq(s, k, Len(s))
\* file_full_path
OutPath(m, o) == (IF o.wdir # <<-1>> THEN o.wdir \o <<47>> ELSE <<>>)
                 \o (IF o.usepath /\ m.path # NULLS THEN StripSlashes(m.path) ELSE <<>>)
                 \o (IF m.filename # NULLS THEN StripSlashes(m.filename) ELSE <<>>)

NameStatus(fn, status) == <<13>> \o SafeText(fn) \o <<9, 45, 32>> \o status \o <<32, 32>>
\* everything the progress callback prints while `produced` of `total` bytes are decoded
ProgressText(fn, op, m, o) ==
  LET total  == (LenInt(m) + Block(m) - 1) \div Block(m)
      factor == 1 + total \div MAXPROGRESS
      nb     == (total + factor - 1) \div factor
      done   == (m.produced + Block(m) - 1) \div Block(m)
  IN IF o.quiet >= 2 THEN <<>>
     ELSE IF o.quiet = 1 THEN <<13>> \o SafeText(fn) \o <<32, 58>>
     ELSE NameStatus(fn, op) \o Rep(46, nb) \o NameStatus(fn, op)
          \o Cat([b \in 1..done |-> IF (b + factor - 1) % factor = 0 THEN <<111>> ELSE <<>>])

IsDir(m) == m.method = LHDm /\ m.target = NULLS
IsLink(m) == m.target # NULLS
IsFileM(m) == m.method # LHDm

\* lha t
TestMember(m, o) ==
  LET fn == OutPath(m, o) IN
  IF o.dry THEN (IF IsFileM(m) THEN SafeText(S_VERIFY \o fn) \o <<10>> ELSE <<>>)
  ELSE IF IsFileM(m) /\ Block(m) > 0
       THEN ProgressText(fn, S_TESTING, m, o)
            \o (IF o.quiet < 2 THEN NameStatus(fn, IF m.good THEN S_TESTED ELSE S_CRCERR) \o <<10>> ELSE <<>>)
       ELSE <<>>
\* lha xn / en / pn
DryMember(m, o) ==
  LET fn == OutPath(m, o) IN
  SafeText(S_EXTRACT \o fn)
  \o (IF IsLink(m) THEN SafeText(<<124>> \o m.target \o S_DIRSFX)
      ELSE IF m.method = LHDm THEN S_DIRSFX
      ELSE IF m.exists THEN S_EXISTS ELSE <<>>)
  \o <<10>>
\* lha p
PrintMember(m, o) ==
  LET fn == OutPath(m, o) IN
  (IF o.quiet < 2
   THEN (IF IsLink(m) THEN SafeText(S_SYMLINK \o fn \o ARROW \o m.target) \o <<10>>
         ELSE IF IsFileM(m) THEN S_BANNER \o <<10>> \o SafeText(fn) \o <<10>> \o S_BANNER \o <<10>> ELSE <<>>)
   ELSE <<>>)
  \o (IF IsFileM(m) THEN m.data ELSE <<>>)
\* lha x / e for an entry that comes from the archive (not a re-presented one), no pre-existing file
ExtractMember(m, o) ==
  LET fn == OutPath(m, o) IN
  IF IsDir(m) THEN <<>>
  ELSE IF IsLink(m) THEN (IF o.quiet < 2 THEN SafeText(S_SYMLINK \o fn \o ARROW \o m.target) \o <<10>> ELSE <<>>)
  ELSE IF Block(m) > 0
       THEN ProgressText(fn, S_MELTING, m, o)
            \o (IF o.quiet < 2 THEN NameStatus(fn, IF m.good THEN S_MELTED ELSE S_FAILURE) \o <<10>> ELSE <<>>)
       ELSE <<>>

Output(members, o, filters) ==
  LET sel == SelectSeq(members, LAMBDA m : Selected(filters, FullPath(m)))
      f(m) == CASE o.mode = "test" -> TestMember(m, o)
                [] o.mode = "print" -> IF o.dry THEN DryMember(m, o) ELSE PrintMember(m, o)
                [] o.mode = "extract" -> IF o.dry THEN DryMember(m, o) ELSE ExtractMember(m, o)
  IN Cat([i \in 1..Len(sel) |-> f(sel[i])])
\* exit status of the command: non-zero iff some selected member failed
Fails(members, o, filters) ==
  LET sel == SelectSeq(members, LAMBDA m : Selected(filters, FullPath(m)))
  IN IF o.dry \/ o.mode = "print" THEN FALSE
     ELSE \E i \in 1..Len(sel) : IsFileM(sel[i]) /\ ~(Block(sel[i]) > 0 /\ sel[i].good)

-------------------------------------------------------------------------------------
(* src/main.c.  args = the arguments after the program name, as byte sequences.
   main(): with two or more arguments, of which the first parses as a command word, that command runs on the second
   argument with the rest as wildcard filters; with exactly one argument the archive named by it is listed ("lha foo.lzh"
   = "lha l foo.lzh", whatever the argument looks like - "lha l" lists an archive called "l"); everything else prints the
   usage page and ends with status 255.
   do_command(): the archive name "-" means standard input (never opened, so never an open failure); any other name is
   opened as a file, and a failure to open it is reported on standard error and ends the tool with status 255 before
   anything is written to standard output.  The list commands print the archive file's modification time in the footer
   (fstat on the stream, so for "-" that of whatever is connected to standard input). *)
DEFAULTCMD == <<108>>
Main(args) ==
  LET n == Len(args) IN
  IF n >= 2 /\ ParseCommand(args[1]).ok
  THEN [kind |-> "run", o |-> ParseCommand(args[1]), archive |-> args[2], filters |-> SubSeq(args, 3, n)]
  ELSE IF n = 1 THEN [kind |-> "run", o |-> ParseCommand(DEFAULTCMD), archive |-> args[1], filters |-> <<>>]
  ELSE [kind |-> "usage", o |-> ParseCommand(DEFAULTCMD), archive |-> <<>>, filters |-> <<>>]
FromStdin(inv) == inv.archive = <<45>>
Opens(inv, fileThere) == FromStdin(inv) \/ fileThere
S_OPENERR == <<76, 72, 97, 58, 32, 69, 114, 114, 111, 114, 58, 32>>          \* "LHa: Error: "
S_USAGE   == <<117, 115, 97, 103, 101, 58, 32>>                                 \* "usage: "
OpenError(inv, why) == S_OPENERR \o inv.archive \o <<32>> \o why \o <<10>>
ListMode(o) == IF o.mode = "list" THEN (IF o.verbose THEN "lv" ELSE "l") ELSE (IF o.verbose THEN "vv" ELSE "v")
IsListing(o) == o.mode \in {"list", "verbose"}
HasSub(hay, needle) == \E i \in 1..(Len(hay) - Len(needle) + 1) : SubSeq(hay, i, i + Len(needle) - 1) = needle
(* what an invocation writes to standard output, given the members the archive holds (records as for Output / Listing)
   and env = [now, mtime, totalratio] for the list commands *)
MainOutput(inv, members, env) ==
  IF IsListing(inv.o)
  THEN Listing(members, [mode |-> ListMode(inv.o), quiet |-> inv.o.quiet, now |-> env.now, mtime |-> env.mtime,
                         filters |-> inv.filters, totalratio |-> env.totalratio])
  ELSE Output(members, inv.o, inv.filters)
MainStatus(inv, members) == IF IsListing(inv.o) THEN 0 ELSE IF Fails(members, inv.o, inv.filters) THEN 1 ELSE 0
=======================================================================================
