--------------------------------- MODULE Trace_Reader --------------------------------
(* Trace validation of LHAReader executions (reader_drv.c) against Reader.tla.

   Reset carries the ground truth (the archive as a sequence of member records and the directory
   policy).  Every public call is one line with its result and the state projection obtained
   through the LHASA_VERIF accessors; allocation events (link-time interposition) are
   interleaved.  The trace is accepted iff every call's result and projected state are the
   model's, every Dealloc releases a live block, and nothing is live after Free. *)
EXTENDS Reader, TLC, Json, IOUtils
CONSTANTS CHECK_LEAKS,   \* TRUE: the release guarantee of C20 is part of acceptance
          CHECK_WORK     \* TRUE: the work and heap bounds of C13 are part of acceptance
Trc == ndJsonDeserialize(IOEnv.TRACE)
VARIABLES l, heap, files, w     \* w: work accounting for C13: [alen, nops, out]
tvars == <<arc, policy, b, r, dirStack, deferred, refs, done, live, mis, l, heap, files, w>>
Ev == Trc[l]
IsEvent(e) == l <= Len(Trc) /\ Ev.e = e /\ l' = l + 1
Has(f) == f \in DOMAIN Ev
\* a check that says which observation differed when a line is rejected (printed only on the
\* failing path; IF, not disjunction, so that TLC does not explore both sides)
Chk(what, cond) == IF cond THEN TRUE ELSE PrintT(<<"MISMATCH", what, "line", l>>) /\ FALSE

TInit == /\ RInit(<<>>, "EOD") /\ l = 1 /\ heap = {} /\ files = {} /\ w = [alen |-> 0, nops |-> 0, out |-> 0]

Pol(p) == IF p = "plain" THEN "PLAIN" ELSE IF p = "eof" THEN "EOF" ELSE "EOD"

MB == INSTANCE MacBinary
\* ground truth of members from MacLHA archives: what is handed out is MacBinary!Outer of the stored stream
MacTruthOK(m) == IF "mac" \in DOMAIN m
                 THEN LET o == MB!Outer(m.mac.inner, m.mac.fname, m.mac.hlen, m.mac.ts)
                      IN m.data = o.out /\ m.macfail = ~o.ok
                 ELSE TRUE
TReset == /\ IsEvent("Reset")
          /\ Chk("ground truth of a Mac member = MacBinary!Outer", \A i \in 1..Len(Ev.arc) : MacTruthOK(Ev.arc[i]))
          /\ arc' = Ev.arc /\ policy' = Pol(Ev.policy)
          /\ b' = [idx |-> 0, eof |-> FALSE, rem |-> 0, pos |-> 0]
          /\ r' = [ctype |-> "START", cur |-> 0, dec |-> FALSE, dpos |-> 0]
          /\ dirStack' = <<>> /\ deferred' = <<>>
          /\ refs' = [i \in 1..Len(Ev.arc) |-> 0] /\ done' = [i \in 1..Len(Ev.arc) |-> "none"]
          /\ live' = {"reader"} /\ mis' = FALSE
          /\ heap' = {} /\ files' = {}

Same == UNCHANGED <<arc, policy, b, r, dirStack, deferred, refs, done, live, mis>>
TAlloc   == IsEvent("Alloc") /\ Ev.id \notin heap /\ heap' = heap \cup {Ev.id} /\ Same /\ UNCHANGED files
TDealloc == IsEvent("Dealloc") /\ Ev.id \in heap /\ heap' = heap \ {Ev.id} /\ Same /\ UNCHANGED files
TFopen   == IsEvent("Fopen") /\ files' = files \cup {Ev.id} /\ Same /\ UNCHANGED heap
TFclose  == IsEvent("Fclose") /\ Ev.id \in files /\ files' = files \ {Ev.id} /\ Same /\ UNCHANGED heap
TFail    == IsEvent("AllocFail") /\ Same /\ UNCHANGED <<heap, files>>
\* (the kind of stream the driver says it opened must be one there is: a name the driver did not recognise falls through to a default)
TNew     == IsEvent("New") /\ Chk("stream kind", ~Has("stream") \/ Ev.stream \in {"path", "FILE", "pipe", "drip", "cb", "cbns", "cbk"})
            /\ Same /\ UNCHANGED <<heap, files>>

AllocOk == IF Has("faults") THEN Ev.faults = 0 ELSE TRUE
IdOf(i) == IF i = 0 THEN "" ELSE arc'[i].id

\* the projected state of the implementation equals the model's post-state
ProjOK ==
  LET p == Ev.proj IN
  /\ Chk("ctype", p.ctype = r'.ctype)
  /\ Chk("cur", p.cur = IdOf(r'.cur))
  /\ Chk("curRefs", r'.cur # 0 => p.curRefs = refs'[r'.cur])
  /\ Chk("bcur", p.bcur = IdOf(b'.idx))
  /\ Chk("bRefs/rem", b'.idx # 0 => (p.bRefs = refs'[b'.idx] /\ p.rem = b'.rem))
  /\ Chk("beof", p.beof = b'.eof)
  /\ Chk("dec", p.dec = r'.dec)
  /\ Chk("policy", "pol" \in DOMAIN p => Pol(p.pol) = policy')
  \* (the decoder of the stored stream exists exactly while the member's decoder does: it is that decoder, or sits behind the MacBinary pass-through)
  /\ Chk("inner", "inner" \in DOMAIN p => p.inner = r'.dec)
  /\ Chk("stack", Len(p.stack) = Len(dirStack') /\ \A i \in 1..Len(dirStack') : p.stack[i] = <<arc[dirStack'[i]].id, refs'[dirStack'[i]]>>)
  /\ Chk("deferred", Len(p.deferred) = Len(deferred') /\ \A i \in 1..Len(deferred') : p.deferred[i] = <<arc[deferred'[i]].id, refs'[deferred'[i]]>>)

\* compressed bytes consumed during the call, read off the projection
\* did the basic reader latch eof during this call? (read off the projection)
EofNow == Ev.proj.beof /\ ~b.eof
Consumed == IF b.idx # 0 /\ Ev.proj.bcur # "" THEN b.rem - Ev.proj.rem ELSE 0

TNext == /\ IsEvent("Next")
         /\ NextFileWith(AllocOk)
         /\ Chk("next.id", Ev.id = IdOf(r'.cur))
         /\ Chk("next.fake", Ev.fake = (r'.ctype \in {"FAKE", "DEFER"}))
         /\ ProjOK
         /\ UNCHANGED <<heap, files>>

TRead == /\ IsEvent("Read")
         /\ Chk("read.consumed", Consumed >= 0)
         /\ ReadWith(Ev.k, Consumed, AllocOk, EofNow)
         /\ LET want == ReadResult(Ev.k, AllocOk)
            IN /\ Chk("read.n", Ev.n = Len(want))
               /\ Chk("read.bytes", Has("bytes") => Ev.bytes = want)
         /\ ProjOK
         /\ UNCHANGED <<heap, files>>

\* Verdicts are judged under the caller discipline of C15 / C20 only: the first decode operation on an entry (a check
\* or extract after some bytes were read, or after an extract whose output file could not be created, starts a new
\* decoder in the middle of the stored stream - what that yields is not a property of the member).  Whether a fixed
\* script stays inside the discipline depends on the file system's answers, so it is decided here, on the execution.
FirstDecode == r.ctype # "NORMAL" \/ arc[r.cur].kind # "file" \/ done[r.cur] = "none"
TCheck == /\ IsEvent("Check")
          /\ Consumed >= 0
          /\ CheckWith(Consumed, AllocOk, EofNow)
          /\ Chk("check.res", IF FirstDecode THEN Ev.res = CheckResult(AllocOk) ELSE TRUE)
          /\ ProjOK
          /\ UNCHANGED <<heap, files>>

\* outcome of the deciding file-system operation, read off the log
FsOf == IF r.ctype = "NORMAL" /\ arc[r.cur].kind = "dir"
        THEN (IF Ev.res THEN (IF Ev.existed THEN "exists" ELSE "made") ELSE "fail")
        ELSE (IF Ev.after THEN "ok" ELSE "fail")

TExtract == /\ IsEvent("Extract")
            /\ Consumed >= 0
            /\ ExtractWith(FsOf, Consumed, AllocOk, EofNow)
            /\ Chk("extract.res", IF FirstDecode THEN Ev.res = ExtractResult(FsOf, AllocOk) ELSE TRUE)
            \* what a successful first extraction of a file wrote is the member's contents (logged where the driver reads the file back)
            /\ Chk("extract.file", (Has("file") /\ FirstDecode /\ Ev.res /\ r.ctype = "NORMAL" /\ arc[r.cur].kind = "file")
                                    => Ev.file = arc[r.cur].data)
            /\ ProjOK
            /\ UNCHANGED <<heap, files>>

TSetPolicy == /\ IsEvent("SetPolicy") /\ SetPolicy(Pol(Ev.p)) /\ UNCHANGED <<heap, files>>

\* lha_reader_free + lha_input_stream_free: everything obtained has been released (C20)
TFree == /\ IsEvent("Free")
         /\ Free
         /\ CHECK_LEAKS => (heap = {} /\ files = {} /\ Ev.liveBlocks = 0 /\ Ev.liveFiles = 0)
         /\ UNCHANGED <<heap, files>>

\* C13: work and heap bounds, evaluated on every call that carries the counters.  `alen` (bytes
\* present in the input) comes with the Reset line; calls/req count the read/skip callbacks made so
\* far and the bytes they were asked for; out = bytes of output requested by the caller so far.
WorkOK(e, alen, nops, out) ==
  /\ ("calls" \in DOMAIN e) => e.calls <= 2 * alen + 64 * nops + 256
  \* (a single header may legitimately ask for up to its 1 MiB cap in one request, whatever is there)
  /\ ("req" \in DOMAIN e) => e.req <= 3 * alen + out + (1048576 + 8192) * nops + 65536
  /\ ("peak" \in DOMAIN e) => e.peak <= 8388608 + 2 * alen
\* work accounting (every line) and the C13 bounds (lines that carry counters)
WStep ==
  /\ w' = IF Ev.e = "Reset" THEN [alen |-> IF Has("alen") THEN Ev.alen ELSE 0, nops |-> 0, out |-> 0]
          ELSE IF Ev.e \in {"Next", "Read", "Check", "Extract", "Free"}
               THEN [w EXCEPT !.nops = @ + 1, !.out = @ + (IF Ev.e = "Read" THEN Ev.k ELSE 0)]
               ELSE w
  /\ CHECK_WORK => Chk("work/heap bound (C13)", WorkOK(Ev, w'.alen, w'.nops, w'.out))
TBudget == FALSE    \* a Budget line (the driver's deterministic step budget was exhausted) matches no action

TNext_ == /\ (TReset \/ TAlloc \/ TDealloc \/ TFopen \/ TFclose \/ TFail \/ TNew
             \/ TNext \/ TRead \/ TCheck \/ TExtract \/ TSetPolicy \/ TFree)
          /\ WStep
\* end of archive is sticky within one execution
EofStickyT == [][(r.ctype = "EOF" /\ l <= Len(Trc) /\ Trc[l].e # "Reset") => r'.ctype = "EOF"]_tvars
\* the ground truth (with all member data) is fixed between Resets: keep it out of the fingerprint
TView == <<policy, b, r, dirStack, deferred, refs, done, live, mis, l, heap, files, w>>
TSpec == TInit /\ [][TNext_]_tvars
Accepted == LET dd == TLCGet("stats").diameter - 1
            IN IF dd = Len(Trc) THEN TRUE ELSE PrintT(<<"REJECTED_AT_LINE", dd + 1>>) /\ FALSE
=====================================================================================
