SPECIFICATION Spec
CONSTANT N = 5
INVARIANT Equiv
CHECK_DEADLOCK FALSE
