SPECIFICATION TSpec
CONSTANTS MODE = {"C11"}
INVARIANT Stats
VIEW TView
POSTCONDITION Accepted
CHECK_DEADLOCK FALSE
