--------------------------------- MODULE Trace_Codec --------------------------------
(* Trace validation of the decompression algorithms (the dtype->read callbacks of lhasa's
   LHADecoderTypes) against the Codec_* modules.

   Input: the ndjson trace of harness/c/decoder_drv.c run as `decoder_drv <jobs> data`:
     {"e":"Reset",...}                                  skipped
     {"e":"New","method":"-lh5-","data":[..],...}       st := XInit(data) of the method's module
     {"e":"Read","inner":[[..],[..],[]],...}            for every logged call of dtype->read, in order:
                                                         the chunk must equal XRead(st).out; st := XRead(st).st
                                                         (an empty chunk = the C function returned 0)
     Monitor / Len / Crc / End                          skipped
   The front end (how chunks are cut into the caller's reads, CRC, progress) is Trace_DecoderApi's
   business; here only the chunks matter.

   If XRead reports `undetermined` (behaviour depends on uninitialised memory, see Codec_Lz5) the
   determined prefix of the chunk is compared and the rest of that execution is not (live = FALSE).

   Acceptance idiom as in Trace_DecoderApi: POSTCONDITION Accepted prints REJECTED_AT_LINE n;
   Chk prints which comparison failed. *)
EXTENDS Naturals, Sequences, SequencesExt, TLC, Json, IOUtils
Trc == ndJsonDeserialize(IOEnv.TRACE)

VARIABLES l,      \* next trace line
          meth,   \* method name of the current execution
          st,     \* codec state (contains the compressed input: kept out of the fingerprint)
          live,   \* FALSE once an undetermined step was seen
          calls,  \* number of dtype->read calls validated so far (all executions)
          exp,    \* three-way agreement: the bytes the encoder's command list denotes (<<-1>> = none given)
          opos    \* output position of the current execution
tvars == <<l, meth, st, live, calls, exp, opos>>

Null == INSTANCE Codec_Null
Lzs  == INSTANCE Codec_Lzs
Lz5  == INSTANCE Codec_Lz5
Pm1  == INSTANCE Codec_Pm1
Pm2  == INSTANCE Codec_Pm2
Lh1  == INSTANCE Codec_Lh1
Lh5  == INSTANCE Codec_LhNew WITH HistoryBits <- 14, OffsetBits <- 4, NumCodes <- 510, Lhark <- FALSE   \* also -lh4-
Lh6  == INSTANCE Codec_LhNew WITH HistoryBits <- 16, OffsetBits <- 5, NumCodes <- 510, Lhark <- FALSE
Lh7  == INSTANCE Codec_LhNew WITH HistoryBits <- 17, OffsetBits <- 5, NumCodes <- 510, Lhark <- FALSE
Lhx  == INSTANCE Codec_LhNew WITH HistoryBits <- 20, OffsetBits <- 5, NumCodes <- 510, Lhark <- FALSE
Lk7  == INSTANCE Codec_LhNew WITH HistoryBits <- 16, OffsetBits <- 6, NumCodes <- 289, Lhark <- TRUE

Ev == Trc[l]
IsEvent(e) == l <= Len(Trc) /\ Ev.e = e /\ l' = l + 1
Chk(what, cond) == IF cond THEN TRUE ELSE PrintT(<<"MISMATCH", what, "line", l>>) /\ FALSE

NullMethods == {"-lh0-", "-lz4-", "-pm0-"}

CInit(m, data) ==
  CASE m \in NullMethods -> Null!NullInit(data)
    [] m = "-lzs-" -> Lzs!LzsInit(data)
    [] m = "-lz5-" -> Lz5!Lz5Init(data)
    [] m = "-pm1-" -> Pm1!Pm1Init(data)
    [] m = "-pm2-" -> Pm2!Pm2Init(data)
    [] m = "-lh1-" -> Lh1!Lh1Init(data)
    [] m \in {"-lh4-", "-lh5-"} -> Lh5!LhNewInit(data)
    [] m = "-lh6-" -> Lh6!LhNewInit(data)
    [] m = "-lh7-" -> Lh7!LhNewInit(data)
    [] m = "-lhx-" -> Lhx!LhNewInit(data)
    [] m = "-lk7-" -> Lk7!LhNewInit(data)

CRead(m, s) ==
  CASE m \in NullMethods -> Null!NullRead(s)
    [] m = "-lzs-" -> Lzs!LzsRead(s)
    [] m = "-lz5-" -> Lz5!Lz5Read(s)
    [] m = "-pm1-" -> Pm1!Pm1Read(s)
    [] m = "-pm2-" -> Pm2!Pm2Read(s)
    [] m = "-lh1-" -> Lh1!Lh1Read(s)
    [] m \in {"-lh4-", "-lh5-"} -> Lh5!LhNewRead(s)
    [] m = "-lh6-" -> Lh6!LhNewRead(s)
    [] m = "-lh7-" -> Lh7!LhNewRead(s)
    [] m = "-lhx-" -> Lhx!LhNewRead(s)
    [] m = "-lk7-" -> Lk7!LhNewRead(s)

IsUndet(r) == "undetermined" \in DOMAIN r

TInit == l = 1 /\ meth = "" /\ st = [input |-> <<>>] /\ live = FALSE /\ calls = 0 /\ exp = <<-1>> /\ opos = 0

TNew == /\ IsEvent("New")
        /\ meth' = Ev.method
        /\ st' = CInit(Ev.method, Ev.data)
        /\ live' = TRUE
        /\ exp' = IF "expect" \in DOMAIN Ev THEN Ev.expect ELSE <<-1>>
        /\ opos' = 0
        /\ UNCHANGED calls

(* three-way agreement: independent encoder -> C decoder -> this definition.  The chunk the C decoder
   produced must be the corresponding slice of what the command list denotes (LZ77 semantics,
   computed by the encoder side); beyond the end of the denoted bytes nothing is required (a decoder
   may run on, e.g. -pm1- on implicit zero bits - the front end cuts at the declared length). *)
Denoted(pos, chunk) ==
  exp = <<-1>> \/ LET n == IF pos + Len(chunk) <= Len(exp) THEN Len(chunk) ELSE IF pos < Len(exp) THEN Len(exp) - pos ELSE 0
                  IN SubSeq(chunk, 1, n) = SubSeq(exp, pos + 1, pos + n)

(* a = [st, live, ok, i, pos] *)
TReadStep(a0, chunk) ==
  LET a == [a0 EXCEPT !.pos = @ + Len(chunk),
                      !.ok = @ /\ Chk(<<"three-way: chunk differs from the bytes the command list denotes, at output offset", a0.pos>>, Denoted(a0.pos, chunk))] IN
  IF ~a.ok \/ ~a.live THEN [a EXCEPT !.i = @ + 1]
  ELSE LET r == CRead(meth, a.st) IN
       IF IsUndet(r)
       THEN [a EXCEPT !.st = r.st, !.live = FALSE, !.i = @ + 1,
                      !.ok = Chk(<<"determined prefix of undetermined chunk", a.i, "model", r.out, "trace", chunk>>,
                                 Len(chunk) >= Len(r.out) /\ SubSeq(chunk, 1, Len(r.out)) = r.out)]
       ELSE [a EXCEPT !.st = r.st, !.i = @ + 1,
                      !.ok = Chk(<<"chunk", a.i, "model", r.out, "trace", chunk>>, r.out = chunk)]

TRead == /\ IsEvent("Read")
         /\ LET a == FoldLeft(TReadStep, [st |-> st, live |-> live, ok |-> TRUE, i |-> 1, pos |-> opos], Ev.inner)
            IN /\ a.ok
               /\ st' = a.st /\ live' = a.live /\ opos' = a.pos
               /\ calls' = calls + Len(Ev.inner)
         /\ UNCHANGED <<meth, exp>>

\* End{complete}: when the caller asked for everything, everything the command list denotes (cut at
\* the declared length, carried as "want") must have come out
TEnd == /\ IsEvent("End")
        /\ Chk("three-way: output shorter than what the command list denotes", ("want" \in DOMAIN Ev) => opos >= Ev.want)
        /\ UNCHANGED <<meth, st, live, calls, exp, opos>>
TSkip == /\ l <= Len(Trc) /\ Ev.e \in {"Reset", "Monitor", "Len", "Crc"} /\ l' = l + 1
         /\ UNCHANGED <<meth, st, live, calls, exp, opos>>

TNext == TNew \/ TRead \/ TEnd \/ TSkip
\* the codec state is a function of the consumed trace prefix: only the line number is fingerprinted
TView == <<l, meth, live, calls>>
TSpec == TInit /\ [][TNext]_tvars
Accepted == LET dd == TLCGet("stats").diameter - 1
            IN IF dd = Len(Trc) THEN PrintT(<<"ACCEPTED", "lines", dd>>)
               ELSE PrintT(<<"REJECTED_AT_LINE", dd + 1>>) /\ FALSE
=====================================================================================
