------------------------------- MODULE MC_InputStream -------------------------------
(* Bounded models of InputStream.
   "scan":  the lead-in scan at the real constants (24-byte buffer, 12-byte look-ahead): for every
            prefix length 0..MAXP and every stub + marker + stub + decoy + stub form, with the source
            returning full or arbitrarily short reads, the stream is positioned at the first byte of
            the real header; one action per iteration of the while loop.
   "skip":  the read-loop skip, one action per iteration, source full, short or at end of input:
            termination (liveness) and the resulting position. *)
EXTENDS InputStream, TLC
CONSTANTS MODE, MAXP, SHORTREADS, MAXSKIP, DATALEN

VARIABLES data, realpos, z, k
vars == <<data, realpos, z, k>>

J == 74    \* junk byte 'J'
Junk(n) == [i \in 1..n |-> J]
\* a 27-byte header-like block: signature -lh5- at offset 2
Hdr == <<J, J, 45, 108, 104, 53, 45>> \o [i \in 1..20 |-> 68]

ScanInputs ==
  {[d |-> Junk(a) \o Hdr, at |-> a] : a \in 0..MAXP}
  \cup {[d |-> Junk(a) \o mk \o Junk(bb) \o Hdr \o Junk(c) \o Hdr, at |-> a + Len(mk) + bb + Len(Hdr) + c] :
          a \in 0..14, bb \in 0..14, c \in {0, 1, 5, 11, 12, 13, 14}, mk \in {MarkerDECLHA, MarkerAmiga}}

Init ==
  IF MODE = "scan"
  THEN /\ \E inp \in ScanInputs : data = inp.d /\ realpos = inp.at
       /\ z = [leadin |-> <<>>, pos |-> 0, filepos |-> 0, skip |-> 0, st |-> "scan", reqs |-> <<>>]
       /\ k = 0
  ELSE /\ data = Junk(DATALEN) /\ realpos = 0
       /\ \E n \in 0..MAXSKIP, p \in 0..DATALEN :
            z = [left |-> n, pos |-> p, st |-> IF n > 0 THEN "loop" ELSE "ok", reqs |-> <<>>]
       /\ k = 0

\* what the source may answer to a request of req bytes at position pos
Answers(pos, req) ==
  LET a == Avail(data, pos) m == Min2(req, a)
  IN IF m = 0 THEN {0} ELSE IF SHORTREADS THEN 1..m ELSE {m}

ScanStep == /\ MODE = "scan" /\ z.st = "scan"
            /\ \E r \in Answers(z.pos, LB - Len(z.leadin)) : z' = [ScanIter(data, z, r) EXCEPT !.reqs = <<>>]
            /\ UNCHANGED <<data, realpos, k>>
SkipStep == /\ MODE = "skip" /\ z.st = "loop"
            /\ \E r \in Answers(z.pos, Min2(32, z.left)) : z' = [SkipIter(z, r) EXCEPT !.reqs = <<>>]
            /\ UNCHANGED <<data, realpos, k>>
Next == ScanStep \/ SkipStep
Spec == Init /\ [][Next]_vars
FairSpec == Spec /\ WF_vars(Next)

\* scan: found, and at the right byte: the lead-in starts with the real header and the source is
\* positioned right after the lead-in
FoundRight == (MODE = "scan" /\ z.st = "found") =>
                 /\ z.pos - Len(z.leadin) = realpos
                 /\ z.leadin = SubSeq(data, realpos + 1, z.pos)
NeverFails == (MODE = "scan") => z.st # "fail"
LeadinBounded == (MODE = "scan") => Len(z.leadin) <= LB
ScanTerminates == (MODE = "scan") => <>(z.st # "scan")
\* skip: every call returns; success means exactly n bytes were passed over
SkipTerminates == (MODE = "skip") => <>(z.st # "loop")
SkipExact == (MODE = "skip" /\ z.st = "ok") => z.left = 0
\* (history of request sizes and iteration counts are kept out of the model state: they multiply
\*  states without adding behaviour; the work bound is checked on recorded executions)
SkipWork == TRUE
=====================================================================================
