----------------------------------- MODULE Header -----------------------------------
(* File headers of LHA/LZH archives, levels 0-3, as lhasa reads them: lib/lha_file_header.c
   (lha_file_header_read) and lib/ext_header.c.

   Parse(S): S = the bytes of the input from the first byte of the header onwards (the header, the
   member data and whatever follows - a level-1 header pulls its extended headers out of what
   looks like member data, and every level needs its bytes to be actually present).  The result
   is either Reject or a record with every field the library hands to the caller.

   Representation: bytes are 0..255; text is a sequence of bytes; an absent string (NULL pointer)
   is NULLSTR; 32-bit quantities are pairs <<hi16, lo16>> because TLC integers are 32-bit signed;
   64-bit Windows times are 4 words, least significant first.

   The definition follows the format, not the control flow of the C code: field offsets,
   "the last extended header of a type wins", level-1 packed size = stored size minus the
   extended headers, integrity rules (checksum, common CRC, length fields inside the header and
   inside the input).  Time stamps of level 0/1 are MS-DOS local times converted with TZ=UTC. *)
EXTENDS Naturals, Integers, Sequences, SequencesExt, Bitwise, Crc16

NULLSTR == <<-1>>
IsNull(x) == x = NULLSTR
Str(x) == IF IsNull(x) THEN <<>> ELSE x

U8(A, o) == A[o + 1]
U16(A, o) == A[o + 1] + 256 * A[o + 2]
W32(A, o) == <<U16(A, o + 2), U16(A, o)>>          \* <<hi, lo>>
W64(A, o) == <<U16(A, o), U16(A, o + 2), U16(A, o + 4), U16(A, o + 6)>>
Sub(A, o, n) == SubSeq(A, o + 1, o + n)
WZero == <<0, 0>>
WLess(a, b) == a[1] < b[1] \/ (a[1] = b[1] /\ a[2] < b[2])
\* a - n for a 32-bit pair a and 0 <= n < 65536 * 17, assuming a >= n
WSubInt(a, n) == LET nh == n \div 65536 nl == n % 65536
                     lo == a[2] - nl  borrow == IF lo < 0 THEN 1 ELSE 0
                 IN <<a[1] - nh - borrow, IF lo < 0 THEN lo + 65536 ELSE lo>>
WOfInt(n) == <<n \div 65536, n % 65536>>
\* value of a pair if it is at most `cap` (cap < 2^21), else cap + 1
WClamp(w, cap) == IF w[1] > 31 THEN cap + 1 ELSE LET v == w[1] * 65536 + w[2] IN IF v > cap THEN cap + 1 ELSE v

CStr(s) == LET z == {i \in 1..Len(s) : s[i] = 0}
           IN IF z = {} THEN s ELSE SubSeq(s, 1, (CHOOSE i \in z : \A j \in z : i <= j) - 1)
Map(s, f(_)) == [i \in 1..Len(s) |-> f(s[i])]
LastIdx(s, ch) == LET z == {i \in 1..Len(s) : s[i] = ch} IN IF z = {} THEN 0 ELSE CHOOSE i \in z : \A j \in z : i >= j
FirstIdx(s, ch) == LET z == {i \in 1..Len(s) : s[i] = ch} IN IF z = {} THEN 0 ELSE CHOOSE i \in z : \A j \in z : i <= j

-------------------------------------------------------------------------------------
(* paths: the normal form the library returns (collapse_path) *)
SLASH == 47
\* components of a string split at '/': <<list of '/'-terminated components, unterminated rest>>
Comps(str) ==
  LET r == FoldLeft(LAMBDA a, c : IF c = SLASH THEN [acc |-> Append(a.acc, a.cur), cur |-> <<>>]
                                    ELSE [a EXCEPT !.cur = Append(@, c)],
                    [acc |-> <<>>, cur |-> <<>>], str)
  IN <<r.acc, r.cur>>
NormStep(stack, c) == IF c = <<>> \/ c = <<46>> THEN stack
                      ELSE IF c = <<46, 46>> THEN (IF Len(stack) = 0 THEN stack ELSE SubSeq(stack, 1, Len(stack) - 1))
                      ELSE Append(stack, c)
Join(stack) == FoldLeft(LAMBDA a, c : a \o c \o <<SLASH>>, <<>>, stack)
Collapse(str) == LET abs  == Len(str) > 0 /\ str[1] = SLASH
                     body == IF abs THEN Tail(str) ELSE str
                     cr   == Comps(body)
                 IN (IF abs THEN <<SLASH>> ELSE <<>>) \o Join(FoldLeft(NormStep, <<>>, cr[1])) \o cr[2]

\* C11: what "clean" means for a returned (path, filename)
CleanPath(p) == LET body == IF Len(p) > 0 /\ p[1] = SLASH THEN Tail(p) ELSE p
                    cr == Comps(body)
                IN \A i \in 1..Len(cr[1]) : cr[1][i] # <<>> /\ cr[1][i] # <<46>> /\ cr[1][i] # <<46, 46>>
CleanName(n) == \A i \in 1..Len(n) : n[i] # SLASH
Clean(path, filename) == (IsNull(path) \/ CleanPath(path)) /\ (IsNull(filename) \/ CleanName(filename))

-------------------------------------------------------------------------------------
(* MS-DOS date/time -> seconds since 1970 under TZ=UTC, mod 2^32, with mktime's normalisation of
   out-of-range fields.  w = <<hi, lo>> of the 32-bit field. *)
DaysFromCivil(y0, m, d) ==
  LET y   == IF m <= 2 THEN y0 - 1 ELSE y0
      era == y \div 400
      yoe == y - era * 400
      mp  == IF m > 2 THEN m - 3 ELSE m + 9
      doy == (153 * mp + 2) \div 5 + d - 1
      doe == yoe * 365 + yoe \div 4 - yoe \div 100 + doy
  IN era * 146097 + doe - 719468
DosTime(w) ==
  IF w = WZero THEN WZero
  ELSE LET lo == w[2] hi == w[1]
           sec  == (lo % 32) * 2
           min  == (lo \div 32) % 64
           hour == (lo \div 2048) % 32
           mday == hi % 32
           mon0 == ((hi \div 32) % 16) - 1            \* -1 .. 14
           yy   == 1980 + ((hi \div 512) % 128)
           y    == IF mon0 < 0 THEN yy - 1 ELSE IF mon0 > 11 THEN yy + 1 ELSE yy
           m    == IF mon0 < 0 THEN 12 ELSE IF mon0 > 11 THEN mon0 - 11 ELSE mon0 + 1
           days == DaysFromCivil(y, m, 1) + mday - 1
           secs == hour * 3600 + min * 60 + sec
           \* days * 86400 + secs = days * 65536 * 1 + days * 20864 + secs
           low  == days * 20864 + secs
       IN <<(days + (low \div 65536)) % 65536, low % 65536>>

-------------------------------------------------------------------------------------
Blank == [ok |-> TRUE, level |-> 0, method |-> <<>>, packed |-> WZero, length |-> WZero, time |-> WZero, os |-> 0, crc |-> 0,
          path |-> NULLSTR, filename |-> NULLSTR, target |-> NULLSTR,
          perms |-> 0, hasperms |-> FALSE, uid |-> 0, gid |-> 0, hasids |-> FALSE,
          os9 |-> 0, hasos9 |-> FALSE, ccrc |-> 0, hasccrc |-> FALSE, user |-> NULLSTR, group |-> NULLSTR,
          win |-> <<>>, haswin |-> FALSE, raw |-> <<>>]
Reject == [Blank EXCEPT !.ok = FALSE]

SplitName(h, nm) == LET k == LastIdx(nm, SLASH)
                    IN IF k = 0 THEN [h EXCEPT !.filename = nm]
                       ELSE [h EXCEPT !.path = SubSeq(nm, 1, k), !.filename = SubSeq(nm, k + 1, Len(nm))]

(* one extended header of type t with data d; o = offset of d in raw (the common header's CRC
   field is zeroed in the raw bytes before the CRC of the whole header is taken) *)
ApplyExt(h, t, d, o) ==
  LET n == Len(d) IN
  IF t = 0 /\ n >= 2 THEN [h EXCEPT !.hasccrc = TRUE, !.ccrc = U16(d, 0), !.raw = [h.raw EXCEPT ![o + 1] = 0, ![o + 2] = 0]]
  ELSE IF t = 1 /\ n >= 1 THEN [h EXCEPT !.filename = Map(CStr(d), LAMBDA c : IF c = SLASH THEN 95 ELSE c)]
  ELSE IF t = 2 /\ n >= 1 THEN LET d2 == IF d[n] # 255 THEN Append(d, 255) ELSE d
                               IN [h EXCEPT !.path = Map(CStr(d2), LAMBDA c : IF c = 255 THEN SLASH ELSE c)]
  ELSE IF t = 65 /\ n >= 24 THEN [h EXCEPT !.haswin = TRUE, !.win = W64(d, 0) \o W64(d, 8) \o W64(d, 16)]
  ELSE IF t = 80 /\ n >= 2 THEN [h EXCEPT !.hasperms = TRUE, !.perms = U16(d, 0)]
  ELSE IF t = 81 /\ n >= 4 THEN [h EXCEPT !.hasids = TRUE, !.gid = U16(d, 0), !.uid = U16(d, 2)]
  ELSE IF t = 82 /\ n >= 1 THEN [h EXCEPT !.group = CStr(d)]
  ELSE IF t = 83 /\ n >= 1 THEN [h EXCEPT !.user = CStr(d)]
  ELSE IF t = 84 /\ n >= 4 THEN [h EXCEPT !.time = W32(d, 0)]
  ELSE IF t = 204 /\ n >= 12 THEN [h EXCEPT !.hasos9 = TRUE, !.os9 = U16(d, 7)]
  ELSE h          \* unknown type, or too short for its type: skipped

(* walk the chain of extended headers inside h.raw (complete), first size field at offset o0,
   size fields of fs bytes (2; 4 at level 3).  Every entry must be at least fs+1 bytes and must lie,
   together with the size field that ends it, inside the header. *)
Chain(h0, o0, fs) ==
  LET total == Len(h0.raw)
      SizeAt(raw, o) == IF fs = 2 THEN U16(raw, o) ELSE WClamp(W32(raw, o), total)
      step(a, it) ==
        IF a.done \/ ~a.h.ok THEN a
        ELSE IF ~(a.o + fs <= total) THEN [a EXCEPT !.done = TRUE]
        ELSE LET s == SizeAt(a.h.raw, a.o) IN
             IF s = 0 THEN [a EXCEPT !.done = TRUE]
             ELSE IF s < fs + 1 \/ s > a.avail THEN [a EXCEPT !.h = Reject, !.done = TRUE]
             ELSE [a EXCEPT !.h = ApplyExt(a.h, U8(a.h.raw, a.o + fs), Sub(a.h.raw, a.o + fs + 1, s - fs - 1), a.o + fs + 1),
                            !.o = a.o + s, !.avail = a.avail - s]
  IN IF total < o0 + fs THEN Reject
     ELSE FoldLeft(step, [h |-> h0, o |-> o0, avail |-> total - o0 - fs, done |-> FALSE],
                   [i \in 1..(total \div (fs + 1) + 2) |-> i]).h

(* level 0 and the base part of level 1 *)
Level01(S, lvl) ==
  LET hl == U8(S, 0)  minl == IF lvl = 0 THEN 22 ELSE 25 IN
  IF hl < minl \/ Len(S) < hl + 2 THEN Reject
  ELSE LET total == hl + 2
           sum   == FoldLeft(LAMBDA a, x : (a + x) % 256, 0, Sub(S, 2, hl))
           pl    == U8(S, 21)
       IN IF sum # U8(S, 1) \/ minl + pl > hl THEN Reject
          ELSE LET h1 == [Blank EXCEPT !.level = lvl, !.method = Sub(S, 2, 5), !.packed = W32(S, 7), !.length = W32(S, 11),
                                       !.time = DosTime(W32(S, 15)),
                                       !.os = IF lvl = 0 THEN 0 ELSE U8(S, 24 + pl), !.crc = U16(S, 22 + pl), !.raw = Sub(S, 0, total)]
                   nm == Map(CStr(Sub(S, 22, pl)), LAMBDA c : IF c = 92 THEN SLASH ELSE c)
                   h2 == IF pl = 0 THEN h1 ELSE SplitName(h1, nm)
                   en  == hl - 22 - pl
                   ext == Sub(S, 24 + pl, en)
                   ispm == Sub(S, 2, 3) = <<45, 112, 109>>
               IN IF lvl = 0 /\ en > 0 /\ ~ispm
                  THEN IF ext[1] \in {85, 75} /\ en >= 12 /\ ext[2] = 0
                       THEN [h2 EXCEPT !.os = ext[1], !.time = W32(ext, 2), !.perms = U16(ext, en - 6), !.uid = U16(ext, en - 4),
                                       !.gid = U16(ext, en - 2), !.hasperms = TRUE, !.hasids = TRUE]
                       ELSE IF ext[1] = 57 /\ en >= 22 /\ ext[10] = 204 /\ ext[2] = ext[18] /\ ext[3] = ext[19]
                       THEN [h2 EXCEPT !.os = 57, !.os9 = U16(ext, 1), !.hasos9 = TRUE]
                       ELSE h2
                  ELSE h2

(* level 1: the extended headers follow the base header in the stream; each must be present in the
   input, at least 3 bytes, and covered by the stored packed size, from which it is subtracted *)
Level1(S) ==
  LET b == Level01(S, 1) IN
  IF ~b.ok THEN Reject
  ELSE LET start == Len(b.raw) - 2
           step(a, it) ==      \* a = [o, packed, ok, done]: o = offset of the current size field
             IF a.done \/ ~a.ok THEN a
             ELSE LET s == U16(S, a.o) IN
                  IF s = 0 THEN [a EXCEPT !.done = TRUE]
                  ELSE IF Len(S) < a.o + 2 + s \/ WLess(a.packed, WOfInt(s)) \/ s < 3 THEN [a EXCEPT !.ok = FALSE]
                  ELSE [a EXCEPT !.o = a.o + s, !.packed = WSubInt(a.packed, s)]
           r == FoldLeft(step, [o |-> start, packed |-> b.packed, ok |-> TRUE, done |-> FALSE],
                         [i \in 1..(Len(S) \div 3 + 2) |-> i])
       IN IF ~r.ok \/ ~r.done THEN Reject
          ELSE Chain([b EXCEPT !.packed = r.packed, !.raw = Sub(S, 0, r.o + 2)], start, 2)

Level2(S) ==
  LET t0 == U16(S, 0) IN
  IF t0 < 26 \/ Len(S) < t0 THEN Reject
  ELSE LET os == U8(S, 23)
           total == IF os = 75 THEN t0 + 2 ELSE t0        \* OS-9/68k writes a length that is two bytes short
       IN IF Len(S) < total THEN Reject
          ELSE Chain([Blank EXCEPT !.level = 2, !.method = Sub(S, 2, 5), !.packed = W32(S, 7), !.length = W32(S, 11),
                                   !.time = W32(S, 15), !.crc = U16(S, 21), !.os = os, !.raw = Sub(S, 0, total)], 24, 2)

Level3(S) ==
  IF Len(S) < 32 \/ U16(S, 0) # 4 THEN Reject
  ELSE LET hl == WClamp(W32(S, 24), 1048576) IN
       IF hl > 1048576 \/ hl < 32 \/ Len(S) < hl THEN Reject
       ELSE Chain([Blank EXCEPT !.level = 3, !.method = Sub(S, 2, 5), !.packed = W32(S, 7), !.length = W32(S, 11),
                                !.time = W32(S, 15), !.crc = U16(S, 21), !.os = U8(S, 23), !.raw = Sub(S, 0, hl)], 28, 4)

-------------------------------------------------------------------------------------
(* what lha_file_header_read does with a structurally valid header *)
IsLower(c) == c >= 97 /\ c <= 122
ToLower(c) == IF c >= 65 /\ c <= 90 THEN c + 32 ELSE c
LHD == <<45, 108, 104, 100, 45>>     \* "-lhd-"
LH0 == <<45, 108, 104, 48, 45>>      \* "-lh0-"
LH7 == <<45, 108, 104, 55, 45>>
LK7 == <<45, 108, 107, 55, 45>>
Bit(v, k) == (v \div (2 ^ k)) % 2
Os9ToUnix(p) == Bit(p, 7) * 16384 + Bit(p, 0) * 256 + Bit(p, 1) * 128 + Bit(p, 2) * 64
                + Bit(p, 3) * 32 + Bit(p, 4) * 16 + Bit(p, 5) * 8 + Bit(p, 3) * 4 + Bit(p, 4) * 2 + Bit(p, 5)

Post(h0) ==
  IF ~h0.ok THEN Reject ELSE
  LET \* Amiga archives store directories as -lh0- entries without a name
      h1 == IF h0.os = 65 /\ h0.method = LH0 /\ h0.length = WZero /\ IsNull(h0.filename) THEN [h0 EXCEPT !.method = LHD] ELSE h0
      isdir == h1.method = LHD
      issym == isdir /\ h1.hasperms /\ (~IsNull(h1.path) \/ ~IsNull(h1.filename)) /\ (h1.perms \div 4096) % 16 = 10
  IN IF ~isdir /\ IsNull(h1.filename) THEN Reject                \* a file entry without a name
     ELSE IF isdir /\ ~issym /\ IsNull(h1.path) THEN Reject     \* a directory entry without a path
     ELSE LET full == Str(h1.path) \o Str(h1.filename)
              bar  == FirstIdx(full, 124)
          IN IF issym /\ bar = 0 THEN Reject
             ELSE LET h2 == IF issym
                            THEN SplitName([h1 EXCEPT !.target = SubSeq(full, bar + 1, Len(full)), !.path = NULLSTR, !.filename = NULLSTR],
                                           SubSeq(full, 1, bar - 1))
                            ELSE h1
                      fold == h2.os \in {0, 77, 97, 32, 50}           \* unknown, MS-DOS, Atari, LHARK, OS/2
                      anylower == (\E i \in 1..Len(Str(h2.path)) : IsLower(Str(h2.path)[i]))
                                  \/ (\E i \in 1..Len(Str(h2.filename)) : IsLower(Str(h2.filename)[i]))
                      h3 == IF fold /\ ~anylower
                            THEN [h2 EXCEPT !.path = IF IsNull(h2.path) THEN NULLSTR ELSE Map(h2.path, ToLower),
                                            !.filename = IF IsNull(h2.filename) THEN NULLSTR ELSE Map(h2.filename, ToLower)]
                            ELSE h2
                      h4 == IF ~IsNull(h3.path) THEN [h3 EXCEPT !.path = Collapse(h3.path)] ELSE h3
                      h5 == IF h4.os = 75 /\ h4.hasperms THEN [h4 EXCEPT !.os9 = h4.perms, !.hasos9 = TRUE] ELSE h4
                      h6 == IF h5.hasos9 THEN [h5 EXCEPT !.hasperms = TRUE, !.perms = Os9ToUnix(h5.os9)] ELSE h5
                  IN IF h6.hasccrc /\ CrcFromT(Tab, 0, h6.raw) # h6.ccrc THEN Reject
                     ELSE IF h6.level = 1 /\ h6.os = 32 /\ h6.method = LH7 THEN [h6 EXCEPT !.method = LK7] ELSE h6

Parse(S) == IF Len(S) < 22 THEN Reject
            ELSE LET lvl == U8(S, 20) IN
                 IF lvl = 0 THEN Post(Level01(S, 0))
                 ELSE IF lvl = 1 THEN Post(Level1(S))
                 ELSE IF lvl = 2 THEN Post(Level2(S))
                 ELSE IF lvl = 3 THEN Post(Level3(S))
                 ELSE Reject
=====================================================================================
